import Drand
open Drand.Driver.AggD
open Drand.Driver.BcastD
open Drand.Driver.CacheD
open Drand.Driver.CbStoreD
open Drand.Driver.ChainD
open Drand.Driver.CodecD
open Drand.Driver.CrashD
open Drand.Driver.DispatchD
open Drand.Driver.DkgD
open Drand.Driver.DkgRunD
open Drand.Driver.HandlerD
open Drand.Driver.HashD
open Drand.Driver.HttpWD
open Drand.Driver.NetD
open Drand.Driver.RouteD
open Drand.Driver.SecrecyD
open Drand.Driver.StoreD
open Drand.Driver.StreamD
open Drand.Driver.SyncD
open Drand.Driver.TimeD

def isWs (c : Char) : Bool := c == ' ' || c == '\t' || c == '\n' || c == '\r'

def splitWsAux : List Char → List Char → List String → List String
  | [], cur, acc => (if cur.isEmpty then acc else (String.ofList cur.reverse) :: acc).reverse
  | c :: cs, cur, acc =>
    if isWs c then splitWsAux cs [] (if cur.isEmpty then acc else (String.ofList cur.reverse) :: acc)
    else splitWsAux cs (c :: cur) acc

def splitWs (s : String) : List String := splitWsAux s.toList [] []

/-- stateless engines: one result line per op line -/
partial def loopPure (h : IO.FS.Stream) (out : IO.FS.Stream) (f : List String → String) : IO Unit := do
  let line ← h.getLine
  if line.isEmpty then return ()
  let ws := splitWs line
  if ws.isEmpty then loopPure h out f else
  out.putStrLn (f ws)
  loopPure h out f

/-- stateful engines -/
partial def loopState {σ : Type} (h : IO.FS.Stream) (out : IO.FS.Stream)
    (f : σ → List String → σ × String) (s : σ) : IO Unit := do
  let line ← h.getLine
  if line.isEmpty then return ()
  let ws := splitWs line
  if ws.isEmpty then loopState h out f s else
  let (s', r) := f s ws
  out.putStrLn r
  loopState h out f s'

def main (args : List String) : IO UInt32 := do
  let stdin ← IO.getStdin
  let stdout ← IO.getStdout
  match args with
  | ["time"] => loopPure stdin stdout timeStep; return 0
  | ["dkgsm"] => loopState stdin stdout dkgStep {}; return 0
  | ["net"] => loopState stdin stdout netStep {}; return 0
  | ["netr"] => loopState stdin stdout Drand.Driver.NetRD.step {}; return 0
  | ["cache"] => loopState stdin stdout cacheStep (Drand.Beacon.Cache.empty 96 Gen.replaceSameIndex); return 0
  | ["stream", backend] => loopState stdin stdout streamStep' (streamDrvInit backend "asis"); return 0
  | ["stream", backend, variant] => loopState stdin stdout streamStep' (streamDrvInit backend variant); return 0
  | ["cbstore"] => loopState stdin stdout cbStep cbDrvInit; return 0
  | ["chain", backend] =>
    let (cap, st) := chainInit backend
    loopState stdin stdout (chainStep cap) st; return 0
  | ["sync"] => loopState stdin stdout syncStep ({} : SyncSt); return 0
  | ["hash"] => loopPure stdin stdout hashStep; return 0
  | ["secrecy"] => loopPure stdin stdout secrecyStep; return 0
  | ["codec"] => loopPure stdin stdout codecStep; return 0
  | "crash" :: mode => loopState stdin stdout crashStep ({ dedupe := mode.head? != some "all" } : CrashSt); return 0
  | "dispatch" :: _ => loopState stdin stdout dispatchStep dispatchInit; return 0
  | ["agg"] => loopState stdin stdout aggStep AggState.empty; return 0
  | ["dkgrun"] => loopPure stdin stdout dkgrunStep; return 0
  | ["bcast"] => loopState stdin stdout bcastStep ({} : St); return 0
  | ["handler"] => loopState stdin stdout handlerStep ({ cfg := ⟨1, 0, 0, Gen.Handler.bnpSkipAhead⟩ } : Sim); return 0
  | ["handler", "asis"] => loopState stdin stdout handlerStep ({ cfg := ⟨1, 0, 0, false⟩ } : Sim); return 0
  | ["handler", "fixed"] => loopState stdin stdout handlerStep ({ cfg := ⟨1, 0, 0, true⟩ } : Sim); return 0
  | ["store", backend] =>
    match storeInit backend with
    | some st => loopState stdin stdout storeStep st; return 0
    | none => IO.eprintln "bad backend"; return 2
  | "httpw" :: rest => loopState stdin stdout hwStep (hwInit (rest.headD "asis")); return 0
  | "route" :: _ => loopState stdin stdout routeStep Drand.Daemon.State.init; return 0
  | _ => IO.eprintln "usage: vdriver <engine>"; return 2
