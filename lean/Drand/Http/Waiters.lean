/-
Model of the waiter / watch logic of the public HTTP handler, `/repo/handler/http/server.go`
(`BeaconHandler{pending, latestRound, pendingLk, startOnce}`, `DrandHandler.start / Watch / watchWithTimeout /
getRand / PublicRand / LatestRand / Health`), as a small-step machine in which every point where another goroutine
can run is a separate event (C01, C14).

Goroutines: one per HTTP request (executing `PublicRand` → `getRand`), and the watcher (`Watch` →
`watchWithTimeout`).  Shared state: `latestRound`, `pending` (the registered waiter channels, here the ids of the
requests that made them), one channel per request (`make(chan []byte, 1)`: capacity 1), `pendingLk` (who holds it
for writing; the read sections contain no blocking statement and are single steps that need the lock free of a
writer), `startOnce`.

Request steps, in the order of the statements of `getRand` (the program counter `Pc` names the NEXT statement):

  `arrive id r now infoAns`  `PublicRand` up to the call of `getRand`: `getChainInfo` (cached, or `client.Info` answers
                        `infoAns`) → 500; the far-future test → 404; then `getRand`'s `startOnce.Do(start)`
  `eval1 id`            `RLock; block = (latestRound+1 == round) && latestRound != 0; RUnlock`; if block: `make(chan, 1)`,
                        `defer close(ch)`
  `eval2 id`            `Lock; block = …; if block {pending = append(pending, ch)}; Unlock`
  `recv id`             `select { case r := <-ch: return r, nil`
  `ctxCancel id`        (environment) the request context ends — client gone, server timeout
  `wake id`             `select { … case <-ctx.Done():`
  `dereg id`            `Lock; defer Unlock;` remove `ch` from `pending`
  `drain id`            `select { case <-ch: default: }`
  `cUnlock id`          `return nil, ctx.Err()` — deferred `Unlock` runs first …
  `close id`            … then the deferred `close(ch)`; `PublicRand` turns getRand's result into the status
  `futureChk id now`    `if dateOfRound(round).After(now) { RLock; log; RUnlock; return nil, nil }`
  `getAns id ans`       `client.Get(ctx, round)` returned `ans` (whatever the client answers; `none` = error)

Watcher steps (`watchWithTimeout`):

  `wDeliver b` / `wClosed` / `wTimeout`   the three outcomes of its `select` (stream value, stream closed, timer)
  `wLock`               `Lock` + the statements up to the notification loop: the unexpected-round test, `latestRound =`,
                        `pending := bh.pending; bh.pending = make(…)`; after `wClosed`: `Lock; latestRound = 0; Unlock`
  `wSend`               one iteration of `for _, waiter := range pending { waiter <- b }` — under the lock
  `wUnlock`             `Unlock`
  `wBackoffDone`, `wResub`   the back-off after a stream failure; `Watch`'s loop calls `watchWithTimeout` again

`Cfg` is the variant switch of DESIGN §2.5 for the two defects found (reports/http_fix_1.diff):
  `emptyFallsBack`  patched `getRand`: a waiter released with an empty payload falls through to the direct `Get`
                    (as-is: returns the empty non-nil slice, which `PublicRand` serves as `200` with an empty body)
  `flushOnFail`     patched `watchWithTimeout`: on a stream failure the parked waiters are released (nil payload)
                    together with the reset `latestRound = 0` (as-is: they stay parked while the reset switches the
                    unexpected-round test off, so the next delivered round — whatever it is — is handed to them)
-/
import Drand.Time

namespace Drand.Http

def two64 : Nat := 18446744073709551616

/-- what a `client.Result` is to the handler: a round and the bytes that go with it (signature, randomness) -/
structure Beacon where
  round : Nat
  sig : Nat
  deriving DecidableEq, Repr, Inhabited

/-- a Go `[]byte` as far as the handler can tell them apart -/
inductive Payload where
  | nilSlice
  | emptySlice
  | json (b : Beacon)
  deriving DecidableEq, Repr, Inhabited

/-- `len(p) == 0` -/
def Payload.isEmpty : Payload → Bool
  | .json _ => false
  | _ => true

/-- `make(chan []byte, 1)` -/
structure Chan where
  made : Bool := false
  closed : Bool := false
  buf : Option Payload := none
  deriving DecidableEq, Repr, Inhabited

structure Info where
  period : Nat
  genesis : Int
  deriving DecidableEq, Repr, Inhabited

structure Cfg where
  emptyFallsBack : Bool
  flushOnFail : Bool
  deriving DecidableEq, Repr

def Cfg.asIs : Cfg := ⟨false, false⟩
def Cfg.fixed : Cfg := ⟨true, true⟩

/-- the three results of `getRand` -/
inductive GRes where
  | nilnil
  | data (p : Payload)
  | err
  deriving DecidableEq, Repr

structure Answer where
  status : Nat
  body : Option Beacon
  deriving DecidableEq, Repr

/-- `PublicRand` after `getRand`: `err != nil` → 500; `data == nil` → 404; else `ServeContent(data)` → 200 -/
def publicRandAnswer : GRes → Answer
  | .err => ⟨500, none⟩
  | .nilnil => ⟨404, none⟩
  | .data .nilSlice => ⟨404, none⟩
  | .data .emptySlice => ⟨200, none⟩
  | .data (.json b) => ⟨200, some b⟩

inductive Pc where
  | absent
  | eval1
  | eval2
  | parked
  | cancelLock
  | cancelDrain
  | cancelUnlock
  | future
  | getCall
  | closing (res : GRes)
  | done (a : Answer)
  deriving DecidableEq, Repr

structure Req where
  round : Nat := 0
  info : Info := ⟨0, 0⟩
  pc : Pc := .absent
  cancelled : Bool := false
  /-- ghost: the result was produced by `client.Get` (not by the watcher) -/
  fromGet : Bool := false
  deriving DecidableEq, Repr

inductive Holder where
  | free
  | watcher
  | req (id : Nat)
  deriving DecidableEq, Repr

inductive WPc where
  | notStarted
  | selecting
  | gotNext (n : Beacon)
  | notifying
  | gotClosed
  | backoff
  | returned
  deriving DecidableEq, Repr

structure State where
  started : Bool := false
  latest : Nat := 0
  pending : List Nat := []
  chans : Nat → Chan := fun _ => {}
  reqs : Nat → Req := fun _ => {}
  holder : Holder := .free
  info : Option Info := none
  wpc : WPc := .notStarted
  /-- the watcher's local `pending` (what is left of it) and `b` while it is in its notification loop -/
  wlocal : List Nat := []
  wb : Payload := .nilSlice
  wthenBackoff : Bool := false
  /-- a send on a closed channel / a second close happened (the process would die) -/
  panicked : Bool := false
  /-- a send found the buffer full (the watcher would block forever inside the lock) -/
  blockedSend : Bool := false

def State.init : State := {}

inductive Ev where
  | arrive (id r : Nat) (now : Int) (infoAns : Option Info)
  | eval1 (id : Nat)
  | eval2 (id : Nat)
  | recv (id : Nat)
  | ctxCancel (id : Nat)
  | wake (id : Nat)
  | dereg (id : Nat)
  | drain (id : Nat)
  | cUnlock (id : Nat)
  | futureChk (id : Nat) (now : Int)
  | getAns (id : Nat) (ans : Option Beacon)
  | close (id : Nat)
  | wDeliver (b : Beacon)
  | wClosed
  | wTimeout
  | wLock
  | wSend
  | wUnlock
  | wBackoffDone
  | wResub
  | health
  deriving DecidableEq, Repr

/-! ### the decisions, as written in the source -/

/-- `block = (bh.latestRound+1 == round) && bh.latestRound != 0` (uint64 arithmetic) — both evaluations -/
def blockGuard (latest round : Nat) : Bool := ((latest + 1) % two64 == round) && (latest != 0)

/-- `bh.latestRound+1 != next.GetRound() && bh.latestRound != 0` -/
def unexpectedRound (latest next : Nat) : Bool := ((latest + 1) % two64 != next) && (latest != 0)

/-- `dateOfRound(round, info)` in unix seconds -/
def dateOfRound (i : Info) (r : Nat) : Int := Drand.Time.timeOfRoundM i.period i.genesis r

/-- `roundExpectedTime.After(time.Now().Add(info.Period))`; `now` = whole seconds of `time.Now()` (both sides of the
comparison are whole seconds apart from the sub-second part of `now`, which cannot change a strict comparison
between integers) -/
def farFuture (i : Info) (r : Nat) (now : Int) : Bool := decide (dateOfRound i r > now + (i.period : Int))

/-- `dateOfRound(round, info).After(time.Now())` -/
def inFuture (i : Info) (r : Nat) (now : Int) : Bool := decide (dateOfRound i r > now)

/-! ### state updates -/

def upd {α : Type} (f : Nat → α) (i : Nat) (v : α) : Nat → α := fun j => if j = i then v else f j

def State.setReq (s : State) (id : Nat) (r : Req) : State := { s with reqs := upd s.reqs id r }
def State.setPc (s : State) (id : Nat) (p : Pc) : State := s.setReq id { s.reqs id with pc := p }
def State.setChan (s : State) (id : Nat) (c : Chan) : State := { s with chans := upd s.chans id c }

/-- `bh.startOnce.Do(func() { h.start(bh) })`: `Lock; pending = make(…, 0); Unlock; go h.Watch(bh)`; `Watch`'s first
`watchWithTimeout` subscribes -/
def startOnce (s : State) : State :=
  if s.started then s else { s with started := true, pending := [], wpc := .selecting }

/-- `getChainInfo`: the cached info, or `client.Info` (cached when it succeeds) -/
def getChainInfo (s : State) (infoAns : Option Info) : Option Info × State :=
  match s.info with
  | some i => (some i, s)
  | none =>
    match infoAns with
    | some i => (some i, { s with info := some i })
    | none => (none, s)

def arrive (s : State) (id r : Nat) (now : Int) (infoAns : Option Info) : State :=
  if (s.reqs id).pc ≠ .absent ∨ r = 0 then s else
  match getChainInfo s infoAns with
  | (none, s1) => s1.setReq id { round := r, pc := .done ⟨500, none⟩ }
  | (some i, s1) =>
    if farFuture i r now then s1.setReq id { round := r, info := i, pc := .done ⟨404, none⟩ }
    else (startOnce s1).setReq id { round := r, info := i, pc := .eval1 }

def eval1 (s : State) (id : Nat) : State :=
  if (s.reqs id).pc = .eval1 ∧ s.holder = .free then
    if blockGuard s.latest (s.reqs id).round then (s.setChan id { made := true }).setPc id .eval2
    else s.setPc id .future
  else s

def eval2 (s : State) (id : Nat) : State :=
  if (s.reqs id).pc = .eval2 ∧ s.holder = .free then
    if blockGuard s.latest (s.reqs id).round then ({ s with pending := s.pending ++ [id] }).setPc id .parked
    else s.setPc id .future
  else s

def recv (cfg : Cfg) (s : State) (id : Nat) : State :=
  if (s.reqs id).pc = .parked then
    match (s.chans id).buf with
    | some p =>
      let s1 := s.setChan id { s.chans id with buf := none }
      if cfg.emptyFallsBack && p.isEmpty then s1.setPc id .future else s1.setPc id (.closing (.data p))
    | none => s
  else s

def ctxCancel (s : State) (id : Nat) : State :=
  if (s.reqs id).pc = .absent then s else s.setReq id { s.reqs id with cancelled := true }

def wake (s : State) (id : Nat) : State :=
  if (s.reqs id).pc = .parked ∧ (s.reqs id).cancelled = true then s.setPc id .cancelLock else s

def dereg (s : State) (id : Nat) : State :=
  if (s.reqs id).pc = .cancelLock ∧ s.holder = .free then
    ({ s with holder := .req id, pending := s.pending.erase id }).setPc id .cancelDrain
  else s

def drain (s : State) (id : Nat) : State :=
  if (s.reqs id).pc = .cancelDrain then (s.setChan id { s.chans id with buf := none }).setPc id .cancelUnlock else s

def cUnlock (s : State) (id : Nat) : State :=
  if (s.reqs id).pc = .cancelUnlock then ({ s with holder := .free }).setPc id (.closing .err) else s

def futureChk (s : State) (id : Nat) (now : Int) : State :=
  if (s.reqs id).pc = .future then
    if inFuture (s.reqs id).info (s.reqs id).round now then
      (if s.holder = .free then s.setPc id (.closing .nilnil) else s)
    else s.setPc id .getCall
  else s

def getAns (s : State) (id : Nat) (ans : Option Beacon) : State :=
  if (s.reqs id).pc = .getCall then
    s.setReq id { s.reqs id with fromGet := true,
                                  pc := .closing (match ans with | some b => .data (.json b) | none => .err) }
  else s

def closeStep (s : State) (id : Nat) : State :=
  match (s.reqs id).pc with
  | .closing res =>
    let s1 :=
      if (s.chans id).made then
        (if (s.chans id).closed then { s with panicked := true } else s.setChan id { s.chans id with closed := true })
      else s
    s1.setPc id (.done (publicRandAnswer res))
  | _ => s

def wDeliver (s : State) (b : Beacon) : State := if s.wpc = .selecting then { s with wpc := .gotNext b } else s
def wClosed (s : State) : State := if s.wpc = .selecting then { s with wpc := .gotClosed } else s
def wTimeout (s : State) : State := if s.wpc = .selecting then { s with wpc := .returned } else s

def wLock (cfg : Cfg) (s : State) : State :=
  if s.holder ≠ .free then s else
  match s.wpc with
  | .gotNext n =>
    { s with holder := .watcher, latest := n.round, wlocal := s.pending, pending := [],
             wb := if unexpectedRound s.latest n.round then .emptySlice else .json n,
             wthenBackoff := false, wpc := .notifying }
  | .gotClosed =>
    if cfg.flushOnFail then
      { s with holder := .watcher, latest := 0, wlocal := s.pending, pending := [], wb := .nilSlice,
               wthenBackoff := true, wpc := .notifying }
    else { s with latest := 0, wpc := .backoff }
  | _ => s

def wSend (s : State) : State :=
  if s.wpc = .notifying then
    match s.wlocal with
    | [] => s
    | i :: rest =>
      if (s.chans i).closed then { s with panicked := true, wlocal := rest }
      else if (s.chans i).buf.isSome then { s with blockedSend := true }
      else ({ s with wlocal := rest }).setChan i { s.chans i with buf := some s.wb }
  else s

def wUnlock (s : State) : State :=
  if s.wpc = .notifying ∧ s.wlocal = [] then
    { s with holder := .free, wpc := if s.wthenBackoff then .backoff else .selecting }
  else s

def wBackoffDone (s : State) : State := if s.wpc = .backoff then { s with wpc := .returned } else s
def wResub (s : State) : State := if s.wpc = .returned then { s with wpc := .selecting } else s

def step (cfg : Cfg) (s : State) : Ev → State
  | .arrive id r now ia => arrive s id r now ia
  | .eval1 id => eval1 s id
  | .eval2 id => eval2 s id
  | .recv id => recv cfg s id
  | .ctxCancel id => ctxCancel s id
  | .wake id => wake s id
  | .dereg id => dereg s id
  | .drain id => drain s id
  | .cUnlock id => cUnlock s id
  | .futureChk id now => futureChk s id now
  | .getAns id ans => getAns s id ans
  | .close id => closeStep s id
  | .wDeliver b => wDeliver s b
  | .wClosed => wClosed s
  | .wTimeout => wTimeout s
  | .wLock => wLock cfg s
  | .wSend => wSend s
  | .wUnlock => wUnlock s
  | .wBackoffDone => wBackoffDone s
  | .wResub => wResub s
  | .health => startOnce s

def runFrom (cfg : Cfg) (s : State) (evs : List Ev) : State := evs.foldl (step cfg) s
def run (cfg : Cfg) (evs : List Ev) : State := runFrom cfg State.init evs

/-! ### the other endpoints (pure decisions) -/

/-- `Health`: `lastSeen` is read under RLock; `getChainInfo` failed → 503; else 200 iff
`lastSeen == expected || lastSeen+1 == expected` with `expected = CurrentRound(now, period, genesis)`; the body reports
`current` and `expected` -/
def healthAnswer (lastSeen : Nat) (info : Option Info) (now : Int) : Nat × Nat × Nat :=
  match info with
  | none => (503, lastSeen, 0)
  | some i =>
    let expected := Drand.Time.currentRoundM now i.period i.genesis
    if lastSeen == expected || (lastSeen + 1) % two64 == expected then (200, lastSeen, expected)
    else (503, lastSeen, expected)

/-- `LatestRand`: `client.Get(ctx, 0)` failed → 500; `getChainInfo` failed → 500; else the client's answer -/
def latestRandAnswer (get0 : Option Beacon) (info : Option Info) : Answer :=
  match get0 with
  | none => ⟨500, none⟩
  | some b =>
    match info with
    | none => ⟨500, none⟩
    | some _ => ⟨200, some b⟩

end Drand.Http
