import Drand.Chain.Stack
import Drand.Driver.Store
namespace Drand.Driver
open Drand Drand.Store Drand.Chain

/-- ops: init <chained 0|1> <seed> | put r sig prev | restart | raw r sig prev | last | scan -/
def chainStep (s : Stack) (f : List String) : Stack × String :=
  match f with
  | ["init", c, seed] =>
    match fromHex seed with
    | some sd => (Stack.init (c == "1") sd, "ok")
    | none => (s, "bad-op")
  | ["put", r, sg, pv] =>
    match parseBeacon r sg pv with
    | some b => let (s', res) := s.put b; (s', res.show)
    | none => (s, "bad-op")
  | ["restart"] => (s.restart, "ok")
  | ["raw", r, sg, pv] =>
    match parseBeacon r sg pv with
    | some b => (s.rawPut b, "ok")
    | none => (s, "bad-op")
  -- `race n w`: w writers race to append the same n next beacons; by the mutex every interleaving is a sequence of
  -- `Stack.put`s, and any such sequence appends each beacon exactly once: the model applies them once, in order
  | ["race", n, _w] =>
    match n.toNat? with
    | some n =>
      let last := Stack.last s.base
      let (s', _) := (List.range n).foldl (fun (acc : Stack × Bytes) i =>
        let r := last.round + 1 + i
        let sig : Bytes := [UInt8.ofNat (r * 7), UInt8.ofNat r, 0x5a]
        let b : Beacon := ⟨r, sig, if acc.1.chained then acc.2 else []⟩
        ((acc.1.put b).1, sig)) (s, last.sig)
      (s', "race oks=" ++ ",".intercalate (List.replicate n "1") ++ " bad=0")
    | none => (s, "bad-op")
  | ["last"] => (s, (Bolt.last s.base).show)
  | ["scan"] => (s, if s.base.isEmpty then "empty" else "|".intercalate (s.base.map fun p => p.2.show))
  | _ => (s, "bad-op")

end Drand.Driver
