import Drand.Chain.Stack
import Drand.Driver.Store
namespace Drand.Driver
open Drand Drand.Store Drand.Chain

/-- ops: init <chained 0|1> <seed> | put r sig prev | restart | raw r sig prev | last | scan -/
def chainStep (s : Stack) (f : List String) : Stack × String :=
  match f with
  | ["init", c, seed] =>
    match fromHex seed with
    | some sd => (Stack.init (c == "1") sd, "ok")
    | none => (s, "bad-op")
  | ["put", r, sg, pv] =>
    match parseBeacon r sg pv with
    | some b => let (s', res) := s.put b; (s', res.show)
    | none => (s, "bad-op")
  | ["restart"] => (s.restart, "ok")
  | ["raw", r, sg, pv] =>
    match parseBeacon r sg pv with
    | some b => (s.rawPut b, "ok")
    | none => (s, "bad-op")
  | ["last"] => (s, (Bolt.last s.base).show)
  | ["scan"] => (s, if s.base.isEmpty then "empty" else "|".intercalate (s.base.map fun p => p.2.show))
  | _ => (s, "bad-op")

end Drand.Driver
