import Drand.Chain.MemStack
import Gen.DKGTable
import Drand.Driver.Store
namespace Drand.Driver.ChainD
open Drand.Driver.StoreD
open Drand Drand.Store Drand.Chain

inductive AnyStack where
  | map (s : Stack) (seed : Bytes)
  | ring (s : MemStack) (seed : Bytes)

def raceBeacons (chained : Bool) (last : Beacon) (n : Nat) : List Beacon :=
  ((List.range n).foldl (fun (acc : List Beacon × Bytes) i =>
    let r := last.round + 1 + i
    let sig : Bytes := [UInt8.ofNat (r * 7), UInt8.ofNat r, 0x5a]
    (acc.1 ++ [⟨r, sig, if chained then acc.2 else []⟩], sig)) ([], last.sig)).1

/-- `chain <backend>`: ops  init <scheme> <seed> | put r sig prev | failput r sig prev | restart | raw r sig prev |
race n w | last | scan.   The backend decides the base model: mem<cap> is the ring, anything else the map. -/
def chainStep (cap : Option Nat) (st : AnyStack) (f : List String) : AnyStack × String :=
  match f with
  | ["init", sch, seed] =>
    match fromHex seed with
    | some sd =>
      let chained := sch == Gen.defaultSchemeID
      (match cap with
       | some c => .ring (MemStack.init chained c sd) sd
       | none => .map (Stack.init chained sd) sd, "ok")
    | none => (st, "bad-op")
  | ["put", r, sg, pv] =>
    match parseBeacon r sg pv with
    | some b =>
      (match st with
       | .map s sd => let (s', res) := s.put b; (.map s' sd, res.show)
       | .ring s sd => let (s', res) := s.put b; (.ring s' sd, res.show))
    | none => (st, "bad-op")
  | ["failput", r, sg, pv] =>
    match parseBeacon r sg pv with
    | some b =>
      (match st with
       | .map s _ => let res := (s.put b).2; (st, if res == .ok then "err-write" else res.show)
       -- memdb ignores the context: the write goes through
       | .ring s sd => let (s', res) := s.put b; (.ring s' sd, res.show))
    | none => (st, "bad-op")
  | ["restart"] =>
    (match st with
     | .map s sd => .map (s.restartG sd) sd
     | .ring s sd => .ring (s.restartG sd) sd, "ok")
  | ["raw", r, sg, pv] =>
    match parseBeacon r sg pv with
    | some b =>
      (match st with
       | .map s sd => .map (s.rawPut b) sd
       | .ring s sd => .ring (s.rawPut b) sd, "ok")
    | none => (st, "bad-op")
  -- `race n w`: w writers race to append the same n next beacons; by the mutex every interleaving is a sequence of
  -- puts, and any such sequence appends each beacon exactly once: the model applies them once, in order
  | ["race", n, _w] =>
    match n.toNat? with
    | some n =>
      let ok := "race oks=" ++ ",".intercalate (List.replicate n "1") ++ " bad=0"
      (match st with
       | .map s sd => .map ((raceBeacons s.chained (Stack.last s.base) n).foldl (fun a b => (a.put b).1) s) sd
       | .ring s sd => .ring ((raceBeacons s.chained (MemStack.last s.base) n).foldl (fun a b => (a.put b).1) s) sd, ok)
    | none => (st, "bad-op")
  | ["last"] => (st, match st with
      | .map s _ => (Bolt.last s.base).show
      | .ring s _ => (Mem.last s.base).show)
  | ["scan"] =>
    let l : List Beacon := match st with
      | .map s _ => s.base.map (·.2)
      | .ring s _ => s.base.store
    (st, if l.isEmpty then "empty" else "|".intercalate (l.map Beacon.show))
  | _ => (st, "bad-op")

def chainInit (backend : String) : Option Nat × AnyStack :=
  if backend.startsWith "mem" then
    let c := ((backend.drop 3).toString.toNat?).getD 2000
    (some c, .ring (MemStack.init true c []) [])
  else (none, .map (Stack.init true []) [])

end Drand.Driver.ChainD