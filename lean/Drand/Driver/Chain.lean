import Drand.Chain.MemStack
import Drand.Chain.Generic
import Gen.DKGTable
import Drand.Driver.Store
namespace Drand.Driver.ChainD
open Drand.Driver.StoreD
open Drand Drand.Store Drand.Chain

inductive AnyStack where
  | map (s : Stack) (seed : Bytes)
  | ring (s : MemStack) (seed : Bytes)

def raceBeacons (chained : Bool) (last : Beacon) (n : Nat) : List Beacon :=
  ((List.range n).foldl (fun (acc : List Beacon × Bytes) i =>
    let r := last.round + 1 + i
    let sig : Bytes := [UInt8.ofNat (r * 7), UInt8.ofNat r, 0x5a]
    (acc.1 ++ [⟨r, sig, if chained then acc.2 else []⟩], sig)) ([], last.sig)).1

/-- `chain <backend>`: ops  init <scheme> <seed> | put r sig prev | failput r sig prev | restart | raw r sig prev |
race n w | last | scan.   The backend decides the base model: mem<cap> is the ring, anything else the map. -/
def chainStep (cap : Option Nat) (st : AnyStack) (f : List String) : AnyStack × String :=
  match f with
  | ["init", sch, seed] =>
    match fromHex seed with
    | some sd =>
      let chained := sch == Gen.defaultSchemeID
      (match cap with
       | some c => .ring (MemStack.init chained c sd) sd
       | none => .map (Stack.init chained sd) sd, "ok")
    | none => (st, "bad-op")
  | ["put", r, sg, pv] =>
    match parseBeacon r sg pv with
    | some b =>
      (match st with
       | .map s sd => let (s', res) := s.put b; (.map s' sd, res.show)
       | .ring s sd => let (s', res) := s.put b; (.ring s' sd, res.show))
    | none => (st, "bad-op")
  | ["failput", r, sg, pv] =>
    match parseBeacon r sg pv with
    | some b =>
      (match st with
       | .map s _ => let res := (s.put b).2; (st, if res == .ok then "err-write" else res.show)
       -- memdb ignores the context: the write goes through
       | .ring s sd => let (s', res) := s.put b; (.ring s' sd, res.show))
    | none => (st, "bad-op")
  | ["restart"] =>
    (match st with
     | .map s sd => .map (s.restartG sd) sd
     | .ring s sd => .ring (s.restartG sd) sd, "ok")
  | ["raw", r, sg, pv] =>
    match parseBeacon r sg pv with
    | some b =>
      (match st with
       | .map s sd => .map (s.rawPut b) sd
       | .ring s sd => .ring (s.rawPut b) sd, "ok")
    | none => (st, "bad-op")
  -- `race n w`: w writers race to append the same n next beacons; by the mutex every interleaving is a sequence of
  -- puts, and any such sequence appends each beacon exactly once: the model applies them once, in order
  | ["race", n, _w] =>
    match n.toNat? with
    | some n =>
      let ok := "race oks=" ++ ",".intercalate (List.replicate n "1") ++ " bad=0"
      (match st with
       | .map s sd => .map ((raceBeacons s.chained (Stack.last s.base) n).foldl (fun a b => (a.put b).1) s) sd
       | .ring s sd => .ring ((raceBeacons s.chained (MemStack.last s.base) n).foldl (fun a b => (a.put b).1) s) sd, ok)
    | none => (st, "bad-op")
  | ["get", r] =>
    match r.toNat? with
    | some r => (st, match st with
      | .map s _ => (Bolt.get s.base r).show
      | .ring s _ => (Mem.get s.base r).show)
    | none => (st, "bad-op")
  -- `qput when r sig prev <answer of the implementation>`: the checks of the wrappers run; whether the write below them
  -- succeeds under the cancelled context is the implementation's answer; ok ⇒ stored, error ⇒ nothing changes
  | ["qput", _when, r, sg, pv, echo] =>
    match parseBeacon r sg pv with
    | some b =>
      let (st', res) : AnyStack × String := match st with
        | .map s sd =>
          let p := s.put b
          if p.2 == .ok then (if echo == "ok" then (.map p.1 sd, "ok") else (st, "err-write")) else (st, p.2.show)
        | .ring s sd =>
          let p := s.put b
          if p.2 == .ok then (if echo == "ok" then (.ring p.1 sd, "ok") else (st, "err-write")) else (st, p.2.show)
      (st', res ++ " get=" ++ (match st' with
        | .map s _ => (Bolt.get s.base b.round).show
        | .ring s _ => (Mem.get s.base b.round).show))
    | none => (st, "bad-op")
  -- `brace k n same|diff win=j1,j2,…`: n times, k writers leave a barrier to Put a beacon of round head+1 (the same one,
  -- or k different ones). Put is atomic, so each race is some order of the k Puts; which writer came first is the
  -- implementation's answer (`win`); the model applies that order and counts the answers
  | ["brace", k, n, mode, wins] =>
    match k.toNat?, n.toNat? with
    | some k, some n =>
      let ws : List Nat := ((wins.drop 4).toString.splitOn ",").map fun w => w.toNat?.getD 0
      let diff := mode == "diff"
      let cands (chained : Bool) (last : Beacon) : List Beacon := (List.range k).map fun j =>
        let r := last.round + 1
        ⟨r, [UInt8.ofNat (r * 7), UInt8.ofNat r, 0x5b] ++ (if diff then [UInt8.ofNat j] else []), if chained then last.sig else []⟩
      let order (cs : List Beacon) (w : Nat) : List Beacon :=
        match cs[w]? with
        | some b => b :: cs.eraseIdx w
        | none => cs
      let count (l : List PutRes) (p : PutRes) : Nat := (l.filter (· == p)).length
      let step (acc : AnyStack × List (List PutRes)) (i : Nat) : AnyStack × List (List PutRes) :=
        let w := ws[i]?.getD 0
        match acc.1 with
        | .map s sd =>
          let t := s.putAll (order (cands s.chained (Stack.last s.base)) w)
          (.map t.1 sd, acc.2 ++ [t.2])
        | .ring s sd =>
          let t := (order (cands s.chained (MemStack.last s.base)) w).foldl
            (fun (a : MemStack × List PutRes) b => let p := a.1.put b; (p.1, a.2 ++ [p.2])) (s, [])
          (.ring t.1 sd, acc.2 ++ [t.2])
      let (st', rs) := (List.range n).foldl step (st, [])
      let col (f : List PutRes → Nat) : String := ",".intercalate (rs.map fun l => toString (f l))
      let other (l : List PutRes) : Nat := l.length - count l .ok - count l .already - count l .dupDiffSig
      (st', s!"brace ok={col (count · .ok)} already={col (count · .already)} diffsig={col (count · .dupDiffSig)} other={col other} cb={col (count · .ok)} win={",".intercalate ((List.range n).map fun i => toString (ws[i]?.getD 0))}")
    | _, _ => (st, "bad-op")
  | ["last"] => (st, match st with
      | .map s _ => (Bolt.last s.base).show
      | .ring s _ => (Mem.last s.base).show)
  | ["scan"] =>
    let l : List Beacon := match st with
      | .map s _ => s.base.map (·.2)
      | .ring s _ => s.base.store
    (st, if l.isEmpty then "empty" else "|".intercalate (l.map Beacon.show))
  | _ => (st, "bad-op")

def chainInit (backend : String) : Option Nat × AnyStack :=
  if backend.startsWith "mem" then
    let c := ((backend.drop 3).toString.toNat?).getD 2000
    (some c, .ring (MemStack.init true c []) [])
  else (none, .map (Stack.init true []) [])

end Drand.Driver.ChainD