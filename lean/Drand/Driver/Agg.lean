/-
Driver for engine `agg` (C01, C03): runs the node model of Drand/Beacon/Node.lean on the op lines of the
harness. The cryptographic oracle is instantiated from the labels the harness attached to every packet
(the real verifier's answers): `hash` is the identity (so a message is its own preimage — injective),
`verifyPartial` / `verifyRecovered` are table look-ups, `recover` follows kyber (first `t` verifying
partials, `t` distinct indices, then the group signature of the message).
-/
import Drand.Beacon.Node
import Drand.Driver.Store
namespace Drand.Driver.AggD
open Drand.Driver.StoreD
open Drand Drand.Beacon Drand.Chain Drand.Store

structure AggState where
  node : Node
  groups : List GroupView
  valid : List (Nat × Bytes × Bytes)        -- (polynomial, message, partial) pairs that verify
  gsigs : List (Bytes × Bytes)              -- message ↦ its signature under the group key
  ownSig : Bytes                            -- what SignPartial returns in the current step
  pthrs : List Nat                          -- per polynomial: its number of coefficients
  printed : Nat                             -- puts already reported

def idx2 (s : Bytes) : Option Nat :=
  match s with
  | a :: b :: _ => some (a.toNat * 256 + b.toNat)
  | _ => none

def dedup (l : List (Option Nat)) : List (Option Nat) := l.foldl (fun acc x => if acc.contains x then acc else acc ++ [x]) []

def AggState.crypto (d : AggState) : Crypto :=
  { hash := id
    rhash := id
    commit := fun _ => 0
    verifyPartial := fun poly msg psig => d.valid.contains (poly, msg, psig)
    verifyRecovered := fun _ msg sig => aget msg d.gsigs == some sig
    recover := fun poly msg sigs thr _ =>
      let good := (sigs.filter fun s => d.valid.contains (poly, msg, s)).take thr
      if good.length < thr then none
      else if (dedup (good.map idx2)).length < thr then none
      -- fewer points than the polynomial has coefficients: Lagrange interpolation yields some other group element
      else if thr < d.pthrs.getD poly 0 then some [0xba, 0xad]
      else aget msg d.gsigs
    signPartial := fun _ _ => d.ownSig }

def emptyGroup : GroupView := ⟨0, 1, 1, [(0, "a0")], 0⟩

def AggState.empty : AggState :=
  { node := Node.init true 96 "a0" 0 emptyGroup [], groups := [], valid := [], gsigs := [], ownSig := [], pthrs := [], printed := 0 }

def hexNat (s : String) : Option Nat :=
  s.toList.foldl (fun acc ch => match acc, hexVal ch with
    | some a, some v => some (a * 16 + v)
    | _, _ => none) (some 0)

/-- group spec `thr:n:maskhex:swap:own:poly:polythr` -/
def parseGroup (n : Nat) (spec : String) : Option GroupView :=
  match spec.splitOn ":" with
  | [t, ln, m, sw, own, poly, _] =>
    match t.toNat?, ln.toNat?, hexNat m, own.toNat?, poly.toNat? with
    | some t, some ln, some m, some own, some poly =>
      let idxs := (List.range n).filter fun i => (m / 2 ^ i) % 2 = 1
      let addrOf (i : Nat) : String :=
        if sw == "1" then (if i = 0 then "a1" else if i = 1 then "a0" else s!"a{i}") else s!"a{i}"
      some ⟨poly, t, ln, idxs.map fun i => (i, addrOf i), own⟩
    | _, _, _, _, _ => none
  | _ => none

def showB (b : Beacon) : String := s!"{b.round}:{toHex b.sig}:{toHex b.prev}"

def showBs (l : List Beacon) : String := if l.isEmpty then "-" else ",".intercalate (l.map showB)

/-- the aggregator drains its two channels; the harness's sentinels also make it load `lastBeacon` -/
def drainPartials (c : Crypto) : Nat → Node → Node
  | 0, s => s
  | k + 1, s => if s.newPartials.isEmpty then s else drainPartials c k (aggPartial c s).1

def drainStored : Nat → Node → Node
  | 0, s => s
  | k + 1, s => if s.storedQ.isEmpty then s else drainStored k (aggStored s)

def settle (c : Crypto) (s : Node) : Node :=
  let s := drainPartials c (s.newPartials.length + 1) s
  let s := drainStored (s.storedQ.length + 1) s
  match s.aggLast with
  | some _ => s
  | none => { s with aggLast := some s.last }

/-- settle, then report the base-store Puts made since the previous op -/
def AggState.finish (d : AggState) (s : Node) (left : String) : AggState × String :=
  let s := settle d.crypto s
  let fresh := (s.puts.drop d.printed).map (·.2)
  ({ d with node := s, printed := s.puts.length }, left ++ " puts=" ++ showBs fresh)

def addValid (d : AggState) (chained : Bool) (round : Nat) (prev psig : Bytes) (bits : String) : AggState :=
  let msg := preimage chained round prev
  let news := ((List.range bits.length).zip bits.toList).filterMap fun (k, ch) =>
    if ch == '1' then some (k, msg, psig) else none
  { d with valid := d.valid ++ news }

def addGsig (d : AggState) (chained : Bool) (round : Nat) (prev gs : Bytes) : AggState :=
  let msg := preimage chained round prev
  match aget msg d.gsigs with
  | some _ => d
  | none => { d with gsigs := d.gsigs ++ [(msg, gs)] }

def showPutRes (r : PutRes) : String := r.show

def parsePkt (d : AggState) (spec : String) : Option (AggState × SyncPkt) :=
  match spec.splitOn "," with
  | [r, sg, pv, idok, _vb, gs] =>
    match parseBeacon r sg pv, fromHex gs with
    | some b, some gs => some (addGsig d d.node.chained b.round b.prev gs, ⟨idok == "1", b⟩)
    | _, _ => none
  | _ => none

def aggStep (d : AggState) (f : List String) : AggState × String :=
  match f with
  | "init" :: ch :: sl :: seed :: n :: specs =>
    match sl.toNat?, fromHex seed, n.toNat? with
    | some sl, some seed, some n =>
      match specs.mapM (parseGroup n) with
      | some (g0 :: gs) =>
        let node := Node.init (ch == "1") sl "a0" 0 g0 seed
        let node := { node with nextRound := 2, puts := [(.sync, genesis seed)] }
        let pthrs := specs.map fun sp => ((sp.splitOn ":").getLast?.bind String.toNat?).getD 0
        let d' : AggState := { AggState.empty with node := node, groups := g0 :: gs, pthrs := pthrs }
        let (d'', out) := d'.finish node "ok"
        (d'', out)
      | _ => (d, "bad-op")
    | _, _, _ => (d, "bad-op")
  | ["tick", nx] =>
    match nx.toNat? with
    | some nx => d.finish (d.node.step d.crypto (.tick nx)) "ok"
    | none => (d, "bad-op")
  | ["setinfo", k] =>
    match k.toNat? with
    | some k => match d.groups[k]? with
      | some g => d.finish (d.node.step d.crypto (.setInfo g)) "ok"
      | none => (d, "bad-op")
    | none => (d, "bad-op")
  | ["deliver", r, pv, ps, bits, gs] =>
    match r.toNat?, fromHex pv, fromHex ps, fromHex gs with
    | some r, some pv, some ps, some gs =>
      let d := addGsig (addValid d d.node.chained r pv ps bits) d.node.chained r pv gs
      let (s, adm) := processPartial d.crypto d.node ⟨r, pv, ps⟩
      d.finish s adm.show
    | _, _, _, _ => (d, "bad-op")
  | ["own", cur, r, pv, ps, bits, gs] =>
    match cur.toNat?, r.toNat?, fromHex pv, fromHex ps, fromHex gs with
    | some cur, some r, some pv, some ps, some gs =>
      let d := addGsig (addValid d d.node.chained r pv ps bits) d.node.chained r pv gs
      let d := { d with ownSig := ps }
      d.finish (d.node.step d.crypto (.own cur)) "ok"
    | _, _, _, _, _ => (d, "bad-op")
  | ["own", cur, "none"] =>
    match cur.toNat? with
    | some cur => d.finish (d.node.step d.crypto (.own cur)) "ok"
    | none => (d, "bad-op")
  | ["syncput", r, sg, pv, _vb, gs] =>
    match parseBeacon r sg pv, fromHex gs with
    | some b, some gs =>
      let d := addGsig d d.node.chained b.round b.prev gs
      let (s, res) := Node.put d.crypto d.node .sync b
      d.finish s (showPutRes res)
    | _, _ => (d, "bad-op")
  | "trynode" :: upTo :: specs =>
    match upTo.toNat? with
    | some upTo =>
      let acc := specs.foldl (fun (acc : Option (AggState × List SyncPkt)) sp =>
        match acc with
        | none => none
        | some (d, l) => match parsePkt d sp with
          | some (d', pk) => some (d', l ++ [pk])
          | none => none) (some (d, []))
      match acc with
      | some (d, pkts) =>
        let (s, ok) := tryNode d.crypto d.node upTo pkts
        d.finish s (if ok then "true" else "false")
      | none => (d, "bad-op")
    | none => (d, "bad-op")
  | ["get", r] =>
    match r.toNat? with
    | some r => d.finish d.node (match Bolt.get d.node.stack.base r with | .ok b => showB b | .noBeacon => "none")
    | none => (d, "bad-op")
  | ["last"] => d.finish d.node (showB d.node.last)
  | ["scan"] => d.finish d.node (showBs (d.node.stack.base.map (·.2)))
  | [op, r] =>
    if op == "pubrand" || op == "proxyget" then
      match r.toNat? with
      | some r =>
        let (s, res) := publicRand d.crypto d.node (op == "proxyget") r
        match res with
        | .ok b _ => d.finish s (showB b)
        | .err => d.finish s "none"
        | .waiting => d.finish (s.step d.crypto .waiterTimeout) "wait"
      | none => (d, "bad-op")
    else (d, "bad-op")
  | "serve" :: from_ :: via :: rest =>
    match from_.toNat? with
    | some from_ =>
      let (s1, res) := syncServe d.crypto d.node (via == "pub") from_
      match res with
      | .tooFar => d.finish s1 "too-far scan=- live=- put=-"
      | .sent bs =>
        let n1 := s1.served.length
        let (d, s2, putRes) : AggState × Node × String :=
          match rest with
          | [r, sg, pv, _vb, gs] =>
            match parseBeacon r sg pv, fromHex gs with
            | some b, some gs =>
              let d := addGsig d d.node.chained b.round b.prev gs
              let (s2, pr) := Node.put d.crypto s1 .sync b
              (d, s2, showPutRes pr)
            | _, _ => (d, s1, "bad-op")
          | _ => (d, s1, "-")
        let live := (s2.served.drop n1).map (·.b)
        d.finish (s2.step d.crypto .stopStreams) s!"live scan={showBs bs} live={showBs live} put={putRes}"
    | none => (d, "bad-op")
  | _ => (d, "bad-op")

end Drand.Driver.AggD