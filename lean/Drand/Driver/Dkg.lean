import Drand.DKG.Process
namespace Drand.Driver.DkgD
open Drand Drand.DKG

structure DkgSt where
  now : Int := 0
  parts : List (Nat × Participant) := []
  proc : Proc := { beaconID := "default", me := default }

def DkgSt.part (s : DkgSt) (i : Nat) : Option Participant := (s.parts.find? (·.1 == i)).map (·.2)

def parseIdxs (s : DkgSt) (tok : String) : Option (List Participant) :=
  if tok = "-" then some [] else
  (tok.splitOn ",").foldr (fun t acc =>
    match t.toNat?, acc with
    | some i, some l => (s.part i).map (· :: l)
    | _, _ => none) (some [])

def idxOf (s : DkgSt) (p : Participant) : String :=
  match s.parts.find? (fun e => e.2.eq p) with
  | some e => toString e.1
  | none => "?"

def showParts (s : DkgSt) (l : List Participant) : String := "[" ++ ",".intercalate (l.map (idxOf s)) ++ "]"

def showState (s : DkgSt) (d : Option DBState) : String :=
  match d with
  | none => "nil"
  | some d =>
    s!"e={d.epoch} s={d.state.name} t={d.threshold} to={d.timeout} sch={d.schemeID} g={d.genesisTime} seed={toHex d.genesisSeed} c={d.catchupSec} p={d.periodSec} L={match d.leader with | some l => idxOf s l | none => "nil"} R={showParts s d.remaining} J={showParts s d.joining} V={showParts s d.leaving} A={showParts s d.acceptors} X={showParts s d.rejectors} fg={match d.finalGroup with | some g => toString g.tag | none => "nil"} sh={if d.keyShare.isSome then 1 else 0}"

/-- T:<beaconID>:<epoch>:<thr>:<timeout>:<scheme>:<genesis>:<seed>:<catchup>:<period>:<leader>:<join>:<rem>:<leave> -/
def parseTerms (s : DkgSt) (tok : String) : Option Terms :=
  match tok.splitOn ":" with
  | ["T", bid, ep, thr, to, sch, g, seed, cu, pe, ld, j, r, v] =>
    match ep.toNat?, thr.toNat?, to.toInt?, g.toInt?, fromHex seed, cu.toNat?, pe.toNat?, ld.toNat?.bind s.part,
          parseIdxs s j, parseIdxs s r, parseIdxs s v with
    | some ep, some thr, some to, some g, some seed, some cu, some pe, some ld, some j, some r, some v =>
      some { beaconID := bid, epoch := ep, threshold := thr, timeout := to, schemeID := sch, genesisTime := g,
             genesisSeed := seed, catchupSec := cu, periodSec := pe, leader := ld, joining := j, remaining := r, leaving := v }
    | _, _, _, _, _, _, _, _, _, _, _ => none
  | _ => none

/-- G:<tag>:<genesis>:<seed>:<nodes> or "-" -/
def parseGroup (s : DkgSt) (tok : String) : Option (Option GroupLite) :=
  if tok = "-" then some none else
  match tok.splitOn ":" with
  | ["G", tag, g, seed, ns] =>
    match tag.toNat?, g.toInt?, fromHex seed, parseIdxs s ns with
    | some tag, some g, some seed, some ns => some (some { nodes := ns, genesisTime := g, genesisSeed := seed, tag })
    | _, _, _, _ => none
  | _ => none

/-- packet token: proposal/<T> | accept/<idx> | reject/<idx> | execute/<time> | abort/<reason> -/
def parsePacket (s : DkgSt) (tok : String) : Option Packet :=
  match tok.splitOn "/" with
  | ["proposal", t] => (parseTerms s t).map .proposal
  | ["accept", i] => (i.toNat?.bind s.part).map .accept
  | ["reject", i] => (i.toNat?.bind s.part).map .reject
  | ["execute", t] => t.toInt?.map .execute
  | ["abort", r] => some (.abort r)
  | _ => none

def showOut (o : Out) : String :=
  match o with
  | .ok => "ok" | .dup => "ok" | .err e => "err:" ++ e.name | .savedThenErr e => "saved-then-err:" ++ e

def reply (s : DkgSt) (o : Out) : String :=
  showOut o ++ " | " ++ showState s s.proc.current ++ " | " ++ showState s s.proc.finished

/-- ops (see harness/cmd/verifh/dkgsm.go) -/
def dkgStep1 (s : DkgSt) (f : List String) : DkgSt × String :=
  match f with
  | ["now", t] => match t.toInt? with
    | some t => ({ s with now := t }, "ok")
    | none => (s, "bad-op")
  | ["P", i, addr, k, sg, ok, kok, sch] =>
    match i.toNat?, fromHex k, fromHex sg with
    | some i, some k, some sg =>
      let p : Participant := { addr, key := k, sig := sg, selfSigOK := ok == "1", keyOK := kok == "1", scheme := sch }
      -- a well-formed self-signature has the length the model's table gives for the scheme (kyber's point encoding)
      if ok == "1" && sg.length != schemeSigLen sch then (s, "bad-siglen-table") else
      ({ s with parts := (i, p) :: s.parts.filter (·.1 != i) }, "ok")
    | _, _, _ => (s, "bad-op")
  | ["reset", bid, me] =>
    match me.toNat?.bind s.part with
    | some m => ({ s with proc := { beaconID := bid, me := m } }, "ok")
    | none => (s, "bad-op")
  | ["cmd", "initial", o] =>
    match o.splitOn ":" with
    | ["O1", thr, to, g, sch, cu, pe, j] =>
      match thr.toNat?, to.toInt?, g.toInt?, cu.toNat?, pe.toNat?, parseIdxs s j with
      | some thr, some to, some g, some cu, some pe, some j =>
        let (p', out) := s.proc.command (.initial ⟨thr, to, g, sch, cu, pe, j⟩) s.now
        let s' := { s with proc := p' }
        (s', reply s' out)
      | _, _, _, _, _, _ => (s, "bad-op")
    | _ => (s, "bad-op")
  | ["cmd", "resharing", o] =>
    match o.splitOn ":" with
    | ["O", thr, to, cu, j, r, v] =>
      match thr.toNat?, to.toInt?, cu.toNat?, parseIdxs s j, parseIdxs s r, parseIdxs s v with
      | some thr, some to, some cu, some j, some r, some v =>
        let (p', out) := s.proc.command (.resharing ⟨thr, to, cu, j, r, v⟩) s.now
        let s' := { s with proc := p' }
        (s', reply s' out)
      | _, _, _, _, _, _ => (s, "bad-op")
    | _ => (s, "bad-op")
  | ["cmd", "join", g] =>
    match parseGroup s g with
    | some g =>
      let (p', out) := s.proc.command (.join g) s.now
      let s' := { s with proc := p' }
      (s', reply s' out)
    | none => (s, "bad-op")
  | ["cmd", c] =>
    let cmd : Option Cmd := if c = "accept" then some .accept else if c = "reject" then some .reject
      else if c = "execute" then some .execute else if c = "abort" then some .abort else none
    match cmd with
    | some cmd =>
      let (p', out) := s.proc.command cmd s.now
      let s' := { s with proc := p' }
      (s', reply s' out)
    | none => (s, "bad-op")
  -- pkt <sent packet> <metaBeaconID> <senderIdx> <sigid> <keyIdx> <signedBeaconID> <signed packet> <signed terms>
  | ["pkt", sent, mb, sender, sigid, keyIdx, sb, spkt, sterms] =>
    match parsePacket s sent, sender.toNat?.bind s.part, keyIdx.toNat?.bind s.part, parsePacket s spkt, parseTerms s sterms with
    | some pk, some snd, some kp, some spk, some st =>
      let m : Meta := { beaconID := mb, addr := snd.addr, sigId := sigid, sigKey := kp.key,
                        sigMsg := messageForSigning sb spk st }
      let (p', out) := s.proc.packet m pk s.now
      let s' := { s with proc := p' }
      (s', reply s' out)
    | _, _, _, _, _ => (s, "bad-op")
  | ["complete", g, sh] =>
    match parseGroup s g with
    | some g =>
      let (p', out) := s.proc.completeDKG g (if sh = "1" then some 1 else none) s.now
      let s' := { s with proc := p' }
      (s', reply s' out)
    | none => (s, "bad-op")
  | ["fail"] =>
    let (p', out) := s.proc.failDKG
    let s' := { s with proc := p' }
    (s', reply s' out)
  | ["dump"] => (s, reply s .ok)
  | _ => (s, "bad-op")

def splitAtSep (l : List String) : List String × List String :=
  (l.takeWhile (· != ";;"), (l.dropWhile (· != ";;")).drop 1)

def classOf (reply : String) : String := (reply.splitOn " | ").headD reply

/-- `seq <op A> ;; <op B>`: the two operations of a gated pair, in the order the implementation completed them -/
def dkgStep (s : DkgSt) (f : List String) : DkgSt × String :=
  match f with
  | "seq" :: rest =>
    let (a, b) := splitAtSep rest
    let st0 := showState s s.proc.current ++ showState s s.proc.finished
    let (s1, r1) := dkgStep1 s a
    let st1 := showState s1 s1.proc.current ++ showState s1 s1.proc.finished
    let (s2, r2) := dkgStep1 s1 b
    let st2 := showState s2 s2.proc.current ++ showState s2 s2.proc.finished
    let nm (q : DkgSt) : String := match q.proc.current with | some d => d.state.name | none => "Fresh"
    let saves := (if st1 != st0 then [nm s1] else []) ++ (if st2 != st1 then [nm s2] else [])
    let sv := if saves.isEmpty then "-" else ",".intercalate saves
    (s2, s!"{classOf r1} ;; {classOf r2} ;; saves={sv} | {showState s2 s2.proc.current} | {showState s2 s2.proc.finished}")
  | _ => dkgStep1 s f

end Drand.Driver.DkgD