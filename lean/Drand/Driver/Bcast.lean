import Drand.DKG.Broadcast
/-! Driver of the echo-broadcast model (engine `bcast`, harness/cmd/verifh/bcast.go). -/
namespace Drand.Driver.BcastD
open Drand Drand.DKG.Bcast

structure St where
  cfg : Cfg := Cfg.asIs 0
  net : Net := Net.init

def parseKind (s : String) : Option Kind :=
  if s = "d" then some .deal else if s = "r" then some .resp else if s = "j" then some .just else none

def showKind : Kind → String
  | .deal => "d" | .resp => "r" | .just => "j"

/-- packet token `<hash id>:<d|r|j>:<decodes>:<index known>:<signature valid>` -/
def parsePkt (tok : String) : Option Pkt :=
  match tok.splitOn ":" with
  | [h, k, d, i, s] =>
    match h.toNat?, parseKind k with
    | some h, some k => some { hash := h, kind := k, decodes := d == "1", idxKnown := i == "1", sigValid := s == "1" }
    | _, _ => none
  | _ => none

def showRecv : RecvOut → String
  | .badPacket | .badSig => "err"
  | .dup | .ok _ _ => "nil"

def orDash (s : String) : String := if s.isEmpty then "-" else s

def digestNode (c : Cfg) (n : Node) : String :=
  let seen := ",".intercalate (n.seen.map toString)
  let qs := ",".intercalate ((c.peers n.id).map fun d =>
    s!"{d}:{(n.workers d).queue.length}+{if (n.workers d).inflight.isSome then 1 else 0}")
  s!" {n.id}[S={orDash seen} Q={orDash qs} A={n.deals.length}/{n.resps.length}/{n.justs.length} st={if n.stopped then 1 else 0}]"

def digest (s : St) : String :=
  " |" ++ String.join ((List.range s.cfg.n).map fun i => digestNode s.cfg (s.net.nodes i))

def showTaken (p : Pkt) : String := s!"{p.hash}:{if p.verifies then "v" else "x"}"

/-- carry out the direct sends of a push in the order the implementation did -/
def runDirects (c : Cfg) (net : Net) (i h : Nat) : List String → Net × List String
  | [] => (net, [])
  | t :: rest =>
    match t.splitOn ":" with
    | [d, v] =>
      match d.toNat? with
      | some d =>
        let (net', o) := net.step c (.direct i d h (v == "ok"))
        let r := match o with
          | .delivered ro => s!"{d}:{showRecv ro}"
          | .cut => s!"{d}:cut"
          | _ => s!"{d}:idle"
        let (net'', rs) := runDirects c net' i h rest
        (net'', r :: rs)
      | none => (net, ["bad-op"])
    | _ => (net, ["bad-op"])

def runRelays (c : Cfg) (net : Net) : List String → Net × List String
  | [] => (net, [])
  | t :: rest =>
    match t.splitOn ":" with
    | [a, b] =>
      match a.toNat?, b.toNat? with
      | some a, some b =>
        let h := match ((net.nodes a).workers b).inflight with | some p => p.hash | none => 0
        let (net', o) := net.step c (.relay a b true)
        let r := match o with
          | .delivered ro => s!"{a}>{b}:{h}:{showRecv ro}"
          | _ => s!"{a}>{b}:idle"
        let (net'', rs) := runRelays c net' rest
        (net'', r :: rs)
      | _, _ => (net, ["bad-op"])
    | _ => (net, ["bad-op"])

def drainKind (n : Node) (k : Kind) : Node × List String :=
  let l := n.chan k
  (n.setChan k [], l.map showTaken)

def bcastStep (s : St) (f : List String) : St × String :=
  match f with
  | ["net", k] =>
    match k.toNat? with
    | some k =>
      let c := Cfg.asIs k
      ({ cfg := c, net := Net.init }, s!"ok qcap={c.qcap} appcap={c.appCap}")
    | none => (s, "bad-op")
  | ["pkt", tok] => (s, "ok " ++ tok)
  | ["push", i, tok, plan] =>
    match i.toNat?, parsePkt tok with
    | some i, some p =>
      let (net1, o) := s.net.step s.cfg (.push i p)
      match o with
      | .blocked => (s, "blocked" ++ digest s)
      | _ =>
        let (net2, rs) := runDirects s.cfg net1 i p.hash (if plan = "-" then [] else plan.splitOn ",")
        let s' := { s with net := net2 }
        (s', "ok directs=" ++ orDash (",".intercalate rs) ++ digest s')
    | _, _ => (s, "bad-op")
  | ["inject", j, tok] =>
    match j.toNat?, parsePkt tok with
    | some j, some p =>
      let (net', o) := s.net.step s.cfg (.inject j p)
      let s' := { s with net := net' }
      (s', (match o with | .delivered ro => showRecv ro | _ => "?") ++ digest s')
    | _, _ => (s, "bad-op")
  | ["relay", i, d, v] =>
    match i.toNat?, d.toNat? with
    | some i, some d =>
      let h := match ((s.net.nodes i).workers d).inflight with | some p => p.hash | none => 0
      let (net', o) := s.net.step s.cfg (.relay i d (v == "ok"))
      let s' := { s with net := net' }
      let r := match o with
        | .idle => "idle"
        | .cut => s!"cut {h}"
        | .delivered ro => s!"sent {h} {showRecv ro}"
        | _ => "?"
      (s', r ++ digest s')
    | _, _ => (s, "bad-op")
  | ["relays", l] =>
    let items := if l = "-" then [] else l.splitOn ","
    let (net', rs) := runRelays s.cfg s.net items
    let s' := { s with net := net' }
    (s', s!"n={items.length} {orDash (",".intercalate rs)}" ++ digest s')
  | ["ctxend", i] =>
    match i.toNat? with
    | some i => let s' := { s with net := (s.net.step s.cfg (.ctxEnd i)).1 }; (s', "ok" ++ digest s')
    | none => (s, "bad-op")
  | ["stop", i] =>
    match i.toNat? with
    | some i => let s' := { s with net := (s.net.step s.cfg (.stop i)).1 }; (s', "ok" ++ digest s')
    | none => (s, "bad-op")
  | ["take", i, k] =>
    match i.toNat?, parseKind k with
    | some i, some k =>
      let (net', o) := s.net.step s.cfg (.take i k)
      let s' := { s with net := net' }
      ((s', (match o with | .took p => showTaken p | _ => "none") ++ digest s'))
    | _, _ => (s, "bad-op")
  | ["drain", i] =>
    match i.toNat? with
    | some i =>
      let n0 := s.net.nodes i
      let (n1, d) := drainKind n0 .deal
      let (n2, r) := drainKind n1 .resp
      let (n3, j) := drainKind n2 .just
      let s' := { s with net := s.net.setNode i n3 }
      (s', s!"d={orDash (",".intercalate d)} r={orDash (",".intercalate r)} j={orDash (",".intercalate j)}" ++ digest s')
    | none => (s, "bad-op")
  | _ => (s, "bad-op")

end Drand.Driver.BcastD
