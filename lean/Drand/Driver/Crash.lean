import Drand.Persist.Crash
namespace Drand.Driver.CrashD
open Drand.Persist

/-- engine `crash`: one node driven through a scripted history; answers list every crash image of the step
with what a restart finds in it (same line protocol as harness/cmd/verifh/crash.go after canonicalisation).
The file-write primitive is the variant the tree under test has (`codeWriteMode`, from the regenerated
`Gen.keySaveVariant`): the driver is rebuilt against lean/Gen on every check. -/
structure CrashSt where
  disk : Disk := .clean [] ⟨.fresh, none⟩ .absent .absent
  members : List (Nat × Bool) := []   -- epoch ↦ is this node in the epoch's group
  lastEp : Nat := 0
  running : Bool := false             -- a beacon handler exists (the chain store is open)
  dedupe : Bool := true               -- sampled modes: second-level images once per distinct (record, group, share) of an op
  hasBp : Bool := false
  deriving Inhabited

def CrashSt.member (s : CrashSt) (e : Nat) : Bool :=
  match s.members.find? (·.1 == e) with
  | some (_, b) => b
  | none => false

def showLoaded : Loaded → String
  | .missing => "absent"
  | .err => "err"
  | .panics => "panic"
  | .val e => s!"E{e}"
  | .truncated _ => "partial"

def showStaged : Staged → String
  | .fresh => "fresh"
  | .staged e st => s!"staged{e}:{st}"
  | .complete e => s!"E{e}"

def showOutcome : Outcome → String
  | .fresh => "fresh"
  | .ok g s => s!"ok:E{g}/{showLoaded s}"
  | .notStarted => "err:dkg-not-started"
  | .shareMissing => "err:file-missing"
  | .decodeErr => "err:decode-error"
  | .notInGroup => "err:identity-not-in-group"
  | .panicked => "panic"

def showFin : Option Nat → String
  | none => "none"
  | some e => s!"E{e}"

def showRec (r : Recovered) : String :=
  s!"fin={showFin r.fin};cur={showStaged r.cur};g={showLoaded r.group};s={showLoaded r.share};load={showOutcome r.outcome}"

/-- "0-4,7-9" -/
def rangesOf : List Nat → String
  | [] => "empty"
  | r :: rs =>
    let (parts, a, b) := rs.foldl (fun (acc : List String × Nat × Nat) x =>
      let (ps, a, b) := acc
      if x == b + 1 then (ps, a, x) else (ps ++ [s!"{a}-{b}"], x, x)) ([], r, r)
    ",".intercalate (parts ++ [s!"{a}-{b}"])

def showChain (l : List Nat) : String :=
  if l.isEmpty then "nodb" else
  s!"{rangesOf l},last={l.getLast?.getD 0}"

def fileName : File → String
  | .group => "group"
  | .share => "share"
  | .groupTmp => "group.tmp"
  | .shareTmp => "share.tmp"

def opLabel : Op → String
  | .boltPut r => s!"Put({r})"
  | .serve r => s!"Serve({r})"
  | .saveCurrent _ _ => "SaveCurrent"
  | .saveFinished _ => "SaveFinished"
  | .create f => s!"Create({fileName f})"
  | .chmod f => s!"Chmod({fileName f})"
  | .write f _ => s!"Write({fileName f})"
  | .remove f => s!"Remove({fileName f})"
  | .rename a b => s!"Rename({fileName a},{fileName b})"

def className : TornClass → String
  | .bad => "bad" | .panics => "panics" | .same => "same" | .accepted => "accepted"

/-- the steps an observer of the directory can see: removing a file that is not there leaves no trace (`os.RemoveAll`
of a missing path succeeds silently; the harness reconstructs the steps from the inotify event stream) -/
def observable (d : Disk) : List Op → List Op
  | [] => []
  | op :: rest =>
    let keep : Bool := match op with
      | .remove f => d.getFile f != .absent
      | _ => true
    (if keep then [op] else []) ++ observable (apply d op) rest

/-- the key-file steps of the start-up path itself on disk `d` (the variant the tree under test has) -/
def startupOps (member : Nat → Bool) (d : Disk) : List Op :=
  match codeStartup with
  | .asIs => []
  | .reconcile m => reconcileOps m member d

/-- what a restart finds in image `d`, as the harness reports it: the database records as the crash left them, the key
files and the outcome once the start-up path has run to its end; `pre=` what the key files were before, if start-up
changed them; `r2=` if start-up wrote key files: its own steps, and (for `expand`) every crash image of those steps
recovered again — a restart killed while it reconciles, then restarted -/
def showRecAt (member : Nat → Bool) (d : Disk) (expand : Bool) (chain : String := "") : String :=
  let r := recover codeStartup member d
  let g0 := loadFile d.group
  let s0 := loadFile d.share
  let pre := if r.group != g0 || r.share != s0 then s!";pre={showLoaded g0}/{showLoaded s0}" else ""
  let ops := observable d (startupOps member d)
  let item (label : String) (y : Disk) : String :=
    let r2 := recover codeStartup member y
    s!"{label}~{showFin r2.fin}~{showLoaded r2.group}~{showLoaded r2.share}~{showOutcome r2.outcome}"
  let items : List String :=
    if !expand then [] else
    (crashImages d ops).flatMap fun (c, y) =>
      match c with
      | .after 0 => []
      | .after (k + 1) => match ops[k]? with | some op => [item (opLabel op) y] | none => []
      | .during k cl => match ops[k]? with | some op => [item s!"{opLabel op}@{className cl}" y] | none => []
  let r2 := if ops.isEmpty then "" else ";r2=" ++ "+".intercalate (("trace:" ++ ",".intercalate (ops.map opLabel)) :: items)
  showRec r ++ chain ++ pre ++ r2

/-- the state by which the sampled modes of the harness decide whether a reconciling start-up is killed step by step -/
def stateKey (d : Disk) : String :=
  s!"{showFin d.db.finished}|{showLoaded (loadFile d.group)}|{showLoaded (loadFile d.share)}"

/-- all crash images of `ops` from `d`, labelled like the harness labels them; second-level images (a start-up that writes
key files, killed at each of its steps) below the whole first-level images — with `dedupe` once per distinct state -/
def labelledCuts (dedupe : Bool) (member : Nat → Bool) (d : Disk) (ops : List Op) : List String :=
  let step (acc : List String × List String) (ci : Cut × Disk) : List String × List String :=
    let (out, seen) := acc
    let (c, img) := ci
    let writes := !(observable img (startupOps member img)).isEmpty
    let show1 (x : Disk) (whole : Bool) (seen : List String) : String × List String :=
      let w := !(observable x (startupOps member x)).isEmpty
      let expand := whole && !(dedupe && seen.contains (stateKey x))
      (showRecAt member x expand, if whole && w && dedupe then stateKey x :: seen else seen)
    match c with
    | .after 0 =>
      let (rc, seen) := show1 img true seen
      (out ++ [s!"start;{rc}"], seen)
    | .after (k + 1) =>
      match ops[k]? with
      | some (.saveFinished e) =>
        -- the harness also reports the image one bbolt commit back (= the image before the call)
        let before := run d (ops.take k)
        let (rb, seen) := show1 before true seen
        let (rc, seen) := show1 img true seen
        (out ++ [s!"SaveFinished~rollback;{rb}", s!"{opLabel (.saveFinished e)};{rc}"], seen)
      | some op =>
        let (rc, seen) := show1 img true seen
        (out ++ [s!"{opLabel op};{rc}"], seen)
      | none => (out, seen)
    | .during k cl =>
      match ops[k]? with
      | some op =>
        let _ := writes
        (out ++ [s!"{opLabel op}@{className cl};{showRecAt member img false}"], seen)
      | none => (out, seen)
  ((crashImages d ops).foldl step ([], [])).1

def parseOrder (s : String) : Option (List Stage) :=
  (s.splitOn ",").mapM fun x =>
    if x = "SaveFinished" then some Stage.saveFinished else if x = "send" then some Stage.send else none

def statusName (s : String) : Option String :=
  if s = "proposed" then some "Proposed" else if s = "accepted" then some "Accepted"
  else if s = "executing" then some "Executing" else if s = "failed" then some "Failed"
  else if s = "left" then some "Left" else if s = "aborted" then some "Aborted" else none

def outcomeBoot : Outcome → String
  | .fresh => "ok"
  | .ok _ _ => "ok"
  | .notStarted => "load-err:dkg-not-started"
  | .shareMissing => "load-err:file-missing"
  | .decodeErr => "load-err:decode-error"
  | .notInGroup => "load-err:identity-not-in-group"
  | .panicked => "panic"

def crashStep (s : CrashSt) (f : List String) : CrashSt × String :=
  match f with
  | ["init", _, _, _, _] => ({ hasBp := true, dedupe := s.dedupe }, "ok")
  | ["staged", st] =>
    match statusName st with
    | none => (s, "bad-op")
    | some name =>
      let ops := stagedOps (s.lastEp + 1) name
      let cuts := labelledCuts s.dedupe s.member s.disk ops
      ({ s with disk := run s.disk ops }, " | ".intercalate ("tx=1" :: cuts))
  | "dkg" :: kind :: members :: _thr :: opts =>
    let me := (members.splitOn ",").contains "0"
    let e := s.lastEp + 1
    let s1 := { s with members := (e, me) :: s.members, lastEp := e }
    if kind = "skip" then (s1, "skipped") else
    if !s.hasBp then (s, "no-node") else
    let order := (opts.filterMap fun o => if o.startsWith "order=" then parseOrder (o.drop 6).toString else none).head?.getD codeOrder
    let ops := observable s.disk (if me then completionOpsIn codeWriteMode order e else evictionOpsIn codeWriteMode order e)
    let cuts := labelledCuts s.dedupe s1.member s.disk ops
    let trace := ",".intercalate (ops.map opLabel)
    let d' := run s.disk ops
    -- joinNetwork -> StartBeacon -> NewHandler creates the chain store and stores the genesis beacon
    let d'' := if me && !s.running then { d' with chain := if d'.chain.isEmpty then [0] else d'.chain } else d'
    ({ s1 with disk := d'', running := s.running || me }, " | ".intercalate (s!"tx=1;trace={trace}" :: cuts))
  | ["beacon", k] =>
    match k.toNat? with
    | none => (s, "bad-op")
    | some k =>
      if !s.hasBp then (s, "no-node") else
      if !s.running then (s, "not-running") else
      let (d, outs) := (List.range k).foldl (fun (acc : Disk × List String) _ =>
        let (d, outs) := acc
        let r := (d.chain.getLast?.getD 0) + 1
        let d' := apply d (.boltPut r)
        let ld (x : Disk) := showOutcome (recover codeStartup s.member x).outcome
        (d', outs ++ [s!"put{r}:tx=1:before\{load={ld d};chain={showChain d.chain}}:after\{load={ld d'};chain={showChain d'.chain}}"])) (s.disk, [])
      ({ s with disk := d }, " | ".intercalate outs)
  | ["stray", which] =>
    -- a stale temporary sibling left by an earlier interrupted Save: undecodable, never loaded
    if !s.hasBp then (s, "no-node") else
    if which = "group" then ({ s with disk := s.disk.setFile .groupTmp (.torn s.lastEp .bad) }, "ok")
    else if which = "share" then ({ s with disk := s.disk.setFile .shareTmp (.torn s.lastEp .bad) }, "ok")
    else (s, "bad-op")
  | ["load"] =>
    (s, s!"rest;{showRecAt s.member s.disk true s!";chain={showChain s.disk.chain}"}")
  | ["restart"] =>
    let (o, d) := startup s.member (reconciled codeStartup s.member s.disk)
    let good := o.isOk || o == .fresh
    ({ s with disk := d, running := o.isOk, hasBp := good }, outcomeBoot o)
  | _ => (s, "bad-op")

end Drand.Driver.CrashD