/-
Driver for the network model (engine `net`, C05).

ops (same script lines as the harness; `e=` hints are ignored, `o=`/`r=` carry what the implementation logged):
  init <n> <thr> <k> <slack>       k sub-steps (CatchupPeriods) per period; slack = settle budget in sub-steps
  step [o=h0,h1,… r=<round>]       one fair sub-round: the tick sub-round when a period starts, else a catch-up sub-round
  stop <i> | restart <i> | part <g0> … | link <i> <j> <ok|cut|slow>     (each may carry o=/r=)
  end [o=…]                        the healed phase: did model and implementation reach the current round?
result: m=<model heads> r=<model round> x=<1 iff observed = model> v=<ok | bad:<rule>:<detail> | ->

Trace validation (when o= is present): the logged transition must be allowed by the model's step relation as far
as heads can tell — E1 heads never decrease, E2 a node that is down does not move, E3 no beacon above the clock
round, E4 every increase is justified by a reachable up peer holding at least that head (sync) or by ≥ thr up
reachable nodes having head ≥ new−1 (they signed `new`) — and must not lag the model's fair run by more than
`slack` sub-steps (L). The model's own transition is checked against E1–E4 too (M: the envelope never excludes
the model).
-/
import Drand.Net.Protocol
namespace Drand.Driver.NetD
open Drand.Net

structure NetDrv where
  s : State := State.init 0 0
  k : Nat := 1
  slack : Nat := 1
  steps : Nat := 0
  grp : List Nat := []
  cut : List (Nat × Nat) := []
  hist : List (List Nat) := []
  obs : List Nat := []
  reachM : List (List (Option Nat)) := []     -- contact table along the model's run
  reachO : List (List (Option Nat)) := []     -- contact table along the logged run

def connOf (grp : List Nat) (cut : List (Nat × Nat)) : Nat → Nat → Bool :=
  fun i j => grp.getD i 0 == grp.getD j 0 && !cut.contains (i, j)

/-- tabulate the closures so that long traces stay cheap (pointwise the same state for every node < n) -/
def normalize (s : State) : State :=
  let nodes := (List.range s.n).map fun i =>
    let d := s.node i
    let tbl := (List.range (d.head + Gen.partialCacheStoreLimit + 3)).flatMap fun r =>
      (List.range s.n).filterMap fun k => if d.held r k then some (r, k) else none
    { d with held := fun r k => tbl.contains (r, k) }
  let arr := nodes.toArray
  let c := s.conn
  let tblc := (List.range s.n).flatMap fun i => (List.range s.n).filterMap fun j => if c i j then some (i, j) else none
  { s with node := fun k => arr.getD k {}, conn := fun i j => if i < s.n ∧ j < s.n then tblc.contains (i, j) else c i j }

def heads (s : State) : List Nat := (List.range s.n).map fun i => (s.node i).head
def ups (s : State) : List Bool := (List.range s.n).map fun i => (s.node i).up

def showNats (l : List Nat) : String := ",".intercalate (l.map toString)

def parseNats (t : String) : Option (List Nat) := (t.splitOn ",").mapM String.toNat?

def tokenVal (f : List String) (key : String) : Option String :=
  (f.find? (·.startsWith key)).map fun t => String.ofList (t.toList.drop key.length)

/-- E1–E4 on one transition; `upA/upB`, `cA/cB` before / after the op; `reach i k`: the highest round node k can
have signed (head + 1, capped by the clock round) at the end of an op during which it was running and linked to i — such a
partial may still sit in i's cache -/
def envelope (n thr : Nat) (old new : List Nat) (upA upB : List Bool) (cA cB : Nat → Nat → Bool) (round : Nat)
    (reach : Nat → Nat → Option Nat) : Option String :=
  let up := fun i => upA.getD i false || upB.getD i false
  let link := fun i j => (cA i j && cA j i) || (cB i j && cB j i)
  (List.range n).findSome? fun i =>
    let a := old.getD i 0
    let b := new.getD i 0
    if b < a then some s!"E1:node{i}:{a}->{b}"
    else if !(up i) && b != a then some s!"E2:node{i}:{a}->{b}"
    else if b > round then some s!"E3:node{i}:{b}>round{round}"
    else if b > a then
      let viaPeer := (List.range n).any fun j => j != i && up j && link i j && new.getD j 0 ≥ b
      let signers := ((List.range n).filter fun k =>
        (k == i && new.getD k 0 + 1 ≥ b) || (match reach i k with | some hk => hk ≥ b | none => false)).length
      if viaPeer || signers ≥ thr then none else some s!"E4:node{i}:{a}->{b}:signers{signers}<thr{thr}"
    else none

/-- update of the contact table after an op: k was running and could call i before or after the op -/
def updReach (n : Nat) (reach : List (List (Option Nat))) (new : List Nat) (upA upB : List Bool) (cA cB : Nat → Nat → Bool)
    (round : Nat) : List (List (Option Nat)) :=
  (List.range n).map fun i => (List.range n).map fun k =>
    let prev := (reach.getD i []).getD k none
    if (upA.getD k false || upB.getD k false) && (cA k i || cB k i) then
      -- a node signs head + 1 (or re-signs its head) and never a round above its clock round
      some (max (prev.getD 0) (min (new.getD k 0 + 1) round))
    else prev

def applyOp (d : NetDrv) (f : List String) : Option NetDrv :=
  let n := d.s.n
  match f with
  | "step" :: _ =>
    let tick := d.steps % d.k == 0
    some { d with steps := d.steps + 1, s := if tick then d.s.fairTick else d.s.fairCatch }
  | "stop" :: i :: _ => do
    let i ← i.toNat?
    if i < n then some { d with s := d.s.stop i } else none
  | "restart" :: i :: _ => do
    let i ← i.toNat?
    if i < n ∧ !(d.s.node i).up then some { d with s := (d.s.restart i).pull i } else none
  | "part" :: gs =>
    let gs := gs.filter fun t => !(t.startsWith "o=" || t.startsWith "r=" || t.startsWith "e=")
    match gs.mapM String.toNat? with
    | some g => if g.length = n then some { d with grp := g, s := d.s.apply (.setConn (connOf g d.cut)) } else none
    | none => none
  | "link" :: i :: j :: v :: _ => do
    let i ← i.toNat?
    let j ← j.toNat?
    if i < n ∧ j < n then
      let cut := d.cut.filter (· != (i, j))
      let cut := if v == "cut" then (i, j) :: cut else cut
      if v == "cut" ∨ v == "ok" ∨ v == "slow" then some { d with cut := cut, s := d.s.apply (.setConn (connOf d.grp cut)) } else none
    else none
  | "end" :: _ => some d
  | _ => none

def netStep (d : NetDrv) (f : List String) : NetDrv × String :=
  match f with
  | ["init", n, thr, k, slack] =>
    match n.toNat?, thr.toNat?, k.toNat?, slack.toNat? with
    | some n, some thr, some k, some slack =>
      if n = 0 ∨ k = 0 ∨ n > 64 then (d, "bad-op") else
      let s := State.init n thr
      let r0 := (List.range n).map fun _ => (List.range n).map fun _ => some 0
      ({ s := s, k := k, slack := slack, grp := List.replicate n 0, hist := [heads s], obs := heads s, reachM := r0, reachO := r0 },
        s!"m={showNats (heads s)} r=0 x=1 v=-")
    | _, _, _, _ => (d, "bad-op")
  | _ =>
    match applyOp d f with
    | none => (d, "bad-op")
    | some d1 =>
      let s0 := d.s
      let s1 := normalize d1.s
      let mh := heads s1
      let round := (s1.node 0).clock
      let hist := mh :: d1.hist
      -- M: the envelope must admit the model's own transition
      let reachM := updReach s1.n d1.reachM mh (ups s0) (ups s1) s0.conn s1.conn round
      let lookup := fun (t : List (List (Option Nat))) i k => (t.getD i []).getD k none
      let selfCheck := envelope s1.n s1.thr (heads s0) mh (ups s0) (ups s1) s0.conn s1.conn round (lookup reachM)
      let isEnd := f.head? == some "end"
      match tokenVal f "o=" with
      | none =>
        let v := match selfCheck with | some e => s!"bad:M:{e}" | none => "-"
        ({ d1 with s := s1, hist := hist, reachM := reachM }, s!"m={showNats mh} r={round} x=- v={v}")
      | some t =>
        match parseNats t with
        | none => (d, "bad-op")
        | some o =>
          if o.length != s1.n then (d, "bad-op") else
          let robs := (tokenVal f "r=").bind String.toNat?
          let exact := if o == mh then "1" else "0"
          let reachO := updReach s1.n d1.reachO o (ups s0) (ups s1) s0.conn s1.conn round
          let lagRef := hist.getD d1.slack (hist.getLastD [])
          let lag := (List.range s1.n).findSome? fun i =>
            if (s1.node i).up && o.getD i 0 < lagRef.getD i 0 then some s!"L:node{i}:{o.getD i 0}<{lagRef.getD i 0}" else none
          let cur := if isEnd then
              (List.range s1.n).findSome? fun i =>
                if (s1.node i).up && (s1.node i).head == round && o.getD i 0 != round then some s!"F:node{i}:{o.getD i 0}!=current{round}" else none
            else none
          let v :=
            match selfCheck with
            | some e => s!"bad:M:{e}"
            | none =>
              if robs.isSome && robs != some round then s!"bad:R:round{robs.getD 0}!={round}" else
              match envelope s1.n s1.thr d1.obs o (ups s0) (ups s1) s0.conn s1.conn round (lookup reachO) with
              | some e => s!"bad:{e}"
              | none =>
                match lag with
                | some e => s!"bad:{e}"
                | none => match cur with | some e => s!"bad:{e}" | none => "ok"
          ({ d1 with s := s1, hist := hist, obs := o, reachM := reachM, reachO := reachO }, s!"m={showNats mh} r={round} x={exact} v={v}")

end Drand.Driver.NetD