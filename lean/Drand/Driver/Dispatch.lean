import Drand.Daemon.Dispatch
namespace Drand.Driver.DispatchD
open Drand.Daemon

/-- driver state: the DKG node (none before the first `phase`), the beacon phase, and whether the harness has given
up on the current instance after a call that never returned -/
structure DispatchState where
  cfg : Cfg
  node : Option Node
  dkgWedged : Bool
  bphase : Option BPhase
  /-- ops served by the current DKG instance / beacon instance (the request probes run after every op whose outcome is
  not a plain error and after every 4th op; the lock probe after every op) -/
  dkgOps : Nat
  bOps : Nat
  deriving Repr

def dispatchInit : DispatchState :=
  { cfg := { echoNonBlocking := false, echoCap := 3 }, node := none, dkgWedged := false, bphase := none, dkgOps := 0, bOps := 0 }

def probeEvery : Nat := 4

def parsePhase : String → Option Phase
  | "fresh" => some .fresh | "proposed" => some .proposed | "joined" => some .joined | "executing" => some .executing
  | "complete" => some .complete | "closed" => some .closed | "closedx" => some .closedx | _ => none

def parseId : String → Option IdC
  | "absent" => some .absent | "known" => some .known | "unknown" => some .unknown | "malformed" => some .malformed | _ => none

def parseAddr : String → Option AddrC
  | "empty" => some .empty | "leader" => some .leader | "me" => some .me | "other" => some .other | "stranger" => some .stranger | _ => none

def parseSig : String → Option SigC
  | "empty" => some .empty | "b1" => some .b1 | "b3" => some .b3 | "b4" => some .b4 | "right" => some .right
  | "big" => some .big | "trunc" => some .trunc | "flip" => some .flip | "tpl" => some .tpl | _ => none

def parseLayer : String → Option Layer
  | "proc" => some .proc | "daemon" => some .daemon | "grpc" => some .grpc | _ => none

/-- the DKG packet classes of the harness (`dkgPacket` in dispatch.go) -/
def parseDkgBody (b : String) (did : IdC) : Option (Option DKGPacket) :=
  let pk (bd : Bundle) : Option (Option DKGPacket) := some (some ⟨some ⟨some did, bd⟩⟩)
  match b with
  | "nil" => some none
  | "empty" => some (some ⟨none⟩)
  | "nometa" => some (some ⟨some ⟨none, .resp (some ⟨false, false, true⟩)⟩⟩)
  | "nobundle" => pk .none
  | "deal.nil" => pk (.deal none)
  | "deal.empty" => pk (.deal (some ⟨true, false⟩))
  | "deal.junk" => pk (.deal (some ⟨false, false⟩))
  | "deal.nocommit" => pk (.deal (some ⟨true, false⟩))
  | "deal.nilelem" => pk (.deal (some ⟨true, true⟩))
  | "deal.big" => pk (.deal (some ⟨true, false⟩))
  | "resp.nil" => pk (.resp none)
  | "resp.empty" => pk (.resp (some ⟨false, false, true⟩))
  | "resp.nilelem" => pk (.resp (some ⟨true, false, true⟩))
  | "resp.junk" => pk (.resp (some ⟨false, false, true⟩))
  | "resp.signed" => pk (.resp (some ⟨false, true, true⟩))
  | "resp.dup" => pk (.resp (some ⟨false, true, false⟩))
  | "just.nil" => pk (.just none)
  | "just.empty" => pk (.just (some ⟨true, false⟩))
  | "just.nilelem" => pk (.just (some ⟨true, true⟩))
  | "just.junk" => pk (.just (some ⟨false, false⟩))
  | "just.big" => pk (.just (some ⟨false, false⟩))
  | _ => none

def dropPrefix (s p : String) : Option String :=
  if s.startsWith p then some (s.drop p.length).toString else none

/-- the gossip body classes of the harness (`gossipPacket` in dispatch.go); `addr` is the metadata address class,
which the harness also uses for the junk proposal's leader -/
def parseBody (b : String) (addr : AddrC) (did : IdC) : Option GBody :=
  match b with
  | "none" => some .none
  | "prop.nil" => some (.proposal none)
  | "prop.empty" => some (.proposal (some ⟨none, false⟩))
  | "prop.noleader" => some (.proposal (some ⟨none, false⟩))
  | "prop.junk" => some (.proposal (some ⟨some ⟨addr⟩, false⟩))
  | "prop.nilelem" => some (.proposal (some ⟨some ⟨.leader⟩, false⟩))
  | "prop.epoch2" => some (.proposal (some ⟨some ⟨.leader⟩, false⟩))
  | "prop.valid" => some (.proposal (some ⟨some ⟨.leader⟩, true⟩))
  | "acc.nil" => some (.accept none)
  | "acc.empty" => some (.accept (some none))
  | "acc.stranger" => some (.accept (some (some ⟨.stranger⟩)))
  | "acc.member" => some (.accept (some (some ⟨.other⟩)))
  | "rej.nil" => some (.reject none)
  | "rej.empty" => some (.reject (some none))
  | "rej.stranger" => some (.reject (some (some ⟨.stranger⟩)))
  | "rej.member" => some (.reject (some (some ⟨.other⟩)))
  | "abort.nil" => some (.abort none)
  | "abort.empty" => some (.abort (some ()))
  | "abort.reason" => some (.abort (some ()))
  | "exec.nil" => some (.execute none)
  | "exec.empty" => some (.execute (some false))
  | "exec.time" => some (.execute (some false))
  | "exec.valid" => some (.execute (some true))
  | "dkg.nil" => some (.dkg none)
  | _ =>
    match dropPrefix b "dkg." with
    | some rest => (parseDkgBody rest did).map fun d => .dkg d
    | none => none

def parseDkgReq (f : List String) : Option (Layer × DkgReq) :=
  match f with
  | ["packet", l, p, m, id, addr, sig, body, did] =>
    match parseLayer l with
    | none => none
    | some l =>
      if p = "nil" then some (l, .packet none) else
      match parseId did, parseAddr (if m = "some" then addr else "empty") with
      | some did, some a =>
        match parseBody body a did with
        | none => none
        | some b =>
          if m = "nil" then some (l, .packet (some ⟨none, b⟩)) else
          match parseId id, parseSig sig with
          | some id, some s => some (l, .packet (some ⟨some ⟨id, a, s⟩, b⟩))
          | _, _ => none
      | _, _ => none
  | ["bcast", l, p, body, did] =>
    match parseLayer l with
    | none => none
    | some l =>
      if p = "nil" then some (l, .broadcast none) else
      match parseId did with
      | none => none
      | some did => (parseDkgBody body did).map fun d => (l, .broadcast d)
  | ["status", l, r, id] =>
    match parseLayer l with
    | none => none
    | some l =>
      if r = "nil" then some (l, .status none) else (parseId id).map fun id => (l, .status (some ⟨id⟩))
  | _ => none

def showLock (n : Node) : String := if n.wedged then "held" else "free"

/-- run a request and the three probes on the model; the probes go through the same layer, except that DKGStatus
is not served on the peer-facing listener and is probed through the daemon layer -/
def dkgStep (cfg : Cfg) (n : Node) (l : Layer) (r : DkgReq) (k : Nat) : Node × String :=
  let (n1, o) := handle cfg l n r
  if o = .err && k % probeEvery ≠ 0 && !n1.wedged then (n1, s!"{o.show} lock=free st=- pk=- bc=-") else
  let pl := if l = .grpc then Layer.daemon else l
  let (n2, st) := handle cfg pl n1 probeStatus
  let (n3, pk) := handle cfg l n2 probePacket
  let (n4, bc) := handle cfg l n3 probeBroadcast
  (n4, s!"{o.show} lock={showLock n1} st={st.show} pk={pk.show} bc={bc.show}")

/-! beacon side -/

def parseBPhase : String → Option BPhase
  | "running" => some .running | "nodkg" => some .nodkg | "stopped" => some .stopped | _ => none

def parseHash : String → Option HashC
  | "absent" => some .absent | "known" => some .known | "unknown" => some .unknown | "malformed" => some .malformed
  | "big" => some .big | _ => none

def parseVer : String → Option VerC
  | "none" => some .none | "ok" => some .ok | "bad" => some .bad | "pre" => some .pre | _ => none

/-- `nil` or `<id>/<hash>/<ver>` -/
def parseBMeta (s : String) : Option (Option BMeta) :=
  if s = "nil" then some none else
  match s.splitOn "/" with
  | [i, h, v] =>
    match parseId i, parseHash h, parseVer v with
    | some i, some h, some v => some (some ⟨i, h, v⟩)
    | _, _, _ => none
  | _ => none

def parseRound : String → Option RoundC
  | "zero" => some .zero | "one" => some .one | "past" => some .past | "last" => some .last | "next" => some .next
  | "future" => some .beyond | "beyond" => some .beyond | "max" => some .max | _ => none

def parsePSig : String → Option PSigC
  | "empty" => some .empty | "b1" => some .b1 | "b2" => some .b2 | "valid" => some .valid | "own" => some .own
  | "outidx" => some .outidx | "hugeidx" => some .hugeidx | "badsig" => some .badsig | "trunc" => some .trunc
  | "big" => some .big | _ => none

def parsePrev : String → Option PrevC
  | "right" => some .right | "empty" => some .empty | "junk" => some .junk | "big" => some .big | _ => none

def parseConn : String → Option ConnC
  | "none" => some .none | "self" => some .self | "empty" => some .empty | "nilelem" => some .nilelem
  | "closed3" => some .closed3 | _ => none

def parseBLayer : String → Option BLayer
  | "handler" => some .direct | "fn" => some .direct | "bp" => some .bp | "daemon" => some .daemon | "grpc" => some .grpc
  | _ => none

def parseBReq (f : List String) : Option (BLayer × BReq) :=
  match f with
  | ["partial", l, p, m, r, ps, pv] =>
    match parseBLayer l with
    | none => none
    | some l =>
      if p = "nil" then some (l, .partialBeacon none) else
      match parseBMeta m, parseRound r, parsePSig ps, parsePrev pv with
      | some m, some r, some ps, some pv => some (l, .partialBeacon (some ⟨m, r, ps, pv⟩))
      | _, _, _, _ => none
  | [op, l, p, m, r] =>
    match parseBLayer l with
    | none => none
    | some l =>
      if op = "pstatus" then
        if p = "nil" then some (l, .status none) else
        match parseBMeta m, parseConn r with
        | some m, some c => some (l, .status (some ⟨m, c⟩))
        | _, _ => none
      else
      let mk (q : Option RoundReq) : Option (BLayer × BReq) :=
        if op = "sync" then some (l, .sync q) else if op = "pubrand" then some (l, .pubRand q)
        else if op = "pubstream" then some (l, .pubStream q) else none
      if p = "nil" then mk none else
      match parseBMeta m, parseRound r with
      | some m, some r => mk (some ⟨m, r⟩)
      | _, _ => none
  | [op, l, p, m] =>
    match parseBLayer l with
    | none => none
    | some l =>
      let mk (q : Option MetaReq) : Option (BLayer × BReq) :=
        if op = "chaininfo" then some (l, .chainInfo q) else if op = "identity" then some (l, .identity q) else none
      if p = "nil" then mk none else
      match parseBMeta m with
      | some m => mk (some ⟨m⟩)
      | none => none
  | _ => none

def parseHPrefix : String → Option HPrefix
  | "none" => some .none | "known" => some .known | "unknown" => some .unknown | "malformed" => some .malformed
  | "odd" => some .odd | "huge" => some .huge | _ => none

def parseHRound : String → Option HRound
  | "zero" => some .zero | "one" => some .one | "last" => some .last | "beyond" => some .beyond | "far" => some .far
  | "max" => some .max | "overflow" => some .overflow | "neg" => some .neg | "alpha" => some .alpha | _ => none

def parseHEp (s : String) : Option HEp :=
  match s with
  | "latest" => some .latest | "info" => some .info | "health" => some .health | "chains" => some .chains
  | _ => match dropPrefix s "round:" with
    | some r => (parseHRound r).map .round
    | none => none

def hStep (ph : BPhase) (pre : HPrefix) (ep : HEp) (k : Nat) : String :=
  let o := httpHandle ph pre ep
  if o = .err && k % probeEvery ≠ 0 then s!"{o.show} bplock=free hlock=free ci=- pb=-" else
  let ci := bHandle .bp ph probeChainInfo
  let pb := bHandle .bp ph probePartial
  s!"{o.show} bplock=free hlock=free ci={ci.show} pb={pb.show}"

def bStep (ph : BPhase) (l : BLayer) (r : BReq) (k : Nat) : String :=
  let o := bHandle l ph r
  if o = .err && k % probeEvery ≠ 0 then s!"{o.show} bplock=free hlock=free ci=- pb=-" else
  let pl := if l = .direct then BLayer.bp else l
  let ci := bHandle pl ph probeChainInfo
  let pb := bHandle pl ph probePartial
  s!"{o.show} bplock=free hlock=free ci={ci.show} pb={pb.show}"

def hasHang (s : String) : Bool := (s.splitOn "hang").length > 1 || (s.splitOn "held").length > 1

def dispatchStep (s : DispatchState) (f : List String) : DispatchState × String :=
  match f with
  | ["phase", p] =>
    match parsePhase p with
    | some p => ({ s with node := some (Node.init p), dkgWedged := false, dkgOps := 0 }, "ok")
    | none => (s, "bad-op")
  | ["bphase", p] =>
    match parseBPhase p with
    | some p => ({ s with bphase := some p, bOps := 0 }, "ok")
    | none => (s, "bad-op")
  | ["http", pre, ep] =>
    match s.bphase, parseHPrefix pre, parseHEp ep with
    | some ph, some pre, some ep => ({ s with bOps := s.bOps + 1 }, hStep ph pre ep (s.bOps + 1))
    | none, _, _ => (s, "bad-op no bphase")
    | _, _, _ => (s, "bad-op")
  | _ =>
    match parseDkgReq f with
    | some (l, r) =>
      match s.node with
      | none => (s, "bad-op no phase")
      | some n =>
        if s.dkgWedged then (s, "wedged") else
        let (n', out) := dkgStep s.cfg n l r (s.dkgOps + 1)
        ({ s with node := some n', dkgWedged := hasHang out, dkgOps := s.dkgOps + 1 }, out)
    | none =>
      match parseBReq f with
      | some (l, r) =>
        match s.bphase with
        | none => (s, "bad-op no bphase")
        | some ph =>
          if l = .direct && ph ≠ .running then (s, "bad-op no handler in this phase")
          else ({ s with bOps := s.bOps + 1 }, bStep ph l r (s.bOps + 1))
      | none => (s, "bad-op")

end Drand.Driver.DispatchD