import Drand.Beacon.Stream
import Gen.Consts
import Gen.Callback
namespace Drand.Driver.StreamD
open Drand Drand.Store Drand.Beacon.Stream

/-- the deterministic test chain of the `stream` engine (harness/cmd/verifh/stream.go `streamSig`) -/
def streamSig (r : Nat) : Bytes :=
  if r = 0 then [0x5e, 0xed] else [UInt8.ofNat (r / 256 % 256), UInt8.ofNat (r % 256), UInt8.ofNat ((r * 7 + 3) % 256)]

/-- what the store stack keeps of round r: the previous signature only on a chained scheme -/
def streamBeacon (chained : Bool) (r : Nat) : Beacon :=
  ⟨r, streamSig r, if chained && decide (r > 0) then streamSig (r - 1) else []⟩

structure StreamDrv where
  handover : Handover
  /-- `some CallbackWorkerQueue` when the tree's callbackStore ends a stream whose queue is full (regenerated fact) -/
  cap : Option Nat := if Gen.callbackOverflowEndsConsumer then some Gen.callbackWorkerQueue else none
  /-- SyncChain deregisters with the remover of its own registration (regenerated fact) -/
  ownOnly : Bool := Gen.syncChainRemovesOwnOnly
  backend : String
  chained : Bool := true
  net : Option Net := none
  /-- per stream: how many of its `Send`s the script has acknowledged (the harness sees one `Send` per op) -/
  acked : List (String × Nat) := []
  /-- streams whose SyncChain has returned (close signal consumed by the worker on its own) but the script has not
  been told yet -/
  unreported : List String := []

def streamDrvInit (backend variant : String) : StreamDrv :=
  { handover := if variant = "tracked" then .tracked else .asIs, backend := backend }

/-- a step of stream `sid` with its effect on the callback table, as the tree under test does it -/
def StreamDrv.own (d : StreamDrv) (n : Net) (sid : String) (ev : Own) : Net :=
  if d.ownOnly then n.ownR d.handover sid ev else n.own d.handover sid ev

def emptyStore (backend : String) : Store :=
  if backend.startsWith "mem" then .mem ⟨((backend.drop 3).toString.toNat?).getD 10, []⟩ else .bolt []

def showEnd : EndReason → String
  | .noBeacon => "no-beacon" | .replaced => "replaced" | .canceled => "canceled"
  | .sendError => "send-error" | .storeError => "no-beacon"   -- the read error wraps ErrNoBeaconStored

def findStream (n : Net) (sid : String) : Option Entry := n.streams.find? (·.sid == sid)

def ackedOf (d : StreamDrv) (sid : String) : Nat := ((d.acked.find? (·.1 == sid)).map (·.2)).getD 0
def setAcked (d : StreamDrv) (sid : String) (k : Nat) : StreamDrv :=
  { d with acked := (sid, k) :: d.acked.filter (·.1 != sid) }

/-- live phase: run the worker until it is inside a `Send` the script has not acknowledged, or has nothing to do -/
def pump (h : Handover) (n : Net) (sid : String) (acked : Nat) : Nat → Net
  | 0 => n
  | fuel + 1 =>
    match findStream n sid with
    | none => n
    | some e =>
      if acked < e.s.sent.length then n else
      match e.s.phase, e.s.queue with
      | .live, _ :: _ => pump h (n.own h sid .deliver) sid acked fuel
      | _, _ => n

def streamStep (d : StreamDrv) (f : List String) : StreamDrv × String :=
  match f, d.net with
  | "init" :: c :: n :: _, _ =>
    match n.toNat? with
    | some n =>
      let chained := c == "1"
      let st := (List.range (n + 1)).foldl (fun st r => st.put (streamBeacon chained r)) (emptyStore d.backend)
      ({ d with chained, net := some ⟨st, []⟩, acked := [] }, "ok")
    | none => (d, "bad-op")
  | ["reset"], some _ => ({ d with net := none, acked := [] }, "ok")
  | _, none => (d, "bad-state")
  | ["put"], some n =>
    let r := n.store.head + 1
    ({ d with net := some (match d.cap with
                            | some cap => n.putR cap (streamBeacon d.chained r)
                            | none => n.put (streamBeacon d.chained r)) }, s!"ok {r}")
  | ["wait"], some _ => (d, "done")
  | ["head"], some n => (d, n.store.last.show)
  | ["get", r], some n =>
    match r.toNat? with
    | some r => (d, (n.store.get r).show)
    | none => (d, "bad-op")
  | ["start", sid, addr, frm, _mode], some n =>
    match frm.toNat?, findStream n sid with
    | some frm, none => ({ d with net := some { n with streams := n.streams ++ [⟨sid, addr, { frm := frm }⟩] } }, "ok")
    | _, _ => (d, "bad-state")
  | [op, sid], some n =>
    match findStream n sid with
    | none => (d, "bad-state")
    | some e =>
      let k := ackedOf d sid
      /- report the next unacknowledged Send of the stream in net n', else `other` -/
      let report (n' : Net) (other : Strm → String) : StreamDrv × String :=
        match findStream n' sid with
        | none => (d, "bad-state")
        | some e' =>
          match e'.s.sent[k]? with
          | some b => (setAcked { d with net := some n' } sid (k + 1), "send " ++ b.show)
          | none => ({ d with net := some n' }, other e'.s)
      let ended (s : Strm) (dflt : String) : String :=
        match s.phase with | .done r => "returned " ++ showEnd r | _ => dflt
      if op = "step" then
        if k < e.s.sent.length then
          match e.s.phase with
          | .scanning _ => report n (fun _ => "bad-state")
          | .scanned => report n (fun _ => "bad-state")
          | _ => (d, "bad-state")
        else
        match e.s.phase with
        | .idle => report (d.own n sid .start) (fun s => ended s "started")
        | .started => report (d.own n sid .scanOpen) (fun s => ended s "scan-end")
        | .scanning _ => report (d.own n sid .scanNext) (fun s => ended s "scan-end")
        | .scanned =>
          let n' := d.own n sid .register
          -- AddCallback itself always succeeds; a corrected hand-over that then fails to catch up returns afterwards
          match findStream n' sid with
          | some e' =>
            (match e'.s.phase with
             | .done _ => { d with net := some n', unreported := sid :: d.unreported }
             | _ => { d with net := some n' }, "registered")
          | none => (d, "bad-state")
        | _ => (d, "bad-state")
      else if op = "failstep" then
        match e.s.phase with
        | .scanning _ => report (d.own n sid .sendFail) (fun s => ended s "bad-state")
        | _ => (d, "bad-state")
      else if op = "deliver" then
        match e.s.phase with
        | .live => report (pump d.handover n sid k (e.s.queue.length + 1)) (fun s => ended s "none")
        | .done _ => if k < e.s.sent.length then report n (fun _ => "none") else (d, "none")
        | _ => (d, "bad-state")
      else if op = "faildeliver" then
        match e.s.phase with
        | .live =>
          let n' := d.own n sid .sendFail
          match findStream n' sid with
          | none => (d, "bad-state")
          | some e' =>
            match e'.s.sent[k]? with
            | some b => (setAcked { d with net := some n' } sid (k + 1), "send " ++ b.show ++ " " ++ ended e'.s "none")
            | none => ({ d with net := some n' }, ended e'.s "none")
        | .done _ => (d, "none")
        | _ => (d, "bad-state")
      else if op = "cancel" then
        match e.s.phase with
        | .done _ => (d, "bad-state")
        | _ =>
          let n' := d.own n sid .cancel
          ({ d with net := some n' }, match findStream n' sid with | some e' => ended e'.s "bad-state" | none => "bad-state")
      else if op = "sent" then
        let l := e.s.sent.take k
        (d, if l.isEmpty then "-" else ",".intercalate (l.map fun b => toString b.round))
      else (d, "bad-op")
  | _, _ => (d, "bad-op")

/-- `scanall` / `drain`: repeat an op while it answers with a Send -/
def repeatOp (d : StreamDrv) (op sid : String) : Nat → List String → StreamDrv × String
  | 0, acc => (d, " ; ".intercalate acc.reverse)
  | fuel + 1, acc =>
    let (d', r) := streamStep d [op, sid]
    if r.startsWith "send " then repeatOp d' op sid fuel (r :: acc) else (d', " ; ".intercalate (r :: acc).reverse)

def phaseOf (d : StreamDrv) (sid : String) : Option Phase :=
  match d.net with
  | some n => (findStream n sid).map (·.s.phase)
  | none => none

/-- a worker that is not held inside a `Send` consumes a close signal at the head of its queue by itself -/
def normalize (d : StreamDrv) : StreamDrv :=
  match d.net with
  | none => d
  | some n =>
    n.streams.foldl (fun d e =>
      match d.net with
      | none => d
      | some n =>
        match findStream n e.sid with
        | none => d
        | some e =>
          match e.s.phase, e.s.queue with
          | .live, .close :: _ =>
            if ackedOf d e.sid < e.s.sent.length then d
            else { d with net := some (d.own n e.sid .deliver), unreported := e.sid :: d.unreported }
          | _, _ => d) d

def streamStep1 (d : StreamDrv) (f : List String) : StreamDrv × String :=
  match f with
  | [op, sid] =>
    if d.unreported.contains sid && (op = "deliver" || op = "faildeliver" || op = "cancel") then
      match phaseOf d sid with
      | some (.done r) => ({ d with unreported := d.unreported.filter (· != sid) }, "returned " ++ showEnd r)
      | _ => (d, "bad-state")
    else streamStep d f
  | _ => streamStep d f

def repeatOp1 (d : StreamDrv) (op sid : String) : Nat → List String → StreamDrv × String
  | 0, acc => (d, " ; ".intercalate acc.reverse)
  | fuel + 1, acc =>
    let (d', r) := streamStep1 d [op, sid]
    let d' := normalize d'
    if r.startsWith "send " then repeatOp1 d' op sid fuel (r :: acc) else (d', " ; ".intercalate (r :: acc).reverse)

/-- the engine's full op set: the conditional forms used by generated scripts on top of `streamStep` -/
def streamStep2 (d : StreamDrv) (f : List String) : StreamDrv × String :=
  match f with
  | ["begin", sid] =>
    match phaseOf d sid with
    | some .idle => streamStep d ["step", sid]
    | _ => (d, "bad-state")
  | ["register", sid] =>
    match phaseOf d sid with
    | some .scanned => if (match d.net with | some n => (findStream n sid).map (fun e => decide (ackedOf d sid < e.s.sent.length)) | none => none) = some true
        then (d, "bad-state") else streamStep d ["step", sid]
    | _ => (d, "bad-state")
  | ["scanstep", sid] =>
    match phaseOf d sid with
    | some .started => streamStep d ["step", sid]
    | some (.scanning _) => streamStep d ["step", sid]
    | some .scanned =>
      -- the tracked variant may still have Sends of the scan to hand over
      let (d', r) := streamStep d ["step", sid]
      if r.startsWith "send " then (d', r) else (d, "noop")
    | _ => (d, "bad-state")
  | ["scanall", sid] =>
    match phaseOf d sid with
    | some .started => repeatOp d "step" sid 100000 []
    | some (.scanning _) => repeatOp d "step" sid 100000 []
    | some .scanned => (d, "noop")
    | _ => (d, "bad-state")
  | ["drain", sid] =>
    match phaseOf d sid with
    | some .live => repeatOp1 d "deliver" sid 100000 []
    | some (.done _) => repeatOp1 d "deliver" sid 100000 []
    | _ => (d, "bad-state")
  | ["burst", sid, n] =>
    -- n appends while the client of live stream `sid` does not read, then it reads everything (`put`ⁿ ; `drain`)
    match n.toNat?, phaseOf d sid, d.net with
    | some n, some .live, some net =>
      if (findStream net sid).map (fun e => decide (ackedOf d sid < e.s.sent.length)) = some true then (d, "bad-state") else
      let d1 := (List.range n).foldl (fun d _ => normalize (streamStep d ["put"]).1) d
      let head := match d1.net with | some nn => nn.store.head | none => 0
      let (d2, r) := repeatOp1 d1 "deliver" sid 100000 []
      (d2, s!"ok {head} ; " ++ r)
    | _, _, _ => (d, "bad-state")
  | "init" :: _ => let (d', r) := streamStep d f; ({ d' with unreported := [] }, r)
  | ["reset"] => let (d', r) := streamStep d f; ({ d' with unreported := [] }, r)
  | _ => streamStep1 d f

def streamStep' (d : StreamDrv) (f : List String) : StreamDrv × String :=
  let (d', r) := streamStep2 d f
  (normalize d', r)

end Drand.Driver.StreamD