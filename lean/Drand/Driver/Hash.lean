import Drand.Codec.Hash
namespace Drand.Driver.HashD
open Drand Drand.Codec

def showToks (ts : List PTok) : String :=
  " ".intercalate (ts.map fun t => match t with
    | .raw b => "R:" ++ toHex b
    | .hashed b => "H:" ++ toHex b)

def parseList (s : String) : List String := if s = "-" then [] else s.splitOn ","

def sequenceOpt {α : Type} : List (Option α) → Option (List α)
  | [] => some []
  | none :: _ => none
  | some a :: t => (sequenceOpt t).map (a :: ·)

/-- ops:
  chain <periodSec> <genesis> <pk> <seed> <id>                      → R:<preimage>
  group <thr> <genesis> <transition> <id> <coeffs|-|nil> <idx:key,…> → tokens -/
def hashStep (f : List String) : String :=
  match f with
  | ["chain", p, g, pk, seed, id] =>
    match p.toNat?, g.toInt?, fromHex pk, fromHex seed, fromHex id with
    | some p, some g, some pk, some seed, some id =>
      showToks [.raw (chainPreimage ⟨p, g, pk, seed, id⟩)]
    | _, _, _, _, _ => "bad-op"
  | ["group", thr, g, tr, id, coeffs, nodes] =>
    let ns := sequenceOpt ((parseList nodes).map fun s =>
      match s.splitOn ":" with
      | [i, k] => match i.toNat?, fromHex k with
        | some i, some k => some (NodeP.mk i k)
        | _, _ => none
      | _ => none)
    let cs : Option (Option (List Bytes)) :=
      if coeffs = "nil" then some none else (sequenceOpt ((parseList coeffs).map fromHex)).map some
    match thr.toNat?, g.toInt?, tr.toInt?, fromHex id, cs, ns with
    | some thr, some g, some tr, some id, some cs, some ns =>
      showToks (groupToks ⟨ns, thr, g, tr, cs, id⟩)
    | _, _, _, _, _, _ => "bad-op"
  | _ => "bad-op"

end Drand.Driver.HashD