import Drand.DKG.Order
import Drand.Beacon.Transition
import Drand.Driver.Hash
namespace Drand.Driver.DkgRunD
open Drand.Driver.HashD
open Drand Drand.Codec Drand.DKG Drand.Beacon.Transition

/-- participant token `addr|key|sig|keyOK` -/
def parsePart (s : String) : Option Participant :=
  match s.splitOn "|" with
  | [a, k, g, ok] =>
    match fromHex k, fromHex g with
    | some k, some g => some { addr := a, key := k, sig := g, keyOK := ok == "1" }
    | _, _ => none
  | _ => none

def parseSemi {α : Type} (f : String → Option α) (s : String) : Option (List α) :=
  if s = "-" then some [] else sequenceOpt ((s.splitOn ";").map f)

def parseNats (s : String) : Option (List Nat) :=
  if s = "-" then some [] else sequenceOpt ((s.splitOn ",").map String.toNat?)

def parseHexes (s : String) : Option (List Bytes) :=
  if s = "-" then some [] else sequenceOpt ((s.splitOn ",").map fromHex)

def showGNodes (l : List GNode) : String :=
  if l.isEmpty then "-" else ";".intercalate (l.map fun n => s!"{n.index}|{n.addr}|{toHex n.key}|{toHex n.sig}")

def showHexes (l : List Bytes) : String := if l.isEmpty then "-" else ",".intercalate (l.map toHex)

def showGroupS (g : Group Seed) : String :=
  let seed := match g.genesisSeed with
    | .given b => "given " ++ toHex b
    | .hashOf p => "hash " ++ showToks (groupToks p)
  s!"ok id={toHex g.id} thr={g.threshold} period={g.periodSec} scheme={g.scheme} catchup={g.catchupSec} genesis={g.genesisTime} tt={g.transitionTime} nodes={showGNodes g.nodes} coeffs={showHexes g.coeffs} seed={seed}"

/-- group token for the C07 ops: `id,period,genesis,seed,tt,scheme,coeff0` or `nil` -/
def parseG (s : String) : Option (Option G) :=
  if s = "nil" then some none else
  match s.splitOn "," with
  | [id, p, g, seed, tt, sch, c0] =>
    match fromHex id, p.toNat?, g.toInt?, fromHex seed, tt.toInt?, fromHex c0 with
    | some id, some p, some g, some seed, some tt, some c0 =>
      some (some { id, threshold := 0, periodSec := p, scheme := sch, catchupSec := 0, genesisTime := g, genesisSeed := seed,
                   transitionTime := tt, nodes := [], coeffs := [c0] })
    | _, _, _, _, _, _ => none
  | _ => none

def parseGNodeLite (s : String) : Option GNode :=
  match s.splitOn "|" with
  | [i, a] => i.toNat?.map fun i => { index := i, addr := a, key := [], sig := [] }
  | _ => none

def liveTrace (h : Handler) (old : G) (maxRound : Nat) : List String :=
  let rec go (h : Handler) (r : Nat) (fuel : Nat) (acc : List String) : List String :=
    match fuel with
    | 0 => acc.reverse
    | fuel + 1 =>
      let h := (h.step (.stored r)).step .worker
      go h (r + 1) fuel ((if h.vault.group == old then "old" else "new") :: acc)
  go h 1 maxRound []

/-- ops:
  sort <key,…>
  asgroup <id> <thr> <period> <scheme> <catchup> <genesis> <seed> <tt> <coeffs> <qual> <parts>
  ttime <epoch> <now> <period> <genesis>
  vgt <old G> <new G> <now>
  chainpre <G>
  handover <period> <genesis> <tt> <maxRound>
  admission <selfAddr> <nextRound> <lastStored> <pRound> <idx|none> <verifies 0/1> <ownIdx> <nodes idx|addr;…> -/
def dkgrunStep (f : List String) : String :=
  match f with
  | ["sort", keys] =>
    match parseHexes keys with
    | some ks => showHexes ((sortedByPublicKey (ks.map fun k => { addr := "", key := k, sig := [] })).map (·.key))
    | none => "bad-op"
  | ["asgroup", id, thr, period, scheme, catchup, genesis, seed, tt, coeffs, qual, parts] =>
    match fromHex id, thr.toNat?, period.toNat?, catchup.toNat?, genesis.toInt?, fromHex seed, tt.toInt?,
          parseHexes coeffs, parseNats qual, parseSemi parsePart parts with
    | some id, some thr, some period, some catchup, some genesis, some seed, some tt, some coeffs, some qual, some parts =>
      let d : Details := { beaconID := id, threshold := thr, periodSec := period, schemeID := if scheme = "-" then "" else scheme,
                           catchupSec := catchup, genesisTime := genesis, genesisSeed := seed, remaining := parts, joining := [] }
      match asGroupS d coeffs qual tt with
      | .ok g => showGroupS g
      | .error e => "err:" ++ e
    | _, _, _, _, _, _, _, _, _, _ => "bad-op"
  | ["ttime", ep, now, p, g] =>
    match ep.toNat?, now.toInt?, p.toNat?, g.toInt? with
    | some ep, some now, some p, some g => toString (transitionTime ep now p g)
    | _, _, _, _ => "bad-op"
  | ["vgt", o, n, now] =>
    match parseG o, parseG n, now.toInt? with
    | some o, some n, some now =>
      match validateGroupTransition o n now with
      | .ok () => "ok"
      | .error e => e.name
    | _, _, _ => "bad-op"
  | ["chainpre", g] =>
    match parseG g with
    | some (some g) => showToks [.raw (chainHashPre g)] ++ " scheme=" ++ (chainInfo g).scheme
    | _ => "bad-op"
  | ["handover", p, g, tt, mx] =>
    match p.toNat?, g.toInt?, tt.toInt?, mx.toNat? with
    | some p, some g, some tt, some mx =>
      let old : G := { id := [], threshold := 0, periodSec := p, scheme := "", catchupSec := 0, genesisTime := g, genesisSeed := [],
                       transitionTime := 0, nodes := [], coeffs := [[0]] }
      let new : G := { old with transitionTime := tt, coeffs := [[1]] }
      let h : Handler := { periodSec := p, genesis := g, vault := newVault old 0 0 }
      let h := h.step (.transitionNewGroup new 1 0)
      if h.fatal then "fatal" else
      match h.pending with
      | none => "no-callback"
      | some pd => s!"target={pd.targetRound} live=" ++ ",".intercalate (liveTrace h old mx)
    | _, _, _, _ => "bad-op"
  | ["admission", self, nr, ls, pr, idx, ver, own, nodes] =>
    match nr.toNat?, ls.toNat?, pr.toNat?, own.toNat?, parseSemi parseGNodeLite nodes with
    | some nr, some ls, some pr, some own, some nodes =>
      let g : G := { id := [], threshold := 0, periodSec := 0, scheme := "", catchupSec := 0, genesisTime := 0, genesisSeed := [],
                     transitionTime := 0, nodes := nodes, coeffs := [] }
      let v : Vault := { (newVault g 0 own) with shareIndex := own }
      let o : CryptoOracle := { indexOf := fun _ => idx.toNat?, verifyPartial := fun _ _ _ => ver == "1" }
      (processPartial v o self nr ls pr [] []).name
    | _, _, _, _, _ => "bad-op"
  | _ => "bad-op"

end Drand.Driver.DkgRunD