import Drand.Beacon.Cache
namespace Drand.Driver.CacheD
open Drand Drand.Beacon

private def insertSortedStr (s : String) : List String → List String
  | [] => [s]
  | x :: t => if s ≤ x then s :: x :: t else x :: insertSortedStr s t
private def sortStrs (l : List String) : List String := l.foldl (fun acc s => insertSortedStr s acc) []

def showRId (i : RId) : String := s!"{i.1}:{toHex i.2}"

private def natKey (n : Nat) : String := (String.ofList (List.replicate (10 - (toString n).length) '0')) ++ toString n

/-- canonical dump: rounds (sorted) with their sorted signer indices, each with the first four bytes of the cached partial
after the index prefix (which partial of that signer is cached: the first or the newest); rcvd per signer (sorted by signer, list order kept) -/
def cacheDump (c : Cache) : String :=
  let rs := sortStrs (c.rounds.map fun e =>
    natKey e.1.1 ++ ":" ++ toHex e.1.2 ++ "=" ++
      ",".intercalate (sortStrs (e.2.sigs.map fun s => natKey s.1 ++ "/" ++ toHex ((if s.2.length > 2 then s.2.drop 2 else s.2).take 4))))
  let rc := sortStrs (c.rcvd.map fun e => natKey e.1 ++ "=" ++ ",".intercalate (e.2.map showRId))
  "R[" ++ " ".intercalate rs ++ "] C[" ++ " ".intercalate rc ++ "]"

/-- ops: append <round> <prev> <psig> | flush <round> | len <round> <prev> | dump | sizes | reset -/
def cacheStep (c : Cache) (f : List String) : Cache × String :=
  match f with
  | ["append", r, pv, sg] =>
    match r.toNat?, fromHex pv, fromHex sg with
    | some r, some pv, some sg =>
      let (c', res) := c.append ⟨r, pv, sg⟩
      (c', match res with | .ok => "ok" | .errIndex => "err-index" | .errEvicted => "err-evicted")
    | _, _, _ => (c, "bad-op")
  | ["flush", r] =>
    match r.toNat? with
    | some r => (c.flush r, "ok")
    | none => (c, "bad-op")
  | ["len", r, pv] =>
    match r.toNat?, fromHex pv with
    | some r, some pv => (c, match c.roundLen r pv with | some n => toString n | none => "-1")
    | _, _ => (c, "bad-op")
  | ["dump"] => (c, cacheDump c)
  | ["sizes"] =>
    let mx := c.rcvd.foldl (fun m e => max m e.2.length) 0
    (c, s!"{c.rounds.length} {mx}")
  | ["reset"] => (Cache.empty c.sigLen c.replace, "ok")
  | _ => (c, "bad-op")

end Drand.Driver.CacheD