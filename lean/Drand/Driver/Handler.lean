/-
Driver for engine `handler` (C04): the harness ops of harness/cmd/verifh/handler.go replayed on the model.

The driver is a deterministic *scheduler* around `Drand.Beacon.Handler.step`: it models the pieces of the node
that decide WHEN the events of the abstract model happen (ticker.go with a clockwork fake clock, the 1-slot
channels, the one-shot gate of the harness, the partial cache of the aggregator as far as it counts distinct
signers of the one valid chain) and feeds `step` with `.tick`, `.appended`, `.catchupFire`, `.clockAdvance`,
`.storeAdvance`, `.aggregated`, `.partialIn`. Every emission it prints comes out of `step`.

Where the real node is not deterministic the driver says so instead of guessing: flags after ` !`
(`burst`: an Advance crossed ≥ 2 ticker expiries — only the first is certainly delivered; `race`: two
goroutines of the node compete for the head; `unmodelled`). The check stops comparing a scenario there.
-/
import Drand.Beacon.Handler
import Gen.Consts

namespace Drand.Driver.HandlerD
open Drand.Beacon.Handler Drand.Time

structure Sim where
  cfg : Cfg := ⟨1, 0, 0, false⟩
  n : Nat := 0
  thr : Nat := 0
  transRound : Nat := 0
  st : St := init 0 0
  built : Bool := false
  running : Bool := false
  startAt : Int := 0
  tickFirst : Option Int := none   -- the ticker's timing goroutine still sleeps until this time
  tickNext : Int := 0              -- next expiry of the period ticker
  slot : Option RoundInfo := none  -- the run loop's tick channel (capacity 1)
  gateArmed : Bool := false
  blocked : Option RoundInfo := none -- the run loop took this tick and waits in Last()
  appSlot : Option Nat := none     -- catchupBeacons (capacity 1)
  cache : List (Nat × List Nat) := []  -- aggregator: round ↦ distinct signers (valid chain only)
  reshared : Bool := false
  aggs : Nat := 0                  -- aggregations during the current op
  fired : Nat := 0                 -- goroutines of the node woken by the clock during the current op
  events : Nat := 0                -- tick / catch-up events fed to `step` so far (each checked against `evOk`)
  oT : List String := []
  oA : List String := []
  oE : List (Nat × Int) := []
  oS : List Nat := []
  flags : List String := []

def Sim.flag (s : Sim) (f : String) : Sim := if f ∈ s.flags then s else { s with flags := s.flags ++ [f] }

/-- SyncManager: a request up to `upTo` is dropped when the head is already there; otherwise it asks every
peer for `FromRound = head+1` (the harness's peers have nothing to give). -/
def Sim.syncReq (s : Sim) (upTo : Nat) : Sim :=
  let s := if s.st.clock < s.cfg.genesis then s.flag "unmodelled" else s
  if upTo > 0 && s.st.head ≥ upTo then s
  else if (s.st.head + 1) ∈ s.oS then s else { s with oS := s.oS ++ [s.st.head + 1] }

def cacheGet (c : List (Nat × List Nat)) (r : Nat) : List Nat :=
  match c.find? (fun p => p.1 == r) with
  | some p => p.2
  | none => []

def cachePut (c : List (Nat × List Nat)) (r : Nat) (l : List Nat) : List (Nat × List Nat) :=
  (r, l) :: c.filter (fun p => p.1 != r)

/-- `chainStore.runAggregator` on one valid partial of signer `idx` for round `r` (valid chain) -/
def Sim.aggIn (s : Sim) (idx r : Nat) : Sim :=
  let h := s.st.head
  if !(decide (r > h) && decide (r ≤ h + Gen.partialCacheStoreLimit + 1)) then s
  else
    let signers := cacheGet s.cache r
    let signers := if idx ∈ signers then signers else idx :: signers
    if signers.length < s.thr then { s with cache := cachePut s.cache r signers }
    else
      -- Recover + VerifyRecovered succeed, FlushRounds(r)
      let s := { s with cache := s.cache.filter (fun p => decide (p.1 > r)), aggs := s.aggs + 1 }
      if h + 1 = r then
        -- tryAppend: Put, then tell the run loop (dropped when the 1-slot channel is full)
        let st' := (step s.cfg s.st .aggregated).1
        let s := if st'.head = r then s else s.flag "unmodelled"
        let s := { s with st := st' }
        match s.appSlot with
        | none => { s with appSlot := some r }
        | some _ => s
      else if r > h + 1 then s.syncReq r
      else s

def Sim.emit (s : Sim) (r : Nat) (clk : Int) : Sim :=
  ({ s with oE := s.oE ++ [(r, clk)] }).aggIn 0 r

def Sim.outs (s : Sim) (outs : List Out) : Sim :=
  outs.foldl (fun s o =>
    match o with
    | .emit r clk => s.emit r clk
    | .sync u => s.syncReq u
    | _ => s) s

/-- the run loop, having taken `info` from its channel, reads the head and signs -/
def Sim.procTick (s : Sim) (info : RoundInfo) : Sim :=
  -- the theorems speak about events that satisfy `evOk`; the driver checks that it never feeds another one
  let s := if evOk s.cfg s.st (.tick info) then s else s.flag "invalid-event"
  let s := { s with oT := s.oT ++ [s!"{info.round}:{s.st.head}"], events := s.events + 1 }
  let (st', outs) := step s.cfg s.st (.tick info)
  let a0 := s.aggs
  let s := { s with aggs := 0 }
  let s := ({ s with st := st' }).outs outs
  -- RunSync is issued while the aggregator may still be storing the round our own partial completed
  let s := if s.aggs > 0 && outs.any (fun o => match o with | .sync _ => true | _ => false) then s.flag "race" else s
  { s with aggs := a0 + s.aggs }

def Sim.procApp (s : Sim) (b : Nat) : Sim :=
  let launch := Gen.Handler.catchupGuard b s.st.current.round
  let s := { s with oA := s.oA ++ [s!"{b}:{s.st.current.round}:{if launch then 1 else 0}"] }
  { s with st := (step s.cfg s.st (.appended b)).1 }

/-- the run loop consumes what is waiting in its channels -/
def Sim.drain : Nat → Sim → Sim
  | 0, s => s.flag "unmodelled"
  | fuel + 1, s =>
    if !s.running || s.blocked.isSome then s
    else match s.slot, s.appSlot with
      | some info, a =>
        let s := if a.isSome then s.flag "race" else s
        let s := { s with slot := none }
        if s.gateArmed then { s with gateArmed := false, blocked := some info }
        else Sim.drain fuel (s.procTick info)
      | none, some b => Sim.drain fuel (({ s with appSlot := none }).procApp b)
      | none, none => s

/-- ticker.Start: `info` goes to the registered channel unless it is skipped (`startAt > ttime`) or full -/
def Sim.deliverTick (s : Sim) (info : RoundInfo) : Sim :=
  if !s.running then s
  else if s.startAt > info.time then s
  else if s.slot.isSome then s
  else { s with slot := some info }

/-- the round a tick carries: `common.CurrentRound(nt.Unix(), period, genesis)` -/
def tickInfo (cfg : Cfg) (t : Int) : RoundInfo := ⟨currentRoundZ t cfg.period cfg.genesis, t⟩

/-- indices of catch-up goroutines whose sleep is over -/
def dueSleeper (l : List Sleeper) (clock : Int) : Option Nat :=
  l.findIdx? (fun sl => decide (sl.wake ≤ clock))

/-- run the node to quiescence: the run loop drains its channels, catch-up goroutines whose sleep is over
sign, and so on until nothing is left to do -/
def Sim.quiesce : Nat → Sim → Sim
  | 0, s => s.flag "unmodelled"
  | fuel + 1, s =>
    let s := s.drain 16
    match dueSleeper s.st.sleepers s.st.clock with
    | none => s
    | some i =>
      let s := if evOk s.cfg s.st (.catchupFire i) then s else s.flag "invalid-event"
      let (st', outs) := step s.cfg s.st (.catchupFire i)
      let s := ({ s with st := st', fired := s.fired + 1, events := s.events + 1 }).outs outs
      Sim.quiesce fuel s

/-- A burst: one Advance crosses the expiries e1 < e1+p < … < e1+k·p (k ≥ 1). clockwork hands the first one
to the ticker goroutine for certain (every channel on the way is empty at quiescence); whether a later one
gets through the 1-slot channels is a race inside the node. The ticks the run loop logged (`obs`) are
admissible iff they are rounds of expiries of this Advance that the run loop's channel does not skip
(`startAt`), strictly increasing, and start with the first expiry when that one is not skipped. -/
def burstOk (r1 k : Nat) (firstOk : Bool) (minRound : Nat) (obs : List Nat) : Bool :=
  (obs.zip obs.tail).all (fun p => decide (p.1 < p.2)) &&
  obs.all (fun r => decide (r1 ≤ r) && decide (r ≤ r1 + k) && decide (minRound ≤ r)) &&
  (!firstOk || obs.head? == some r1)

def Sim.adv (s : Sim) (d : Nat) (obs : Option (List Nat)) : Sim :=
  let s := { s with st := (step s.cfg s.st (.clockAdvance d)).1 }
  let now := s.st.clock
  -- the ticker
  let (s, fired) :=
    match s.tickFirst with
    | some t =>
      if t ≤ now then
        -- `chanTime <- t.clock.Now()` runs after the Advance returned: the tick carries the new clock
        (({ s with tickFirst := none, tickNext := now + s.cfg.period }).deliverTick (tickInfo s.cfg now), 1)
      else (s, 0)
    | none =>
      if s.tickNext ≤ now then
        let e1 := s.tickNext
        let k := ((now - e1).toNat) / s.cfg.period
        let s := { s with tickNext := e1 + ((k + 1) * s.cfg.period : Nat) }
        let r1 := (tickInfo s.cfg e1).round
        if k ≥ 1 && s.running && !(s.blocked.isSome && s.slot.isSome) then
          if s.blocked.isSome || s.gateArmed then
            -- the held run loop leaves the 1-slot channel to whichever later expiry arrives first
            ((s.deliverTick (tickInfo s.cfg e1)).flag "race", 1)
          else
          -- burst with a free run loop: the processed ticks are taken from the observation when admissible
          let firstOk := !(s.startAt > e1)
          -- the first expiry the run loop's channel does not skip
          let skipped := if s.startAt > e1 then ((s.startAt - e1).toNat + s.cfg.period - 1) / s.cfg.period else 0
          match obs with
          | some o =>
            if burstOk r1 k firstOk (r1 + skipped) o then
              let s := o.foldl (fun (s : Sim) r =>
                ((s.deliverTick (tickInfo s.cfg (e1 + (((r - r1) * s.cfg.period : Nat) : Int)))).drain 16)) s
              -- several ticks processed back to back: they race with the aggregator like any two wake-ups
              (s.flag "burst-observed", o.length)
            else ((s.deliverTick (tickInfo s.cfg e1)).flag "burst", 1)
          | none => ((s.deliverTick (tickInfo s.cfg e1)).flag "burst", 1)
        else (s.deliverTick (tickInfo s.cfg e1), 1)
      else (s, 0)
  let s := ({ s with fired := s.fired + fired }).quiesce 64
  -- a tick and a catch-up wake-up (or two wake-ups) in one Advance run concurrently: harmless unless one of
  -- them completes a round, which moves the head the other one reads
  if s.fired ≥ 2 && s.aggs > 0 then s.flag "race" else s

def Sim.partial (s : Sim) (signer round : Nat) (kind : String) : Sim × String :=
  let lbl : PartialLbl :=
    { round := round, inGroup := kind != "badidx", ownAddr := (signer == 0 && kind != "badidx"), sigOk := kind != "badsig" }
  let res := processPartial s.cfg s.st.clock s.st.head lbl
  if res = .accepted then
    let s := { s with st := (step s.cfg s.st (.partialIn lbl)).1 }
    (((s.aggIn signer round).quiesce 64), res.show)
  else (s, res.show)

/-- "c+K" / "c-K" (relative to the clock's round, 0 before genesis), "h+K" (relative to the head), or absolute -/
def Sim.roundSpec (s : Sim) (spec : String) : Option Nat :=
  match spec.toList with
  | c :: rest =>
    if (c == 'c' || c == 'h') && !rest.isEmpty then
      let base : Int := if c == 'c' then (roundAt s.cfg s.st.clock : Nat) else (s.st.head : Nat)
      let ks := String.ofList (match rest with | '+' :: r => r | r => r)
      match ks.toInt? with
      | some k => if base + k < 0 then none else some (base + k).toNat
      | none => none
    else spec.toNat?
  | [] => none

def Sim.aggOp : Nat → Sim → Nat → Nat → List String → Sim × List String
  | 0, s, _, _, acc => (s, acc)
  | fuel + 1, s, i, r, acc =>
    if i ≤ s.thr && i < s.n then
      let (s, st) := s.partial i r "good"
      Sim.aggOp fuel s (i + 1) r (acc ++ [st])
    else (s, acc)

def renderE (l : List (Nat × Int)) : String :=
  let keys := l.foldl (fun acc p => if p ∈ acc then acc else acc ++ [p]) []
  let keys := keys.toArray.qsort (fun a b => a.1 < b.1 || (a.1 == b.1 && a.2 < b.2)) |>.toList
  if keys.isEmpty then "-" else
  ",".intercalate (keys.map fun p => s!"{p.1}@{p.2}*{(l.filter (· == p)).length}")

def renderL (l : List String) : String := if l.isEmpty then "-" else ",".intercalate l

def Sim.render (s : Sim) (status : String) : String :=
  let ss := s.oS.toArray.qsort (· < ·) |>.toList.map toString
  let base := s!"{status} T={renderL s.oT} A={renderL s.oA} E={renderE s.oE} S={renderL ss} H={s.st.head} C={s.st.clock}"
  if s.flags.isEmpty then base else base ++ " !" ++ ",".intercalate s.flags

def Sim.fresh (s : Sim) : Sim := { s with oT := [], oA := [], oE := [], oS := [], flags := [], aggs := 0, fired := 0 }

/-- `NewHandler` on the store as it is: new ticker (first tick at the next round time), nothing running -/
def Sim.newHandler (s : Sim) : Sim :=
  { s with st := init s.st.clock s.st.head, built := true, running := false,
           tickFirst := some (nextTime s.cfg s.st.clock), slot := none, gateArmed := false, blocked := none,
           appSlot := none, cache := [] }

def handlerStep (s0 : Sim) (f : List String) : Sim × String :=
  let s := s0.fresh
  let bad : Sim × String := (s, "bad-op")
  match f with
  | "init" :: n :: thr :: per :: cat :: _scheme :: lead :: _base :: rest =>
    match n.toNat?, thr.toNat?, per.toNat?, cat.toNat?, lead.toInt? with
    | some n, some thr, some per, some cat, some lead =>
      let tr := match rest with
        | [t] => t.toNat?.getD 0
        | _ => 0
      let s : Sim := { cfg := ⟨per, 0, cat, s.cfg.skipAhead⟩, n := n, thr := thr, transRound := tr, st := init (-lead) 0 }
      let s := if thr < 2 then s.flag "unmodelled" else s
      let s := s.newHandler
      (s, s.render "ok")
    | _, _, _, _, _ => bad
  | _ =>
  if !s.built && f != ["restart"] then bad else
  match f with
  | ["start"] =>
    if s.st.clock > s.cfg.genesis then (s, s.render "genesis-passed")
    else
      let s := if s.running then s.flag "unmodelled" else s
      let s := { s with running := true, startAt := nextTime s.cfg s.st.clock }
      let s := s.quiesce 64
      (s, s.render "ok")
  | ["catchup"] =>
    let s := if s.running then s.flag "unmodelled" else s
    let s := { s with running := true, startAt := nextTime s.cfg s.st.clock }
    let s := s.syncReq (nextRound s.cfg s.st.clock)
    let s := s.quiesce 64
    (s, s.render "ok")
  | ["transition"] =>
    if s.transRound = 0 then bad else
    let s := if s.running then s.flag "unmodelled" else s
    let s := { s with running := true, startAt := timeOf s.cfg s.transRound }
    let s := s.syncReq (s.transRound - 1)
    let s := s.quiesce 64
    (s, s.render "ok")
  | ["stop"] =>
    if s.blocked.isSome then bad else
    let r := s.render "ok"
    ({ s with built := false, running := false }, r)
  | ["restart"] =>
    if s.n = 0 then bad else
    if s.built && s.blocked.isSome then bad else
    let s := if s.reshared then s.flag "unmodelled" else s
    let s := s.newHandler
    (s, s.render "ok")
  | ["adv", d] =>
    match d.toNat? with
    | some d => let s := s.adv d none; (s, s.render "ok")
    | none => bad
  | ["adv", d, obs] =>
    -- `obs`: the rounds of the ticks the node's run loop logged for this op (used only to resolve a burst)
    match d.toNat? with
    | some d =>
      let o := if obs = "-" then [] else (obs.splitOn ",").filterMap (·.toNat?)
      let s := s.adv d (some o); (s, s.render "ok")
    | none => bad
  | ["put", k] =>
    match k.toNat? with
    | some k =>
      let s := (List.range k).foldl (fun (s : Sim) _ =>
        let h := s.st.head + 1
        { s with st := (step s.cfg s.st (.storeAdvance h)).1, cache := s.cache.filter (fun p => decide (p.1 > h)) }) s
      (s, s.render "ok")
    | none => bad
  | ["gate"] =>
    if s.blocked.isSome then bad else
    let s := { s with gateArmed := true }
    (s, s.render "ok")
  | ["release"] =>
    match s.blocked with
    | some info =>
      let s := ({ s with blocked := none }).procTick info
      let s := s.quiesce 64
      (s, s.render "ok")
    | none => let s := { s with gateArmed := false }; (s, s.render "idle")
  | ["partial", signer, round, kind] =>
    match signer.toNat?, s.roundSpec round with
    | some signer, some round =>
      if signer ≥ s.n || round = 0 then bad else
      let (s, st) := s.partial signer round kind
      (s, s.render s!"{st}:{round}")
    | _, _ => bad
  | ["agg"] =>
    let (s, sts) := Sim.aggOp 16 s 1 (s.st.head + 1) []
    (s, s.render ("+".intercalate sts))
  | ["reshare", r] =>
    match r.toNat? with
    | some r =>
      if s.reshared || r < 2 then bad else
      let s := { s with reshared := true }
      (s, s.render "ok")
    | none => bad
  | ["settle"] => (s, s.render "ok")
  | _ => bad

end Drand.Driver.HandlerD