import Drand.Chain.CallbackStore
import Drand.Driver.Stream
import Gen.Consts
import Gen.Callback
namespace Drand.Driver.CbStoreD
open Drand.Driver.StreamD
open Drand Drand.Chain.Callback

/-- a scripted consumer: `credits = none` returns from every callback at once; `some k` returns from k more -/
structure Consumer where
  id : String
  credits : Option Nat
  got : List String := []

inductive PendingW where
  | add (id : String) (credits : Option Nat)
  | remove (id : String)

structure CbDrv where
  cfg : Cfg
  st : St := {}
  cons : List Consumer := []
  head : Nat := 0
  pendingW : Option PendingW := none
  /-- mode of an AddCallback that is blocked inside (holding the write lock) -/
  pendingAdd : Option (String × Option Nat) := none

/-- the variant is read off the source: `Gen.callbackPutDispatchBlocking` -/
def codeCfg : Cfg :=
  { cap := Gen.callbackWorkerQueue
    blocking := Gen.callbackPutDispatchBlocking
    closeBlocking := Gen.callbackAddCloseSendBlocking
    ends := Gen.callbackOverflowEndsConsumer }

def cbDrvInit : CbDrv := { cfg := codeCfg }


def showJob : Job → String
  | .beacon b => toString b.round
  | .close => "closed"

def setConsumer (d : CbDrv) (id : String) (credits : Option Nat) : CbDrv :=
  { d with cons := d.cons.filter (·.id != id) ++ [{ id, credits }],
           st := { d.st with orphans := d.st.orphans.filter (·.1 != id) } }

/-- one round of everything that can move without the script: workers, the Put in progress, blocked writers -/
def settleOnce (d : CbDrv) : CbDrv × Bool :=
  -- workers (of registered channels, then of removed ones)
  let work (orph : Bool) (acc : CbDrv × Bool) (e : String × Chan) : CbDrv × Bool :=
    let d := acc.1
    let id := e.1
    let evDone : Ev := if orph then .doneO id else .done id
    let evTake : Ev := if orph then .takeO id else .take id
    match (if orph then orphanOf d.st id else chanOf d.st id), d.cons.find? (·.id == id) with
    | some c, some k =>
      if c.busy then
        match k.credits with
        | none => match stepV d.cfg d.st evDone with
          | some s => ({ d with st := s }, true) | none => acc
        | some 0 => acc
        | some (n + 1) => match stepV d.cfg d.st evDone with
          | some s => ({ d with st := s, cons := d.cons.map fun x => if x.id == id then { x with credits := some n } else x }, true)
          | none => acc
      else
        match c.queue with
        | [] => acc
        | j :: _ => match stepV d.cfg d.st evTake with
          | some s => ({ d with st := s, cons := d.cons.map fun x => if x.id == id then { x with got := x.got ++ [showJob j] } else x }, true)
          | none => acc
    | _, _ => acc
  let (d, ch1) := d.st.chans.foldl (work false) (d, false)
  let (d, ch1) := d.st.orphans.foldl (work true) (d, ch1)
  -- the Put in progress
  let (d, ch2) :=
    match d.st.puts with
    | [] => (d, false)
    | p :: _ =>
      match stepV d.cfg d.st (if p.rem.isEmpty then .putEnd 0 else .putSend 0) with
      | some s => ({ d with st := s }, true)
      | none => (d, false)
  -- writers
  let (d, ch3) :=
    match d.st.writer with
    | some id =>
      match stepV d.cfg d.st .addResume with
      | some s =>
        let d := { d with st := s }
        (match d.pendingAdd with
          | some (i, cr) => if i == id then { setConsumer d i cr with pendingAdd := none } else d
          | none => d, true)
      | none => (d, false)
    | none =>
      match d.pendingW with
      | some (.remove id) =>
        match stepV d.cfg d.st (.remove id) with
        | some s => ({ d with st := s, pendingW := none }, true)
        | none => (d, false)
      | some (.add id cr) =>
        match stepV d.cfg d.st (.add id) with
        | some s =>
          if s.writer.isSome then ({ d with st := s, pendingW := none, pendingAdd := some (id, cr) }, true)
          else ({ setConsumer { d with st := s } id cr with pendingW := none }, true)
        | none => (d, false)
      | none => (d, false)
  (d, ch1 || ch2 || ch3)

def settle : Nat → CbDrv → CbDrv
  | 0, d => d
  | fuel + 1, d => let (d', ch) := settleOnce d; if ch then settle fuel d' else d'

def cbFuel : Nat := 100000

def parseMode (m : String) : Option (Option Nat) :=
  if m = "fast" then some none else if m = "gate" then some (some 0) else none

def cbStepAdd (d : CbDrv) (id m : String) : CbDrv × String :=
  match parseMode m with
  | none => (d, "bad-op")
  | some cr =>
    if d.pendingW.isSome || d.pendingAdd.isSome then (d, "bad-state") else
    match stepV d.cfg d.st (.add id) with
    | none => (settle cbFuel { d with pendingW := some (.add id cr) }, "blocked")
    | some s =>
      if s.writer.isSome then (settle cbFuel { d with st := s, pendingAdd := some (id, cr) }, "blocked")
      else (settle cbFuel (setConsumer { d with st := s } id cr), "ok")

/-- ops: init | add <id> <fast|gate> | adds <id> <fast|gate> | remove <id> | put | release <id> <n> | wait | got <id> | last -/
def cbStep (d : CbDrv) (f : List String) : CbDrv × String :=
  match f with
  | ["init"] => ({ cfg := { d.cfg with streamIds := [] } }, "ok")
  | ["adds", id, m] =>
    -- a registration by a stream handler: `AddStreamCallback` where the tree has it, `AddCallback` otherwise
    cbStepAdd { d with cfg := { d.cfg with streamIds := id :: d.cfg.streamIds.filter (· != id) } } id m
  | ["add", id, m] => cbStepAdd { d with cfg := { d.cfg with streamIds := d.cfg.streamIds.filter (· != id) } } id m
  | ["remove", id] =>
    if d.pendingW.isSome || d.pendingAdd.isSome then (d, "bad-state") else
    match stepV d.cfg d.st (.remove id) with
    | none => (settle cbFuel { d with pendingW := some (.remove id) }, "blocked")
    | some s => (settle cbFuel { d with st := s }, "ok")
  | ["put"] =>
    if !d.st.puts.isEmpty then (d, "bad-state") else
    let r := d.head + 1
    -- the base Put happens first, whatever the lock does afterwards
    if d.st.writer.isSome || d.pendingW.isSome then (d, "bad-state") else
    match stepV d.cfg d.st (.putBegin (streamBeacon true r)) with
    | none => (d, "bad-state")
    | some s =>
      let d' := settle cbFuel { d with st := s, head := r }
      (d', if d'.st.puts.isEmpty then s!"ok {r}" else s!"blocked {r}")
  | ["release", id, n] =>
    match n.toNat? with
    | none => (d, "bad-op")
    | some n =>
      -- only a gated consumer can be released (the harness refuses the op otherwise)
      match (d.cons.find? (·.id == id)).bind (·.credits) with
      | none => (d, "bad-state")
      | some _ =>
      let d1 := { d with cons := d.cons.map fun x => if x.id == id then { x with credits := x.credits.map (· + n) } else x }
      (settle cbFuel d1, "ok")
  | ["wait"] =>
    let d' := settle cbFuel d
    (d', if d'.st.puts.isEmpty && d'.pendingW.isNone && d'.st.writer.isNone then "done" else "still-blocked")
  | ["got", id] =>
    match d.cons.find? (·.id == id) with
    | some k => (d, if k.got.isEmpty then "-" else ",".intercalate k.got)
    | none => (d, "bad-state")
  | ["last"] => (d, toString d.head)
  | ["dropped"] => (d, toString d.st.dropped.length)
  | _ => (d, "bad-op")

end Drand.Driver.CbStoreD