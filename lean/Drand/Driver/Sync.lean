import Drand.Beacon.Sync
import Drand.Driver.Store
import Gen.Consts
namespace Drand.Driver.SyncD
open Drand.Driver.StoreD
open Drand Drand.Store Drand.Chain Drand.Beacon.Sync

/-! Symbolic beacons: the harness maps real signatures to these byte strings and back, so the model never sees BLS.
`[1,r]` true signature of round r, `[2,r]` a corrupted copy of it, `[3,r]` a signature on round r's message by a
foreign key, `[0,0]` the genesis seed, `[9,9]` junk, `[4,r]` the torn record of round r (the first half of the stored
value: undecodable JSON in the untrimmed bolt format, half a signature in the trimmed one). -/
def sigT (r : Nat) : Bytes := [1, UInt8.ofNat r]
def sigS (r : Nat) : Bytes := [2, UInt8.ofNat r]
def sigO (r : Nat) : Bytes := [3, UInt8.ofNat r]
def seedSym : Bytes := [0, 0]
def junkSym : Bytes := [9, 9]

def truePrev (chained : Bool) (r : Nat) : Bytes :=
  if chained then (if r ≤ 1 then seedSym else sigT (r - 1)) else []

structure Labels where
  t : Bool := true
  p : Bool := false
  w : Bool := false
  s : Bool := false
  o : Bool := false
  e : Bool := false
  g : Bool := false

/-- the verification oracle: the harness computed each label with the real `VerifyBeacon` -/
def labelVerify (chained : Bool) (nmax : Nat) (l : Labels) (b : Beacon) : Bool :=
  if b.sig.isEmpty then l.e
  else if b.round > nmax then false   -- the harness has no signature for rounds beyond the chain it generated
  else if b.round = 0 then l.g
  else match b.sig with
    | [1, k] => if k = UInt8.ofNat b.round then (if b.prev = truePrev chained b.round then l.t else l.p) else l.w
    | [2, _] => l.s
    | [3, _] => l.o
    | _ => false

inductive Backend where
  | bolt | trimmed
  deriving DecidableEq

structure SyncSt where
  chained : Bool := true
  mode : Mode := .participant
  backend : Backend := .trimmed
  rc : Bool := false
  rg : Bool := false
  fr : Bool := false
  lc : Bool := false
  labels : Labels := {}
  nmax : Nat := 0
  run : RunState := ⟨0, true⟩
  runPeriod : Nat := 1
  node : Node := ⟨Stack.init true seedSym, [], []⟩

def SyncSt.trimPrev (s : SyncSt) : Bool := s.backend == .trimmed && s.chained && s.mode == .participant

def isTorn (b : Beacon) : Bool := match b.sig with | [4, _] => true | _ => false

/-- what `Get(r)` of the back-end returns for the abstract content `base`: the untrimmed store decodes the JSON value
(a torn one is an error that is not ErrNoBeaconStored) and hands out the round *the record carries*; the trimmed store
labels with the key and, when previous signatures are required, rebuilds the previous signature from round r−1 -/
def viewGet (s : SyncSt) (base : BoltState) (r : Nat) : GetRes :=
  match lookup r base with
  | none => .notStored
  | some b =>
    if s.backend == .bolt then (if isTorn b then .otherErr else .ok b)
    else if s.trimPrev && decide (r > 0) then
      match lookup (r - 1) base with
      | none => .notStored
      | some p => .ok ⟨r, b.sig, p.sig⟩
    else .ok ⟨r, b.sig, []⟩

def viewLastErr (s : SyncSt) (base : BoltState) : Bool :=
  match base.getLast? with
  | none => true
  | some (k, b) => (s.backend == .bolt && isTorn b) || (s.trimPrev && decide (k > 0) && (lookup (k - 1) base).isNone)

def SyncSt.cfg (s : SyncSt) : Cfg :=
  { verify := labelVerify s.chained s.nmax s.labels, lastErr := viewLastErr s, mode := s.mode, roundCheck := s.rc, rangeCheck := s.rg, followRetry := s.fr }

/-! ### peer scripts -/

def parseNat? (cs : List Char) : Option Nat := (String.ofList cs).toNat?

/-- one script token at request round `from_` -/
def scriptItem (chained : Bool) (from_ : Nat) (tok : String) : Option (List Item) :=
  let mk (k : Char) (r : Nat) : Option (List Item) :=
    let tp := truePrev chained r
    match k with
    | 't' => some [.pkt ⟨r, sigT r, tp⟩ true]
    | 'n' => some [.pkt ⟨r, sigT r, tp⟩ true]
    | 'f' => some [.pkt ⟨r, sigT r, tp⟩ false]
    | 's' => some [.pkt ⟨r, sigS r, tp⟩ true]
    | 'o' => some [.pkt ⟨r, sigO r, tp⟩ true]
    | 'w' => some [.pkt ⟨r, sigT (r + 1), tp⟩ true]
    | 'p' => some [.pkt ⟨r, sigT r, junkSym⟩ true]
    | 'e' => some [.pkt ⟨r, [], tp⟩ true]
    | _ => none
  match tok.toList with
  | ['s', 't', 'a', 'l', 'l'] => some [.stall]
  | ['c', 'l', 'o', 's', 'e'] => some [.close]
  | ['g'] => some [.pkt ⟨0, seedSym, []⟩ true]
  | 'h' :: rest =>
    match parseNat? rest with
    | some h => some (if h < from_ then [.close]
        else (List.range' from_ (h + 1 - from_)).map fun r => .pkt ⟨r, sigT r, truePrev chained r⟩ true)
    | none => none
  | k :: '+' :: rest => match parseNat? rest with | some d => mk k (from_ + d) | none => none
  | k :: '@' :: rest => match parseNat? rest with | some r => mk k r | none => none
  | _ => none

def scriptResp (chained : Bool) (script : String) (from_ : Nat) : Resp :=
  if script = "err" then .err
  else
    let toks := (script.splitOn ",").filter (· ≠ "")
    .stream (toks.flatMap fun t => match scriptItem chained from_ t with | some l => l | none => [.close])

/-- `addr=script` or `addr=script/retryscript` -/
def parsePeer (chained : Bool) (attempt : Nat) (tok : String) : Option Peer :=
  match tok.splitOn "=" with
  | [addr, scripts] =>
    let ss := scripts.splitOn "/"
    let sc := match ss[attempt]? with | some x => x | none => ss.getLast?.getD "close"
    some ⟨addr, scriptResp chained sc⟩
  | _ => none

def parsePerm (tok : String) : List Nat := (tok.splitOn ".").filterMap (·.toNat?)

def orderPeers (perm : List Nat) (ps : List Peer) : List Peer := perm.filterMap fun i => ps[i]?

def peersAt (chained : Bool) (attempt : Nat) (perm : String) (toks : List String) : List Peer :=
  orderPeers (parsePerm perm) (toks.filterMap (parsePeer chained attempt))

def showWrite (w : Write) : String := s!"{w.stored.round}:{toHex w.stored.sig}:{toHex w.stored.prev}"

def joinOr (sep : String) (l : List String) : String := if l.isEmpty then "-" else sep.intercalate l

/-- the part of the ghost history added since `old` -/
def newPart {α : Type} (old new : List α) : List α := (new.take (new.length - old.length)).reverse

def report (s : SyncSt) (old : Node) (new : Node) (res : String) (dead : Bool) : String :=
  let ws := (newPart old.writes new.writes).map showWrite
  let cs := (newPart old.calls new.calls).map fun c => s!"{c.1}@{c.2}"
  let hd := if viewLastErr s new.st.base then "err" else toString new.head
  s!"{res} dead={if dead then 1 else 0} calls={joinOr "," cs} w={joinOr "," ws} head={hd}"

def flag (s : String) : Bool := s == "1"

def parseLabels (toks : List String) : Labels :=
  toks.foldl (fun l t => match t.splitOn "=" with
    | ["T", v] => { l with t := flag v } | ["P", v] => { l with p := flag v } | ["W", v] => { l with w := flag v }
    | ["S", v] => { l with s := flag v } | ["O", v] => { l with o := flag v } | ["E", v] => { l with e := flag v }
    | ["G", v] => { l with g := flag v } | _ => l) {}

def parseRounds (tok : String) : List Nat := if tok = "-" then [] else (tok.splitOn ".").filterMap (·.toNat?)

def syncStep (s : SyncSt) (f : List String) : SyncSt × String :=
  match f with
  | "init" :: c :: m :: be :: nn :: head :: rc :: rg :: fr :: labels =>
    let chained := flag c
    let base0 : BoltState := Bolt.put [] (genesis seedSym)
    let base := (List.range' 1 (head.toNat?.getD 0)).foldl
      (fun acc r => Bolt.put acc ⟨r, sigT r, truePrev chained r⟩) base0
    ({ chained, mode := if m = "follow" then .follow else .participant,
       backend := if be = "bolt" then .bolt else .trimmed, rc := flag rc, rg := flag rg, fr := flag fr, lc := labels.contains "L=1",
       labels := parseLabels labels, nmax := nn.toNat?.getD 0 + 10, node := ⟨Stack.build chained base, [], []⟩ }, "ok")
  | "sync" :: upTo :: perm :: peers =>
    let r := sync s.cfg "self" 0 (upTo.toNat?.getD 0) false s.node (peersAt s.chained 0 perm peers)
    let res := match r.2.1 with | .ok => "ok" | .failedAll => "failed-all" | .cancelled => "cancelled"
    ({ s with node := r.1 }, report s s.node r.1 res r.2.2)
  | "resync" :: from_ :: to :: perm1 :: perm2 :: peers =>
    let r := reSync s.cfg "self" (from_.toNat?.getD 0) (to.toNat?.getD 0) false s.node
      (peersAt s.chained 0 perm1 peers) (peersAt s.chained 1 perm2 peers)
    let res := match r.2.1 with | .ok => "ok" | .failedAll => "failed-all" | .cancelled => "cancelled" | .invalid => "invalid"
    ({ s with node := r.1 }, report s s.node r.1 res r.2.2)
  | "correct" :: fb :: perm :: peers =>
    let env : Nat → List Peer × List Peer := fun _ => (peersAt s.chained 0 perm peers, peersAt s.chained 1 perm peers)
    let r := correctPast s.cfg "self" env s.node (parseRounds fb)
    let res := match r.2.1 with | .ok => "ok" | .errors k => s!"errors:{k}" | .cancelled => "cancelled"
    ({ s with node := r.1 }, report s s.node r.1 res r.2.2)
  | ["check", upTo] =>
    if viewLastErr s s.node.st.base then (s, "err") else
    let l := checkPast s.lc s.cfg.verify (viewGet s s.node.st.base) s.node.head (upTo.toNat?.getD 0)
    (s, "faulty=" ++ joinOr "." (l.map toString))
  | "follow" :: upTo :: attempts =>
    -- one token per loop iteration: perm;peer;peer… ; iteration k uses script k of every peer
    let atts := (attempts.zipIdx).map fun (a, k) => match a.splitOn ";" with
      | perm :: peers => peersAt s.chained k perm peers
      | [] => []
    let r := followLoop s.cfg "self" (upTo.toNat?.getD 0) s.node atts
    let res := match r.2 with | .done => "done" | .following => "following" | .cancelled => "cancelled" | .stuck => "stuck"
    ({ s with node := r.1 }, report s s.node r.1 res false)
  | ["raw", r, sg, pv] =>
    match parseBeacon r sg pv with
    | some b => ({ s with node := { s.node with st := s.node.st.rawPut b } }, "ok")
    | none => (s, "bad-op")
  | ["del", r] =>
    match r.toNat? with
    | some r => ({ s with node := { s.node with st := { s.node.st with base := Bolt.del s.node.st.base r } } }, "ok")
    | none => (s, "bad-op")
  -- `tear r`: the record of round r is cut in half on disk
  | ["tear", r] =>
    match r.toNat? with
    | some r =>
      match lookup r s.node.st.base with
      | some b => ({ s with node := { s.node with st := { s.node.st with base := insert r ⟨b.round, [4, UInt8.ofNat r], b.prev⟩ s.node.st.base } } }, "ok")
      | none => (s, "none")
    | none => (s, "bad-op")
  -- `relabel r j` (untrimmed format only): the round written inside the record of round r becomes j
  | ["relabel", r, j] =>
    match r.toNat?, j.toNat? with
    | some r, some j =>
      if s.backend != .bolt then (s, "unsupported") else
      match lookup r s.node.st.base with
      | some b => if isTorn b then (s, "none") else
        ({ s with node := { s.node with st := { s.node.st with base := insert r ⟨j, b.sig, b.prev⟩ s.node.st.base } } }, "ok")
      | none => (s, "none")
    | _, _ => (s, "bad-op")
  | ["scan", upTo] =>
    let rs := (List.range ((upTo.toNat?.getD 0) + 1)).filterMap fun r =>
      match viewGet s s.node.st.base r with
      | .ok b => some ((if b.round = r then s!"{r}" else s!"{r}={b.round}") ++ s!":{toHex b.sig}:{toHex b.prev}")
      | _ => none
    (s, s!"len={s.node.st.base.length} " ++ joinOr "," rs)
  | ["runinit", period] => ({ s with run := ⟨0, true⟩, runPeriod := period.toNat?.getD 1 }, s!"ok factor={Gen.syncExpiryFactor}")
  | ["req", now, last, upTo] =>
    let r := admitReq Gen.syncExpiryFactor s.runPeriod (now.toInt?.getD 0) s.run (last.toNat?.getD 0) (upTo.toNat?.getD 0)
    ({ s with run := r.1 }, match r.2 with | .filled => "filled" | .start => "start" | .ignore => "ignore")
  | ["ended"] => ({ s with run := s.run.finished }, "ok")
  | ["beacon", now] => ({ s with run := s.run.beacon (now.toInt?.getD 0) }, "ok")
  | ["admission", factor, period, now, lrt, alive, last, upTo] =>
    let rs : RunState := ⟨lrt.toInt?.getD 0, flag alive⟩
    let r := admitReq (factor.toNat?.getD 0) (period.toNat?.getD 0) (now.toInt?.getD 0) rs (last.toNat?.getD 0) (upTo.toNat?.getD 0)
    (s, match r.2 with | .filled => "filled" | .start => "start" | .ignore => "ignore")
  | _ => (s, "bad-op")

end Drand.Driver.SyncD