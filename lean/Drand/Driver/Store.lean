import Drand.Store.Mem
namespace Drand.Driver.StoreD
open Drand Drand.Store

inductive AnyStore where
  | bolt (s : BoltState)
  | trimmed (s : TrimmedState)
  | mem (s : MemState)

def storeInit (backend : String) : Option AnyStore :=
  if backend = "bolt" then some (.bolt [])
  else if backend = "trimmed" then some (.trimmed ⟨false, []⟩)
  else if backend = "trimmedprev" then some (.trimmed ⟨true, []⟩)
  else if backend.startsWith "mem" then
    match (backend.drop 3).toString.toNat? with
    | some c => some (.mem ⟨c, []⟩)
    | none => none
  else none

def parseBeacon (r s p : String) : Option Beacon :=
  match r.toNat?, fromHex s, fromHex p with
  | some r, some s, some p => some ⟨r, s, p⟩
  | _, _, _ => none

def AnyStore.put (st : AnyStore) (b : Beacon) : AnyStore :=
  match st with
  | .bolt s => .bolt (Bolt.put s b)
  | .trimmed s => .trimmed (Trimmed.put s b)
  | .mem s => .mem (Mem.put s b)

def AnyStore.del (st : AnyStore) (r : Nat) : AnyStore :=
  match st with
  | .bolt s => .bolt (Bolt.del s r)
  | .trimmed s => .trimmed (Trimmed.del s r)
  | .mem s => .mem (Mem.del s r)

def parseCurOp (t : String) : Option CurOp :=
  if t = "first" then some .first else if t = "next" then some .next else if t = "last" then some .last
  else match t.splitOn ":" with
    | ["seek", r] => r.toNat?.map .seek
    | _ => none

/-- a cursor session: tokens are cursor ops, or (memdb only) `put:r:sig:prev` / `del:r` mutations
interleaved with the open cursor. -/
def cursorSession (st : AnyStore) (toks : List String) : AnyStore × String :=
  match st with
  | .bolt s =>
    let (_, outs) := toks.foldl (fun (acc : Cursor Beacon × List String) t =>
      match parseCurOp t with
      | some op => let (c', r) := Bolt.cursorStep acc.1 op; (c', r.show :: acc.2)
      | none => (acc.1, "bad-op" :: acc.2)) (⟨s, none⟩, [])
    (st, "|".intercalate outs.reverse)
  | .trimmed s =>
    let (_, outs) := toks.foldl (fun (acc : Cursor Bytes × List String) t =>
      match parseCurOp t with
      | some op => let (c', r) := Trimmed.cursorStep s.requiresPrevious acc.1 op; (c', r.show :: acc.2)
      | none => (acc.1, "bad-op" :: acc.2)) (⟨s.kv, none⟩, [])
    (st, "|".intercalate outs.reverse)
  | .mem s =>
    let (s', _, outs) := toks.foldl (fun (acc : MemState × Nat × List String) t =>
      let (m, pos, o) := acc
      match parseCurOp t with
      | some op => let (p', r) := Mem.cursorStep m pos op; (m, p', r.show :: o)
      | none =>
        match t.splitOn ":" with
        | ["put", r, sg, pv] =>
          match parseBeacon r sg pv with
          | some b => (Mem.put m b, pos, "ok" :: o)
          | none => (m, pos, "bad-op" :: o)
        | ["del", r] =>
          match r.toNat? with
          | some r => (Mem.del m r, pos, "ok" :: o)
          | none => (m, pos, "bad-op" :: o)
        | _ => (m, pos, "bad-op" :: o)) (s, 0, [])
    (.mem s', "|".intercalate outs.reverse)

def storeStep (st : AnyStore) (f : List String) : AnyStore × String :=
  match f with
  | ["put", r, s, p] =>
    match parseBeacon r s p with
    | some b => (st.put b, "ok")
    | none => (st, "bad-op")
  | ["get", r] =>
    match r.toNat? with
    | some r => (st, match st with
      | .bolt s => (Bolt.get s r).show
      | .trimmed s => (Trimmed.get s r).show
      | .mem s => (Mem.get s r).show)
    | none => (st, "bad-op")
  | ["last"] => (st, match st with
      | .bolt s => (Bolt.last s).show
      | .trimmed s => (Trimmed.last s).show
      | .mem s => (Mem.last s).show)
  | ["del", r] =>
    match r.toNat? with
    | some r => (st.del r, "ok")
    | none => (st, "bad-op")
  | ["len"] => (st, match st with
      | .bolt s => toString (Bolt.len s)
      | .trimmed s => toString (Trimmed.len s)
      | .mem s => toString (Mem.len s))
  | "cur" :: toks => cursorSession st toks
  | ["reset"] => (match st with
      | .bolt _ => .bolt []
      | .trimmed s => .trimmed ⟨s.requiresPrevious, []⟩
      | .mem s => .mem ⟨s.cap, []⟩, "ok")
  | _ => (st, "bad-op")

end Drand.Driver.StoreD