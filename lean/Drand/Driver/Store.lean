import Drand.Store.Mem
import Drand.Store.Hold
namespace Drand.Driver.StoreD
open Drand Drand.Store

inductive AnyStore where
  | bolt (s : BoltState)
  | trimmed (s : TrimmedState)
  | mem (s : MemState)

def anyInit (backend : String) : Option AnyStore :=
  if backend = "bolt" then some (.bolt [])
  else if backend = "trimmed" then some (.trimmed ⟨false, []⟩)
  else if backend = "trimmedprev" then some (.trimmed ⟨true, []⟩)
  else if backend.startsWith "mem" then
    match (backend.drop 3).toString.toNat? with
    | some c => some (.mem ⟨c, []⟩)
    | none => none
  else none

def parseBeacon (r s p : String) : Option Beacon :=
  match r.toNat?, fromHex s, fromHex p with
  | some r, some s, some p => some ⟨r, s, p⟩
  | _, _, _ => none

def AnyStore.put (st : AnyStore) (b : Beacon) : AnyStore :=
  match st with
  | .bolt s => .bolt (Bolt.put s b)
  | .trimmed s => .trimmed (Trimmed.put s b)
  | .mem s => .mem (Mem.put s b)

def AnyStore.del (st : AnyStore) (r : Nat) : AnyStore :=
  match st with
  | .bolt s => .bolt (Bolt.del s r)
  | .trimmed s => .trimmed (Trimmed.del s r)
  | .mem s => .mem (Mem.del s r)

def parseCurOp (t : String) : Option CurOp :=
  if t = "first" then some .first else if t = "next" then some .next else if t = "last" then some .last
  else match t.splitOn ":" with
    | ["seek", r] => r.toNat?.map .seek
    | _ => none

/-- a cursor session: tokens are cursor ops, or (memdb only) `put:r:sig:prev` / `del:r` mutations
interleaved with the open cursor. -/
def cursorSession (st : AnyStore) (toks : List String) : AnyStore × String :=
  match st with
  | .bolt s =>
    -- `cancel`: the session's context is cancelled; every later move answers the context error without moving
    let (_, _, outs) := toks.foldl (fun (acc : Cursor Beacon × Bool × List String) t =>
      let (c, dead, o) := acc
      if t = "cancel" then (c, true, "ok" :: o) else
      match parseCurOp t with
      | some op => if dead then (c, dead, "cancelled" :: o) else let (c', r) := Bolt.cursorStep c op; (c', dead, r.show :: o)
      | none => (c, dead, "bad-op" :: o)) (⟨s, none⟩, false, [])
    (st, "|".intercalate outs.reverse)
  | .trimmed s =>
    let (_, _, outs) := toks.foldl (fun (acc : Cursor Bytes × Bool × List String) t =>
      let (c, dead, o) := acc
      if t = "cancel" then (c, true, "ok" :: o) else
      match parseCurOp t with
      | some op => if dead then (c, dead, "cancelled" :: o) else
          let (c', r) := Trimmed.cursorStep s.requiresPrevious c op; (c', dead, r.show :: o)
      | none => (c, dead, "bad-op" :: o)) (⟨s.kv, none⟩, false, [])
    (st, "|".intercalate outs.reverse)
  | .mem s =>
    let (s', _, outs) := toks.foldl (fun (acc : MemState × Nat × List String) t =>
      let (m, pos, o) := acc
      if t = "cancel" then (m, pos, "ok" :: o) else     -- memdb never looks at the context
      match parseCurOp t with
      | some op => let (p', r) := Mem.cursorStep m pos op; (m, p', r.show :: o)
      | none =>
        match t.splitOn ":" with
        | ["put", r, sg, pv] =>
          match parseBeacon r sg pv with
          | some b => (Mem.put m b, pos, "ok" :: o)
          | none => (m, pos, "bad-op" :: o)
        | ["del", r] =>
          match r.toNat? with
          | some r => (Mem.del m r, pos, "ok" :: o)
          | none => (m, pos, "bad-op" :: o)
        | _ => (m, pos, "bad-op" :: o)) (s, 0, [])
    (.mem s', "|".intercalate outs.reverse)

def coreStep (st : AnyStore) (f : List String) : AnyStore × String :=
  match f with
  | ["put", r, s, p] =>
    match parseBeacon r s p with
    | some b => (st.put b, "ok")
    | none => (st, "bad-op")
  | ["get", r] =>
    match r.toNat? with
    | some r => (st, match st with
      | .bolt s => (Bolt.get s r).show
      | .trimmed s => (Trimmed.get s r).show
      | .mem s => (Mem.get s r).show)
    | none => (st, "bad-op")
  | ["last"] => (st, match st with
      | .bolt s => (Bolt.last s).show
      | .trimmed s => (Trimmed.last s).show
      | .mem s => (Mem.last s).show)
  | ["del", r] =>
    match r.toNat? with
    | some r => (st.del r, "ok")
    | none => (st, "bad-op")
  | ["len"] => (st, match st with
      | .bolt s => toString (Bolt.len s)
      | .trimmed s => toString (Trimmed.len s)
      | .mem s => toString (Mem.len s))
  | "cur" :: toks => cursorSession st toks
  | ["reset"] => (match st with
      | .bolt _ => .bolt []
      | .trimmed s => .trimmed ⟨s.requiresPrevious, []⟩
      | .mem s => .mem ⟨s.cap, []⟩, "ok")
  | _ => (st, "bad-op")

/-! ### values held by callers, cancelled contexts, Close, SaveTo -/

def AnyStore.isMem : AnyStore → Bool
  | .mem _ => true
  | _ => false

def readAny (st : AnyStore) (rq : ReadReq) : Read :=
  match st with
  | .bolt s => boltBackend.read s rq
  | .trimmed s => trimmedBackend.read s rq
  | .mem s => memBackend.read s rq

/-- the three back-end models behind one interface -/
def anyBackend : Backend AnyStore := { put := AnyStore.put, del := AnyStore.del, read := readAny }

structure StoreSt where
  h : Held AnyStore
  /-- bolt only: `Close` was called (memdb's `Close` is a no-op) -/
  closed : Bool := false

def storeInit (backend : String) : Option StoreSt := (anyInit backend).map fun st => { h := ⟨st, []⟩ }

def parseReadReq (f : List String) : Option ReadReq :=
  match f with
  | ["get", r] => r.toNat?.map .get
  | ["last"] => some .last
  | "cur" :: toks =>
    let ops := toks.filterMap parseCurOp
    if ops.length = toks.length ∧ ¬ toks.isEmpty then some (.cursor ops) else none
  | _ => none

/-- every record of the copy `SaveTo` wrote, read back through a store of the same format opened on the copy -/
def dumpAny (st : AnyStore) : Option String :=
  let fmt (l : List Beacon) := s!"n={l.length} " ++ (if l.isEmpty then "-" else "|".intercalate (l.map Beacon.show))
  match st with
  | .bolt s => some (fmt (s.map (·.2)))
  | .trimmed s => some (fmt (s.kv.map fun (k, sg) => ⟨k, sg, []⟩))
  | .mem _ => none

/-- does this op look at its context before doing anything? (bolt: every method but the trimmed `SaveTo`; memdb: none) -/
def checksCtx (st : AnyStore) (f : List String) : Bool :=
  match st, f with
  | .mem _, _ => false
  | .trimmed _, ["saveto"] => false
  | _, _ => true

def plainStep (s : StoreSt) (f : List String) : StoreSt × String :=
  let st := s.h.store
  let dead := s.closed && !st.isMem
  match f with
  | ["reset"] => let r := coreStep st f; ({ h := ⟨r.1, []⟩, closed := false }, r.2)
  | ["close"] => ({ s with closed := !st.isMem }, "ok")
  | "hold" :: k :: rest =>
    match k.toNat?, parseReadReq rest with
    | some k, some rq =>
      if dead then ({ s with h := { s.h with slots := (k, .noBeacon) :: s.h.slots } }, "err:closed")
      else
        let out := (coreStep st rest).2
        ({ s with h := Held.step anyBackend s.h (.hold k rq) }, out)
    | _, _ => (s, "bad-op")
  | ["cmp", k] =>
    match k.toNat? with
    | some k => (s, match s.h.slot k with | some (.ok b) => "same " ++ b.show | _ => "empty")
    | none => (s, "bad-op")
  | ["qput", _when, r, sg, pv, echo] =>
    match parseBeacon r sg pv with
    | some b =>
      let st' := anyBackend.putCtx st b (echo == "ok")
      let g := if dead then "err:closed" else (readAny st' (.get b.round)).show
      ({ s with h := { s.h with store := st' } }, s!"{echo} get={g}")
    | none => (s, "bad-op")
  | ["saveto"] =>
    match dumpAny st with
    | none => (s, "unsupported")
    | some d => (s, if dead then "err:closed" else d)
  | _ =>
    if dead then (s, if (coreStep st f).2 == "bad-op" then "bad-op" else "err:closed")
    else let r := coreStep st f; ({ s with h := { s.h with store := r.1 } }, r.2)

/-- `cx <op…>`: the op is called with a context that is already cancelled -/
def storeStep (s : StoreSt) (f : List String) : StoreSt × String :=
  match f with
  | "cx" :: op =>
    match op with
    | "hold" :: _ => (s, "bad-op")
    | "cx" :: _ => (s, "bad-op")
    | "qput" :: _ => (s, "bad-op")
    | ["cmp", _] => (s, "bad-op")
    | ["reset"] => (s, "bad-op")
    | ["close"] => (s, "bad-op")
    | _ => if checksCtx s.h.store op then (s, if (plainStep s op).2 == "bad-op" then "bad-op" else "cancelled") else plainStep s op
  | _ => plainStep s f

end Drand.Driver.StoreD
