/-
Driver of engine `httpw`: answers the op lines of harness/cmd/verifh/httpw.go from the model Drand/Http/Waiters.lean.
Each op is expanded into the schedule of atomic model events that the harness forces on the real handler (requests are
issued one at a time and run until they block; `gate` stops the watcher after its `wLock` step until `ungate`).
-/
import Drand.Http.Waiters
import Gen.HttpW

namespace Drand.Driver.HttpWD
open Drand.Http

/-! ### which variant of the two repaired places the source tree has (read off the regenerated facts) -/

def asIsRecv : List String := ["return r, nil"]
def fixedRecv : List String := ["if len(r) > 0 { return r, nil }"]
def asIsFail : List String := ["bh.pendingLk.Lock()", "bh.latestRound = 0", "bh.pendingLk.Unlock()"]
def fixedFail : List String :=
  ["bh.pendingLk.Lock()", "bh.latestRound = 0", "pending := bh.pending", "bh.pending = make([]chan []byte, 0)",
   "for _, waiter := range pending { waiter <- nil }", "bh.pendingLk.Unlock()"]

def srcEmptyFallsBack : Option Bool :=
  if Gen.HttpW.recvBranch = asIsRecv then some false else if Gen.HttpW.recvBranch = fixedRecv then some true else none
def srcFlushOnFail : Option Bool :=
  if Gen.HttpW.failRegion = asIsFail then some false else if Gen.HttpW.failRegion = fixedFail then some true else none

def srcCfg : Option Cfg :=
  match srcEmptyFallsBack, srcFlushOnFail with
  | some a, some b => some ⟨a, b⟩
  | _, _ => none

/-- every access to `DrandHandler.beacons` happens with `h.state` held -/
def srcBeaconsGuarded : Bool := Gen.HttpW.beaconsAccess.all fun a => a.2.2 != "none"

/-! ### the scripted world -/

def period : Nat := 3600
def t0 : Int := 2000000000

/-- "now" sits in the middle of round `cur` -/
def infoFor (cur : Nat) : Info := ⟨period, t0 - ((cur - 1 : Nat) : Int) * 3600 - 1800⟩

structure HwD where
  cfg : Cfg := .asIs
  s : State := {}
  ids : List (String × Nat) := []
  gate : Bool := false
  holding : Bool := false
  cur : Nat := 10
  over : List (Nat × Option Nat) := []
  head : Nat := 10
  infoFail : Bool := false
  tmode : Bool := false

/-- variant: `asis`, `fixed`, `src` (what the regenerated facts say), or `e<0|1>f<0|1>` (the two switches separately) -/
def hwInit (variant : String) : HwD :=
  { cfg := if variant == "fixed" then .fixed else if variant == "src" then (srcCfg.getD .asIs)
           else if variant == "e1f0" then ⟨true, false⟩ else if variant == "e0f1" then ⟨false, true⟩
           else if variant == "e1f1" then .fixed else .asIs }

def HwD.ev (d : HwD) (e : Ev) : HwD := { d with s := step d.cfg d.s e }
def HwD.evs (d : HwD) (es : List Ev) : HwD := es.foldl HwD.ev d

def infoAns (d : HwD) : Option Info := if d.infoFail then none else some (infoFor d.cur)

/-- what the fake client answers to `Get(round)` -/
def getAnswer (d : HwD) (round : Nat) : Option Beacon :=
  match d.over.find? (·.1 == round) with
  | some (_, some k) => some ⟨k, k⟩
  | some (_, none) => none
  | none => if round == 0 then some ⟨d.head, d.head⟩ else some ⟨round, round⟩

/-- one own step of request `id`, if one is enabled -/
def advance (d : HwD) (id : Nat) : Option HwD :=
  let r := d.s.reqs id
  let free := d.s.holder == .free
  match r.pc with
  | .eval1 => if free then some (d.ev (.eval1 id)) else none
  | .eval2 => if free then some (d.ev (.eval2 id)) else none
  | .parked =>
    if ((d.s.chans id).buf).isSome then some (d.ev (.recv id))
    else if r.cancelled then some (d.ev (.wake id)) else none
  | .cancelLock => if free then some (d.ev (.dereg id)) else none
  | .cancelDrain => some (d.ev (.drain id))
  | .cancelUnlock => some (d.ev (.cUnlock id))
  | .future =>
    if inFuture r.info r.round t0 && !free then none else some (d.ev (.futureChk id t0))
  | .getCall => some (d.ev (.getAns id (getAnswer d r.round)))
  | .closing _ => some (d.ev (.close id))
  | _ => none

def quiesce : Nat → HwD → HwD
  | 0, d => d
  | fuel + 1, d =>
    match d.ids.findSome? (fun p => advance d p.2) with
    | some d' => quiesce fuel d'
    | none => d

def settleAll (d : HwD) : HwD := quiesce (64 * (d.ids.length + 1)) d

/-- the watcher's notification loop to its end -/
def sendAll (d : HwD) : HwD :=
  (d.evs (List.replicate d.s.wlocal.length .wSend)).ev .wUnlock

def showAnswer (a : Answer) : String :=
  if a.status == 200 then
    match a.body with
    | none => "200 -"
    | some b => s!"200 b{b.round}" ++ (if b.sig == b.round then "" else "!sig")
  else s!"{a.status} -"

def isDone (d : HwD) (id : Nat) : Option Answer :=
  match (d.s.reqs id).pc with
  | .done a => some a
  | _ => none

def lookup (d : HwD) (name : String) : Option Nat := (d.ids.find? (·.1 == name)).map (·.2)

def u64max : Nat := 18446744073709551615

def hwStep (d : HwD) (ws : List String) : HwD × String :=
  match ws with
  | ["new"] => ({ cfg := d.cfg }, "ok")
  | ["new", m] => ({ cfg := d.cfg, tmode := m == "tmode" }, "ok")
  | ["srcvariant"] =>
    (d, (match srcCfg with
         | some c => if c == .asIs then "asis" else if c == .fixed then "fixed" else s!"mixed:{c.emptyFallsBack}:{c.flushOnFail}"
         | none => "unknown") ++ (if srcBeaconsGuarded then " chains=guarded" else " chains=unguarded"))
  | ["clock", c] =>
    match c.toNat? with
    | some c =>
      if c == 0 || c > 1099511627776 then (d, "refused") else
      let d := { d with cur := c }
      ({ d with s := { d.s with info := d.s.info.map fun _ => infoFor c } }, "ok")
    | none => (d, "refused")
  | ["req", name, r] =>
    match r.toNat? with
    | none => (d, "refused")
    | some r =>
      if r > u64max || r == 0 then (d, "refused") else
      if d.holding || (lookup d name).isSome then (d, "refused") else
      let id := d.ids.length + 1
      let d := { d with ids := d.ids ++ [(name, id)] }
      let d := settleAll (d.ev (.arrive id r t0 (infoAns d)))
      match isDone d id with
      | some a => (d, showAnswer a)
      | none => if d.s.pending.contains id then (d, "parked") else (d, "stuck")
  | ["reqraw", _, _] => (d, "raw")
  | ["cancel", name] =>
    match lookup d name with
    | none => (d, "unknown")
    | some id =>
      if (isDone d id).isSome then (d, "finished") else
      let d := settleAll (d.ev (.ctxCancel id))
      match isDone d id with
      | some a => (d, showAnswer a)
      | none => (d, if d.holding then "blocked" else "stuck")
  | ["reap", name] =>
    match lookup d name with
    | none => (d, "unknown")
    | some id =>
      match isDone d id with
      | some a => (d, showAnswer a)
      | none =>
        if d.holding then (d, "blocked")
        else if d.s.pending.contains id then (d, "parked") else (d, "stuck")
  | ["watch", n] =>
    match n.toNat? with
    | none => (d, "refused")
    | some n =>
      if n > u64max || d.holding then (d, "refused") else
      if !d.s.started then (d, "nostream") else
      let d := d.evs [.wDeliver ⟨n, n⟩, .wLock]
      if d.gate then ({ d with holding := true }, "gated")
      else (settleAll (sendAll d), "ok")
  | ["watchclose"] =>
    if d.holding || d.gate then (d, "refused") else
    if !d.s.started then (d, "nostream") else
    let d := d.evs [.wClosed, .wLock]
    let d := if d.s.wpc == .notifying then sendAll d else d
    (settleAll (d.evs [.wBackoffDone, .wResub]), "ok")
  | ["wtimeout"] =>
    if !d.tmode || d.holding then (d, "refused") else
    if !d.s.started then (d, "nostream") else
    (d.evs [.wTimeout, .wResub], "ok")
  | ["gate"] =>
    if d.holding || d.gate || !d.s.started then (d, "refused") else ({ d with gate := true }, "ok")
  | ["ungate"] =>
    if !d.holding then (d, "refused") else
    (settleAll { (sendAll d) with gate := false, holding := false }, "ok")
  | ["setget", r, spec] =>
    match r.toNat? with
    | none => (d, "refused")
    | some r =>
      if r > u64max then (d, "refused") else
      let rest := d.over.filter (·.1 != r)
      if spec == "std" then ({ d with over := rest }, "ok")
      else if spec == "err" then ({ d with over := (r, none) :: rest }, "ok")
      else if spec.startsWith "b" then
        match (spec.drop 1).toNat? with
        | some k => if k > u64max then (d, "refused") else ({ d with over := (r, some k) :: rest }, "ok")
        | none => (d, "refused")
      else (d, "refused")
  | ["sethead", k] =>
    match k.toNat? with
    | some k => if k > u64max then (d, "refused") else ({ d with head := k }, "ok")
    | none => (d, "refused")
  | ["infofail", m] => ({ d with infoFail := m == "on" }, "ok")
  | ["dropinfo"] => ({ d with s := { d.s with info := none } }, "ok")
  | ["health"] =>
    if d.holding then (d, "refused") else
    let d := d.ev .health
    let lastSeen := d.s.latest
    let (i, s1) := getChainInfo d.s (infoAns d)
    let d := { d with s := s1 }
    let (st, c, e) := healthAnswer lastSeen i t0
    (d, s!"{st} cur={c} exp={e}")
  | ["latest"] =>
    match getAnswer d 0 with
    | none => (d, "500 -")
    | some b =>
      let (i, s1) := getChainInfo d.s (infoAns d)
      ({ d with s := s1 }, showAnswer (latestRandAnswer (some b) i))
  | ["chains"] => (d, "200 []")
  | ["settle"] =>
    if d.s.holder != .free then (d, "pend=? latest=? lock=held state=free info=free")
    else (d, s!"pend={d.s.pending.length} latest={d.s.latest} lock=free state=free info=free")
  | ["race", k, _] =>
    match k.toNat? with
    | none => (d, "refused")
    | some k =>
      if d.holding || d.gate || !d.s.started || d.s.latest == 0 || k == 0 || k > 64 then (d, "refused") else
      let n := (d.s.latest + 1) % two64
      let d := d.evs [.wDeliver ⟨n, n⟩, .wLock]
      (settleAll (sendAll d), "race-ok")
  | ["chainsrace", _, _] => (d, "ok")
  | _ => (d, "bad-op")

end Drand.Driver.HttpWD
