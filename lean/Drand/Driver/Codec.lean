/-
Driver for the `codec` engine (C20): reads the reflective field dumps the harness prints
(`Path.To.Field=value` tokens), runs the model's encode→decode, prints the dump of the model's result.
Leaves that the model keeps abstract come from labels on the op line:
  @ghash=<hex>            Group.Hash() of the value before encoding
  @chash=<hex>            Info.Hash()
  @inv=<hex>,<hex>…       byte strings that are NOT valid points/scalars (under any scheme)
  @inv:<schemehex>=<hex>… byte strings that are not valid points under that scheme (the harness asked kyber)
  @badaddr=<tok>,…        address tokens net.SplitHostPort rejects
  @dur:<tok>=<ns>         what time.ParseDuration makes of a duration string of a mirror
-/
import Drand.Codec.Mirror
import Drand.Driver.Hash
namespace Drand.Driver.CodecD
open Drand.Driver.HashD
open Drand Drand.Codec

abbrev Dump := List (String × String)

def splitEq (s : String) : String × String :=
  let cs := s.toList
  (String.ofList (cs.takeWhile (· ≠ '=')), String.ofList ((cs.dropWhile (· ≠ '=')).drop 1))

def parseTokens (ws : List String) : Dump := ws.map splitEq

def dget (d : Dump) (k : String) : Option String := (d.find? (·.1 == k)).map (·.2)

def pfx (p k : String) : String := if p = "" then k else p ++ "." ++ k

def isNil (d : Dump) (k : String) : Bool := dget d k == some "nil"

def getBytes (d : Dump) (k : String) : Option Bytes :=
  match dget d k with
  | none => none
  | some s => if s = "nil" then some [] else fromHex s

def getOptBytes (d : Dump) (k : String) : Option (Option Bytes) :=
  match dget d k with
  | none => none
  | some s => if s = "nil" then some none else (fromHex s).map some

def strOfBytes (b : Bytes) : String := String.ofList (b.map fun x => Char.ofNat x.toNat)
def hexOfStr (s : String) : String := toHex s.toUTF8.toList

def getStr (d : Dump) (k : String) : Option String := (getBytes d k).map strOfBytes
/-- raw token, "-" is the empty string -/
def getTok (d : Dump) (k : String) : Option String := (dget d k).map fun s => if s = "-" then "" else s
def getInt (d : Dump) (k : String) : Option Int := (dget d k).bind String.toInt?
def getNat (d : Dump) (k : String) : Option Nat := (dget d k).bind String.toNat?

def getList {α : Type} (f : String → Option α) (d : Dump) (p : String) : Option (List α) :=
  match getNat d (p ++ ".len") with
  | none => none
  | some n => (List.range n).mapM fun i => f (p ++ "." ++ toString i)

def csv (s : String) : List String := if s = "" then [] else s.splitOn ","

def driverLeaf (d : Dump) : Leaf :=
  let inv : List Bytes := ((dget d "@inv").map fun s => (csv s).filterMap fromHex).getD []
  let invFor : String → List Bytes := fun sch =>
    ((dget d ("@inv:" ++ hexOfStr sch)).map fun s => (csv s).filterMap fromHex).getD []
  let badaddr : List String := ((dget d "@badaddr").map csv).getD []
  let gh : Bytes := ((dget d "@ghash").bind fromHex).getD []
  let ch : Bytes := ((dget d "@chash").bind fromHex).getD []
  { hexEnc := hexEncC, hexDec := hexDecC,
    durEnc := fun x => toString x,
    durDec := fun s => match dget d ("@dur:" ++ s) with
      | some v => v.toInt?
      | none => s.toInt?,
    pointOk := fun sch b => !inv.contains b && !(invFor sch).contains b,
    scalarOk := fun sch b => !inv.contains b && !(invFor sch).contains b,
    addrOk := fun a => !badaddr.contains a,
    gHash := fun _ => gh, cHash := fun _ => ch }

/-! ### parsing values -/

def pIdentity (d : Dump) (p : String) : Option Identity := do
  let key ← getBytes d (pfx p "Key")
  let addr ← getTok d (pfx p "Addr")
  let sig ← getBytes d (pfx p "Signature")
  let sch ← if isNil d (pfx p "Scheme") then some none else (getStr d (pfx p "Scheme")).map some
  pure ⟨key, addr, sig, sch⟩

def pNode (d : Dump) (p : String) : Option Node := do
  let i ← pIdentity d (pfx p "Identity")
  let idx ← getNat d (pfx p "Index")
  pure ⟨i, idx⟩

def pGroup (d : Dump) (p : String) : Option Group := do
  let thr ← getInt d (pfx p "Threshold")
  let period ← getInt d (pfx p "Period")
  let scheme ← getStr d (pfx p "Scheme")
  if isNil d (pfx p "Scheme") then none
  let id ← getBytes d (pfx p "ID")
  let catchup ← getInt d (pfx p "CatchupPeriod")
  let nodes ← getList (pNode d) d (pfx p "Nodes")
  let gt ← getInt d (pfx p "GenesisTime")
  let seed ← getOptBytes d (pfx p "GenesisSeed")
  let tt ← getInt d (pfx p "TransitionTime")
  let pk ← if isNil d (pfx p "PublicKey") then some none
           else (getList (getBytes d) d (pfx p "PublicKey.Coefficients")).map some
  pure { threshold := thr, period := period, scheme := scheme, id := id, catchup := catchup, nodes := nodes,
         genesisTime := gt, genesisSeed := seed, transitionTime := tt, publicKey := pk }

def pShare (d : Dump) (p : String) : Option Share := do
  let commits ← getList (getBytes d) d (pfx p "DistKeyShare.Commits")
  if isNil d (pfx p "DistKeyShare.Share") then none
  let i ← getInt d (pfx p "DistKeyShare.Share.I")
  let v ← getBytes d (pfx p "DistKeyShare.Share.V")
  let sch ← getStr d (pfx p "Scheme")
  if isNil d (pfx p "Scheme") then none
  pure ⟨commits, i, v, sch⟩

def pPair (d : Dump) (p : String) : Option Pair := do
  let k ← getBytes d (pfx p "Key")
  let i ← pIdentity d (pfx p "Public")
  pure ⟨k, i⟩

def pInfo (d : Dump) (p : String) : Option Info := do
  let pk ← getBytes d (pfx p "PublicKey")
  let id ← getBytes d (pfx p "ID")
  let period ← getInt d (pfx p "Period")
  let sch ← getStr d (pfx p "Scheme")
  let gt ← getInt d (pfx p "GenesisTime")
  let seed ← getBytes d (pfx p "GenesisSeed")
  pure ⟨pk, id, period, sch, gt, seed⟩

def pBeacon (d : Dump) (p : String) : Option Beacon := do
  let prev ← getBytes d (pfx p "PreviousSig")
  let r ← getNat d (pfx p "Round")
  let s ← getBytes d (pfx p "Signature")
  pure { round := r, sig := s, prev := prev }

def pTime (d : Dump) (p : String) : Option GoTime := do
  let u ← getInt d (p ++ ".unix")
  let n ← getInt d (p ++ ".nsec")
  let o ← getInt d (p ++ ".off")
  pure ⟨u * 1000000000 + n, o⟩

def pParticipant (d : Dump) (p : String) : Option Participant := do
  let a ← getTok d (pfx p "Address")
  let k ← getBytes d (pfx p "Key")
  let s ← getBytes d (pfx p "Signature")
  pure ⟨a, k, s⟩

def pState (d : Dump) (p : String) : Option DBState := do
  let bid ← getBytes d (pfx p "BeaconID")
  let epoch ← getNat d (pfx p "Epoch")
  let st ← getNat d (pfx p "State")
  let thr ← getNat d (pfx p "Threshold")
  let timeout ← pTime d (pfx p "Timeout")
  let sch ← getStr d (pfx p "SchemeID")
  let gt ← pTime d (pfx p "GenesisTime")
  let seed ← getBytes d (pfx p "GenesisSeed")
  let cp ← getInt d (pfx p "CatchupPeriod")
  let bp ← getInt d (pfx p "BeaconPeriod")
  let leader ← if isNil d (pfx p "Leader") then some none else (pParticipant d (pfx p "Leader")).map some
  let remaining ← getList (pParticipant d) d (pfx p "Remaining")
  let joining ← getList (pParticipant d) d (pfx p "Joining")
  let leaving ← getList (pParticipant d) d (pfx p "Leaving")
  let acceptors ← getList (pParticipant d) d (pfx p "Acceptors")
  let rejectors ← getList (pParticipant d) d (pfx p "Rejectors")
  let fg ← if isNil d (pfx p "FinalGroup") then some none else (pGroup d (pfx p "FinalGroup")).map some
  let ks ← if isNil d (pfx p "KeyShare") then some none else (pShare d (pfx p "KeyShare")).map some
  pure { beaconID := bid, epoch := epoch, state := st, threshold := thr, timeout := timeout, schemeID := sch,
         genesisTime := gt, genesisSeed := seed, catchupPeriod := cp, beaconPeriod := bp, leader := leader,
         remaining := remaining, joining := joining, leaving := leaving, acceptors := acceptors,
         rejectors := rejectors, finalGroup := fg, keyShare := ks }

/-! ### parsing mirrors (decode-only ops) -/

def pPublicTOML (d : Dump) (p : String) : Option PublicTOML := do
  let a ← getTok d (pfx p "Address")
  let k ← getStr d (pfx p "Key")
  let s ← getStr d (pfx p "Signature")
  let n ← getStr d (pfx p "SchemeName")
  pure ⟨a, k, s, n⟩

def pGroupTOML (d : Dump) : Option GroupTOML := do
  let thr ← getInt d "Threshold"
  let period ← getTok d "Period"
  let catchup ← getTok d "CatchupPeriod"
  let nodes ← getList (fun p => do
      if isNil d (p ++ ".PublicTOML") then none
      let pub ← pPublicTOML d (p ++ ".PublicTOML")
      let idx ← getNat d (p ++ ".Index")
      pure (⟨pub, idx⟩ : NodeTOML)) d "Nodes"
  let gt ← getInt d "GenesisTime"
  let tt ← getInt d "TransitionTime"
  let seed ← getStr d "GenesisSeed"
  let pk ← if isNil d "PublicKey" then some none else (getList (getStr d) d "PublicKey.Coefficients").map some
  let sch ← getStr d "SchemeID"
  let id ← getBytes d "ID"
  pure { threshold := thr, period := period, catchupPeriod := catchup, nodes := nodes, genesisTime := gt,
         transitionTime := tt, genesisSeed := seed, publicKey := pk, schemeID := sch, id := id }

def pGroupPacket (d : Dump) : Option GroupPacket := do
  let nodes ← getList (fun p => do
      if isNil d (p ++ ".Public") then none
      let a ← getTok d (p ++ ".Public.Address")
      let k ← getBytes d (p ++ ".Public.Key")
      let s ← getBytes d (p ++ ".Public.Signature")
      let idx ← getNat d (p ++ ".Index")
      pure (⟨⟨a, k, s⟩, idx⟩ : PNode)) d "Nodes"
  let thr ← getNat d "Threshold"
  let period ← getNat d "Period"
  let gt ← getNat d "GenesisTime"
  let tt ← getNat d "TransitionTime"
  let seed ← getBytes d "GenesisSeed"
  let dk ← getList (getBytes d) d "DistKey"
  let cp ← getNat d "CatchupPeriod"
  let sch ← getStr d "SchemeID"
  let bid ← if isNil d "Metadata" then some [] else getBytes d "Metadata.BeaconID"
  pure { nodes := nodes, threshold := thr, period := period, genesisTime := gt, transitionTime := tt,
         genesisSeed := seed, distKey := dk, catchupPeriod := cp, schemeID := sch, beaconID := bid }

/-! ### printing -/

def kv (k v : String) : String := k ++ "=" ++ v

def sIdentity (p : String) (i : Identity) : List String :=
  [kv (pfx p "Key") (toHex i.key), kv (pfx p "Addr") (if i.addr = "" then "-" else i.addr),
   kv (pfx p "Signature") (toHex i.sig),
   kv (pfx p "Scheme") (match i.scheme with | none => "nil" | some s => hexOfStr s)]

def sList {α : Type} (f : String → α → List String) (p : String) (l : List α) : List String :=
  kv (p ++ ".len") (toString l.length) ::
    (l.zipIdx.flatMap fun (a, i) => f (p ++ "." ++ toString i) a)

def sNode (p : String) (n : Node) : List String :=
  sIdentity (pfx p "Identity") n.ident ++ [kv (pfx p "Index") (toString n.index)]

def sGroup (p : String) (g : Group) : List String :=
  [kv (pfx p "Threshold") (toString g.threshold), kv (pfx p "Period") (toString g.period),
   kv (pfx p "Scheme") (hexOfStr g.scheme), kv (pfx p "ID") (toHex g.id),
   kv (pfx p "CatchupPeriod") (toString g.catchup)] ++
  sList sNode (pfx p "Nodes") g.nodes ++
  [kv (pfx p "GenesisTime") (toString g.genesisTime),
   kv (pfx p "GenesisSeed") (match g.genesisSeed with | none => "nil" | some s => toHex s),
   kv (pfx p "TransitionTime") (toString g.transitionTime)] ++
  (match g.publicKey with
   | none => [kv (pfx p "PublicKey") "nil"]
   | some cs => sList (fun q c => [kv q (toHex c)]) (pfx p "PublicKey.Coefficients") cs)

def sShare (p : String) (s : Share) : List String :=
  sList (fun q c => [kv q (toHex c)]) (pfx p "DistKeyShare.Commits") s.commits ++
  [kv (pfx p "DistKeyShare.Share.I") (toString s.shareI), kv (pfx p "DistKeyShare.Share.V") (toHex s.shareV),
   kv (pfx p "Scheme") (hexOfStr s.scheme)]

def sPair (p : String) (x : Pair) : List String :=
  kv (pfx p "Key") (toHex x.key) :: sIdentity (pfx p "Public") x.pub

def sInfo (p : String) (i : Info) : List String :=
  [kv (pfx p "PublicKey") (toHex i.publicKey), kv (pfx p "ID") (toHex i.id), kv (pfx p "Period") (toString i.period),
   kv (pfx p "Scheme") (hexOfStr i.scheme), kv (pfx p "GenesisTime") (toString i.genesisTime),
   kv (pfx p "GenesisSeed") (toHex i.genesisSeed)]

def sBeacon (p : String) (b : Beacon) : List String :=
  [kv (pfx p "PreviousSig") (toHex b.prev), kv (pfx p "Round") (toString b.round), kv (pfx p "Signature") (toHex b.sig)]

def sTime (p : String) (t : GoTime) : List String :=
  [kv (p ++ ".unix") (toString (t.ns / 1000000000)), kv (p ++ ".nsec") (toString (t.ns % 1000000000)),
   kv (p ++ ".off") (toString t.off)]

def sParticipant (p : String) (x : Participant) : List String :=
  [kv (pfx p "Address") (if x.address = "" then "-" else x.address), kv (pfx p "Key") (toHex x.key),
   kv (pfx p "Signature") (toHex x.signature)]

def sState (p : String) (s : DBState) : List String :=
  [kv (pfx p "BeaconID") (toHex s.beaconID), kv (pfx p "Epoch") (toString s.epoch), kv (pfx p "State") (toString s.state),
   kv (pfx p "Threshold") (toString s.threshold)] ++ sTime (pfx p "Timeout") s.timeout ++
  [kv (pfx p "SchemeID") (hexOfStr s.schemeID)] ++ sTime (pfx p "GenesisTime") s.genesisTime ++
  [kv (pfx p "GenesisSeed") (toHex s.genesisSeed), kv (pfx p "CatchupPeriod") (toString s.catchupPeriod),
   kv (pfx p "BeaconPeriod") (toString s.beaconPeriod)] ++
  (match s.leader with | none => [kv (pfx p "Leader") "nil"] | some l => sParticipant (pfx p "Leader") l) ++
  sList sParticipant (pfx p "Remaining") s.remaining ++ sList sParticipant (pfx p "Joining") s.joining ++
  sList sParticipant (pfx p "Leaving") s.leaving ++ sList sParticipant (pfx p "Acceptors") s.acceptors ++
  sList sParticipant (pfx p "Rejectors") s.rejectors ++
  (match s.finalGroup with | none => [kv (pfx p "FinalGroup") "nil"] | some g => sGroup (pfx p "FinalGroup") g) ++
  (match s.keyShare with | none => [kv (pfx p "KeyShare") "nil"] | some k => sShare (pfx p "KeyShare") k)

def showRes {α : Type} (f : α → List String) (extra : α → List String) : Dec α → String
  | .error e => "err:" ++ e.name
  | .ok a => " ".intercalate ("ok" :: f a ++ extra a)

/-! ### ops -/

def codecStep (ws : List String) : String :=
  match ws with
  | "rt" :: codec :: rest =>
    let d := parseTokens rest
    let L := driverLeaf d
    let bad := "bad-op"
    match codec with
    | "group-toml" | "group-file" =>
      match pGroup d "" with
      | none => bad
      | some g => showRes (sGroup "") (fun g' => [kv "equal" (toString (g.equal L g'))]) (Group.fromTOML L (g.toTOML L))
    | "group-proto" | "group-proto-target" =>
      match pGroup d "" with
      | none => bad
      | some g =>
        let target := if codec = "group-proto-target" then some g.scheme else none
        showRes (sGroup "") (fun g' => [kv "equal" (toString (g.equal L g'))]) (Group.fromProto false L (g.toProto L) target)
    | "identity-toml" =>
      match pIdentity d "" with
      | none => bad
      | some i => showRes (sIdentity "") (fun i' => [kv "equal" (toString (i.equal i'))])
          (Identity.fromTOML L Identity.zero (i.toTOML L))
    | "identity-proto" =>
      match pIdentity d "" with
      | none => bad
      | some i => showRes (sIdentity "") (fun i' => [kv "equal" (toString (i.equal i'))])
          (identityFromProto L i.toProto i.scheme)
    | "share-toml" | "share-file" =>
      match pShare d "" with
      | none => bad
      | some s => showRes (sShare "") (fun _ => []) (Share.fromTOML L (s.toTOML L))
    | "pair-file" =>
      match pPair d "" with
      | none => bad
      | some p => showRes (sPair "") (fun _ => []) (loadKeyPair L (saveKeyPair L p))
    | "info-json" =>
      match pInfo d "" with
      | none => bad
      | some i => showRes (sInfo "") (fun i' => [kv "equal" (toString (i.equal i'))])
          (Info.unmarshalJSON L (jsonWire (i.marshalJSON L)))
    | "info-proto" | "info-hexjson" =>
      match pInfo d "" with
      | none => bad
      | some i => showRes (sInfo "") (fun i' => [kv "equal" (toString (i.equal i'))]) (infoFromProto L (i.toProto L))
    | "beacon-json" =>
      match pBeacon d "" with
      | none => bad
      | some b => showRes (sBeacon "") (fun b' => [kv "equal" (toString (b == b'))]) (beaconFromJSON L (beaconToJSON L b))
    | "beacon-proto" =>
      match pBeacon d "" with
      | none => bad
      | some b => showRes (sBeacon "") (fun b' => [kv "equal" (toString (b == b'))])
          (.ok (protoToBeacon (beaconToProto b [])))
    | "dbstate-toml" | "dbstate-bolt-current" | "dbstate-bolt-finished" =>
      match pState d "" with
      | none => bad
      | some s => showRes (sState "") (fun s' => [kv "equals" (toString (s.equals L s'))])
          (DBStateTOML.fromTOML L (s.toTOML L))
    | _ => bad
  | "dec" :: codec :: rest =>
    let d := parseTokens rest
    let L := driverLeaf d
    match codec with
    | "group-toml" =>
      match pGroupTOML d with
      | none => "bad-op"
      | some gt => showRes (sGroup "") (fun _ => []) (Group.fromTOML L gt)
    | "group-proto" | "group-proto!" =>
      match pGroupPacket d with
      | none => "bad-op"
      | some p =>
        let target := if isNil d "target" then none else getStr d "target"
        showRes (sGroup "") (fun _ => []) (Group.fromProto (codec = "group-proto!") L p target)
    | _ => "bad-op"
  | _ => "bad-op"

end Drand.Driver.CodecD