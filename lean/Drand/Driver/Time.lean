import Drand.Time
namespace Drand.Driver.TimeD
open Drand.Time

def timeStep (f : List String) : String :=
  match f with
  | ["tor", p, g, r] =>
    match p.toNat?, g.toInt?, r.toNat? with
    | some p, some g, some r => toString (timeOfRoundM p g r)
    | _, _, _ => "bad-op"
  | ["date", p, g, r] =>     -- handler/http dateOfRound = time.Unix(TimeOfRound …)
    match p.toNat?, g.toInt?, r.toNat? with
    | some p, some g, some r => toString (timeOfRoundM p g r)
    | _, _, _ => "bad-op"
  | ["next", now, p, g] =>
    match now.toInt?, p.toNat?, g.toInt? with
    | some now, some p, some g => let (a, b) := nextRoundM now p g; s!"{a} {b}"
    | _, _, _ => "bad-op"
  | ["cur", now, p, g] =>
    match now.toInt?, p.toNat?, g.toInt? with
    | some now, some p, some g => toString (currentRoundM now p g)
    | _, _, _ => "bad-op"
  | _ => "bad-op"

end Drand.Driver.TimeD