import Drand.Secrecy
namespace Drand.Driver.SecrecyD
open Drand Drand.Secrecy

def parseOctal (s : String) : Option Nat :=
  if s.isEmpty then none else
  s.toList.foldl (fun acc c => match acc with
    | none => none
    | some n => if '0' ≤ c ∧ c ≤ '7' then some (n * 8 + (c.toNat - 48)) else none) (some 0)

def showOctalAux : Nat → Nat → List Char → List Char
  | 0, _, acc => acc
  | fuel + 1, n, acc => if n < 8 then Char.ofNat (48 + n) :: acc else showOctalAux fuel (n / 8) (Char.ofNat (48 + n % 8) :: acc)

def showOctal (n : Nat) : String := String.ofList (showOctalAux 32 n [])

def showFileSt (old new : Bytes) (f : FileSt) : String :=
  if !f.present then "-" else
  showOctal f.mode ++ ":" ++ (if f.content.isEmpty then "empty" else if f.content == new then "new" else if f.content == old then "old" else "other")

def parsePre (s : String) (old : Bytes) : Option FileSt :=
  if s = "-" then some noFile else (parseOctal s).map fun m => ⟨true, m, old⟩

/-- ops:
  save <secure 0|1> <umask-octal> <target mode|-> <tmp mode|->
                                 → the states "target|tmp" both files go through while the tree's `key.Save` runs
                                   (variant from Gen.saveRenamesOverTarget), consecutive duplicates removed
  file <class> <umask-octal>     → "<mode-octal> secret|public"   (the model's file table for the code as it is)
  chan <label>                   → pub | sign | dkg | mixed | unknown-channel
  scan <secret-hex> <blob-hex>   → clean | leak:<encoding> -/
def secrecyStep (f : List String) : String :=
  match f with
  | ["save", sec, um, tg, tm] =>
    let old : Bytes := [1]
    let new : Bytes := [2]
    match parseOctal um, parsePre tg old, parsePre tm old with
    | some u, some t0, some m0 =>
      let states := ⟨t0, m0⟩ :: traceS u ⟨t0, m0⟩ (codeSaveProtocol (sec = "1") new)
      let shown := states.map fun st => showFileSt old new st.target ++ "|" ++ showFileSt old new st.tmp
      let dedup := shown.foldl (fun acc x => if acc.getLast? == some x then acc else acc ++ [x]) ([] : List String)
      (if Gen.saveRenamesOverTarget then "rename " else "inplace ") ++ " ".intercalate dedup
    | _, _, _ => "bad-op"
  | ["file", cls, um] =>
    match parseOctal um, files.find? (·.name == cls) with
    | some u, some fc => showOctal (modeAfter fc.creator u) ++ " " ++ (if fc.holdsSecret then "secret" else "public")
    | none, _ => "bad-op"
    | _, none => "unknown-file"
  | ["chan", label] =>
    match findChan label with
    | some c => c.kind.show
    | none => "unknown-channel"
  | ["scan", s, b] =>
    match fromHex s, fromHex b with
    | some s, some b =>
      if s.isEmpty then "bad-op" else
      match leak s b with
      | some e => "leak:" ++ e
      | none => "clean"
    | _, _ => "bad-op"
  | _ => "bad-op"

end Drand.Driver.SecrecyD