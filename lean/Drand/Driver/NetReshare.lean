/-
Driver for the resharing model (engine `net` scripts with reshare ops; driver name `netr`, C03 C05 C07).

ops (the script lines of the harness; hints `e=` are ignored):
  init <n> <thr> <k> [idx=i0,…] [spare=m]
  step | stop <i> | restart <i> | part <g…> | link <i> <j> <ok|cut|slow>
  reshare <thr> <node:index,…> <lead>     new epoch, transition at round current+lead
  announce <i> [transition]               remainer: Ev.announce; joiner: Ev.join (+ first sync); leaver: stops one sub-step
                                          before the transition tick (StopAt(transition time − 1))
  failput <i> <mode>                      not modelled (the model's store never fails): no-op
  inject <to> <epoch> <index> [round]     a packet signed with that epoch's share of that index, delivered at once
  plog                                    no-op
result: m=<heads> r=<round> ep=<vault epoch per node, - when down> [tr= epoch=] [role=] [inj=ok|refused:<why>]
The variants are the regenerated facts: `cfg.lateSwitch` = `Gen.transitionLateSwitch`, `cfg.replaceSameIndex` = `Gen.replaceSameIndex`.
-/
import Drand.Net.Reshare
import Gen.CacheRules
namespace Drand.Driver.NetRD
open Drand.Net.Reshare

structure Epoch where
  id : Nat
  grp : Grp
  tRound : Nat

structure Drv where
  s : State := State.init ⟨false, false⟩ 0 0 ⟨[], 0⟩
  k : Nat := 1
  steps : Nat := 0
  grp : List Nat := []
  cut : List (Nat × Nat) := []
  epochs : List Epoch := []
  stopAt : List (Nat × Nat) := []     -- (node, value of `steps` after which it stops)

def connOf (grp : List Nat) (cut : List (Nat × Nat)) : Nat → Nat → Bool :=
  fun i j => grp.getD i 0 == grp.getD j 0 && !cut.contains (i, j)

/-- tabulate the closures so that long traces stay cheap (pointwise the same state for node ids < n, indices < nIdx) -/
def normalize (s : State) : State :=
  let nodes := (List.range s.n).map fun i =>
    let d := s.node i
    let tbl := (List.range (d.head + Gen.partialCacheStoreLimit + 3)).flatMap fun r =>
      (List.range s.nIdx).filterMap fun k => match d.held r k with | some e => some (r, k, e) | none => none
    { d with held := fun r k => (tbl.find? fun x => x.1 == r && x.2.1 == k).map (·.2.2) }
  let arr := nodes.toArray
  let c := s.conn
  let tblc := (List.range s.n).flatMap fun i => (List.range s.n).filterMap fun j => if c i j then some (i, j) else none
  let dflt := s.node s.n
  { s with node := fun k => arr.getD k dflt, conn := fun i j => if i < s.n ∧ j < s.n then tblc.contains (i, j) else c i j }

def showNats (l : List Nat) : String := ",".intercalate (l.map toString)

def snapshot (d : Drv) : String :=
  let s := d.s
  let heads := (List.range s.n).map fun i => (s.node i).head
  let eps := (List.range s.n).map fun i => if (s.node i).up then toString (s.node i).vault.epoch else "-"
  s!"m={showNats heads} r={(s.node 0).clock} ep={",".intercalate eps}"

def tokenVal (f : List String) (key : String) : Option String :=
  (f.find? (·.startsWith key)).map fun t => String.ofList (t.toList.drop key.length)

def parseNats (t : String) : Option (List Nat) := (t.splitOn ",").mapM String.toNat?

def parseSpec (t : String) : Option (List Member) :=
  (t.splitOn ",").mapM fun p =>
    match p.splitOn ":" with
    | [a, b] => do let a ← a.toNat?; let b ← b.toNat?; pure ⟨a, b⟩
    | _ => none

def admitName : Admit → String
  | .future => "refused:future" | .past => "ok" | .notMember => "refused:not-member" | .ownAddress => "refused:own"
  | .invalid => "refused:invalid-sig" | .ownIndex => "ok" | .admitted => "ok"

def curEpoch (d : Drv) : Option Epoch := d.epochs.getLast?

def applyStops (d : Drv) : Drv :=
  let due := d.stopAt.filter fun p => p.2 ≤ d.steps
  let s := due.foldl (fun s p => s.stop p.1) d.s
  { d with s := s, stopAt := d.stopAt.filter fun p => !(p.2 ≤ d.steps) }

def plain (f : List String) : List String :=
  f.filter fun t => !(t.startsWith "o=" || t.startsWith "r=" || t.startsWith "e=")

def step (d : Drv) (f0 : List String) : Drv × String :=
  let f := plain f0
  let n := d.s.n
  let bad := (d, "bad-op")
  match f with
  | "init" :: nn :: thr :: k :: rest =>
    match nn.toNat?, thr.toNat?, k.toNat? with
    | some nn, some thr, some k =>
      if nn = 0 ∨ k = 0 ∨ nn > 32 then bad else
      let idx := match tokenVal rest "idx=" with
        | some t => (parseNats t).getD (List.range nn)
        | none => List.range nn
      let spare := ((tokenVal rest "spare=").bind String.toNat?).getD 0
      if idx.length != nn then bad else
      let g : Grp := ⟨(List.range nn).map (fun i => ⟨i, idx.getD i i⟩), thr⟩
      let s := State.init ⟨Gen.transitionLateSwitch, Gen.replaceSameIndex⟩ (nn + spare) 64 g
      let d1 : Drv := { s := normalize s, k := k, grp := List.replicate (nn + spare) 0, epochs := [⟨0, g, 0⟩] }
      (d1, snapshot d1)
    | _, _, _ => bad
  | "step" :: _ =>
    let tick := d.steps % d.k == 0
    let d1 := applyStops { d with steps := d.steps + 1, s := if tick then d.s.fairTick else d.s.fairCatch }
    let d1 := { d1 with s := normalize d1.s }
    (d1, snapshot d1)
  | "stop" :: i :: _ =>
    match i.toNat? with
    | some i => if i < n then let d1 := { d with s := normalize (d.s.stop i) }; (d1, snapshot d1) else bad
    | none => bad
  | "restart" :: i :: _ =>
    match i.toNat? with
    | some i =>
      if i < n ∧ !(d.s.node i).up then let d1 := { d with s := normalize ((d.s.restart i).pull i) }; (d1, snapshot d1) else bad
    | none => bad
  | "part" :: gs =>
    match gs.mapM String.toNat? with
    | some g => if g.length = n then
        let d1 := { d with grp := g, s := normalize (d.s.apply (.setConn (connOf g d.cut))) }; (d1, snapshot d1) else bad
    | none => bad
  | "link" :: i :: j :: v :: _ =>
    match i.toNat?, j.toNat? with
    | some i, some j =>
      if i < n ∧ j < n ∧ (v == "cut" ∨ v == "ok" ∨ v == "slow") then
        let cut := d.cut.filter (· != (i, j))
        let cut := if v == "cut" then (i, j) :: cut else cut
        let d1 := { d with cut := cut, s := normalize (d.s.apply (.setConn (connOf d.grp cut))) }
        (d1, snapshot d1)
      else bad
    | _, _ => bad
  | ["reshare", thr, sp, lead] =>
    match thr.toNat?, parseSpec sp, lead.toNat? with
    | some thr, some ms, some lead =>
      let e : Epoch := ⟨d.epochs.length, ⟨ms, thr⟩, (d.s.node 0).clock + lead⟩
      let d1 := { d with epochs := d.epochs ++ [e] }
      (d1, snapshot d1 ++ s!" tr={e.tRound} epoch={e.id}")
    | _, _, _ => bad
  | "announce" :: i :: rest =>
    match i.toNat?, curEpoch d, d.epochs.dropLast.getLast? with
    | some i, some e, some old =>
      if i ≥ n then bad else
      -- the transition tick is the sub-round run by the step op whose `steps` value is (tRound-1)*k
      let tickStep := (e.tRound - 1) * d.k
      if tickStep < d.steps then (d, snapshot d ++ " role=refused:past") else
      match old.grp.members.find? (·.node == i), e.grp.members.find? (·.node == i) with
      | some _, some m =>
        if (d.s.node i).disk.epoch == e.id then bad else
        let d1 := { d with s := normalize (d.s.apply (.announce i ⟨e.grp, e.id, m.index⟩ e.tRound)) }
        (d1, snapshot d1 ++ " role=remain")
      | some _, none =>
        -- `announce i core`: the real onDKGCompleted → leaveNetwork computes the stop time from the group being LEFT
        -- (Drand.Beacon.Transition.BP.onDKGCompleted: stopAt = bp.group.transitionTime − 1, in the past): StopAt refuses,
        -- the handler keeps running
        if rest.contains "core" then (d, snapshot d ++ " role=leave:core:returned") else
        let d1 := if (d.s.node i).up then { d with stopAt := (i, tickStep) :: d.stopAt } else d
        (d1, snapshot d1 ++ " role=leave")
      | none, some m =>
        if (d.s.node i).up ∨ (d.s.node i).disk.epoch == e.id then bad else
        let d1 := { d with s := normalize ((d.s.apply (.join i ⟨e.grp, e.id, m.index⟩)).pull i) }
        (d1, snapshot d1 ++ " role=join")
      | none, none => bad
    | _, _, _ => bad
  | ["failput", _, _] => (d, snapshot d)
  | ["plog"] => (d, "plog")
  | "inject" :: to :: ep :: ix :: rest =>
    match to.toNat?, ep.toNat?, ix.toNat? with
    | some to, some ep, some ix =>
      if to ≥ n ∨ !(d.s.node to).up then bad else
      let hb := (d.s.node to).head
      let round := (rest.head?.bind String.toNat?).getD (hb + 1)
      let src := match (d.epochs.find? (·.id == ep)).bind (fun e => e.grp.members.find? (fun m => m.index == ix && m.node != to)) with
        | some m => m.node
        | none => (to + 1) % n
      let m : Msg := ⟨src, ix, ep, round, to⟩
      let out := (d.s.node to).admission to m
      let s1 := (d.s.recv m)
      -- what the delivery set in motion settles before the next op
      let d1 := { d with s := normalize s1.settle }
      (d1, snapshot d1 ++ s!" inj={admitName out} round={round} hb={hb} ha={(d1.s.node to).head}")
    | _, _, _ => bad
  | _ => bad

end Drand.Driver.NetRD
