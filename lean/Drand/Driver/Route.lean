import Drand.Daemon.Routing
namespace Drand.Driver.RouteD
open Drand Drand.Daemon

/-! line protocol of engine `route` (see harness/cmd/verifh/route.go); everything the harness prints after
" ;; " is an observation for the property oracle and is not predicted here. -/

def rtok (s : String) : String := if s = "-" then "" else s
def runtok (s : String) : String := if s = "" then "-" else s

def showErr : RErr → String
  | .mismatch => "err:mismatch"
  | .unknownHash => "err:unknown-hash"
  | .notRunning => "err:not-running"
  | .alreadyRunning => "err:already-running"
  | .noKey => "err:no-key"
  | .notInGroup => "err:not-in-group"
  | .nilGroupPanic => "panic:nil-deref"

def showRes : Except RErr Unit → String
  | .ok _ => "ok"
  | .error e => showErr e

private def sortStrs (l : List String) : List String := l.mergeSort (fun a b => decide (a ≤ b))

def bracket (l : List String) : String := "[" ++ ",".intercalate (sortStrs l) ++ "]"

/-- "<group id>.<variant>=<hash>" -/
def parseGroup (t : String) : Option Group :=
  match t.splitOn "=" with
  | [label, hash] =>
    let parts := label.splitOn "."
    let gid := if parts.length ≤ 1 then label else ".".intercalate parts.dropLast
    (fromHexAux hash.toList).map fun h => ⟨gid, h⟩
  | _ => none

def parseDisk (t : String) : Option (Option DiskEntry) :=
  if t = "none" then some none
  else if t = "nokey" then some (some .nokey)
  else if t = "fresh" then some (some .fresh)
  else if t.startsWith "grp:" then (parseGroup (t.drop 4).toString).map fun g => some (.group g)
  else if t.startsWith "bad:" then (parseGroup (t.drop 4).toString).map fun g => some (.bad g)
  else none

/-- metadata tokens: id `nil` is a nil metadata, `-` the empty string; hash `-` is absent -/
def parseMd (id hash : String) : Option (Option Req) :=
  if id = "nil" then some none
  else match fromHex hash with
    | some h => some (some ⟨rtok id, h⟩)
    | none => none

def refName (own : Id) (gen : Nat) : String := s!"{own}#{gen}"

def showTabs (s : State) : String :=
  let ps := s.procs.map fun (id, p) =>
    s!"{id}>{refName id p.gen}:{match p.group with | some g => runtok (hexStr g.hash) | none => "-"}"
  let hs := s.hashes.map fun (k, id) => s!"{k}>{runtok id}"
  let ts := s.http.map fun (k, r) => s!"{k}>{refName r.id r.gen}"
  s!"procs={bracket ps} hashes={bracket hs} http={bracket ts}"

def showReq (s : State) (md : Option Req) : String :=
  let rid := readBeaconID s md
  let first := match rid with | .ok id => s!"id={id}" | .error e => s!"id={showErr e}"
  let mdAfter := match md, rid with
    | none, _ => "nil"
    | some _, .ok id => runtok id
    | some m, .error _ => runtok m.id
  match route s md with
  | .error e => s!"{first} meta={mdAfter} proc={showErr e}"
  | .ok (id, p) => s!"{first} meta={mdAfter} proc={refName id p.gen}"

def showHttp (s : State) (arg : String) : String :=
  if arg = "chains" then s!"chains={bracket (chainsListing s)}"
  else
    match readChainHash (rtok arg) with
    | none => "sel=bad"
    | some h =>
      match getBeaconHandler s h with
      | some r => s!"sel={refName r.id r.gen}"
      | none => "sel=-"

def routeStep (s : State) (f : List String) : State × String :=
  match f with
  | ["reset"] => (State.init, "ok")
  | ["disk", id, what] =>
    match aget (canon (rtok id)) s.procs, parseDisk what with
    | some _, _ => (s, "busy")
    | none, some e => let (s, r) := step s (.disk (rtok id) e); (s, showRes r)
    | none, none => (s, "bad-op")
  | ["load", id, hash] =>
    match parseMd id hash with
    | some md => let (s, r) := step s (.load md); (s, showRes r)
    | none => (s, "bad-op")
  | ["boot", "all"] => let (s, r) := step s (.boot false ""); (s, showRes r)
  | ["boot", "single", name] => let (s, r) := step s (.boot true (rtok name)); (s, showRes r)
  | ["stop", id, hash] =>
    if rtok id = "" || id = "nil" then (s, "bad-op") else
    match parseMd id hash with
    | some md => let (s, r) := step s (.stop md); (s, showRes r)
    | none => (s, "bad-op")
  | ["dkg", id, grp] =>
    match parseGroup grp with
    | some g =>
      match aget id s.procs with
      | none => (s, "no-proc")
      | some _ => let (s, r) := step s (.dkg id g); (s, showRes r)
    | none => (s, "bad-op")
  | ["req", id, hash] =>
    match parseMd id hash with
    | some md => (s, showReq s md)
    | none => (s, "bad-op")
  | ["http", arg] => (s, showHttp s arg)
  | ["tabs"] => (s, showTabs s)
  | ["sleep", _] => (s, "ok")
  | _ => (s, "bad-op")

end Drand.Driver.RouteD