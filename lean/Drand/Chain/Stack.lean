/-
Model of the store stack of internal/chain/beacon/store.go as assembled by newChainStore:
  callbackStore → appendStore → schemeStore → (discrepancyStore) → base store           (C02)
`appendStore.Put` and `schemeStore.Put` are mirrored check by check. The base store is the sorted
round→beacon map of Drand/Store/Bolt.lean (C18 shows the real back-ends refine it). In chained mode the
daemon opens the trimmed store with previous-required, so reads return the previous signature.
-/
import Drand.Basic
import Drand.Store.Bolt

namespace Drand.Chain
open Drand Drand.Store

inductive PutRes where
  | ok
  | already          -- ErrBeaconAlreadyStored
  | dupDiffPrev      -- same round and signature, different previous signature
  | dupDiffSig       -- same round, different signature
  | badRound         -- not last+1
  | badPrev          -- chained: previous signature does not match the last stored signature
  deriving DecidableEq, Repr

def PutRes.show : PutRes → String
  | .ok => "ok" | .already => "already" | .dupDiffPrev => "dup-diff-prev" | .dupDiffSig => "dup-diff-sig"
  | .badRound => "bad-round" | .badPrev => "bad-prev"

structure Stack where
  chained : Bool
  base : BoltState
  appendLast : Beacon
  schemeLast : Beacon
  deriving Repr

/-- `NewHandler` puts the genesis beacon straight into the base store, then the stack is built on top:
both wrappers read `Last` from the store below them. -/
def Stack.last (base : BoltState) : Beacon :=
  match base.getLast? with | some (_, b) => b | none => ⟨0, [], []⟩

def Stack.build (chained : Bool) (base : BoltState) : Stack :=
  { chained, base, appendLast := Stack.last base, schemeLast := Stack.last base }

def genesis (seed : Bytes) : Beacon := ⟨0, seed, []⟩

def Stack.init (chained : Bool) (seed : Bytes) : Stack := Stack.build chained (Bolt.put [] (genesis seed))

/-- `schemeStore.Put` followed by the base `Put` -/
def Stack.schemePut (s : Stack) (b : Beacon) : Stack × PutRes :=
  if s.chained then
    if s.schemeLast.sig ≠ b.prev then (s, .badPrev)
    else ({ s with base := Bolt.put s.base b, schemeLast := b, appendLast := b }, .ok)
  else
    let b' : Beacon := { b with prev := [] }
    ({ s with base := Bolt.put s.base b', schemeLast := b', appendLast := b' }, .ok)

/-- `appendStore.Put` -/
def Stack.put (s : Stack) (b : Beacon) : Stack × PutRes :=
  if b.round = s.appendLast.round then
    if s.appendLast.sig = b.sig then
      if s.appendLast.prev = b.prev then (s, .already) else (s, .dupDiffPrev)
    else (s, .dupDiffSig)
  else if b.round ≠ s.appendLast.round + 1 then (s, .badRound)
  else s.schemePut b

/-- stop and start again: the wrappers are rebuilt from the base store -/
def Stack.restart (s : Stack) : Stack := Stack.build s.chained s.base

/-- the repair path (`insecureStore` of CorrectPastBeacons) writes to the base store directly -/
def Stack.rawPut (s : Stack) (b : Beacon) : Stack := { s with base := Bolt.put s.base b }

/-- a daemon start: `NewHandler` first puts the genesis beacon into the base store, then the wrappers are rebuilt -/
def Stack.restartG (s : Stack) (seed : Bytes) : Stack := Stack.build s.chained (Bolt.put s.base (genesis seed))

/-- a `Put` whose write fails below the wrappers (e.g. the context is cancelled when it reaches the back-end): the
append/scheme checks run, nothing is stored and — as coded — neither wrapper advances its cached head -/
def Stack.putFailing (s : Stack) (b : Beacon) : Stack × PutRes :=
  match (s.put b).2 with
  | .ok => (s, .badRound)     -- reported by the driver as "err-write"; the state is unchanged
  | r => (s, r)

/-- `schemeStore.Put` over a base store that may REFUSE the write (`baseOk = false`: a transient storage error, a Put issued
under a cancelled context). The statements in the order of the code (regenerated: `Gen.schemePutOrder`): the
previous-signature check, the underlying `Put`, `return err` on its error, and only then `a.last = b`. `none` = the
write error of the store below. -/
def Stack.schemePutB (s : Stack) (b : Beacon) (baseOk : Bool) : Stack × Option PutRes :=
  if s.chained then
    if s.schemeLast.sig ≠ b.prev then (s, some .badPrev)
    else if !baseOk then (s, none)
    else ({ s with base := Bolt.put s.base b, schemeLast := b, appendLast := b }, some .ok)
  else
    let b' : Beacon := { b with prev := [] }
    if !baseOk then (s, none)
    else ({ s with base := Bolt.put s.base b', schemeLast := b', appendLast := b' }, some .ok)

/-- `appendStore.Put` on top of it (`if err := a.Store.Put(ctx, b); err != nil { return err }; a.last = b`) -/
def Stack.putB (s : Stack) (b : Beacon) (baseOk : Bool) : Stack × Option PutRes :=
  if b.round = s.appendLast.round then
    if s.appendLast.sig = b.sig then
      if s.appendLast.prev = b.prev then (s, some .already) else (s, some .dupDiffPrev)
    else (s, some .dupDiffSig)
  else if b.round ≠ s.appendLast.round + 1 then (s, some .badRound)
  else s.schemePutB b baseOk

/-- the other statement order (`a.last = b` BEFORE the underlying Put): what the retry theorem excludes -/
def Stack.schemePutLastFirst (s : Stack) (b : Beacon) (baseOk : Bool) : Stack × Option PutRes :=
  if s.chained then
    if s.schemeLast.sig ≠ b.prev then (s, some .badPrev)
    else if !baseOk then ({ s with schemeLast := b }, none)
    else ({ s with base := Bolt.put s.base b, schemeLast := b, appendLast := b }, some .ok)
  else
    let b' : Beacon := { b with prev := [] }
    if !baseOk then ({ s with schemeLast := b' }, none)
    else ({ s with base := Bolt.put s.base b', schemeLast := b', appendLast := b' }, some .ok)

inductive Op where
  | put (b : Beacon)
  | restart
  deriving Repr

def Stack.apply (s : Stack) : Op → Stack
  | .put b => (s.put b).1
  | .restart => s.restart

def Stack.run (chained : Bool) (seed : Bytes) (ops : List Op) : Stack := ops.foldl Stack.apply (Stack.init chained seed)

end Drand.Chain
