/-
Model of `callbackStore` (internal/chain/beacon/store.go), the outermost wrapper of the store stack (C12 part a).

  type callbackStore struct { chain.Store; sync.RWMutex; callbacks map[string]CallbackFunc; newJob map[string]chan cbPair }

* `AddCallback(id, fn)`  takes the write lock; an existing id first gets the close signal through its (bounded)
                          channel — a plain send — then the channel is closed and replaced;
                          `make(chan cbPair, CallbackWorkerQueue)` and one worker goroutine per channel.
* `RemoveCallback(id)`   takes the write lock, closes and deletes the channel.
* `Put(b)`               base `Put` first (error ⇒ return, nothing dispatched); for `b.Round != 0` it takes the READ
                          lock and sends `{cb, b}` to the channel of every registered id, one after the other, with a
                          plain channel send (`Cfg.blocking`, regenerated from the source), and only then unlocks.
* worker                  `for job := range ch { job.cb(job.b, job.close) }` — one job at a time, FIFO.

Goroutines are explicit: a step is `none` when the goroutine that would take it is blocked there. A `Put` in progress
is an element of `puts` (it holds the read lock until `putEnd`); `writer = some id` is an `AddCallback` that holds the
write lock and is blocked on the close-signal send to the full channel of `id`.
-/
import Drand.Basic

namespace Drand.Chain.Callback
open Drand

inductive Job where
  | beacon (b : Beacon)
  | close
  deriving DecidableEq, Repr

structure Chan where
  queue : List Job := []
  /-- the worker of this channel is inside a callback -/
  busy : Bool := false
  deriving DecidableEq, Repr

structure Cfg where
  /-- `CallbackWorkerQueue` -/
  cap : Nat
  /-- the dispatch in `Put` is `j <- cbPair{…}` (true, as coded) rather than a `select` with `default` (false) -/
  blocking : Bool
  /-- the close signal in `AddCallback` is a plain send too (true, as coded) -/
  closeBlocking : Bool := true
  /-- the repaired store (`stepR` below): `Put` holds the WRITE lock around its dispatch loop; a callback registered with
  `AddStreamCallback` whose queue is full is ENDED there and then (deregistered, channel closed, close notice after what
  is queued) — never waited for, never skipped; a callback of the node itself (`AddCallback`) still gets a plain send;
  close notices travel outside the queue, so `AddCallback` never waits either -/
  ends : Bool := false
  /-- repaired store: the ids registered through `AddStreamCallback` (in drand: "SyncChain-" + remote address) -/
  streamIds : List String := []
  deriving DecidableEq, Repr

structure InPut where
  b : Beacon
  /-- ids still to dispatch to -/
  rem : List String
  deriving DecidableEq, Repr

structure St where
  /-- what reached the store below -/
  stored : List Beacon := []
  /-- registered ids with their channel and worker -/
  chans : List (String × Chan) := []
  /-- `Put`s holding the read lock -/
  puts : List InPut := []
  /-- an `AddCallback` holding the write lock, blocked on the close signal to this id -/
  writer : Option String := none
  /-- channels closed by `RemoveCallback` whose worker still drains what was buffered (`range` over a closed channel) -/
  orphans : List (String × Chan) := []
  /-- non-blocking variant only: jobs that found their channel full -/
  dropped : List (String × Beacon) := []
  deriving DecidableEq, Repr

def chanOf (s : St) (id : String) : Option Chan := (s.chans.find? (·.1 == id)).map (·.2)

def setChan (s : St) (id : String) (c : Chan) : St :=
  { s with chans := s.chans.map fun e => if e.1 == id then (id, c) else e }

inductive Ev where
  | putBegin (b : Beacon)     -- base Put, RLock, range over the callbacks
  | putSend (i : Nat)         -- the i-th Put in progress sends to its next id
  | putEnd (i : Nat)          -- RUnlock, return
  | take (id : String)        -- the worker of id receives the next job and enters the callback
  | done (id : String)        -- the callback returns
  | takeO (id : String)       -- the same two steps for the worker of a channel that was removed
  | doneO (id : String)
  | remove (id : String)      -- RemoveCallback
  | add (id : String)         -- AddCallback
  | addResume                 -- a blocked AddCallback gets its close signal through
  deriving DecidableEq, Repr

/-- `AddCallback` once the close signal (if any) is through: fresh channel, fresh worker -/
def install (s : St) (id : String) : St :=
  if (chanOf s id).isSome then { setChan s id {} with writer := none }
  else { s with chans := s.chans ++ [(id, {})], writer := none }

def orphanOf (s : St) (id : String) : Option Chan := (s.orphans.find? (·.1 == id)).map (·.2)

def setOrphan (s : St) (id : String) (c : Chan) : St :=
  { s with orphans := s.orphans.map fun e => if e.1 == id then (id, c) else e }

def step (cfg : Cfg) (s : St) : Ev → Option St
  | .putBegin b =>
    if s.writer.isSome then none
    else if b.round = 0 then some { s with stored := s.stored ++ [b] }
    else some { s with stored := s.stored ++ [b], puts := s.puts ++ [⟨b, s.chans.map (·.1)⟩] }
  | .putSend i =>
    match s.puts[i]? with
    | none => none
    | some p =>
      match p.rem with
      | [] => none
      | id :: rest =>
        match chanOf s id with
        | none => some { s with puts := s.puts.set i { p with rem := rest } }      -- `if !ok { continue }`
        | some c =>
          if c.queue.length < cfg.cap then
            some { setChan s id { c with queue := c.queue ++ [.beacon p.b] } with puts := s.puts.set i { p with rem := rest } }
          else if cfg.blocking then none
          else some { s with puts := s.puts.set i { p with rem := rest }, dropped := s.dropped ++ [(id, p.b)] }
  | .putEnd i =>
    match s.puts[i]? with
    | some p => if p.rem.isEmpty then some { s with puts := s.puts.eraseIdx i } else none
    | none => none
  | .take id =>
    match chanOf s id with
    | some c =>
      if c.busy then none else
      match c.queue with
      | [] => none
      | _ :: q => some (setChan s id { queue := q, busy := true })
    | none => none
  | .done id =>
    match chanOf s id with
    | some c => if c.busy then some (setChan s id { c with busy := false }) else none
    | none => none
  | .takeO id =>
    match orphanOf s id with
    | some c =>
      if c.busy then none else
      match c.queue with
      | [] => none
      | _ :: q => some (setOrphan s id { queue := q, busy := true })
    | none => none
  | .doneO id =>
    match orphanOf s id with
    | some c => if c.busy then some (setOrphan s id { c with busy := false }) else none
    | none => none
  | .remove id =>
    if s.writer.isSome || !s.puts.isEmpty then none
    else some { s with chans := s.chans.filter (·.1 != id),
                       orphans := s.orphans.filter (·.1 != id) ++ s.chans.filter (·.1 == id) }
  | .add id =>
    if s.writer.isSome || !s.puts.isEmpty then none
    else match chanOf s id with
      | some c =>
        if c.queue.length < cfg.cap || !cfg.closeBlocking then some (install s id) else some { s with writer := some id }
      | none => some (install s id)
  | .addResume =>
    match s.writer with
    | none => none
    | some id =>
      match chanOf s id with
      | some c => if c.queue.length < cfg.cap then some (install s id) else none
      | none => some (install s id)

/-- a schedule all of whose steps are enabled -/
def run (cfg : Cfg) : St → List Ev → Option St
  | s, [] => some s
  | s, e :: es => match step cfg s e with | some s' => run cfg s' es | none => none

/-- a schedule in which steps that are not enabled are simply not taken (the goroutine stays blocked) -/
def runSkip (cfg : Cfg) (s : St) (es : List Ev) : St :=
  es.foldl (fun s e => (step cfg s e).getD s) s

/-! ### the repaired store

  Put              c.Lock(); defer c.Unlock(); for id, cb := range c.callbacks { j, ok := c.newJob[id]; if !ok { continue }
                     job := cbPair{cb, b}
                     if !c.workers[id].stream { j <- job; continue }
                     select { case j <- job: default: c.stopWorker(id, true); delete(c.callbacks, id) } }
  addCallback      c.Lock(); if exists { c.stopWorker(id, true) }; fresh channel, fresh worker
  RemoveCallback   c.Lock(); delete(c.callbacks, id); if exists { c.stopWorker(id, false) }
  stopWorker       if notify { c.workers[id].closed = c.callbacks[id] }; close(c.newJob[id]); delete both entries
  runWorker        … case job, ok := <-jobChan: if !ok { if w.closed != nil { w.closed(nil, true) }; return }

A channel that was closed with a notice is an orphan whose queue ends with `.close`: its worker (`takeO` / `doneO`) first
delivers what was queued, then the notice. Events are those of `step`; `addResume` never applies (nothing blocks inside
`addCallback`). -/

/-- `stopWorker(id, true)` + removal of the table entry: the worker of `c` goes on with what is queued, then `closed` -/
def endChan (s : St) (id : String) (c : Chan) : St :=
  { s with chans := s.chans.filter (·.1 != id),
           orphans := s.orphans.filter (·.1 != id) ++ [(id, { c with queue := c.queue ++ [.close] })] }

def stepR (cfg : Cfg) (s : St) : Ev → Option St
  | .putBegin b =>
    -- the dispatch loop runs under the WRITE lock: one Put at a time, and not while Add/RemoveCallback run (they are atomic here)
    if !s.puts.isEmpty then none else step cfg s (.putBegin b)
  | .putSend i =>
    match s.puts[i]? with
    | none => none
    | some p =>
      match p.rem with
      | [] => none
      | id :: rest =>
        match chanOf s id with
        | none => some { s with puts := s.puts.set i { p with rem := rest } }      -- `if !ok { continue }`
        | some c =>
          if c.queue.length < cfg.cap then
            some { setChan s id { c with queue := c.queue ++ [.beacon p.b] } with puts := s.puts.set i { p with rem := rest } }
          else if !cfg.streamIds.contains id then none                              -- a callback of the node itself: plain send
          else some { endChan s id c with puts := s.puts.set i { p with rem := rest } }
  | .add id =>
    if !s.puts.isEmpty then none
    else match chanOf s id with
      | some c =>
        some { setChan s id {} with orphans := s.orphans.filter (·.1 != id) ++ [(id, { c with queue := c.queue ++ [.close] })] }
      | none => some { s with chans := s.chans ++ [(id, {})] }
  | .remove id =>
    if !s.puts.isEmpty then none
    else match chanOf s id with
      | some c => some { s with chans := s.chans.filter (·.1 != id), orphans := s.orphans.filter (·.1 != id) ++ [(id, c)] }
      | none => some s            -- nothing registered under id (e.g. the consumer was ended): its worker is not touched
  | .addResume => none
  | e => step cfg s e

/-- the variant switch: which of the two machines the tree under test is (`cfg.ends` is regenerated from the source) -/
def stepV (cfg : Cfg) (s : St) (e : Ev) : Option St := if cfg.ends then stepR cfg s e else step cfg s e

def runR (cfg : Cfg) : St → List Ev → Option St
  | s, [] => some s
  | s, e :: es => match stepR cfg s e with | some s' => runR cfg s' es | none => none

def runSkipR (cfg : Cfg) (s : St) (es : List Ev) : St :=
  es.foldl (fun s e => (stepR cfg s e).getD s) s

end Drand.Chain.Callback
