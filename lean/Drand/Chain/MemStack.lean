/-
The same wrapper logic as Drand/Chain/Stack.lean over the in-memory ring of internal/chain/memdb (C18's `MemState`):
`Put` keeps an existing round and forgets the smallest rounds beyond the capacity. Used by the `chain` engine for
the memdb back-end; the C02 theorems are stated for the map base, the ring is covered by the correspondence run and
the window oracle.
-/
import Drand.Chain.Stack
import Drand.Store.Mem

namespace Drand.Chain
open Drand Drand.Store

structure MemStack where
  chained : Bool
  base : MemState
  appendLast : Beacon
  schemeLast : Beacon

def MemStack.last (m : MemState) : Beacon := match m.store.getLast? with | some b => b | none => ⟨0, [], []⟩

def MemStack.build (chained : Bool) (base : MemState) : MemStack :=
  { chained, base, appendLast := MemStack.last base, schemeLast := MemStack.last base }

def MemStack.init (chained : Bool) (cap : Nat) (seed : Bytes) : MemStack :=
  MemStack.build chained (Mem.put ⟨cap, []⟩ (genesis seed))

def MemStack.put (s : MemStack) (b : Beacon) : MemStack × PutRes :=
  if b.round = s.appendLast.round then
    if s.appendLast.sig = b.sig then
      if s.appendLast.prev = b.prev then (s, .already) else (s, .dupDiffPrev)
    else (s, .dupDiffSig)
  else if b.round ≠ s.appendLast.round + 1 then (s, .badRound)
  else if s.chained then
    if s.schemeLast.sig ≠ b.prev then (s, .badPrev)
    else ({ s with base := Mem.put s.base b, schemeLast := b, appendLast := b }, .ok)
  else
    let b' : Beacon := { b with prev := [] }
    ({ s with base := Mem.put s.base b', schemeLast := b', appendLast := b' }, .ok)

def MemStack.restartG (s : MemStack) (seed : Bytes) : MemStack :=
  MemStack.build s.chained (Mem.put s.base (genesis seed))

def MemStack.rawPut (s : MemStack) (b : Beacon) : MemStack := { s with base := Mem.put s.base b }

end Drand.Chain
