/-
The store stack of Drand/Chain/Stack.lean over an *abstract* base store.                                    (C02)

`Stack` and `MemStack` fix the base store to the sorted map / the ring of C18 and let every base `Put` succeed. Here the
base store is any state machine with a `Put` that answers nil or an error and a `Get`; the wrappers are mirrored with the
error paths of the code: when the store below answers an error, `schemeStore.Put` and `appendStore.Put` return it *without*
advancing their cached `last` (`if err := a.Store.Put(ctx, b); err != nil { return err }; a.last = b`).

What the wrappers rely on is `MapSpec`: a `Put` that answered nil is readable afterwards and touched no other round; a `Put`
that answered an error wrote nothing. C18 proves this for the three back-end models (`c18_put_ok_readable`,
`c18_put_failed_no_effect`); the `store` / `chain` engines check it on the real back-ends, including a `Put` whose context is
cancelled before the call, while it is queued behind another bolt writer, and after it returned.
-/
import Drand.Chain.MemStack

namespace Drand.Chain
open Drand Drand.Store

/-- a base store as the wrappers see it; nondeterminism of the environment (a context cancelled at some point, a full
disk) lives in `σ` -/
structure Base (σ : Type) where
  /-- the state afterwards, and whether `Put` answered nil -/
  put : σ → Beacon → σ × Bool
  get : σ → Nat → Option Beacon

/-- the part of the C18 map specification the wrappers rest on -/
structure MapSpec {σ : Type} (B : Base σ) : Prop where
  put_ok_get : ∀ s b, (B.put s b).2 = true → B.get (B.put s b).1 b.round = some b
  put_ok_other : ∀ s b r, r ≠ b.round → B.get (B.put s b).1 r = B.get s r
  put_err : ∀ s b r, (B.put s b).2 = false → B.get (B.put s b).1 r = B.get s r

structure GStack (σ : Type) where
  chained : Bool
  base : σ
  appendLast : Beacon
  schemeLast : Beacon

inductive GRes where
  | done (r : PutRes)
  /-- the error of the store below, handed up unchanged -/
  | writeErr
  deriving DecidableEq, Repr

/-- what `schemeStore.Put` hands to the store below -/
def stored (chained : Bool) (b : Beacon) : Beacon := if chained then b else { b with prev := [] }

/-- `schemeStore.Put` followed by the base `Put` -/
def GStack.schemePut {σ : Type} (B : Base σ) (s : GStack σ) (b : Beacon) : GStack σ × GRes :=
  if s.chained then
    if s.schemeLast.sig ≠ b.prev then (s, .done .badPrev)
    else
      let w := B.put s.base b
      if w.2 then ({ s with base := w.1, schemeLast := b, appendLast := b }, .done .ok)
      else ({ s with base := w.1 }, .writeErr)
  else
    let b' : Beacon := { b with prev := [] }
    let w := B.put s.base b'
    if w.2 then ({ s with base := w.1, schemeLast := b', appendLast := b' }, .done .ok)
    else ({ s with base := w.1 }, .writeErr)

/-- `appendStore.Put` -/
def GStack.put {σ : Type} (B : Base σ) (s : GStack σ) (b : Beacon) : GStack σ × GRes :=
  if b.round = s.appendLast.round then
    if s.appendLast.sig = b.sig then
      if s.appendLast.prev = b.prev then (s, .done .already) else (s, .done .dupDiffPrev)
    else (s, .done .dupDiffSig)
  else if b.round ≠ s.appendLast.round + 1 then (s, .done .badRound)
  else s.schemePut B b

/-- the sorted map of C18 as a base store: every `Put` succeeds -/
def boltBase : Base BoltState := { put := fun s b => (Bolt.put s b, true), get := fun s r => lookup r s }

def Stack.toG (s : Stack) : GStack BoltState := ⟨s.chained, s.base, s.appendLast, s.schemeLast⟩

/-- a base store that can be told to answer nil to the next `Put` *without writing* (what `BoltStore.Put` would be if it
returned nil from a transaction it abandoned): `σ = map × "drop the next write"` -/
def lyingBase : Base (BoltState × Bool) :=
  { put := fun s b => if s.2 then ((s.1, false), true) else ((Bolt.put s.1 b, false), true),
    get := fun s r => lookup r s.1 }

/-- `k` Puts one after the other — by the mutex of `appendStore.Put` every concurrent execution of `k` Puts is one of
these — with their answers -/
def Stack.putAll (s : Stack) : List Beacon → Stack × List PutRes
  | [] => (s, [])
  | b :: rest =>
    let r := s.put b
    let t := Stack.putAll r.1 rest
    (t.1, r.2 :: t.2)

end Drand.Chain
