/-
Model of the hash preimages of common/chain/info.go (`Info.Hash`) and common/key/{group,node,keys}.go
(`Group.Hash`, `Node.Hash`, `DistPublic.Hash`)  (C17).
The preimage is what is written into the hash, byte for byte; the hash function itself is abstract (`H`).
The layouts below are tied to the regenerated `Gen.infoHash`, `Gen.groupHash`, … by `rfl` theorems in
DrandProofs/C17.lean.
-/
import Drand.Basic
import Gen.HashLayouts

namespace Drand.Codec
open Drand

/-- little-endian, `w` bytes, of `n mod 2^(8w)` -/
def le : Nat → Nat → Bytes
  | 0, _ => []
  | w + 1, n => UInt8.ofNat (n % 256) :: le w (n / 256)

/-- big-endian -/
def be (w : Nat) (n : Nat) : Bytes := (le w n).reverse

/-- two's complement of an int64 as uint64 (what `binary.Write` does with a signed value) -/
def u64OfInt (x : Int) : Nat := (x % 18446744073709551616).toNat

/-- UTF-8 of "default" (`common.DefaultBeaconID`; tied to the regenerated constant in DrandProofs/C17.lean) -/
def defaultId : Bytes := [100, 101, 102, 97, 117, 108, 116]

/-- `common.IsDefaultBeaconID` on the UTF-8 bytes of the id -/
def isDefaultId (id : Bytes) : Bool := id == defaultId || id == []

/-- `common.GetCanonicalBeaconID` -/
def canonId (id : Bytes) : Bytes := if isDefaultId id then defaultId else id

def idPart (id : Bytes) : Bytes := if isDefaultId id then [] else id

/-- the parameters a chain hash commits to -/
structure ChainParams where
  periodSec : Nat      -- `uint32(i.Period.Seconds())`
  genesis : Int        -- int64
  pk : Bytes           -- `PublicKey.MarshalBinary()`
  seed : Bytes
  id : Bytes
  deriving DecidableEq, Repr

def chainPreimage (c : ChainParams) : Bytes :=
  be 4 c.periodSec ++ be 8 (u64OfInt c.genesis) ++ c.pk ++ c.seed ++ idPart c.id

def chainLayout : List Gen.Seg := [
  .int "be" 4 "Period.Seconds()", .int "be" 8 "GenesisTime", .bytes "PublicKey", .bytes "GenesisSeed",
  .ifNotDefaultId "ID" [.bytes "ID"]]

/-! ### group hash -/

structure NodeP where
  index : Nat          -- uint32
  key : Bytes
  deriving DecidableEq, Repr

/-- preimage tokens: raw bytes, or the hash of an inner preimage -/
inductive PTok where
  | raw (b : Bytes)
  | hashed (b : Bytes)
  deriving DecidableEq, Repr

def nodePreimage (n : NodeP) : Bytes := le 4 n.index ++ n.key
def nodeLayout : List Gen.Seg := [.int "le" 4 "Index", .bytes "Key"]

def distPublicPreimage (coeffs : List Bytes) : Bytes := coeffs.flatten
def distPublicLayout : List Gen.Seg := [.forEach "Coefficients" [.bytes "elem"]]

/-- insertion into a list sorted by index (`sort.Slice(g.Nodes, Index <)`; with distinct indices the
result does not depend on the sorting algorithm) -/
def insertNode (n : NodeP) : List NodeP → List NodeP
  | [] => [n]
  | x :: t => if n.index < x.index then n :: x :: t else x :: insertNode n t

def sortNodes : List NodeP → List NodeP
  | [] => []
  | x :: t => insertNode x (sortNodes t)

structure GroupParams where
  nodes : List NodeP
  threshold : Nat      -- `uint32(g.Threshold)`
  genesis : Int
  transition : Int
  pk : Option (List Bytes)   -- coefficients, when the DKG has run
  id : Bytes
  deriving DecidableEq, Repr

def groupLayout : List Gen.Seg := [
  .sortBy "Nodes" "Index", .forEach "Nodes" [.subhash "elem"], .int "le" 4 "Threshold", .int "le" 8 "GenesisTime",
  .ifNonZero "TransitionTime" [.int "le" 8 "TransitionTime"], .ifNotNil "PublicKey" [.subhash "PublicKey"],
  .ifNotDefaultId "ID" [.bytes "ID"]]

def groupToks (g : GroupParams) : List PTok :=
  (sortNodes g.nodes).map (fun n => PTok.hashed (nodePreimage n)) ++
  [PTok.raw (le 4 g.threshold), PTok.raw (le 8 (u64OfInt g.genesis))] ++
  (if g.transition ≠ 0 then [PTok.raw (le 8 (u64OfInt g.transition))] else []) ++
  (match g.pk with | some cs => [PTok.hashed (distPublicPreimage cs)] | none => []) ++
  [PTok.raw (idPart g.id)]

def flattenToks (H : Bytes → Bytes) : List PTok → Bytes
  | [] => []
  | .raw b :: t => b ++ flattenToks H t
  | .hashed b :: t => H b ++ flattenToks H t

def groupPreimage (H : Bytes → Bytes) (g : GroupParams) : Bytes := flattenToks H (groupToks g)

/-- `chain.NewChainInfo(group)` restricted to the fields the hash reads; `seed` is the stored genesis seed -/
structure GroupView where
  params : GroupParams
  periodSec : Nat
  seed : Bytes

def chainInfoOfGroup (g : GroupView) (pk0 : Bytes) : ChainParams :=
  { periodSec := g.periodSec, genesis := g.params.genesis, pk := pk0, seed := g.seed, id := g.params.id }

/-- `Info.UnmarshalJSON`'s final check: a non-empty embedded hash must equal the hash of the fields -/
def decodeChecksHash (H : Bytes → Bytes) (c : ChainParams) (embedded : Option Bytes) : Bool :=
  match embedded with
  | none => true
  | some h => H (chainPreimage c) == h

end Drand.Codec
