/-
Model of the encode/decode pairs of persisted and transmitted state (C20):
  common/key/{group,keys,node,store}.go   Group/Identity/Node/Pair/Share/DistPublic  TOML()/FromTOML(),
                                          Group.ToProto/GroupFromProto, Identity.ToProto/IdentityFromProto,
                                          fileStore.SaveKeyPair/LoadKeyPair
  common/chain/{info,convert}.go          Info.MarshalJSON/UnmarshalJSON, Info.ToProto/InfoFromProto
  common/beacon.go                        Beacon JSON (struct tags + HexBytes)
  internal/chain/beacon/convert.go        beaconToProto/protoToBeacon
  internal/dkg/state_machine.go           DBState.TOML / DBStateTOML.FromTOML

Every Go type and its mirror is a Lean structure; the conversions follow the Go bodies statement by statement
(same order of checks, same early returns). What the libraries do (hex, time.Duration text, kyber point/scalar
decoding, net.SplitHostPort, the group/chain hash) is the abstract `Leaf` record; what the theorems need from it
is the explicit `LeafOK`. The TOML / JSON / protobuf *syntax* layers are not modelled: a mirror value is what
the library hands back after writing and re-reading it (sampled by the `codec` harness engine).

A kyber point / scalar is represented by its canonical `MarshalBinary` bytes; a scheme by its name.
-/
import Drand.Basic
import Drand.Codec.Hash
import Gen.Mirrors

namespace Drand.Codec
open Drand

/-! ### leaves -/

structure Leaf where
  /-- `hex.EncodeToString` / `hex.DecodeString` -/
  hexEnc : Bytes → String
  hexDec : String → Option Bytes
  /-- `time.Duration.String` / `time.ParseDuration` (nanoseconds) -/
  durEnc : Int → String
  durDec : String → Option Int
  /-- `sch.KeyGroup.Point().UnmarshalBinary(b)` succeeds (scheme name, bytes) -/
  pointOk : String → Bytes → Bool
  /-- `sch.KeyGroup.Scalar().UnmarshalBinary(b)` succeeds -/
  scalarOk : String → Bytes → Bool
  /-- `net.SplitHostPort(addr)` succeeds -/
  addrOk : String → Bool
  /-- `Group.Hash()` as a function of the hashed parameters (C17) -/
  gHash : GroupParams → Bytes
  /-- `Info.Hash()` as a function of the hashed parameters (C17) -/
  cHash : ChainParams → Bytes

/-- what the round-trip theorems need from the leaves -/
structure LeafOK (L : Leaf) : Prop where
  hex_rt : ∀ b, L.hexDec (L.hexEnc b) = some b
  hex_nonempty : ∀ b, b ≠ [] → L.hexEnc b ≠ ""
  dur_rt : ∀ d, L.durDec (L.durEnc d) = some d
  dur_nonempty : ∀ d, L.durEnc d ≠ ""
  ghash_nonempty : ∀ p, L.gHash p ≠ []

inductive DecErr where
  | badScheme | schemeMismatch | nilScheme | badHex | badPoint | badScalar | badDuration | badAddr
  | thresholdLow | thresholdHigh | genesisZero | periodZero | coeffLen | hashMismatch | badJSON
  deriving DecidableEq, Repr

def DecErr.name : DecErr → String
  | .badScheme => "bad-scheme" | .schemeMismatch => "scheme-mismatch" | .nilScheme => "nil-scheme"
  | .badHex => "bad-hex" | .badPoint => "bad-point" | .badScalar => "bad-scalar" | .badDuration => "bad-duration"
  | .badAddr => "bad-addr" | .thresholdLow => "threshold-low" | .thresholdHigh => "threshold-high"
  | .genesisZero => "genesis-zero" | .periodZero => "period-zero" | .coeffLen => "coeff-len"
  | .hashMismatch => "hash-mismatch" | .badJSON => "bad-json"

abbrev Dec := Except DecErr

def mapE {α β : Type} (f : α → Dec β) : List α → Dec (List β)
  | [] => .ok []
  | a :: t =>
    match f a with
    | .error e => .error e
    | .ok b =>
      match mapE f t with
      | .error e => .error e
      | .ok bs => .ok (b :: bs)

/-- an optional (pointer-valued) part: `nil` stays `nil` -/
def optE {α β : Type} (f : α → Dec β) : Option α → Dec (Option β)
  | none => .ok none
  | some a =>
    match f a with
    | .error e => .error e
    | .ok b => .ok (some b)

/-- `crypto.SchemeFromName` (names regenerated from the switch in crypto/schemes.go) -/
def schemeFromName (s : String) : Dec String :=
  if s ∈ Gen.schemeNames then .ok s else .error .badScheme

/-- `crypto.GetSchemeByID`: the empty id means the default scheme -/
def getSchemeByID (s : String) : Dec String :=
  schemeFromName (if s = "" then Gen.defaultSchemeID else s)

/-- `key.StringToPoint` -/
def decPoint (L : Leaf) (sch : String) (s : String) : Dec Bytes :=
  match L.hexDec s with
  | none => .error .badHex
  | some b => if L.pointOk sch b then .ok b else .error .badPoint

/-- `key.StringToScalar` -/
def decScalar (L : Leaf) (sch : String) (s : String) : Dec Bytes :=
  match L.hexDec s with
  | none => .error .badHex
  | some b => if L.scalarOk sch b then .ok b else .error .badScalar

/-- `uint32(x)` of an int -/
def u32 (x : Int) : Nat := (x % 4294967296).toNat
/-- `int64(u)` of a uint64 -/
def i64OfU64 (n : Nat) : Int := if n < 9223372036854775808 then (n : Int) else (n : Int) - 18446744073709551616
/-- int64 wrap-around of an exact integer -/
def wrapI64 (x : Int) : Int := i64OfU64 (u64OfInt x)
/-- `uint32(d.Seconds())` for a non-negative duration of `ns` nanoseconds (float64 seconds are exact on whole
seconds; sub-second parts are truncated) -/
def secondsU32 (ns : Int) : Nat := u32 (ns / 1000000000)
/-- `uint64(d.Seconds())` -/
def secondsU64 (ns : Int) : Nat := u64OfInt (ns / 1000000000)

/-! ### Identity / PublicTOML / proto.Identity (common/key/keys.go) -/

structure Identity where
  key : Bytes
  addr : String
  sig : Bytes
  /-- `nil` or the scheme's name -/
  scheme : Option String
  deriving DecidableEq, Repr

/-- `new(Identity)` -/
def Identity.zero : Identity := ⟨[], "", [], none⟩

structure PublicTOML where
  address : String
  key : String
  signature : String
  schemeName : String
  deriving DecidableEq, Repr

/-- `Identity.TOML` -/
def Identity.toTOML (L : Leaf) (i : Identity) : PublicTOML :=
  { address := i.addr
    key := L.hexEnc i.key
    signature := L.hexEnc i.sig
    schemeName := match i.scheme with | none => "nil scheme" | some s => s }

/-- `Identity.FromTOML` on an existing identity `i0` (its signature survives an empty `Signature` entry) -/
def Identity.fromTOML (L : Leaf) (i0 : Identity) (t : PublicTOML) : Dec Identity :=
  match getSchemeByID t.schemeName with
  | .error e => .error e
  | .ok sch =>
    match decPoint L sch t.key with
    | .error e => .error e
    | .ok key =>
      if t.signature ≠ "" then
        match L.hexDec t.signature with
        | none => .error .badHex
        | some s => .ok { key := key, addr := t.address, sig := s, scheme := some sch }
      else .ok { key := key, addr := t.address, sig := i0.sig, scheme := some sch }

/-- `Identity.Equal`: address and key only -/
def Identity.equal (a b : Identity) : Bool := a.addr == b.addr && a.key == b.key

structure PIdentity where
  address : String
  key : Bytes
  signature : Bytes
  deriving DecidableEq, Repr

/-- `Identity.ToProto` (the `Tls` field of the packet is never set) -/
def Identity.toProto (i : Identity) : PIdentity := ⟨i.addr, i.key, i.sig⟩

def identityFromProtoGuards : List String :=
  ["err!=nil", "targetScheme==nil", "err:=public.UnmarshalBinary(n.GetKey());err!=nil"]

/-- `key.IdentityFromProto` -/
def identityFromProto (L : Leaf) (p : PIdentity) (target : Option String) : Dec Identity :=
  if !L.addrOk p.address then .error .badAddr else
  match target with
  | none => .error .nilScheme
  | some sch =>
    if !L.pointOk sch p.key then .error .badPoint else
    .ok { key := p.key, addr := p.address, sig := p.signature, scheme := some sch }

/-! ### Node / NodeTOML / proto.Node (common/key/node.go) -/

structure Node where
  ident : Identity
  index : Nat
  deriving DecidableEq, Repr

structure NodeTOML where
  pub : PublicTOML
  index : Nat
  deriving DecidableEq, Repr

def Node.toTOML (L : Leaf) (n : Node) : NodeTOML := ⟨n.ident.toTOML L, n.index⟩

/-- `Node.FromTOML` on `new(Node)` -/
def Node.fromTOML (L : Leaf) (t : NodeTOML) : Dec Node :=
  match Identity.fromTOML L Identity.zero t.pub with
  | .error e => .error e
  | .ok i => .ok ⟨i, t.index⟩

def Node.equal (a b : Node) : Bool := a.index == b.index && a.ident.equal b.ident

structure PNode where
  pub : PIdentity
  index : Nat
  deriving DecidableEq, Repr

/-- `key.NodeFromProto` -/
def nodeFromProto (L : Leaf) (sch : String) (p : PNode) : Dec Node :=
  match identityFromProto L p.pub (some sch) with
  | .error e => .error e
  | .ok i => .ok ⟨i, p.index⟩

/-! ### Group / GroupTOML / GroupPacket (common/key/group.go) -/

structure Group where
  threshold : Int
  period : Int               -- nanoseconds
  scheme : String            -- `g.Scheme.Name` (a nil scheme panics in TOML()/ToProto(); producers always set it)
  id : Bytes                 -- UTF-8 of the beacon id
  catchup : Int
  nodes : List Node
  genesisTime : Int
  genesisSeed : Option Bytes -- `nil` or the stored seed
  transitionTime : Int
  publicKey : Option (List Bytes)
  deriving DecidableEq, Repr

structure GroupTOML where
  threshold : Int
  period : String
  catchupPeriod : String
  nodes : List NodeTOML
  genesisTime : Int
  transitionTime : Int
  genesisSeed : String
  publicKey : Option (List String)
  schemeID : String
  id : Bytes
  deriving DecidableEq, Repr

/-- the parameters `Group.Hash` reads (C17) -/
def Group.params (g : Group) : GroupParams :=
  { nodes := g.nodes.map fun n => ⟨n.index, n.ident.key⟩
    threshold := u32 g.threshold
    genesis := g.genesisTime
    transition := g.transitionTime
    pk := g.publicKey
    id := g.id }

/-- `Group.GetGenesisSeed`: the stored seed, or the group hash. (In Go this also *stores* the hash in the group
and `Hash` sorts `g.Nodes` in place; the mirrors are filled from the node list before that happens, so the encoded
node order is the order before the call.) -/
def Group.seed (L : Leaf) (g : Group) : Bytes :=
  match g.genesisSeed with
  | some s => s
  | none => L.gHash g.params

/-- `DistPublic.TOML` / `DistPublic.FromTOML` -/
def distPublicToTOML (L : Leaf) (cs : List Bytes) : List String := cs.map L.hexEnc
def distPublicFromTOML (L : Leaf) (sch : String) (cs : List String) : Dec (List Bytes) := mapE (decPoint L sch) cs

/-- `Group.TOML` -/
def Group.toTOML (L : Leaf) (g : Group) : GroupTOML :=
  { threshold := g.threshold
    nodes := g.nodes.map (Node.toTOML L)
    publicKey := g.publicKey.map (distPublicToTOML L)
    id := g.id
    schemeID := g.scheme
    period := L.durEnc g.period
    catchupPeriod := L.durEnc g.catchup
    genesisTime := g.genesisTime
    transitionTime := if g.transitionTime ≠ 0 then g.transitionTime else 0
    genesisSeed := L.hexEnc (g.seed L) }

/-- the `if` conditions of `Group.FromTOML` in source order (tied to the regenerated list) -/
def groupFromTOMLGuards : List String :=
  ["i==nil", "!ok", "err!=nil", "err:=g.Nodes[i].FromTOML(ptoml);err!=nil",
   "g.Threshold<dkg.MinimumT(len(gt.Nodes))", "g.Threshold>g.Len()", "gt.PublicKey!=nil",
   "err=g.PublicKey.FromTOML(sch,gt.PublicKey);err!=nil", "err!=nil", "gt.CatchupPeriod==\"\"", "err!=nil",
   "gt.TransitionTime!=0", "gt.GenesisSeed!=\"\"", "g.GenesisSeed,err=hex.DecodeString(gt.GenesisSeed);err!=nil"]

/-- `Group.FromTOML` on a zero `Group` -/
def Group.fromTOML (L : Leaf) (gt : GroupTOML) : Dec Group :=
  match getSchemeByID gt.schemeID with
  | .error e => .error e
  | .ok sch =>
    match mapE (Node.fromTOML L) gt.nodes with
    | .error e => .error e
    | .ok nodes =>
      if gt.threshold < (Gen.minimumT gt.nodes.length : Nat) then .error .thresholdLow
      else if gt.threshold > (nodes.length : Nat) then .error .thresholdHigh
      else
        match optE (distPublicFromTOML L sch) gt.publicKey with
        | .error e => .error e
        | .ok pk =>
          match L.durDec gt.period with
          | none => .error .badDuration
          | some period =>
            match (if gt.catchupPeriod = "" then some 0 else L.durDec gt.catchupPeriod) with
            | none => .error .badDuration
            | some catchup =>
              match (if gt.genesisSeed ≠ "" then (L.hexDec gt.genesisSeed).map some else some none) with
              | none => .error .badHex
              | some seed =>
                .ok { threshold := gt.threshold
                      period := period
                      scheme := sch
                      id := canonId gt.id
                      catchup := catchup
                      nodes := nodes
                      genesisTime := gt.genesisTime
                      genesisSeed := seed
                      transitionTime := if gt.transitionTime ≠ 0 then gt.transitionTime else 0
                      publicKey := pk }

/-- `common.CompareBeaconIDs` -/
def compareBeaconIDs (a b : Bytes) : Bool := (isDefaultId a && isDefaultId b) || a == b

def nodesEqual : List Node → List Node → Bool
  | [], [] => true
  | a :: t, b :: t' => a.equal b && nodesEqual t t'
  | _, _ => false

/-- `sort.Slice(g.Nodes, Index <)` as `Group.Hash` does it (insertion; with distinct indices the algorithm does not matter) -/
def insertByIndex (n : Node) : List Node → List Node
  | [] => [n]
  | x :: t => if n.index < x.index then n :: x :: t else x :: insertByIndex n t

def sortByIndex : List Node → List Node
  | [] => []
  | x :: t => insertByIndex x (sortByIndex t)

/-- the node list `Group.Equal` ends up comparing: `Equal` calls `GetGenesisSeed()` on both sides, which for a group
without a stored seed calls `Hash()`, and `Hash()` sorts `g.Nodes` in place -/
def Group.nodesForEqual (g : Group) : List Node :=
  if g.genesisSeed.isNone then sortByIndex g.nodes else g.nodes

/-- `Group.Equal` (it compares neither `GenesisTime` nor `CatchupPeriod`; it is not pure, see `nodesForEqual`) -/
def Group.equal (L : Leaf) (g g2 : Group) : Bool :=
  compareBeaconIDs g.id g2.id && g.threshold == g2.threshold && L.durEnc g.period == L.durEnc g2.period &&
  g.nodes.length == g2.nodes.length && g.seed L == g2.seed L && g.transitionTime == g2.transitionTime &&
  g.scheme == g2.scheme && nodesEqual g.nodesForEqual g2.nodesForEqual && g.publicKey == g2.publicKey

structure GroupPacket where
  nodes : List PNode
  threshold : Nat       -- uint32
  period : Nat          -- uint32, seconds
  genesisTime : Nat     -- uint64
  transitionTime : Nat  -- uint64
  genesisSeed : Bytes   -- after the wire: empty = absent
  distKey : List Bytes
  catchupPeriod : Nat   -- uint32, seconds
  schemeID : String
  beaconID : Bytes      -- Metadata.BeaconID
  deriving DecidableEq, Repr

/-- `Group.ToProto` -/
def Group.toProto (L : Leaf) (g : Group) : GroupPacket :=
  { nodes := g.nodes.map fun n => ⟨n.ident.toProto, n.index⟩
    period := secondsU32 g.period
    catchupPeriod := secondsU32 g.catchup
    threshold := u32 g.threshold
    genesisTime := u64OfInt g.genesisTime
    transitionTime := u64OfInt g.transitionTime
    genesisSeed := g.seed L
    schemeID := g.scheme
    beaconID := canonId g.id
    distKey := match g.publicKey with | some cs => cs | none => [] }

/-- the `if` conditions of `GroupFromProto` in source order (tied to the regenerated list) -/
def groupFromProtoGuards : List String :=
  ["err!=nil", "targetScheme!=nil&&targetScheme.Name!=sch.Name", "err!=nil", "thr<MinimumT(n)", "n>0&&thr>n",
   "genesisTime==0", "period==time.Duration(0)", "err:=c.UnmarshalBinary(coeff);err!=nil",
   "g.GetGenesisSeed()!=nil", "len(dist.Coefficients)>0", "len(dist.Coefficients)!=group.Threshold"]

/-- `targetScheme != nil && targetScheme.Name != sch.Name` -/
def targetMismatch (target : Option String) (sch : String) : Bool :=
  match target with
  | some t => t != sch
  | none => false

/-- `key.GroupFromProto`. `strict = false` is the code as it is (the upper threshold bound is only enforced when the
packet carries at least one node); `strict = true` is the corrected variant that also rejects a node-less packet
whose threshold is out of range. -/
def Group.fromProto (strict : Bool) (L : Leaf) (p : GroupPacket) (target : Option String) : Dec Group :=
  match schemeFromName p.schemeID with
  | .error e => .error e
  | .ok sch =>
    if targetMismatch target sch then .error .schemeMismatch else
    match mapE (nodeFromProto L sch) p.nodes with
    | .error e => .error e
    | .ok nodes =>
      let n := nodes.length
      let thr := p.threshold
      if thr < Gen.minimumT n then .error .thresholdLow
      else if (strict || decide (n > 0)) && decide (thr > n) then .error .thresholdHigh
      else
        let genesisTime := i64OfU64 p.genesisTime
        if genesisTime = 0 then .error .genesisZero else
        let period : Int := (p.period : Int) * 1000000000
        if period = 0 then .error .periodZero else
        let catchup : Int := (p.catchupPeriod : Int) * 1000000000
        match mapE (fun c => if L.pointOk sch c then (.ok c : Dec Bytes) else .error .badPoint) p.distKey with
        | .error e => .error e
        | .ok coeffs =>
          let seed : Option Bytes := if p.genesisSeed ≠ [] then some p.genesisSeed else none
          if coeffs.length > 0 then
            if coeffs.length ≠ thr then .error .coeffLen
            else .ok { threshold := thr, period := period, scheme := sch, id := p.beaconID, catchup := catchup,
                       nodes := nodes, genesisTime := genesisTime, genesisSeed := seed,
                       transitionTime := i64OfU64 p.transitionTime, publicKey := some coeffs }
          else .ok { threshold := thr, period := period, scheme := sch, id := p.beaconID, catchup := catchup,
                     nodes := nodes, genesisTime := genesisTime, genesisSeed := seed,
                     transitionTime := i64OfU64 p.transitionTime, publicKey := none }

/-! ### Share / ShareTOML, Pair / PairTOML and the key-pair files (common/key/keys.go, store.go) -/

structure Share where
  commits : List Bytes
  shareI : Int
  shareV : Bytes
  scheme : String
  deriving DecidableEq, Repr

structure ShareTOML where
  index : Int
  share : String
  commits : List String
  privatePoly : List String   -- never written, never read
  schemeName : String
  deriving DecidableEq, Repr

/-- `Share.TOML` -/
def Share.toTOML (L : Leaf) (s : Share) : ShareTOML :=
  { commits := s.commits.map L.hexEnc, share := L.hexEnc s.shareV, index := s.shareI, schemeName := s.scheme,
    privatePoly := [] }

/-- `Share.FromTOML` -/
def Share.fromTOML (L : Leaf) (t : ShareTOML) : Dec Share :=
  match getSchemeByID t.schemeName with
  | .error e => .error e
  | .ok sch =>
    match mapE (decPoint L sch) t.commits with
    | .error e => .error e
    | .ok commits =>
      match decScalar L sch t.share with
      | .error e => .error e
      | .ok v => .ok { commits := commits, shareI := t.index, shareV := v, scheme := sch }

structure Pair where
  key : Bytes
  pub : Identity
  deriving DecidableEq, Repr

structure PairTOML where
  key : String
  schemeName : String
  deriving DecidableEq, Repr

/-- `Pair.TOML` (`p.Public.Scheme.Name`: a nil scheme is a nil dereference in Go; "" stands for it here) -/
def Pair.toTOML (L : Leaf) (p : Pair) : PairTOML := ⟨L.hexEnc p.key, p.pub.scheme.getD ""⟩

/-- `Pair.FromTOML`: only the private scalar and the scheme come back; the public part is a fresh identity -/
def Pair.fromTOML (L : Leaf) (t : PairTOML) : Dec Pair :=
  match getSchemeByID t.schemeName with
  | .error e => .error e
  | .ok sch =>
    match decScalar L sch t.key with
    | .error e => .error e
    | .ok k => .ok ⟨k, { Identity.zero with scheme := some sch }⟩

/-- `fileStore.SaveKeyPair`: the private file and the public file -/
def saveKeyPair (L : Leaf) (p : Pair) : PairTOML × PublicTOML := (p.toTOML L, p.pub.toTOML L)

/-- `fileStore.LoadKeyPair`: private first, then the public file into `p.Public` -/
def loadKeyPair (L : Leaf) (f : PairTOML × PublicTOML) : Dec Pair :=
  match Pair.fromTOML L f.1 with
  | .error e => .error e
  | .ok p =>
    match Identity.fromTOML L p.pub f.2 with
    | .error e => .error e
    | .ok i => .ok { p with pub := i }

/-! ### chain.Info: JSON and protobuf (common/chain/info.go, convert.go) -/

structure Info where
  publicKey : Bytes
  id : Bytes
  period : Int
  scheme : String
  genesisTime : Int
  genesisSeed : Bytes
  deriving DecidableEq, Repr

def Info.chainParams (i : Info) : ChainParams :=
  { periodSec := secondsU32 i.period, genesis := i.genesisTime, pk := i.publicKey, seed := i.genesisSeed, id := i.id }

/-- `Info.HashString` -/
def Info.hashString (L : Leaf) (i : Info) : String := L.hexEnc (L.cHash i.chainParams)

/-- `Info.Equal` -/
def Info.equal (a b : Info) : Bool :=
  a.genesisTime == b.genesisTime && a.period == b.period && a.publicKey == b.publicKey &&
  a.genesisSeed == b.genesisSeed && compareBeaconIDs a.id b.id && a.scheme == b.scheme

/-- the anonymous struct of `MarshalJSON` -/
structure InfoJSONOut where
  publicKey : String
  beaconID : Bytes
  period : Nat
  scheme : String
  genesisTime : Int
  genesisSeed : String
  chainHash : String
  deriving DecidableEq, Repr

/-- the anonymous struct of `UnmarshalJSON` (three more, legacy, entries) -/
structure InfoJSONIn where
  publicKey : String
  beaconID : Bytes
  period : Nat
  scheme : String
  genesisTime : Int
  genesisSeed : String
  chainHash : String
  oldSchemeID : String
  /-- `groupHash`, `none` when the entry is absent (then nothing is decoded) -/
  oldGroupHash : Option String
  /-- `metadata.beaconID`, `none` when there is no `metadata` object -/
  oldBeaconID : Option Bytes
  deriving DecidableEq, Repr

/-- what `encoding/json` hands to `UnmarshalJSON` for a document written by `MarshalJSON`: entries are matched
by json tag (the tag lists are regenerated and compared in DrandProofs/C20.lean); the legacy entries are absent -/
def jsonWire (o : InfoJSONOut) : InfoJSONIn :=
  { publicKey := o.publicKey, beaconID := o.beaconID, period := o.period, scheme := o.scheme,
    genesisTime := o.genesisTime, genesisSeed := o.genesisSeed, chainHash := o.chainHash,
    oldSchemeID := "", oldGroupHash := none, oldBeaconID := none }

/-- `Info.MarshalJSON` -/
def Info.marshalJSON (L : Leaf) (i : Info) : InfoJSONOut :=
  { beaconID := i.id, scheme := i.scheme, period := secondsU64 i.period, genesisSeed := L.hexEnc i.genesisSeed,
    genesisTime := i.genesisTime, chainHash := i.hashString L, publicKey := L.hexEnc i.publicKey }

def infoUnmarshalJSONGuards : List String :=
  ["err!=nil", "v2Str.OldSchemeID!=\"\"&&i.Scheme==\"\"", "v2Str.OldMetadata!=nil&&v2Str.OldMetadata.OldBeaconID!=\"\"",
   "err!=nil", "err!=nil", "v2Str.ChainHash!=\"\"", "i.HashString()!=v2Str.ChainHash"]

/-- `Info.UnmarshalJSON` -/
def Info.unmarshalJSON (L : Leaf) (v : InfoJSONIn) : Dec Info :=
  -- json.Unmarshal into the struct: the three HexBytes entries are hex-decoded here
  match L.hexDec v.publicKey, L.hexDec v.genesisSeed,
        (match v.oldGroupHash with | none => some [] | some s => L.hexDec s) with
  | some pkb, some seed, some oldHash =>
    let period := wrapI64 ((v.period : Int) * 1000000000)
    let legacy := v.oldSchemeID ≠ "" && v.scheme = ""
    let scheme := if legacy then v.oldSchemeID else v.scheme
    let seed' := if legacy then oldHash else seed
    let id := if legacy then (match v.oldBeaconID with | some b => if b ≠ [] then b else v.beaconID | none => v.beaconID)
              else v.beaconID
    match getSchemeByID scheme with
    | .error e => .error e
    | .ok sch =>
      if !L.pointOk sch pkb then .error .badPoint else
      let i : Info := { publicKey := pkb, id := id, period := period, scheme := scheme,
                        genesisTime := v.genesisTime, genesisSeed := seed' }
      if v.chainHash ≠ "" then
        if i.hashString L ≠ v.chainHash then .error .hashMismatch else .ok i
      else .ok i
  | _, _, _ => .error .badJSON

structure ChainInfoPacket where
  publicKey : Bytes
  period : Nat        -- uint32 seconds
  genesisTime : Int
  hash : Bytes        -- written, never read back by InfoFromProto
  groupHash : Bytes
  schemeID : String
  beaconID : Bytes    -- Metadata.BeaconID
  deriving DecidableEq, Repr

/-- `Info.ToProto` -/
def Info.toProto (L : Leaf) (i : Info) : ChainInfoPacket :=
  { publicKey := i.publicKey, genesisTime := i.genesisTime, period := secondsU32 i.period,
    hash := L.cHash i.chainParams, groupHash := i.genesisSeed, schemeID := i.scheme, beaconID := i.id }

/-- `chain.InfoFromProto`: the scheme *name* is the canonical one of the scheme found -/
def infoFromProto (L : Leaf) (p : ChainInfoPacket) : Dec Info :=
  match getSchemeByID p.schemeID with
  | .error e => .error e
  | .ok sch =>
    if !L.pointOk sch p.publicKey then .error .badPoint else
    .ok { publicKey := p.publicKey, genesisTime := p.genesisTime, period := (p.period : Int) * 1000000000,
          genesisSeed := p.groupHash, scheme := sch, id := p.beaconID }

/-! ### Beacon: JSON and protobuf (common/beacon.go, internal/chain/beacon/convert.go) -/

/-- the JSON object of a `common.Beacon` (`previous_signature` has `omitempty`) -/
structure BeaconJSON where
  previousSignature : Option String
  round : Nat
  signature : String
  deriving DecidableEq, Repr

def beaconJsonTags : List String := ["previous_signature,omitempty", "round", "signature"]

/-- `Beacon.Marshal` -/
def beaconToJSON (L : Leaf) (b : Beacon) : BeaconJSON :=
  { previousSignature := if b.prev = [] then none else some (L.hexEnc b.prev), round := b.round,
    signature := L.hexEnc b.sig }

/-- `Beacon.Unmarshal` into a zero beacon -/
def beaconFromJSON (L : Leaf) (j : BeaconJSON) : Dec Beacon :=
  match (match j.previousSignature with | none => some [] | some s => L.hexDec s), L.hexDec j.signature with
  | some prev, some sig => .ok { round := j.round, sig := sig, prev := prev }
  | _, _ => .error .badJSON

structure BeaconPacket where
  previousSignature : Bytes
  round : Nat
  signature : Bytes
  beaconID : Bytes
  deriving DecidableEq, Repr

def beaconToProto (b : Beacon) (beaconID : Bytes) : BeaconPacket := ⟨b.prev, b.round, b.sig, beaconID⟩
def protoToBeacon (p : BeaconPacket) : Beacon := { round := p.round, sig := p.signature, prev := p.previousSignature }

/-! ### DBState / DBStateTOML (internal/dkg/state_machine.go) -/

structure Participant where
  address : String
  key : Bytes
  signature : Bytes
  deriving DecidableEq, Repr

/-- a `time.Time` as RFC 3339 carries it: the instant and the zone offset -/
structure GoTime where
  ns : Int
  off : Int
  deriving DecidableEq, Repr

def GoTime.utc (t : GoTime) : GoTime := { t with off := 0 }
/-- `Time.Unix()` -/
def GoTime.unix (t : GoTime) : Int := t.ns / 1000000000

structure DBState where
  beaconID : Bytes
  epoch : Nat
  state : Nat
  threshold : Nat
  timeout : GoTime
  schemeID : String
  genesisTime : GoTime
  genesisSeed : Bytes
  catchupPeriod : Int
  beaconPeriod : Int
  leader : Option Participant
  remaining : List Participant
  joining : List Participant
  leaving : List Participant
  acceptors : List Participant
  rejectors : List Participant
  finalGroup : Option Group
  keyShare : Option Share
  deriving DecidableEq, Repr

structure DBStateTOML where
  beaconID : Bytes
  epoch : Nat
  state : Nat
  threshold : Nat
  timeout : GoTime
  schemeID : String
  genesisTime : GoTime
  genesisSeed : Bytes
  transitionTime : GoTime   -- never set by TOML(), never read by FromTOML()
  catchupPeriod : Int
  beaconPeriod : Int
  leader : Option Participant
  remaining : List Participant
  joining : List Participant
  leaving : List Participant
  acceptors : List Participant
  rejectors : List Participant
  finalGroup : Option GroupTOML
  keyShare : Option ShareTOML
  deriving DecidableEq, Repr

/-- `DBState.TOML` -/
def DBState.toTOML (L : Leaf) (d : DBState) : DBStateTOML :=
  { beaconID := d.beaconID, epoch := d.epoch, state := d.state, threshold := d.threshold, timeout := d.timeout,
    schemeID := d.schemeID, genesisTime := d.genesisTime.utc, genesisSeed := d.genesisSeed,
    transitionTime := ⟨0, 0⟩, catchupPeriod := d.catchupPeriod, beaconPeriod := d.beaconPeriod, leader := d.leader,
    remaining := d.remaining, joining := d.joining, leaving := d.leaving, acceptors := d.acceptors,
    rejectors := d.rejectors, finalGroup := d.finalGroup.map (Group.toTOML L),
    keyShare := d.keyShare.map (Share.toTOML L) }

def dbStateFromTOMLGuards : List String := ["d.KeyShare!=nil", "err!=nil", "d.FinalGroup!=nil", "err!=nil", "err!=nil"]

/-- the `d.FinalGroup != nil` branch of `DBStateTOML.FromTOML` -/
def finalGroupFromTOML (L : Leaf) (schemeID : String) (g : GroupTOML) : Dec Group :=
  match getSchemeByID schemeID with
  | .error e => .error e
  | .ok _ => Group.fromTOML L g

/-- `DBStateTOML.FromTOML`: share first, then the group (whose scheme is first looked up from the *state's*
`SchemeID`, an error if that fails, and then overwritten by `Group.FromTOML` from the group's own `SchemeID`) -/
def DBStateTOML.fromTOML (L : Leaf) (t : DBStateTOML) : Dec DBState :=
  match optE (Share.fromTOML L) t.keyShare with
  | .error e => .error e
  | .ok share =>
    match optE (finalGroupFromTOML L t.schemeID) t.finalGroup with
    | .error e => .error e
    | .ok group =>
      .ok { beaconID := t.beaconID, epoch := t.epoch, state := t.state, threshold := t.threshold, timeout := t.timeout,
            schemeID := t.schemeID, genesisTime := t.genesisTime.utc, genesisSeed := t.genesisSeed,
            catchupPeriod := t.catchupPeriod, beaconPeriod := t.beaconPeriod, leader := t.leader,
            remaining := t.remaining, joining := t.joining, leaving := t.leaving, acceptors := t.acceptors,
            rejectors := t.rejectors, finalGroup := group, keyShare := share }

/-- `DBState.Equals`: times at second granularity; `reflect.DeepEqual` on participants is structural equality;
`reflect.DeepEqual(d.KeyShare, e.KeyShare)` on two distinct non-nil shares is false whatever they hold, because it
descends into `*crypto.Scheme`, whose function-valued fields are never deeply equal — so only nil = nil is equal
(the reloaded share never is the same pointer). `Equals` is a test helper in drand. -/
def DBState.equals (L : Leaf) (d e : DBState) : Bool :=
  d.beaconID == e.beaconID && d.epoch == e.epoch && d.state == e.state && d.threshold == e.threshold &&
  d.timeout.unix == e.timeout.unix && d.schemeID == e.schemeID && d.genesisTime.unix == e.genesisTime.unix &&
  d.genesisSeed == e.genesisSeed && d.catchupPeriod == e.catchupPeriod && d.beaconPeriod == e.beaconPeriod &&
  d.leader == e.leader && d.remaining == e.remaining && d.joining == e.joining && d.leaving == e.leaving &&
  d.acceptors == e.acceptors && d.rejectors == e.rejectors &&
  (match d.finalGroup, e.finalGroup with
   | none, none => true
   | some g, some g2 => g.equal L g2
   | _, _ => false) &&
  (d.keyShare.isNone && e.keyShare.isNone)

/-! ### concrete leaves (used by the driver and for the non-vacuity examples) -/

/-- `hex.EncodeToString`: lower-case, two digits per byte -/
def hexEncC (b : Bytes) : String :=
  String.ofList (b.flatMap fun x => [hexDigit (x.toNat / 16), hexDigit (x.toNat % 16)])
/-- `hex.DecodeString`: even length, digits of either case -/
def hexDecC (s : String) : Option Bytes := fromHexAux s.toList

/-- a toy duration syntax (sign, then unary) — only to show `LeafOK` is satisfiable; the driver uses labels -/
def durEncU (d : Int) : String :=
  if 0 ≤ d then String.ofList ('+' :: List.replicate d.toNat '1') else String.ofList ('-' :: List.replicate (-d).toNat '1')
def durDecU (s : String) : Option Int :=
  match s.toList with
  | '+' :: t => some (t.length : Int)
  | '-' :: t => some (-(t.length : Int))
  | _ => none

/-- demo leaf: real hex, toy durations, "a point is any 2 bytes, a scalar any 1 byte", addresses must be non-empty -/
def Leaf.demo : Leaf :=
  { hexEnc := hexEncC, hexDec := hexDecC, durEnc := durEncU, durDec := durDecU,
    pointOk := fun _ b => b.length == 2, scalarOk := fun _ b => b.length == 1, addrOk := fun a => a != "",
    gHash := fun p => [UInt8.ofNat p.threshold, 7], cHash := fun c => [UInt8.ofNat c.periodSec, 9] }

/-- the field lists of the Go structs as this model has them, per conversion pair: (name, type fields, mirror
fields). Tied to the regenerated lists in DrandProofs/C20.lean, so a field added in Go breaks the tie until the
model follows. -/
def modelFields : List (String × List String × List String) := [
  ("DBState/TOML",
    ["BeaconID", "Epoch", "State", "Threshold", "Timeout", "SchemeID", "GenesisTime", "GenesisSeed", "CatchupPeriod",
     "BeaconPeriod", "Leader", "Remaining", "Joining", "Leaving", "Acceptors", "Rejectors", "FinalGroup", "KeyShare"],
    ["BeaconID", "Epoch", "State", "Threshold", "Timeout", "SchemeID", "GenesisTime", "GenesisSeed", "TransitionTime",
     "CatchupPeriod", "BeaconPeriod", "Leader", "Remaining", "Joining", "Leaving", "Acceptors", "Rejectors",
     "FinalGroup", "KeyShare"]),
  ("Group/TOML",
    ["Threshold", "Period", "Scheme", "ID", "CatchupPeriod", "Nodes", "GenesisTime", "GenesisSeed", "TransitionTime",
     "PublicKey"],
    ["Threshold", "Period", "CatchupPeriod", "Nodes", "GenesisTime", "TransitionTime", "GenesisSeed", "PublicKey",
     "SchemeID", "ID"]),
  ("Identity/TOML", ["Key", "Addr", "Signature", "Scheme"], ["Address", "Key", "Signature", "SchemeName"]),
  ("Node/TOML", ["Identity", "Index"], ["PublicTOML", "Index"]),
  ("Pair/TOML", ["Key", "Public"], ["Key", "SchemeName"]),
  ("Share/TOML", ["Commits", "Share", "Scheme"], ["Index", "Share", "Commits", "PrivatePoly", "SchemeName"]),
  ("DistPublic/TOML", ["Coefficients"], ["Coefficients"]),
  ("Info/JSON", ["PublicKey", "ID", "Period", "Scheme", "GenesisTime", "GenesisSeed"],
    ["PublicKey", "ID", "Period", "Scheme", "GenesisTime", "GenesisSeed", "ChainHash", "OldSchemeID", "OldGroupHash",
     "OldMetadata"]),
  ("Group/Proto",
    ["Threshold", "Period", "Scheme", "ID", "CatchupPeriod", "Nodes", "GenesisTime", "GenesisSeed", "TransitionTime",
     "PublicKey"],
    ["Nodes", "Threshold", "Period", "GenesisTime", "TransitionTime", "GenesisSeed", "DistKey", "CatchupPeriod",
     "SchemeID", "Metadata"]),
  ("Identity/Proto", ["Key", "Addr", "Signature", "Scheme"], ["Address", "Key", "Tls", "Signature"]),
  ("Info/Proto", ["PublicKey", "ID", "Period", "Scheme", "GenesisTime", "GenesisSeed"],
    ["PublicKey", "Period", "GenesisTime", "Hash", "GroupHash", "SchemeID", "Metadata"]),
  ("Beacon/Proto", ["PreviousSig", "Round", "Signature"], ["PreviousSignature", "Round", "Signature", "Metadata"])]

/-- Fields that are legitimately not covered by a conversion body: (pair, direction, field). -/
def coverageExemptions : List (String × String × String) := [
  -- DBStateTOML.TransitionTime is declared in the mirror but DBState has no such field: TOML() never sets it and
  -- FromTOML() never reads it (a dead entry that is written as the zero time)
  ("DBState/TOML", "to-write", "TransitionTime"), ("DBState/TOML", "from-read", "TransitionTime"),
  -- ShareTOML.PrivatePoly: legacy entry of the share file, neither written nor read
  ("Share/TOML", "to-write", "PrivatePoly"), ("Share/TOML", "from-read", "PrivatePoly"),
  -- proto Identity.Tls: deprecated wire field, neither set nor read
  ("Identity/Proto", "to-write", "Tls"), ("Identity/Proto", "from-read", "Tls"),
  -- Identity.Scheme does not travel: IdentityFromProto takes it from its `targetScheme` argument
  ("Identity/Proto", "to-read", "Scheme"),
  -- ChainInfoPacket.Hash is derived from the other fields on encode; InfoFromProto does not read it back
  ("Info/Proto", "from-read", "Hash"),
  -- BeaconPacket.Metadata carries the beacon id for routing; it is not part of common.Beacon
  ("Beacon/Proto", "from-read", "Metadata")]

def Mirror.covered (ex : List (String × String × String)) (m : Gen.Mirror) : Bool :=
  m.typeFields.all (fun f => m.toReads.contains f || ex.contains (m.name, "to-read", f)) &&
  m.mirrorFieldsTo.all (fun f => m.toWrites.contains f || ex.contains (m.name, "to-write", f)) &&
  m.mirrorFieldsFrom.all (fun f => m.fromReads.contains f || ex.contains (m.name, "from-read", f)) &&
  m.typeFields.all (fun f => m.fromWrites.contains f || ex.contains (m.name, "from-write", f))

/-- an exemption is *needed*: the field exists on that side of that pair and the body really does not touch it -/
def exemptionNeeded (ms : List Gen.Mirror) (e : String × String × String) : Bool :=
  ms.any fun m => m.name == e.1 &&
    (match e.2.1 with
     | "to-read" => m.typeFields.contains e.2.2 && !m.toReads.contains e.2.2
     | "to-write" => m.mirrorFieldsTo.contains e.2.2 && !m.toWrites.contains e.2.2
     | "from-read" => m.mirrorFieldsFrom.contains e.2.2 && !m.fromReads.contains e.2.2
     | "from-write" => m.typeFields.contains e.2.2 && !m.fromWrites.contains e.2.2
     | _ => false)

/-! ### well-formedness: what the producers of these values establish (hypotheses of the C20 theorems) -/

/-- an identity as `NewKeyPair` / `IdentityFromProto` / `Identity.FromTOML` make it: a known scheme and a key that
decodes under it -/
def Identity.WF (L : Leaf) (i : Identity) : Prop :=
  ∃ s, i.scheme = some s ∧ s ∈ Gen.schemeNames ∧ L.pointOk s i.key = true

/-- a group that goes into a group file / a DKG database record -/
structure Group.WFTOML (L : Leaf) (g : Group) : Prop where
  scheme : g.scheme ∈ Gen.schemeNames
  nodes : ∀ n ∈ g.nodes, n.ident.WF L
  thrLow : (Gen.minimumT g.nodes.length : Int) ≤ g.threshold
  thrHigh : g.threshold ≤ (g.nodes.length : Int)
  coeffs : ∀ cs, g.publicKey = some cs → ∀ c ∈ cs, L.pointOk g.scheme c = true
  /-- a stored seed is never the empty string (it is a 32-byte hash) -/
  seed : g.genesisSeed ≠ some []

/-- what `Group.FromTOML (g.TOML())` is: the id canonicalised, the seed materialised -/
def Group.canonTOML (L : Leaf) (g : Group) : Group :=
  { g with id := canonId g.id, genesisSeed := some (g.seed L) }

/-- a group that goes on the wire (`ToProto`): additionally whole-second periods that fit 32 bits, a non-zero
genesis time, 64-bit times, dialable addresses, member keys that decode under the *group's* scheme, and a
distributed key with exactly `threshold` coefficients -/
structure Group.WFProto (L : Leaf) (g : Group) : Prop where
  scheme : g.scheme ∈ Gen.schemeNames
  nodes : ∀ n ∈ g.nodes, L.addrOk n.ident.addr = true ∧ L.pointOk g.scheme n.ident.key = true
  thrLow : (Gen.minimumT g.nodes.length : Int) ≤ g.threshold
  thrHigh : g.threshold ≤ (g.nodes.length : Int)
  nodesFit : g.nodes.length < 4294967296
  period : ∃ k : Nat, 0 < k ∧ k < 4294967296 ∧ g.period = (k : Int) * 1000000000
  catchup : ∃ k : Nat, k < 4294967296 ∧ g.catchup = (k : Int) * 1000000000
  genesisNZ : g.genesisTime ≠ 0
  genesis64 : -9223372036854775808 ≤ g.genesisTime ∧ g.genesisTime < 9223372036854775808
  transition64 : -9223372036854775808 ≤ g.transitionTime ∧ g.transitionTime < 9223372036854775808
  coeffs : ∀ cs, g.publicKey = some cs → (cs.length : Int) = g.threshold ∧ ∀ c ∈ cs, L.pointOk g.scheme c = true
  seed : g.genesisSeed ≠ some []

/-- what `GroupFromProto (g.ToProto())` is: id canonicalised, seed materialised, every member identity carries the
group's scheme -/
def Group.canonProto (L : Leaf) (g : Group) : Group :=
  { g with id := canonId g.id, genesisSeed := some (g.seed L),
           nodes := g.nodes.map fun n => { n with ident := { n.ident with scheme := some g.scheme } } }

structure Share.WF (L : Leaf) (s : Share) : Prop where
  scheme : s.scheme ∈ Gen.schemeNames
  commits : ∀ c ∈ s.commits, L.pointOk s.scheme c = true
  share : L.scalarOk s.scheme s.shareV = true

structure Pair.WF (L : Leaf) (p : Pair) : Prop where
  pub : ∃ s, p.pub.scheme = some s ∧ s ∈ Gen.schemeNames ∧ L.pointOk s p.pub.key = true ∧ L.scalarOk s p.key = true

structure Info.WF (L : Leaf) (i : Info) : Prop where
  scheme : i.scheme ∈ Gen.schemeNames
  key : L.pointOk i.scheme i.publicKey = true
  period : ∃ k : Nat, k < 4294967296 ∧ i.period = (k : Int) * 1000000000

structure DBState.WF (L : Leaf) (d : DBState) : Prop where
  share : ∀ s, d.keyShare = some s → s.WF L
  group : ∀ g, d.finalGroup = some g → g.WFTOML L ∧ (d.schemeID = "" ∨ d.schemeID ∈ Gen.schemeNames)

/-- what `DBStateTOML.FromTOML (d.TOML())` is -/
def DBState.canon (L : Leaf) (d : DBState) : DBState :=
  { d with genesisTime := d.genesisTime.utc, finalGroup := d.finalGroup.map (Group.canonTOML L) }

end Drand.Codec
