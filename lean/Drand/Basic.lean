/- Shared basic types for the drand model. Core Lean only. -/
namespace Drand

abbrev Bytes := List UInt8

/-- `common.Beacon` -/
structure Beacon where
  round : Nat
  sig : Bytes
  prev : Bytes
  deriving DecidableEq, Repr, Inhabited

def hexDigit (n : Nat) : Char :=
  if n < 10 then Char.ofNat (48 + n) else Char.ofNat (87 + n)

def toHex (b : Bytes) : String :=
  if b.isEmpty then "-" else
  String.ofList (b.flatMap fun x => [hexDigit (x.toNat / 16), hexDigit (x.toNat % 16)])

def hexVal (c : Char) : Option Nat :=
  if '0' ≤ c ∧ c ≤ '9' then some (c.toNat - 48)
  else if 'a' ≤ c ∧ c ≤ 'f' then some (c.toNat - 87)
  else if 'A' ≤ c ∧ c ≤ 'F' then some (c.toNat - 55)
  else none

def fromHexAux : List Char → Option Bytes
  | [] => some []
  | [_] => none
  | a :: b :: t =>
    match hexVal a, hexVal b, fromHexAux t with
    | some x, some y, some r => some (UInt8.ofNat (x * 16 + y) :: r)
    | _, _, _ => none

/-- "-" is the empty byte string -/
def fromHex (s : String) : Option Bytes :=
  if s = "-" then some [] else fromHexAux s.toList

def Beacon.show (b : Beacon) : String := s!"{b.round} {toHex b.sig} {toHex b.prev}"

end Drand
