/-
C13 — crash consistency of a drand node's on-disk state (DESIGN.md §3 C13).

The disk of one beacon of one node:
  * `chain`   — rounds in `<folder>/multibeacon/<id>/db/drand.db` (bucket `beacons`)
  * `db`      — `<folder>/dkg.db`: bucket `dkg` (staged/current record) and `dkg_finished` (last completed epoch)
  * `group`   — `groups/drand_group.toml`
  * `share`   — `groups/dist_key.private`
A key file's content is identified by the epoch whose DKG produced it.

Persistence steps (`Op`) are atomic except `write`: a crash while the TOML encoder writes leaves a prefix of the
encoding (`FileState.torn`), classified by what the real decoder (`key.Load`) makes of that prefix.
The op sequences of the scripted runs follow the call structure of the Go code; the call lists next to them are
the ones `go2lean` regenerates from the source on every run (`Gen.*Persist`), tied by `tie_*` theorems.

VARIANT SWITCH `WriteMode` (DESIGN §2.5) for the file-write primitive `key.Save`:
  * `inPlace`      — create/truncate the target, encode into it: a crash leaves the target absent-then-empty, a proper
                     prefix, or complete;
  * `atomicRename` — encode into the sibling `<target>.tmp`, Sync, Close, rename over the target: a crash leaves the
                     target's OLD content intact (plus a stray, possibly torn, temporary file nobody loads) or the
                     complete NEW content.
Which of the two the tree under test has is the regenerated fact `Gen.keySaveVariant` (`codeWriteMode`,
`tie_keySave` in DrandProofs/C13.lean); the extractor refuses any other shape.

VARIANT SWITCH `Startup` for the start-up path `DrandDaemon.LoadBeaconFromStore`:
  * `asIs`        — with a completed DKG record in dkg.db it goes straight to `BeaconProcess.Load`;
  * `reconcile m` — with a completed DKG record `reconcileKeyFiles` first makes the key folder agree with the record
                    (its own writes are `key.Save`s / a `Reset`, i.e. steps of the file-write primitive `m`, and can be
                    interrupted by a crash like any other step), then `Load`.
Which of the two the tree has is the regenerated fact `Gen.startupVariant` (`codeStartup`, `tie_loadBeaconFromStore`,
`tie_reconcileKeyFiles`); the extractor refuses any other shape of either function.
-/
import Gen.Persist

namespace Drand.Persist

/-- what `key.Load` makes of a torn prefix of an encoding -/
inductive TornClass where
  | bad       -- the decoder returns an error
  | panics    -- the decoder panics (nil dereference in `Node.FromTOML` on a node table without fields)
  | same      -- the prefix already decodes to the whole value (only trailing bytes with a default are missing)
  | accepted  -- the prefix decodes, without error, to a *different*, truncated value
  deriving DecidableEq, Repr, Inhabited

def allClasses : List TornClass := [.bad, .panics, .same, .accepted]

inductive FileState where
  | absent
  | trunc                            -- exists, zero bytes (`os.Create` done, nothing written yet)
  | whole (e : Nat)                  -- complete encoding of epoch `e`'s value
  | torn (e : Nat) (c : TornClass)   -- a proper non-empty prefix of it
  deriving DecidableEq, Repr, Inhabited

inductive File where
  | group | share
  | groupTmp | shareTmp   -- `drand_group.toml.tmp`, `dist_key.private.tmp`: written by the atomicRename variant only, never loaded
  deriving DecidableEq, Repr

/-- `filePath + tmpExtension` -/
def File.tmp : File → File
  | .group => .groupTmp
  | .share => .shareTmp
  | f => f

/-- the file-write primitive `key.Save` (variant switch) -/
inductive WriteMode where
  | inPlace | atomicRename
  deriving DecidableEq, Repr

/-- the staged ("current") DKG record -/
inductive Staged where
  | fresh                              -- nothing stored: `GetCurrent` answers `NewFreshState`
  | staged (e : Nat) (status : String) -- written by `SaveCurrent`
  | complete (e : Nat)                 -- written by `SaveFinished` together with the finished bucket
  deriving DecidableEq, Repr, Inhabited

structure DkgDb where
  current : Staged
  finished : Option Nat
  deriving DecidableEq, Repr, Inhabited

structure Disk where
  chain : List Nat
  db : DkgDb
  group : FileState
  share : FileState
  groupTmp : FileState
  shareTmp : FileState
  deriving DecidableEq, Repr, Inhabited

/-- a disk without temporary files -/
def Disk.clean (chain : List Nat) (db : DkgDb) (group share : FileState) : Disk := ⟨chain, db, group, share, .absent, .absent⟩

inductive Op where
  | boltPut (r : Nat)                       -- one bbolt transaction on drand.db
  | serve (r : Nat)                         -- the round is handed to the callbacks / streams (no disk effect)
  | saveCurrent (e : Nat) (status : String) -- one transaction, staged bucket only
  | saveFinished (e : Nat)                  -- one transaction, both buckets
  | create (f : File)                       -- os.Create: create or truncate
  | chmod (f : File)
  | write (f : File) (e : Nat)              -- toml Encode + Close
  | remove (f : File)                       -- os.RemoveAll
  | rename (src dst : File)                 -- os.Rename: `dst` now names what `src` named, `src` is gone (atomic)
  deriving DecidableEq, Repr

def Disk.setFile (d : Disk) (f : File) (s : FileState) : Disk :=
  match f with
  | .group => { d with group := s }
  | .share => { d with share := s }
  | .groupTmp => { d with groupTmp := s }
  | .shareTmp => { d with shareTmp := s }

def Disk.getFile (d : Disk) : File → FileState
  | .group => d.group
  | .share => d.share
  | .groupTmp => d.groupTmp
  | .shareTmp => d.shareTmp

def apply (d : Disk) : Op → Disk
  | .boltPut r => { d with chain := d.chain ++ [r] }
  | .serve _ => d
  | .saveCurrent e st => { d with db := { d.db with current := .staged e st } }
  | .saveFinished e => { d with db := ⟨.complete e, some e⟩ }
  | .create f => d.setFile f .trunc
  | .chmod _ => d
  | .write f e => d.setFile f (.whole e)
  | .remove f => d.setFile f .absent
  | .rename src dst => (d.setFile dst (d.getFile src)).setFile src .absent

def run (d : Disk) (ops : List Op) : Disk := ops.foldl apply d

/-! ### the scripted runs, structured like the code -/

/-- `fs.CreateSecureFile`: os.Create, Close, chmod, os.OpenFile -/
def createSecureFileCalls : List String := ["os.Create", "Close", "chmod", "os.OpenFile"]
def createSecureFileOps (f : File) : List Op := [.create f, .chmod f]

/-- `key.Save(path, v, secure)`, the calls as go2lean lists them (`Gen.keySavePersist`), per variant.
`Sync` and `Close` have no step of their own on the modelled disk (a completed write is durable: trusted file-system
assumption); that they come before `os.Rename`, and that `os.Rename` is only reached when everything before it
succeeded, is what the tie checks. -/
def keySaveCalls : WriteMode → List String
  | .inPlace => ["secure:fs.CreateSecureFile:filePath", "plain:os.Create:filePath", "defer:Close", "Encode"]
  | .atomicRename =>
    ["secure:fs.CreateSecureFile:filePath+tmpExtension", "plain:os.Create:filePath+tmpExtension",
     "err:os.Remove:filePath+tmpExtension", "Encode", "ok:Sync", "Close",
     "ok:os.Rename:filePath+tmpExtension:filePath", "err:os.Remove:filePath+tmpExtension"]

def creatorOps (f : File) (secure : Bool) : List Op := if secure then createSecureFileOps f else [.create f]

/-- the disk steps of one `Save`: in place — creator on the target, encode into it;
atomic — creator on the temporary sibling, encode into it, rename it over the target -/
def saveOps (m : WriteMode) (f : File) (secure : Bool) (e : Nat) : List Op :=
  match m with
  | .inPlace => creatorOps f secure ++ [.write f e]
  | .atomicRename => creatorOps f.tmp secure ++ [.write f.tmp e, .rename f.tmp f]

/-- the variant the tree under test has (regenerated fact) -/
def codeWriteMode : WriteMode := if Gen.keySaveVariant = "atomicRename" then .atomicRename else .inPlace

/-- `fileStore.SaveGroup` = Save(groupFile, g, false); `fileStore.SaveShare` = Save(shareFile, share, true) -/
def saveGroupCalls : List String := ["Save:f.groupFile:false"]
def saveShareCalls : List String := ["Save:f.shareFile:true"]
def saveGroupOps (m : WriteMode) (e : Nat) : List Op := saveOps m .group false e
def saveShareOps (m : WriteMode) (e : Nat) : List Op := saveOps m .share true e

/-- `BeaconProcess.storeDKGOutput`: SaveGroup, SaveShare, dkgCallback -/
def storeDKGOutputCalls : List String := ["store.SaveGroup", "store.SaveShare", "dkgCallback"]
def storeDKGOutputOps (m : WriteMode) (e : Nat) : List Op := saveGroupOps m e ++ saveShareOps m e

/-- `fileStore.Reset`: Delete(shareFile), Delete(groupFile) — and, in the atomicRename variant, the temporary files an
interrupted Save may have left; `key.Delete` = os.RemoveAll -/
def resetCalls : WriteMode → List String
  | .inPlace => ["Delete:f.shareFile", "Delete:f.groupFile"]
  | .atomicRename => ["Delete:f.shareFile", "Delete:f.groupFile", "Delete:f.shareFile+tmpExtension", "Delete:f.groupFile+tmpExtension"]
def resetOps : WriteMode → List Op
  | .inPlace => [.remove .share, .remove .group]
  | .atomicRename => [.remove .share, .remove .group, .remove .shareTmp, .remove .groupTmp]

/-- `BeaconProcess.leaveNetwork`: beacon.StopAt, store.Reset -/
def leaveNetworkCalls : List String := ["beacon.StopAt", "store.Reset"]

/-- `Process.executeAndFinishDKG`: … Complete, store.SaveFinished, then the result is sent to the consumer
(`onDKGCompleted` → transitionToNext / joinNetwork → storeDKGOutput, or → leaveNetwork) -/
def executeAndFinishDKGCalls : List String :=
  ["store.GetCurrent", "store.GetFinished", "startDKGExecution", "err:store.GetCurrent", "err:store.SaveCurrent",
   "Complete", "store.SaveFinished", "completedDKGs.send"]

/-- the order of the two persistent stages of a completion; the code's order is `[saveFinished, send]` -/
inductive Stage where
  | saveFinished | send
  deriving DecidableEq, Repr

def codeOrder : List Stage := [.saveFinished, .send]

def stageOps (consumer : List Op) (e : Nat) : Stage → List Op
  | .saveFinished => [.saveFinished e]
  | .send => consumer

/-- completion of epoch `e` on a node that is in the new group (first DKG, joining, staying) -/
def completionOpsIn (m : WriteMode) (order : List Stage) (e : Nat) : List Op := order.flatMap (stageOps (storeDKGOutputOps m e) e)
def completionOps (m : WriteMode) (e : Nat) : List Op := completionOpsIn m codeOrder e

/-- completion of epoch `e` on a node that ran the protocol but is not in the new group -/
def evictionOpsIn (m : WriteMode) (order : List Stage) (e : Nat) : List Op := order.flatMap (stageOps (resetOps m) e)
def evictionOps (m : WriteMode) (e : Nat) : List Op := evictionOpsIn m codeOrder e

/-- a DKG step that only touches the staged bucket (proposal, acceptance, execution start, failure, leaving) -/
def stagedOps (e : Nat) (status : String) : List Op := [.saveCurrent e status]

/-- `callbackStore.Put`: the base store's Put, and only when it returned without error the dispatch to callbacks -/
def callbackStorePutCalls : List String := ["Store.Put", "dispatch"]
def beaconOps (rounds : List Nat) : List Op := rounds.flatMap fun r => [.boltPut r, .serve r]

/-- rounds handed to callbacks / streams by a sequence of steps -/
def served (ops : List Op) : List Nat := ops.filterMap fun | .serve r => some r | _ => none

/-! ### crash images -/

inductive Cut where
  | after (k : Nat)                    -- the first `k` steps completed, step `k` not started
  | during (k : Nat) (c : TornClass)   -- step `k` is a `write` in flight, the file holds a torn prefix of class `c`
  deriving DecidableEq, Repr

def crashImagesAux (d : Disk) (k : Nat) : List Op → List (Cut × Disk)
  | [] => [(.after k, d)]
  | op :: rest =>
    ((.after k, d) ::
      (match op with
       | .write f e => allClasses.map fun c => (Cut.during k c, d.setFile f (.torn e c))
       | _ => [])) ++ crashImagesAux (apply d op) (k + 1) rest

/-- every on-disk image a crash can leave while `ops` run from `d` -/
def crashImages (d : Disk) (ops : List Op) : List (Cut × Disk) := crashImagesAux d 0 ops

/-! ### restart: the loaders -/

/-- answer of `fileStore.LoadGroup` / `LoadShare` -/
inductive Loaded where
  | missing           -- fs.ErrNotExist
  | err               -- decode error (an empty file is one: "group file has threshold 0", empty scalar)
  | panics
  | val (e : Nat)     -- the whole value of epoch `e`
  | truncated (e : Nat) -- a truncated value decoded from a prefix of epoch `e`'s encoding
  deriving DecidableEq, Repr, Inhabited

def loadFile : FileState → Loaded
  | .absent => .missing
  | .trunc => .err
  | .whole e => .val e
  | .torn _ .bad => .err
  | .torn _ .panics => .panics
  | .torn e .same => .val e
  | .torn e .accepted => .truncated e

inductive Outcome where
  | fresh                      -- "will run as fresh install": no beacon started, waits for a DKG
  | ok (g : Nat) (s : Loaded)  -- loaded group of epoch g and share s, beacon started in catch-up mode
  | notStarted                 -- ErrDKGNotStarted: the daemon refuses to start
  | shareMissing
  | decodeErr
  | notInGroup
  | panicked
  deriving DecidableEq, Repr, Inhabited

/-- `bpLoadCalls`: store.LoadGroup, NewChainInfo, store.LoadShare, group.Find -/
def bpLoadCalls : List String := ["store.LoadGroup", "NewChainInfo", "store.LoadShare", "group.Find"]

/-- `BeaconProcess.Load`, on what the two loaders answered -/
def bpLoadL (member : Nat → Bool) (g s : Loaded) : Outcome :=
  match g with
  | .missing => .notStarted       -- `err != nil || bp.group == nil`
  | .err => .notStarted
  | .panics => .panicked
  | .truncated _ => .panicked     -- NewChainInfo(group) dereferences the (missing / empty) distributed public key
  | .val g =>
    match s with
    | .missing => .shareMissing
    | .err => .decodeErr
    | .panics => .panicked
    | s => if member g then .ok g s else .notInGroup

def bpLoad (member : Nat → Bool) (d : Disk) : Outcome := bpLoadL member (loadFile d.group) (loadFile d.share)

/-- the start-up path (variant switch) -/
inductive Startup where
  | asIs                        -- straight to `Load`
  | reconcile (m : WriteMode)   -- `reconcileKeyFiles` before `Load`; its Saves use the file-write primitive `m`
  deriving DecidableEq, Repr

/-- `DrandDaemon.LoadBeaconFromStore`, the calls as go2lean lists them, per variant -/
def loadBeaconFromStoreCalls (reconciles : Bool) : List String :=
  ["InstantiateBeaconProcess", "dkg.DKGStatus", "fresh:store.LoadGroup", "fresh:store.LoadShare", "fresh:dkg.Migrate"] ++
  (if reconciles then ["completed:reconcileKeyFiles"] else []) ++
  ["bp.Load", "AddBeaconHandler", "bp.StartBeacon"]

/-- `DrandDaemon.reconcileKeyFiles`: calls and returns in evaluation order, tagged with their branch -/
def reconcileKeyFilesCalls : List String :=
  ["dkg.LastCompleted", "norecord:return", "store.LoadGroup", "store.LoadShare", "group.PublicKey.Equal", "share.Public.Equal",
   "insync:return", "newer:return", "FinalGroup.Find", "out:nofiles:return", "out:store.Reset", "out:return",
   "store.SaveGroup", "err:return", "store.SaveShare", "return"]

/-- its in-sync tests: a file is "of the recorded epoch" iff it carries the record's distributed public polynomial (fresh
in every epoch, and `group.PublicKey = share.Public()` by construction of the group in `asGroup`) -/
def reconcileInSyncDefs : List String :=
  ["distKey:=done.FinalGroup.PublicKey",
   "groupInSync:=group!=nil&&group.PublicKey!=nil&&group.PublicKey.Equal(distKey)",
   "shareInSync:=shareErr==nil&&share.Public().Equal(distKey)"]

/-- the variant the tree under test has (regenerated facts) -/
def codeReconciles : Bool := Gen.startupVariant == "reconcile"
def codeStartup : Startup := if codeReconciles then .reconcile codeWriteMode else .asIs

/-- `DrandDaemon.LoadBeaconFromStore`, outcome: with a completed epoch in dkg.db it is `Load`; without one
(`freshRun`) a missing group file means a fresh install, an existing one triggers the v1 migration path -/
def startupOutcome (member : Nat → Bool) (fin : Option Nat) (g s : Loaded) : Outcome :=
  match fin with
  | some _ => bpLoadL member g s
  | none =>
    match g with
    | .missing => .fresh            -- fs.ErrNotExist is ignored, `g == nil`
    | .err => .decodeErr
    | .panics => .panicked
    | _ =>
      match s with
      | .missing => .shareMissing
      | .err => .decodeErr
      | .panics => .panicked
      | _ => bpLoadL member g s     -- after dkg.Migrate

def Loaded.decodes : Loaded → Bool
  | .val _ => true
  | .truncated _ => true
  | _ => false

def Outcome.isOk : Outcome → Bool
  | .ok _ _ => true
  | _ => false

/-- `DrandDaemon.LoadBeaconFromStore`: outcome and what start-up itself writes (the migration stores an epoch-1
record; `StartBeacon` → `NewHandler` stores the genesis beacon) -/
def startup (member : Nat → Bool) (d : Disk) : Outcome × Disk :=
  let g := loadFile d.group
  let s := loadFile d.share
  let o := startupOutcome member d.db.finished g s
  let d1 := if d.db.finished.isNone && g.decodes && s.decodes then { d with db := ⟨.complete 1, some 1⟩ } else d
  let d2 := if o.isOk && d1.chain.isEmpty then { d1 with chain := [0] } else d1
  (o, d2)

structure Recovered where
  fin : Option Nat
  cur : Staged
  group : Loaded
  share : Loaded
  outcome : Outcome
  chain : List Nat
  deriving DecidableEq, Repr

/-- `group != nil && group.TransitionTime > done.FinalGroup.TransitionTime`: the group file decodes to a group of a LATER
epoch than the record (transition times grow with the epochs) -/
def Loaded.newerThan (g : Loaded) (e : Nat) : Bool :=
  match g with
  | .val k => decide (e < k)
  | .truncated k => decide (e < k)
  | _ => false

/-- the disk steps of `DrandDaemon.reconcileKeyFiles` on disk `d`, as written:
no completed record — nothing (the function is only reached with one); both files carry the record's distributed key —
nothing; the group file is newer than the record — nothing (never downgrade); this node is not in the recorded group —
`Reset` if a group or a share is still there, else nothing; otherwise `SaveGroup`, `SaveShare` from the record.
A decoder panic while loading (in-place variant only) ends start-up before any step. -/
def reconcileOps (m : WriteMode) (member : Nat → Bool) (d : Disk) : List Op :=
  match d.db.finished with
  | none => []
  | some e =>
    let g := loadFile d.group
    let s := loadFile d.share
    if g == .panics || s == .panics then []
    else if g == .val e && s == .val e then []
    else if g.newerThan e then []
    else if member e then saveGroupOps m e ++ saveShareOps m e
    else if !g.decodes && !s.decodes then []
    else resetOps m

abbrev Cfg := Startup
def asIs : Cfg := .asIs
def fixed (m : WriteMode) : Cfg := .reconcile m

/-- the disk after the start-up path's own key-file writes, if it completes them -/
def reconciled (cfg : Cfg) (member : Nat → Bool) (d : Disk) : Disk :=
  match cfg with
  | .asIs => d
  | .reconcile m => run d (reconcileOps m member d)

@[simp] theorem reconciled_asIs (member : Nat → Bool) (d : Disk) : reconciled .asIs member d = d := rfl

/-- a key file a reconciling start-up copes with: absent, or the complete file of an epoch that is not later than the
completed record — and, for the record's own epoch, only on a node that is in that epoch's group -/
def okFile (member : Nat → Bool) (fin : Option Nat) : FileState → Bool
  | .absent => true
  | .whole k =>
    match fin with
    | none => false
    | some e => decide (k < e) || (k == e && member e)
  | _ => false

/-- the invariant of the on-disk state under the atomicRename file-write primitive: both key files are complete files of
epochs the database has reached (stale or current), never torn, never ahead of the database. Every self-consistent disk
satisfies it, every crash point of every persistence sequence — a reconciliation included — preserves it, and a
reconciling start-up turns every such disk into a self-consistent one (DrandProofs/C13.lean). -/
def Sane (member : Nat → Bool) (d : Disk) : Bool :=
  okFile member d.db.finished d.group && okFile member d.db.finished d.share

/-- a key file that is not the leftover of an interrupted in-place write: absent, or one complete encoding -/
def FileState.intact : FileState → Bool
  | .absent => true
  | .whole _ => true
  | _ => false

/-- what `key.Load` answers is neither a panic nor a silently truncated value -/
def Loaded.sound : Loaded → Bool
  | .panics => false
  | .truncated _ => false
  | _ => true

/-- what a restart finds in a crash image: the database records as the crash left them, and the key files, the start-up
outcome and the chain once the start-up path has run to its end -/
def recover (cfg : Cfg) (member : Nat → Bool) (d : Disk) : Recovered :=
  let d := reconciled cfg member d
  { fin := d.db.finished, cur := d.db.current, group := loadFile d.group, share := loadFile d.share,
    outcome := (startup member d).1, chain := d.chain }

/-- the property statement on one recovered image: the key files belong to one epoch, the latest one the database
records as completed; a node that is not in that epoch's group holds no key files; a node without a completed
epoch is a fresh install -/
def Consistent (member : Nat → Bool) (r : Recovered) : Bool :=
  match r.fin with
  | none => r.group == .missing && r.share == .missing && r.outcome == .fresh
  | some e =>
    if member e then r.group == .val e && r.share == .val e && r.outcome == .ok e (.val e)
    else r.group == .missing && r.share == .missing

/-- preconditions of `beacon.NewHandler` / `Catchup` on the recovered state: a share, a group that contains the
node's identity, and the share belongs to that group (same epoch, hence share index = node index) -/
def Resumes (member : Nat → Bool) (r : Recovered) : Bool :=
  match r.outcome with
  | .ok g (.val s) => member g && g == s
  | _ => false

/-- ascending, gap-free from round 0 -/
def GapFree (l : List Nat) : Prop := l = List.range l.length

instance (l : List Nat) : Decidable (GapFree l) := by unfold GapFree; infer_instance

end Drand.Persist
