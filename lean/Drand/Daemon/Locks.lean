/-
C14 — lock discipline, decided on the relation regenerated from the Go sources (Gen.LockCalls).

A mutex of Go's sync package is not reentrant: a goroutine that holds `m` and (through calls on the same
receiver) reaches another `m.Lock()` blocks forever; the same holds for Lock→RLock and RLock→Lock on a
sync.RWMutex. RLock→RLock only blocks when a writer is queued in between; it is listed separately.
-/
import Gen.LockCalls

namespace Drand.Daemon.Locks
open Gen.LockCalls

/-- same-goroutine callees of `f` on its own receiver -/
def callees (f : Fn) : List Fn := (calls.filter (fun e => e.1 = f)).map (·.2)

/-- depth-first closure with fuel; `frontier` are functions still to expand -/
def reachAux : Nat → List Fn → List Fn → List Fn
  | 0, _, vis => vis
  | _ + 1, [], vis => vis
  | n + 1, f :: rest, vis =>
    if vis.contains f then reachAux n rest vis else reachAux n (callees f ++ rest) (f :: vis)

/-- every function reachable from `f` through receiver-internal calls (including `f`) -/
def reach (f : Fn) : List Fn := reachAux (2 * calls.length + 8) [f] []

/-- (mutex, kind) pairs `f` acquires itself -/
def acquired (f : Fn) : List (Mx × Kind) := (acqs.filter (fun a => a.fn = f)).map fun a => (a.mutex, a.kind)

/-- (mutex, kind, acquiring function) triples reachable from `f` on the same goroutine -/
def acquiredTrans (f : Fn) : List (Mx × Kind × Fn) :=
  (reach f).flatMap fun g => (acquired g).map fun p => (p.1, p.2, g)

structure Reentry where
  holder : Fn
  mutex : Mx
  held : Kind
  via : Fn      -- the receiver method called while holding
  again : Kind
  at_ : Fn      -- the function that acquires the mutex again
  deriving DecidableEq, Repr

def reentriesOf (as : List Acq) : List Reentry :=
  as.flatMap fun a => a.callsHeld.flatMap fun c =>
    (acquiredTrans c).filterMap fun t => if t.1 = a.mutex then some ⟨a.fn, a.mutex, a.kind, c, t.2.1, t.2.2⟩ else none

def reentries : List Reentry := reentriesOf acqs

/-- Lock→Lock, Lock→RLock and RLock→Lock block unconditionally; RLock→RLock only with a queued writer -/
def blocks : Kind → Kind → Bool
  | .rlock, .rlock => false
  | _, _ => true

def selfDeadlocks : List Reentry := reentries.filter fun r => blocks r.held r.again
def readReentries : List Reentry := reentries.filter fun r => !blocks r.held r.again

def Reentry.show (r : Reentry) : String :=
  s!"{fnName r.holder} holds {mxName r.mutex} and calls {fnName r.via}; {fnName r.at_} acquires it again"

/-- acquisitions that are still held at some return / at the end of the function -/
def leaking : List Acq := acqs.filter fun a => a.leaks ≠ 0

/-- explicitly released acquisitions (a panic between Lock and Unlock would leave the mutex held) -/
def explicitRegions : List Acq := acqs.filter fun a => a.release = .explicit

end Drand.Daemon.Locks
