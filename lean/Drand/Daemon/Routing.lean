/-
C19 model — the routing tables of `core.DrandDaemon` and of `handler/http.DrandHandler`, as coded.

Go maps are association lists (`aget`/`aset`/`adel`; `aset` removes every older binding first, `adel`
removes every binding, so no no-duplicate invariant is needed). A `*BeaconProcess` in a table is a value
`Proc`; the only field the routing code reads is `group` (nil or not, and its chain hash through
`chain.NewChainInfo(group).HashString()`), so a group is its id and its chain-hash string. `gen` numbers the
process objects created for one beacon id (instrumentation: which incarnation answers), it is not a Go field.

Functions follow internal/core/drand_daemon_helper.go, drand_daemon.go, drand_daemon_control.go,
drand_beacon.go (storeDKGOutput) and handler/http/server.go line by line.
-/
import Drand.Basic
namespace Drand.Daemon
open Drand

abbrev Id := String
/-- key of `chainHashes` / `DrandHandler.beacons`: lower-case hex of a chain hash, or "default" -/
abbrev Key := String

/-! ### Go maps -/
section Assoc
variable {κ β : Type} [DecidableEq κ]

def aget (k : κ) : List (κ × β) → Option β
  | [] => none
  | (k', v) :: t => if k = k' then some v else aget k t

def adel (k : κ) : List (κ × β) → List (κ × β)
  | [] => []
  | (k', v) :: t => if k = k' then adel k t else (k', v) :: adel k t

def aset (k : κ) (v : β) (l : List (κ × β)) : List (κ × β) := (k, v) :: adel k l
end Assoc

/-! ### common/beacon.go -/
def defaultBeaconID : Id := "default"
def defaultChainHash : Key := "default"

def isDefaultBeaconID (beaconID : Id) : Bool := beaconID == defaultBeaconID || beaconID == ""

def compareBeaconIDs (id1 id2 : Id) : Bool :=
  if isDefaultBeaconID id1 && isDefaultBeaconID id2 then true
  else if id1 != id2 then false
  else true

/-- `common.GetCanonicalBeaconID` -/
def canon (id : Id) : Id := if isDefaultBeaconID id then defaultBeaconID else id

/-- `fmt.Sprintf("%x", bytes)` -/
def hexChars (b : Bytes) : List Char := b.flatMap fun x => [hexDigit (x.toNat / 16), hexDigit (x.toNat % 16)]
def hexStr (b : Bytes) : String := String.ofList (hexChars b)

/-! ### state -/
structure Group where
  /-- `group.ID` -/
  gid : Id
  /-- `chain.NewChainInfo(group).Hash()`; the table key is `HashString()` = `hexStr hash` -/
  hash : Bytes
  deriving DecidableEq, Repr

structure Proc where
  gen : Nat
  group : Option Group
  deriving DecidableEq, Repr

/-- the process object behind an HTTP `BeaconHandler` (`drandProxy{bp}`): own beacon id and incarnation -/
structure Ref where
  id : Id
  gen : Nat
  deriving DecidableEq, Repr

/-- content of one beacon folder under `<config>/multibeacon/` -/
inductive DiskEntry where
  /-- the folder exists, no key pair in it -/
  | nokey
  /-- key pair, no group file -/
  | fresh
  /-- key pair, group file (this node is a member) and share -/
  | group (g : Group)
  /-- key pair, a group file this node is not a member of, share -/
  | bad (g : Group)
  deriving DecidableEq, Repr

structure State where
  /-- `DrandDaemon.beaconProcesses` -/
  procs : List (Id × Proc) := []
  /-- `DrandDaemon.chainHashes` -/
  hashes : List (Key × Id) := []
  /-- `DrandHandler.beacons` -/
  http : List (Key × Ref) := []
  /-- instantiation counters per beacon id (instrumentation) -/
  gens : List (Id × Nat) := []
  /-- beacon folders on disk -/
  disk : List (Id × DiskEntry) := []
  deriving Repr

def State.init : State := {}

/-- `*drand.Metadata` as far as routing reads it; a nil metadata is `none` -/
structure Req where
  id : Id
  hash : Bytes
  deriving DecidableEq, Repr

inductive RErr where
  | mismatch | unknownHash | notRunning | alreadyRunning | noKey | notInGroup
  /-- `chain.NewChainInfo(nil)`: nil dereference (recovered by the gRPC middleware / the harness) -/
  | nilGroupPanic
  deriving DecidableEq, Repr

/-! ### drand_daemon_helper.go -/

def readBeaconID (s : State) (md : Option Req) : Except RErr Id :=
  let rcvBeaconID := match md with | some m => m.id | none => ""
  let chainHashBytes : Bytes := match md with | some m => m.hash | none => []
  if chainHashBytes ≠ [] then
    let chainHash := hexStr chainHashBytes
    match aget chainHash s.hashes with
    | some beaconIDByHash =>
      if rcvBeaconID != "" && !compareBeaconIDs rcvBeaconID beaconIDByHash then .error .mismatch
      else .ok (canon beaconIDByHash)
    | none =>
      let rcvBeaconID := canon rcvBeaconID
      -- `for id, bp := range dd.beaconProcesses { if id == rcvBeaconID && group == nil { return id } }`
      match aget rcvBeaconID s.procs with
      | some bp => if bp.group.isNone then .ok rcvBeaconID else .error .unknownHash
      | none => .error .unknownHash
  else .ok (canon rcvBeaconID)

def getBeaconProcessByID (s : State) (beaconID : Id) : Except RErr Proc :=
  match aget beaconID s.procs with
  | some bp => .ok bp
  | none => .error .notRunning

/-- `getBeaconProcessFromRequest`; the answer carries the id under which the process was found -/
def route (s : State) (md : Option Req) : Except RErr (Id × Proc) :=
  match readBeaconID s md with
  | .error e => .error e
  | .ok beaconID =>
    match getBeaconProcessByID s beaconID with
    | .error e => .error e
    | .ok bp => .ok (beaconID, bp)

/-! ### drand_daemon.go: table maintenance -/

/-- `InstantiateBeaconProcess` when `NewBeaconProcess` succeeds -/
def instantiate (s : State) (beaconID : Id) : State × Proc :=
  let beaconID := canon beaconID
  let n := (match aget beaconID s.gens with | some n => n | none => 0) + 1
  let bp : Proc := ⟨n, none⟩
  ({ s with procs := aset beaconID bp s.procs, gens := aset beaconID n s.gens }, bp)

/-- `AddBeaconHandler(ctx, beaconID, bp)`; `own` is `bp.beaconID`. Callers pass a process with a group
(a nil group is a nil dereference in Go). -/
def addBeaconHandler (s : State) (beaconID : Id) (own : Id) (bp : Proc) : State :=
  match bp.group with
  | none => s
  | some g =>
    let chainHash := hexStr g.hash
    let bh : Ref := ⟨own, bp.gen⟩
    let s := { s with http := aset chainHash bh s.http }
    let s := { s with hashes := aset chainHash beaconID s.hashes }
    if isDefaultBeaconID beaconID then
      let s := { s with http := aset defaultChainHash bh s.http }
      { s with hashes := aset defaultChainHash beaconID s.hashes }
    else s

/-- `RemoveBeaconHandler(ctx, beaconID, bp)` -/
def removeBeaconHandler (s : State) (beaconID : Id) (bp : Proc) : State :=
  match bp.group with
  | none => s
  | some g =>
    let s := { s with http := adel (hexStr g.hash) s.http }
    if isDefaultBeaconID beaconID then { s with http := adel defaultChainHash s.http } else s

/-- `RemoveBeaconProcess(ctx, beaconID, bp)` -/
def removeBeaconProcess (s : State) (beaconID : Id) (bp : Proc) : State :=
  let beaconID := canon beaconID
  let chainHash := match bp.group with | some g => hexStr g.hash | none => ""
  let s := { s with procs := adel beaconID s.procs }
  let s := { s with hashes := adel chainHash s.hashes }
  if isDefaultBeaconID beaconID then { s with hashes := adel defaultChainHash s.hashes } else s

/-- `LoadBeaconFromStore(ctx, beaconID, key.NewFileStore(folder, beaconID))` with a DKG database that reports no
completed DKG (group-file path). `NewFileStore` creates the folder of the canonical id as a side effect. -/
def loadBeaconFromStore (s : State) (beaconID : Id) : State × Except RErr Unit :=
  let folder := canon beaconID
  match aget folder s.disk with
  | none => ({ s with disk := aset folder .nokey s.disk }, .error .noKey)
  | some .nokey => (s, .error .noKey)
  | some .fresh =>
    let (s, _) := instantiate s beaconID
    (s, .ok ())
  | some (.group g) =>
    let (s, bp) := instantiate s beaconID
    -- bp.Load: bp.group = store.LoadGroup()
    let bp := { bp with group := some g }
    let s := { s with procs := aset folder bp s.procs }
    let s := addBeaconHandler s beaconID folder bp
    -- bp.StartBeacon: its error is returned, the tables stay
    (s, .ok ())
  | some (.bad g) =>
    let (s, bp) := instantiate s beaconID
    -- bp.Load sets bp.group, then fails on group.Find(own identity)
    let bp := { bp with group := some g }
    ({ s with procs := aset folder bp s.procs }, .error .notInGroup)

/-- control `LoadBeacon` -/
def loadBeacon (s : State) (md : Option Req) : State × Except RErr Unit :=
  match readBeaconID s md with
  | .error e => (s, .error e)
  | .ok beaconID =>
    match getBeaconProcessByID s beaconID with
    | .ok _ => (s, .error .alreadyRunning)
    | .error _ => loadBeaconFromStore s beaconID

/-- `key.NewFileStores`: one store per beacon folder; the default store is created when there is none -/
def bootStores (s : State) : List Id :=
  let stores := s.disk.map (·.1)
  if stores.isEmpty then [defaultBeaconID] else stores

def loadEach (single : Bool) (name : Id) : State → List Id → State × Except RErr Unit
  | s, [] => (s, .ok ())
  | s, beaconID :: rest =>
    if single && name != beaconID then loadEach single name s rest
    else
      match loadBeaconFromStore s beaconID with
      | (s, .error e) => (s, .error e)
      | (s, .ok _) => loadEach single name s rest

/-- `LoadBeaconsFromDisk`; the Go code ranges over a map of stores, the model takes the folders in list order
(the orders agree whenever no store fails to load, which is what the generator produces). -/
def loadBeaconsFromDisk (s : State) (single : Bool) (name : Id) : State × Except RErr Unit :=
  if single && name == "" then (s, .ok ())
  else
    let stores := bootStores s
    -- key.NewFileStores creates the folder of the default store when there is no folder at all
    let s := if s.disk.isEmpty then { s with disk := aset defaultBeaconID .nokey s.disk } else s
    loadEach single name s stores

/-- control `Shutdown` with a non-empty beacon id in the metadata (an empty one stops the whole daemon) -/
def shutdown (s : State) (md : Option Req) : State × Except RErr Unit :=
  match readBeaconID s md with
  | .error e => (s, .error e)
  | .ok beaconID =>
    match getBeaconProcessByID s beaconID with
    | .error e => (s, .error e)
    | .ok bp =>
      let s := removeBeaconHandler s beaconID bp
      -- bp.Stop(ctx); <-bp.WaitExit()
      let s := removeBeaconProcess s beaconID bp
      (s, .ok ())

/-- `storeDKGOutput(ctx, group, share)` on the process registered under `id` (its `beaconID` is `id`), including
the daemon's `dkgCallback` closure -/
def dkgCompleted (s : State) (id : Id) (g : Group) : State × Except RErr Unit :=
  match aget id s.procs with
  | none => (s, .error .notRunning)
  | some bp =>
    let bp := { bp with group := some g }
    -- bp.store.SaveGroup / SaveShare
    let s := { s with procs := aset id bp s.procs, disk := aset id (.group g) s.disk }
    -- c.dkgCallback
    let beaconID := canon g.gid
    match aget beaconID s.procs with
    | some bp =>
      -- AddBeaconHandler dereferences bp.group (only another id's process can still be without a group here)
      if bp.group.isNone then (s, .error .nilGroupPanic)
      else (addBeaconHandler s beaconID beaconID bp, .ok ())
    | none => (s, .ok ())

/-! ### handler/http/server.go -/

/-- `getBeaconHandler(chainHash []byte)` -/
def getBeaconHandler (s : State) (chainHash : Bytes) : Option Ref :=
  let chainHashStr := hexStr chainHash
  let chainHashStr := if chainHashStr == "" then defaultChainHash else chainHashStr
  aget chainHashStr s.http

/-- `readChainHash` on the `{chainHash}` URL parameter ("" when the path has none): `hex.DecodeString` -/
def readChainHash (param : String) : Option Bytes :=
  if param == "" then some [] else fromHexAux param.toList

/-- `ChainHashes`: the keys except the default entry -/
def chainsListing (s : State) : List Key := (s.http.map (·.1)).filter (· != defaultChainHash)

/-! ### daemon-level events -/
inductive Ev where
  | disk (id : Id) (e : Option DiskEntry)
  | load (md : Option Req)
  | boot (single : Bool) (name : Id)
  | stop (md : Option Req)
  | dkg (id : Id) (g : Group)
  deriving Repr

def step (s : State) : Ev → State × Except RErr Unit
  | .disk id none => ({ s with disk := adel (canon id) s.disk }, .ok ())
  | .disk id (some e) => ({ s with disk := aset (canon id) e s.disk }, .ok ())
  | .load md => loadBeacon s md
  | .boot single name => loadBeaconsFromDisk s single name
  | .stop md => shutdown s md
  | .dkg id g => dkgCompleted s id g

def run (s : State) (evs : List Ev) : State := evs.foldl (fun s e => (step s e).1) s

end Drand.Daemon
