/-
C14 — no message from the network can crash or wedge a node: the dispatch model.

Requests are structures with `Option` for every nested protobuf message (a `none` that the Go code dereferences
by direct field access is a `panic` at that function; generated getters are nil-safe). The functions follow the
Go handlers check by check:

  internal/core/drand_daemon_dkg_proxy.go   DrandDaemon.{Packet, BroadcastDKG, DKGStatus}   → `daemon*`
  internal/dkg/actions_passive.go           Process.{Packet, applyPacketToState, BroadcastDKG, broadcastDKG}
  internal/dkg/actions_active.go            Process.DKGStatus
  internal/dkg/state_machine.go             DBState.{Apply, Proposed, ReceivedAcceptance, Executing, Aborted}
  internal/dkg/broadcast.go                 echoBroadcast.{BroadcastDKG, passToApplication}, protoTo{Deal,Resp,Justif}
  internal/core/drand_daemon_helper.go      readBeaconID, getBeaconProcessByID
  internal/core/drand_daemon_public.go, drand_beacon_public.go, drand_daemon_control.go (Status)
  internal/chain/beacon/node.go             Handler.ProcessPartialBeacon;  sync_manager.go SyncChain
  internal/net/listener.go, control.go      which listener recovers handler panics (Gen.Listeners)

What is *not* decided by the model but supplied as a label of the request (an oracle, like the crypto oracle of
the other properties): whether a proposal / execute packet is the semantically valid, correctly signed one
(`Terms.valid`, `SigC.tpl`), whether a DKG bundle carries a valid participant signature (`signed`).
The world is the one the harness builds: an initial (epoch 1) DKG with three joiners, no remaining nodes.
-/
import Gen.Listeners
import Gen.NilDerefs

namespace Drand.Daemon

/-! ### outcomes and listeners -/

inductive Outcome
  | ok
  | err
  | panic (site : String)
  | contained            -- a handler panic turned into an error by the listener's recovery interceptor
  | deadlock             -- the call never returns
  | stream (n : Nat)     -- a streaming call that served n items and then waits for new ones
  deriving DecidableEq, Repr, Inhabited

def Outcome.show : Outcome → String
  | .ok => "ok" | .err => "err" | .panic s => "panic:" ++ s | .contained => "contained"
  | .deadlock => "hang" | .stream n => s!"stream:{n}"

def Outcome.isPanic : Outcome → Bool
  | .panic _ => true
  | _ => false

inductive Listener | peer | control | http
  deriving DecidableEq, Repr

/-- does the listener turn a handler panic into an error for the caller?  peer: the generated interceptor chain
contains grpcrecovery; control: `grpc.NewServer()` without arguments; http: net/http's per-connection recover. -/
def Listener.recovers : Listener → Bool
  | .peer => Gen.Listeners.peerUnaryChain.contains "grpcrecovery.UnaryServerInterceptor()" &&
             Gen.Listeners.peerStreamChain.contains "grpcrecovery.StreamServerInterceptor()"
  | .control => Gen.Listeners.controlServerArgs.any fun a => (a.splitOn "recovery").length > 1
  | .http => true

/-- what the remote caller observes for a handler outcome on a listener -/
def serve (l : Listener) (o : Outcome) : Outcome :=
  match o with
  | .panic s => if l.recovers then .contained else .panic s
  | o => o

/-! ### DKG endpoints: requests -/

inductive IdC | absent | known | unknown | malformed
  deriving DecidableEq, Repr
inductive AddrC | empty | leader | me | other | stranger
  deriving DecidableEq, Repr
inductive SigC | empty | b1 | b3 | b4 | right | big | trunc | flip | tpl
  deriving DecidableEq, Repr

/-- length in bytes of the signature of each class (`right`: the scheme's signature length) -/
def SigC.len : SigC → Nat
  | .empty => 0 | .b1 => 1 | .b3 => 3 | .b4 => 4 | .right => 96 | .big => 1048576 | .trunc => 95 | .flip => 96 | .tpl => 96

structure GMeta where
  id : IdC
  addr : AddrC
  sig : SigC
  deriving DecidableEq, Repr

structure Participant where
  addr : AddrC
  deriving DecidableEq, Repr

structure Terms where
  leader : Option Participant
  /-- oracle: these are exactly the terms the leader proposed and signed -/
  valid : Bool
  deriving DecidableEq, Repr

structure DealB where
  commitsDecode : Bool   -- every commit unmarshals to a group point
  nilElem : Bool         -- a nil entry in Deals (not expressible on the wire)
  deriving DecidableEq, Repr
structure RespB where
  nilElem : Bool
  /-- oracle: the bundle carries a participant's valid signature; `fresh` = its hash was not seen before -/
  signed : Bool
  fresh : Bool
  deriving DecidableEq, Repr
structure JustB where
  sharesDecode : Bool
  nilElem : Bool
  deriving DecidableEq, Repr

inductive Bundle
  | none
  | deal (d : Option DealB)
  | resp (r : Option RespB)
  | just (j : Option JustB)
  deriving DecidableEq, Repr

/-- `dkg.Packet` -/
structure InnerPacket where
  md : Option IdC
  bundle : Bundle
  deriving DecidableEq, Repr

/-- `dkg.DKGPacket` -/
structure DKGPacket where
  dkg : Option InnerPacket
  deriving DecidableEq, Repr

inductive GBody
  | none
  | proposal (t : Option Terms)
  | accept (a : Option (Option Participant))
  | reject (a : Option (Option Participant))
  | abort (a : Option Unit)
  /-- `some true`: the StartExecution message the leader signed; `some false`: any other -/
  | execute (e : Option Bool)
  | dkg (d : Option DKGPacket)
  deriving DecidableEq, Repr

structure GossipPacket where
  md : Option GMeta
  body : GBody
  deriving DecidableEq, Repr

structure StatusReq where
  id : IdC
  deriving DecidableEq, Repr

inductive DkgReq
  | packet (p : Option GossipPacket)
  | broadcast (p : Option DKGPacket)
  | status (r : Option StatusReq)
  deriving DecidableEq, Repr

/-! ### DKG endpoints: node state -/

inductive Phase | fresh | proposed | joined | executing | complete | closed | closedx
  deriving DecidableEq, Repr

/-- the signed templates whose signature can be in `SeenPackets` -/
inductive Tpl | proposal | execute
  deriving DecidableEq, Repr

structure Cfg where
  /-- variant switch: `false` = the code as it is (passToApplication does a blocking channel send);
      `true` = the corrected variant (a full application channel drops the bundle) -/
  echoNonBlocking : Bool
  /-- capacity of the broadcaster's application channels = number of participants -/
  echoCap : Nat
  deriving DecidableEq, Repr

structure Node where
  phase : Phase
  seen : List Tpl
  /-- bundles sitting in the broadcaster's response channel -/
  backlog : Nat
  /-- is the kyber protocol loop reading the broadcaster's channels right now -/
  consumer : Bool
  /-- `d.lock` is held by a call that will never return -/
  wedged : Bool
  /-- the broadcaster's mutex is held by a call that will never return -/
  echoWedged : Bool
  deriving DecidableEq, Repr

def Node.init (p : Phase) : Node :=
  { phase := p
    seen := match p with
      | .fresh => []
      | .proposed | .joined | .closed => [.proposal]
      | .executing | .closedx | .complete => [.proposal, .execute]
    backlog := 0, consumer := false, wedged := false, echoWedged := false }

def Phase.storeOpen : Phase → Bool
  | .closed | .closedx => false
  | _ => true

/-- is there an entry in `Executions` for the known beacon (entries are never removed; Close keeps them too) -/
def Phase.hasExecution : Phase → Bool
  | .executing | .complete | .closedx => true
  | _ => false

/-- has the broadcaster been stopped (Process.Close → Stop): sendout returns before recording the hash -/
def Phase.echoStopped : Phase → Bool
  | .closedx => true
  | _ => false

inductive Status | fresh | proposed | joined | executing | complete
  deriving DecidableEq, Repr

def Phase.status : Phase → Status
  | .fresh => .fresh | .proposed => .proposed | .joined => .joined | .executing => .executing
  | .complete => .complete | .closed => .proposed | .closedx => .executing

/-- `isValidStateChange(current, Proposed)` restricted to the states of the model -/
def canBeProposed : Status → Bool
  | .fresh | .complete => true
  | _ => false
/-- `isProposalPhase` -/
def isProposalPhase : Status → Bool
  | .proposed | .joined => true
  | _ => false
/-- `isValidStateChange(current, Aborted)` -/
def canAbort : Status → Bool
  | .proposed | .joined => true
  | _ => false
/-- `isValidStateChange(current, Executing)` -/
def canExecute : Status → Bool
  | .joined => true
  | _ => false
/-- `hasTimedOut`: only the fresh state (timeout = epoch 0) has timed out in the model's world -/
def timedOut : Status → Bool
  | .fresh => true
  | _ => false

/-! ### echoBroadcast.BroadcastDKG -/

inductive Decoded | unknown | panic (site : String) | badPoint | deal | resp (r : RespB) | just
  deriving DecidableEq, Repr

/-- `protoToDKGPacket(p.GetDkg(), scheme)` -/
def decodeBundle (p : DKGPacket) : Decoded :=
  match p.dkg with
  | none => .unknown                               -- GetBundle() of a nil packet is nil: "unknown packet"
  | some inner =>
    match inner.bundle with
    | .none => .unknown
    | .deal none => .panic "dkg.protoToDeal"        -- d.DealerIndex
    | .deal (some d) =>
      if !d.commitsDecode then .badPoint            -- the commit loop comes first
      else if d.nilElem then .panic "dkg.protoToDeal" else .deal
    | .resp none => .panic "dkg.protoToResp"
    | .resp (some r) => if r.nilElem then .panic "dkg.protoToResp" else .resp r
    | .just none => .panic "dkg.protoToJustif"
    | .just (some j) =>
      if j.nilElem then .panic "dkg.protoToJustif"
      else if !j.sharesDecode then .badPoint else .just

/-- `echoBroadcast.BroadcastDKG` + `passToApplication`; `holdingD`: the caller holds `d.lock` (Packet path) -/
def echoBroadcast (cfg : Cfg) (n : Node) (holdingD : Bool) (p : DKGPacket) : Node × Outcome :=
  if n.echoWedged then
    -- b.Lock() never returns; if the caller holds d.lock that one is now held forever as well
    ({ n with wedged := n.wedged || holdingD }, .deadlock)
  else
  match decodeBundle p with
  | .unknown => (n, .err)
  | .panic s => (n, .panic s)                       -- b.Unlock is deferred
  | .badPoint => (n, .err)
  | .deal => (n, .err)                              -- unsigned: VerifyPacketSignature fails
  | .just => (n, .err)
  | .resp r =>
    if r.signed && !r.fresh && !n.phase.echoStopped then (n, .ok)      -- hash already seen
    else if !r.signed then (n, .err)
    else
      -- sendout (non-blocking) then passToApplication: b.respCh <- *pp
      if n.consumer then (n, .ok)
      else if n.backlog < cfg.echoCap then ({ n with backlog := n.backlog + 1 }, .ok)
      else if cfg.echoNonBlocking then (n, .ok)
      else ({ n with echoWedged := true, wedged := n.wedged || holdingD }, .deadlock)

/-- beacon id `packet.GetDkg().GetMetadata().GetBeaconID()` through getters: absent when anything is nil -/
def DKGPacket.innerId (p : DKGPacket) : IdC :=
  match p.dkg with
  | none => .absent
  | some i => match i.md with
    | none => .absent
    | some id => id

/-- `Process.broadcastDKG(ctx, d.Executions[id], packet)` -/
def broadcastTail (cfg : Cfg) (n : Node) (holdingD : Bool) (id : IdC) (p : DKGPacket) : Node × Outcome :=
  if id = .known && n.phase.hasExecution then echoBroadcast cfg n holdingD p
  else (n, .err)

/-! ### Process.Packet -/

def sigIdent (m : GMeta) (b : GBody) : Option Tpl :=
  if m.sig = .tpl then
    match b with
    | .execute _ => some .execute
    | _ => some .proposal
  else none

/-- `DBState.Apply` and below, `verifyMessage`, for a non-DKG body; returns the outcome and the next phase -/
def applyBody (n : Node) (m : GMeta) (b : GBody) : Phase × Outcome :=
  let st := n.phase.status
  match b with
  | .none => (n.phase, .err)
  | .dkg _ => (n.phase, .err)                                   -- "gossip packets should be handled above"
  | .proposal t =>
    if !canBeProposed st then (n.phase, .err) else
    match t with
    | none => (n.phase, .panic "dkg.(*DBState).Proposed")       -- terms.Leader
    | some t =>
      match t.leader with
      | none => (n.phase, .panic "dkg.(*DBState).Proposed")     -- terms.Leader.Address
      | some l =>
        if l.addr ≠ m.addr then (n.phase, .err)
        else if t.valid && m.addr = .leader && m.sig = .tpl && st = .fresh then (.proposed, .ok)
        else (n.phase, .err)
  | .accept a =>
    match a with
    | none => (n.phase, .panic "dkg.(*DBState).Apply")          -- p.Accept.Acceptor
    | some _ => (n.phase, .err)                                 -- not the proposal phase, or unknown acceptor (no remainers)
  | .reject a =>
    match a with
    | none => (n.phase, .panic "dkg.(*DBState).Apply")
    | some _ => (n.phase, .err)
  | .abort _ =>
    -- Aborted: invalid transition, or sender is not the leader, or the signature does not verify
    (n.phase, .err)
  | .execute e =>
    if timedOut st then (n.phase, .err)
    else if !canExecute st then (n.phase, .err)
    else if m.addr ≠ .leader then (n.phase, .err)
    else if e = some true && m.sig = .tpl then (.executing, .ok)
    else (n.phase, .err)

/-- `Process.Packet` -/
def processPacket (cfg : Cfg) (n : Node) (p : Option GossipPacket) : Node × Outcome :=
  if n.wedged then (n, .deadlock) else                          -- d.lock.Lock()
  match p with
  | none => (n, .err)
  | some p =>
    match p.md with
    | none => (n, .err)
    | some m =>
      if 2 * m.sig.len < 8 then (n, .err) else
      if (match sigIdent m p.body with | some t => n.seen.contains t | none => false) then (n, .ok) else
      match p.body with
      | .dkg (some d) => broadcastTail cfg n true d.innerId d
      | b =>
        -- applyPacketToState
        if m.id ≠ .known then (n, .err)                         -- identityForBeacon
        else if !n.phase.storeOpen then (n, .err)               -- store.GetCurrent
        else
          let r := applyBody n m b
          if r.2 = .ok then
            ({ n with phase := r.1, seen := (match sigIdent m b with | some t => t :: n.seen | none => n.seen) }, .ok)
          else (n, r.2)

/-- `Process.BroadcastDKG` -/
def processBroadcast (cfg : Cfg) (n : Node) (p : Option DKGPacket) : Node × Outcome :=
  match p with
  | none => (n, .panic "dkg.(*Process).BroadcastDKG")
  | some p =>
    match p.dkg with
    | none => (n, .panic "dkg.(*Process).BroadcastDKG")
    | some i =>
      match i.md with
      | none => (n, .panic "dkg.(*Process).BroadcastDKG")
      | some id =>
        if n.wedged then (n, .deadlock)                         -- d.lock.Lock()
        else broadcastTail cfg n false id p

/-- `Process.DKGStatus` (takes no lock) -/
def processStatus (n : Node) (r : Option StatusReq) : Node × Outcome :=
  match r with
  | none => (n, .panic "dkg.(*Process).DKGStatus")
  | some _ => if n.phase.storeOpen then (n, .ok) else (n, .err)

def processHandle (cfg : Cfg) (n : Node) : DkgReq → Node × Outcome
  | .packet p => processPacket cfg n p
  | .broadcast p => processBroadcast cfg n p
  | .status r => processStatus n r

/-! ### DrandDaemon proxies (drand_daemon_dkg_proxy.go) -/

def daemonHandle (cfg : Cfg) (n : Node) : DkgReq → Node × Outcome
  | .packet p =>
    match p with
    | none => (n, .panic "core.(*DrandDaemon).Packet")            -- packet.Metadata
    | some q =>
      match q.md with
      | none => (n, .err)
      | some m => if m.id ≠ .known then (n, .err) else processPacket cfg n p
  | .broadcast p =>
    match p with
    | none => (n, .err)                                           -- packet.GetDkg() == nil
    | some q =>
      match q.dkg with
      | none => (n, .err)
      | some i =>
        match i.md with
        | none => (n, .err)
        | some id => if id ≠ .known then (n, .err) else processBroadcast cfg n p
  | .status r =>
    match r with
    | none => (n, .panic "core.(*DrandDaemon).DKGStatus")         -- request.BeaconID
    | some q => if q.id ≠ .known then (n, .err) else processStatus n r

inductive Layer | proc | daemon | grpc
  deriving DecidableEq, Repr

/-- the listener an endpoint is registered on (Gen.Listeners.peerServices / controlServices) -/
def DkgReq.listener : DkgReq → Listener
  | .packet _ | .broadcast _ => .peer      -- pdkg.RegisterDKGPublicServer
  | .status _ => .control                  -- pdkg.RegisterDKGControlServer

/-- can the request be the result of unmarshalling bytes from the wire (no nil request, no nil message inside a
set oneof, no nil element in a repeated field) -/
def DKGPacket.wire (p : DKGPacket) : Bool :=
  match p.dkg with
  | none => true
  | some i => match i.bundle with
    | .none => true
    | .deal none | .resp none | .just none => false
    | .deal (some d) => !d.nilElem
    | .resp (some r) => !r.nilElem
    | .just (some j) => !j.nilElem

def DkgReq.wire : DkgReq → Bool
  | .packet none | .broadcast none | .status none => false
  | .status (some _) => true
  | .broadcast (some p) => p.wire
  | .packet (some p) =>
    match p.body with
    | .none => true
    | .proposal t => t.isSome
    | .accept a => a.isSome
    | .reject a => a.isSome
    | .abort a => a.isSome
    | .execute e => e.isSome
    | .dkg d => match d with | none => false | some d => d.wire

def handle (cfg : Cfg) (l : Layer) (n : Node) (r : DkgReq) : Node × Outcome :=
  match l with
  | .proc => processHandle cfg n r
  | .daemon => daemonHandle cfg n r
  | .grpc => ((daemonHandle cfg n r).1, serve r.listener (daemonHandle cfg n r).2)

/-! ### probes (what the harness sends after every request) -/

def probeStatus : DkgReq := .status (some ⟨.known⟩)
def probePacket : DkgReq := .packet (some ⟨some ⟨.known, .stranger, .b4⟩, .abort (some ())⟩)
def probeBroadcast : DkgReq := .broadcast (some ⟨some ⟨some .known, .none⟩⟩)

/-! ### beacon endpoints -/

inductive BPhase | running | nodkg | stopped
  deriving DecidableEq, Repr
inductive HashC | absent | known | unknown | malformed | big
  deriving DecidableEq, Repr
inductive VerC | none | ok | bad | pre
  deriving DecidableEq, Repr
structure BMeta where
  id : IdC
  hash : HashC
  ver : VerC
  deriving DecidableEq, Repr
inductive RoundC | zero | one | past | last | next | beyond | max
  deriving DecidableEq, Repr
inductive PSigC | empty | b1 | b2 | valid | own | outidx | hugeidx | badsig | trunc | big
  deriving DecidableEq, Repr
inductive PrevC | right | empty | junk | big
  deriving DecidableEq, Repr
inductive ConnC | none | self | empty | nilelem | closed3
  deriving DecidableEq, Repr

structure PartialReq where
  md : Option BMeta
  round : RoundC
  psig : PSigC
  prev : PrevC
  deriving DecidableEq, Repr
structure RoundReq where       -- SyncRequest / PublicRandRequest
  md : Option BMeta
  round : RoundC
  deriving DecidableEq, Repr
structure MetaReq where        -- ChainInfoRequest / IdentityRequest
  md : Option BMeta
  deriving DecidableEq, Repr
structure StatusPReq where
  md : Option BMeta
  conn : ConnC
  deriving DecidableEq, Repr

inductive BReq
  | partialBeacon (p : Option PartialReq)
  | sync (r : Option RoundReq)
  | pubRand (r : Option RoundReq)
  | pubStream (r : Option RoundReq)
  | chainInfo (r : Option MetaReq)
  | identity (r : Option MetaReq)
  | status (r : Option StatusPReq)
  deriving DecidableEq, Repr

/-- number of stored rounds above genesis; the clock stands in round `stored` -/
def stored : Nat := 5

def RoundC.val : RoundC → Nat
  | .zero => 0 | .one => 1 | .past => 3 | .last => stored | .next => stored + 1 | .beyond => stored + 2
  | .max => 18446744073709551615

/-- `Handler.ProcessPartialBeacon` (all accesses through getters: a nil packet is round 0) -/
def processPartial (p : Option PartialReq) : Outcome :=
  let round := (p.map (·.round.val)).getD 0
  if round > stored + 1 then .err                    -- pRound > nextRound
  else if round ≤ stored then .ok                    -- already stored: ignored
  else match p with
    | none => .ok
    | some p =>
      match p.psig with
      | .empty | .b1 | .b2 | .trunc | .big => .err   -- IndexOf: invalid partial signature length
      | .outidx | .hugeidx => .err                   -- not in the group file
      | .own => .err                                 -- our own address
      | .badsig => .err                              -- VerifyPartial
      | .valid => if p.prev = .right then .ok else .err

/-- beacons streamed by `beacon.SyncChain` before it starts waiting for new ones -/
def syncCount (from_ : Nat) : Option Nat :=
  if from_ > stored then none
  else if from_ = 0 then some 0
  else some (stored + 1 - from_)

/-- `beacon.SyncChain` -/
def syncChain (r : Option RoundReq) : Outcome :=
  match syncCount ((r.map (·.round.val)).getD 0) with
  | none => .err
  | some k => .stream k

inductive BLayer | direct | bp | daemon | grpc
  deriving DecidableEq, Repr

def BReq.md : BReq → Option BMeta
  | .partialBeacon p => p.bind (·.md)
  | .sync r | .pubRand r | .pubStream r => r.bind (·.md)
  | .chainInfo r | .identity r => r.bind (·.md)
  | .status r => r.bind (·.md)

def BReq.isStream : BReq → Bool
  | .sync _ | .pubStream _ => true
  | _ => false

/-- `BeaconProcess.*` (drand_beacon_public.go, Status in drand_beacon_control.go) -/
def bpHandle (ph : BPhase) : BReq → Outcome
  | .partialBeacon p => if ph ≠ .running then .err else processPartial p
  | .sync r => if ph ≠ .running then .err else syncChain r
  | .pubRand r =>
    if ph ≠ .running then .err else
    let round := (r.map (·.round.val)).getD 0
    if round > stored then .err else .ok      -- `next` (= stored+1) waits one period and then fails
  | .pubStream r =>
    if ph ≠ .running then .err else
    match r with
    | none => .panic "core.(*BeaconProcess).PublicRandStream"   -- proxyReq.Metadata = … with a nil embedded request
    | some _ => syncChain r
  | .chainInfo _ => if ph = .nodkg then .err else .ok
  | .identity _ => .ok
  | .status r =>
    match r with
    | some ⟨_, .nilelem⟩ => .panic "core.(*BeaconProcess).Status"   -- nodeList[0].Address
    | _ => .ok

/-- `readBeaconID` + `getBeaconProcessByID`: does the request reach the (one) beacon process -/
def routes (ph : BPhase) (m : Option BMeta) : Bool :=
  match m with
  | none => true                                        -- "" → default
  | some m =>
    match m.hash with
    | .absent => m.id = .absent || m.id = .known
    | .known =>
      if ph = .nodkg then
        -- no chain hash registered yet: accepted only while the process has no group
        m.id = .absent || m.id = .known
      else m.id = .absent || m.id = .known
    | .unknown | .malformed | .big =>
      if ph = .nodkg then m.id = .absent || m.id = .known else false

def daemonBHandle (ph : BPhase) (r : BReq) : Outcome :=
  if routes ph r.md then bpHandle ph r else .err

/-- `NodeVersionValidator` (unary only: the stream validator type-asserts the server object, which carries no metadata) -/
def versionRejected (r : BReq) : Bool :=
  !r.isStream && (match r.md with | some m => m.ver = .bad || m.ver = .pre | none => false)

def bHandle (l : BLayer) (ph : BPhase) (r : BReq) : Outcome :=
  match l with
  | .direct =>
    match r with
    | .partialBeacon p => processPartial p
    | .sync q => syncChain q
    | _ => .err
  | .bp => bpHandle ph r
  | .daemon => daemonBHandle ph r
  | .grpc => if versionRejected r then .err else serve .peer (daemonBHandle ph r)

def bWire : BReq → Bool
  | .partialBeacon none | .sync none | .pubRand none | .pubStream none | .chainInfo none | .identity none | .status none => false
  | .status (some ⟨_, .nilelem⟩) => false
  | _ => true

/-! ### public HTTP API (handler/http/server.go) in front of the beacon process -/

inductive HPrefix | none | known | unknown | malformed | odd | huge
  deriving DecidableEq, Repr
inductive HRound | zero | one | last | beyond | far | max | overflow | neg | alpha
  deriving DecidableEq, Repr
inductive HEp | latest | info | health | chains | round (r : HRound)
  deriving DecidableEq, Repr

/-- `readRound`: strconv.ParseUint(…, 10, 64) -/
def HRound.parses : HRound → Bool
  | .overflow | .neg | .alpha => false
  | _ => true

/-- 2xx = ok, any other status = err. The handler has no state a request could damage; net/http recovers a handler
panic per connection (Listener.http). Real time is far beyond the stored rounds, so `/health` reports 503. -/
def httpHandle (ph : BPhase) (pre : HPrefix) (ep : HEp) : Outcome :=
  match ep with
  | .chains => if pre = .none then .ok else .err            -- only the un-prefixed route exists
  | _ =>
    if (match ep with | .round r => !r.parses | _ => false) then .err      -- 400 before anything else
    else if pre = .malformed || pre = .odd then .err                       -- readChainHash: 400
    else if pre = .unknown || pre = .huge || ph = .nodkg then .err         -- getBeaconHandler: 404
    else
      match ph, ep with
      | .running, .latest => .ok
      | .running, .info => .ok
      | .running, .round .zero | .running, .round .one | .running, .round .last => .ok
      | .stopped, .info => .ok
      | _, _ => .err

def probeChainInfo : BReq := .chainInfo (some ⟨some ⟨.known, .known, .ok⟩⟩)
def probePartial : BReq := .partialBeacon (some ⟨some ⟨.known, .known, .ok⟩, .past, .valid, .right⟩)

/-! ### nil-dereference facts the model's panic sites stand on (tied to Gen.nilDerefs in DrandProofs/C14.lean) -/

def expectedNilDerefs : List (String × String × Bool) := [
  ("dkg.Process.Packet", "packet", true),
  ("dkg.Process.Packet", "packet.Metadata", true),
  ("dkg.Process.applyPacketToState", "packet", false),
  ("dkg.Process.applyPacketToState", "packet.Metadata", false),
  ("dkg.Process.BroadcastDKG", "packet", false),
  ("dkg.Process.BroadcastDKG", "packet.Dkg", false),
  ("dkg.Process.BroadcastDKG", "packet.Dkg.Metadata", false),
  ("dkg.Process.DKGStatus", "request", false),
  ("dkg.Process.Command", "command", true),
  ("dkg.Process.Command", "command.Metadata", true),
  ("dkg.DBState.Apply", "packet", false),
  ("dkg.DBState.Apply", "packet.Packet.Accept", false),
  ("dkg.DBState.Apply", "packet.Packet.Reject", false),
  ("dkg.DBState.Proposed", "metadata", false),
  ("dkg.DBState.Proposed", "terms", false),
  ("dkg.DBState.Proposed", "terms.Leader", false),
  ("dkg.DBState.Aborted", "metadata", false),
  ("dkg.DBState.Executing", "metadata", false),
  ("dkg.DBState.ReceivedAcceptance", "metadata", false),
  ("dkg.DBState.ReceivedAcceptance", "them", false),
  ("dkg.DBState.ReceivedRejection", "metadata", false),
  ("dkg.DBState.ReceivedRejection", "them", false),
  ("dkg.protoToDeal", "d", false),
  ("dkg.protoToResp", "r", false),
  ("dkg.protoToJustif", "j", false),
  ("core.DrandDaemon.DKGStatus", "request", false),
  ("core.DrandDaemon.Command", "command", false),
  ("core.DrandDaemon.Command", "command.Metadata", true),
  ("core.DrandDaemon.Packet", "packet", false),
  ("core.DrandDaemon.Packet", "packet.Metadata", true),
  ("core.DrandDaemon.BroadcastDKG", "packet.Dkg", true),
  ("core.DrandDaemon.BroadcastDKG", "packet", true),
  ("core.DrandDaemon.BroadcastDKG", "packet.Dkg.Metadata", true),
  ("core.DrandDaemon.RemoteStatus", "request", false),
  ("core.DrandDaemon.readBeaconID", "metadata", false),
  ("core.DrandDaemon.readBeaconID", "metadata", true)
]

end Drand.Daemon
