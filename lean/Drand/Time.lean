/-
Model of /repo/common/time.go  (C16).

Two layers.
* exact layer over `Int`/`Nat`: `nextRoundZ`, `currentRoundZ`, `timeOfRoundZ`
* machine layer mirroring the Go statement by statement over `Nat` with explicit
  `% 2^64` (uint64) and `wrapI64` (int64 two's complement): `timeOfRoundM`, `nextRoundM`,
  `currentRoundM`.
`p` is the period in whole seconds, `g` the genesis (unix seconds), `now` an instant.
The float division `math.Floor(float64(a)/period.Seconds())` is modelled as `a / p` on `Nat`;
that this is what binary64 computes is `DrandProofs/C16Float.lean` + the D check.
-/
import Gen.Consts

namespace Drand.Time

def two64 : Nat := 18446744073709551616
def two63 : Nat := 9223372036854775808
def maxI64 : Int := 9223372036854775807

/-- reinterpret a uint64 as int64 -/
def toI64 (u : Nat) : Int := if u < two63 then (u : Int) else (u : Int) - (two64 : Int)
/-- wrap an exact integer result into int64 -/
def wrapI64 (x : Int) : Int := ((x + (two63 : Int)) % (two64 : Int)) - (two63 : Int)

/-- `maxTimeBuffer = 1 << timeBufferBits`; the constant is regenerated from the source. -/
def maxTimeBuffer : Int := ((2 ^ Gen.timeBufferBits : Nat) : Int)
/-- `TimeOfRoundErrorValue = math.MaxInt64 - maxTimeBuffer` -/
def errorValue : Int := maxI64 - maxTimeBuffer

/-- `int(math.Log2(period.Seconds() + 1))` -/
def periodBits (p : Nat) : Nat := Nat.log2 (p + 1)

/-- `math.MaxUint64 >> (periodBits + shiftExtra)`; `shiftExtra` (= 2) is regenerated. -/
def roundLimit (p : Nat) : Nat := (two64 - 1) >>> (periodBits p + Gen.timeOfRoundShiftExtra)

/-- machine layer of `TimeOfRound` (period ≥ 0) -/
def timeOfRoundM (p : Nat) (g : Int) (round : Nat) : Int :=
  if round = 0 then g
  else if round ≥ roundLimit p then errorValue
  else
    let delta := ((round - 1) * p) % two64
    let val := wrapI64 (g + toI64 delta)
    if val > maxI64 - maxTimeBuffer then errorValue else val

/-- machine layer of `NextRound`; `now`, `g` int64, result (uint64, int64) -/
def nextRoundM (now : Int) (p : Nat) (g : Int) : Nat × Int :=
  if now < g then (1, g)
  else
    let fromGenesis := wrapI64 (now - g)
    let nr := ((fromGenesis.toNat / p) + 1) % two64
    let nt := wrapI64 (g + toI64 ((nr * p) % two64))
    ((nr + 1) % two64, nt)

def currentRoundM (now : Int) (p : Nat) (g : Int) : Nat :=
  let nr := (nextRoundM now p g).1
  if nr ≤ 1 then nr else nr - 1

/-! exact layer -/

def timeOfRoundZ (p : Nat) (g : Int) (r : Nat) : Int :=
  if r = 0 then g else g + ((r - 1 : Nat) : Int) * (p : Int)

def nextRoundZ (now : Int) (p : Nat) (g : Int) : Nat × Int :=
  if now < g then (1, g)
  else
    let k := (now - g).toNat / p + 1
    (k + 1, g + (k : Int) * (p : Int))

def currentRoundZ (now : Int) (p : Nat) (g : Int) : Nat :=
  let n := (nextRoundZ now p g).1
  if n ≤ 1 then n else n - 1

end Drand.Time
