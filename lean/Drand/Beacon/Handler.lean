/-
Model of the round decisions of internal/chain/beacon/node.go (C04): which round an honest node signs, and
when, and which incoming partials it admits.

* `broadcastRound`  = the round chosen by `Handler.broadcastNextPartial(current, upon)`
* `step … (.tick info)`        = the tick branch of `Handler.run`: `current = <-chanTick`, `h.chain.Last`,
                                  `broadcastNextPartial(current, lastBeacon)`, `RunSync` when the head is two behind
* `step … (.appended b)`       = the `AppendedBeaconNoSync` branch: a catch-up goroutine is launched only
                                  `if b.Round < current.round`; it captures `(current, *b)`
* `step … (.catchupFire i)`    = that goroutine after `Sleep(CatchupPeriod)`: `broadcastNextPartial(c, &latest)`
* `processPartial`             = the refusals of `ProcessPartialBeacon` in source order
* `.clockAdvance`, `.storeAdvance`, `.aggregated` = the environment: the node's clock moves forward, the stored
  head moves forward (sync / repair write any valid beacons at any time; aggregation writes head+1).

The comparisons and the `+1` are the *regenerated* `Gen.Handler.*` definitions (tools/go2lean/handler.go), so a
change of the source changes this model. Goroutines are explicit events; the only relation between a tick and
the clock is the one ticker.go gives: the tick carries the round computed from the clock when the ticker
fired (≥ genesis), and it is processed at that time or later.

`Cfg.skipAhead` is the variant switch (DESIGN §2.5): `false` = the code as it is, `true` = the corrected code
(do not sign when the stored head is already ahead of the tick's round).
-/
import Drand.Time
import Gen.Handler

namespace Drand.Beacon.Handler
open Drand.Time

structure Cfg where
  period : Nat
  genesis : Int
  catchup : Nat
  skipAhead : Bool := false
  deriving Repr, DecidableEq

/-- `roundInfo` of ticker.go -/
structure RoundInfo where
  round : Nat
  time : Int
  deriving Repr, DecidableEq, Inhabited

/-- the round whose scheduled time has come at `now`; 0 before genesis (`common.CurrentRound` answers 1
there, `TimeOfRound 1 = genesis`, which is why the model does not use it before genesis) -/
def roundAt (cfg : Cfg) (now : Int) : Nat :=
  if now < cfg.genesis then 0 else currentRoundZ now cfg.period cfg.genesis

/-- first component of `common.NextRound(now, period, genesis)` -/
def nextRound (cfg : Cfg) (now : Int) : Nat := (nextRoundZ now cfg.period cfg.genesis).1

/-- second component of `common.NextRound` -/
def nextTime (cfg : Cfg) (now : Int) : Int := (nextRoundZ now cfg.period cfg.genesis).2

/-- `common.TimeOfRound` -/
def timeOf (cfg : Cfg) (r : Nat) : Int := timeOfRoundZ cfg.period cfg.genesis r

/-- The round `broadcastNextPartial(current, upon)` signs; `none` = nothing is signed (corrected variant only). -/
def broadcastRound (cfg : Cfg) (current : RoundInfo) (uponRound : Nat) : Option Nat :=
  if cfg.skipAhead && decide (uponRound > current.round) then none
  else if Gen.Handler.bnpResign current.round uponRound then
    some (Gen.Handler.bnpResignRound current.round uponRound)
  else some (Gen.Handler.bnpRound current.round uponRound)

/-- what the group lookup and the real verifier answer for an incoming packet (oracle labels, DESIGN §2.6) -/
structure PartialLbl where
  round : Nat
  idxErr : Bool := false     -- IndexOf fails
  idxNeg : Bool := false
  inGroup : Bool := true     -- Group.Node(idx) ≠ nil
  ownAddr : Bool := false    -- that node's address is ours
  sigOk : Bool := true       -- VerifyPartial succeeds
  ownIdx : Bool := false
  deriving Repr, DecidableEq

inductive PartialRes where
  | future | past | indexErr | indexNeg | notInGroup | ownAddress | invalidSig | ownIndex | accepted
  deriving Repr, DecidableEq

def PartialRes.show : PartialRes → String
  | .future => "future" | .past => "past" | .indexErr => "badindex" | .indexNeg => "badindex"
  | .notInGroup => "notingroup" | .ownAddress => "own" | .invalidSig => "invalid" | .ownIndex => "ownindex"
  | .accepted => "accepted"

/-- `ProcessPartialBeacon`: the refusals in the order of `Gen.Handler.ppGuards` -/
def processPartial (cfg : Cfg) (clock : Int) (head : Nat) (p : PartialLbl) : PartialRes :=
  if Gen.Handler.ppFuture p.round (nextRound cfg clock) then .future
  else if Gen.Handler.ppPast p.round head then .past
  else if p.idxErr then .indexErr
  else if p.idxNeg then .indexNeg
  else if !p.inGroup then .notInGroup
  else if p.ownAddr then .ownAddress
  else if !p.sigOk then .invalidSig
  else if p.ownIdx then .ownIndex
  else .accepted

/-- a catch-up goroutine between launch and wake-up: it captured `(current, *b)` -/
structure Sleeper where
  c : RoundInfo
  latest : Nat
  wake : Int
  deriving Repr, DecidableEq

structure St where
  clock : Int
  head : Nat                      -- round of `h.chain.Last`
  current : RoundInfo             -- the run loop's `current`; zero until the first tick
  sleepers : List Sleeper
  seen : List Nat                 -- rounds above the head for which a foreign partial has been admitted
  deriving Repr, DecidableEq

def init (clock : Int) (head : Nat) : St := ⟨clock, head, ⟨0, 0⟩, [], []⟩

inductive Ev where
  | tick (info : RoundInfo)
  | appended (b : Nat)
  | catchupFire (i : Nat)
  | clockAdvance (d : Nat)
  | storeAdvance (h : Nat)
  | aggregated
  | partialIn (p : PartialLbl)
  deriving Repr, DecidableEq

inductive Out where
  | emit (round : Nat) (clock : Int)
  | sync (upTo : Nat)
  | sleeping (latest : Nat) (wake : Int)
  | partialRes (r : PartialRes)
  deriving Repr, DecidableEq

def St.setHead (s : St) (h : Nat) : St :=
  { s with head := h, seen := s.seen.filter (fun r => decide (h < r)) }

def step (cfg : Cfg) (s : St) : Ev → St × List Out
  | .tick info =>
    let em := match broadcastRound cfg info s.head with
      | some r => [Out.emit r s.clock]
      | none => []
    let sy := if Gen.Handler.tickSyncGuard s.head info.round then [Out.sync info.round] else []
    ({ s with current := info }, em ++ sy)
  | .appended b =>
    if Gen.Handler.catchupGuard b s.current.round then
      ({ s with sleepers := s.sleepers ++ [⟨s.current, b, s.clock + cfg.catchup⟩] },
       [Out.sleeping b (s.clock + cfg.catchup)])
    else (s, [])
  | .catchupFire i =>
    match s.sleepers[i]? with
    | none => (s, [])
    | some sl =>
      let s1 := { s with sleepers := s.sleepers.eraseIdx i }
      match broadcastRound cfg sl.c sl.latest with
      | some r => (s1, [Out.emit r s.clock])
      | none => (s1, [])
  | .clockAdvance d => ({ s with clock := s.clock + d }, [])
  | .storeAdvance h => (if s.head < h then s.setHead h else s, [])
  | .aggregated => (if (s.head + 1) ∈ s.seen then s.setHead (s.head + 1) else s, [])
  | .partialIn p =>
    let r := processPartial cfg s.clock s.head p
    (if r = .accepted then { s with seen := p.round :: s.seen } else s, [Out.partialRes r])

/-- what ticker.go and clockwork guarantee about an event: a tick carries a round ≥ 1 computed from a clock
value that is not ahead of the clock at processing time; a catch-up goroutine wakes only after its sleep. -/
def evOk (cfg : Cfg) (s : St) : Ev → Bool
  | .tick info => decide (1 ≤ info.round) && decide (info.round ≤ roundAt cfg s.clock)
  | .catchupFire i =>
    match s.sleepers[i]? with
    | some sl => decide (sl.wake ≤ s.clock)
    | none => true
  | _ => true

def traceOk (cfg : Cfg) : St → List Ev → Bool
  | _, [] => true
  | s, e :: es => evOk cfg s e && traceOk cfg (step cfg s e).1 es

/-- all outputs of a run -/
def run (cfg : Cfg) : St → List Ev → List Out
  | _, [] => []
  | s, e :: es => (step cfg s e).2 ++ run cfg (step cfg s e).1 es

/-- final state of a run -/
def runSt (cfg : Cfg) : St → List Ev → St
  | s, [] => s
  | s, e :: es => runSt cfg (step cfg s e).1 es

/-- the hypothesis the as-is code needs: whenever a tick is processed the stored head is not ahead of it -/
def ticksLevel (cfg : Cfg) : St → List Ev → Bool
  | _, [] => true
  | s, e :: es =>
    (match e with
     | .tick info => decide (s.head ≤ info.round)
     | _ => true) && ticksLevel cfg (step cfg s e).1 es

/-- no write by the sync / repair path -/
def noSync : List Ev → Bool
  | [] => true
  | .storeAdvance _ :: _ => false
  | _ :: es => noSync es

end Drand.Beacon.Handler
