/-
`SyncManager.Run` as a state machine, `Sync`'s walk over the peers of a request with an explicit permutation oracle,
and the list of `ReSync` requests `CorrectPastBeacons` makes.                                                    (C10)

On top of Drand/Beacon/Sync.lean (`sync` = the loop of `Sync` over the peers *in the order they are tried*,
`admitReq` = the admission rule of `Run`).

* **Peer selection.** `Sync` walks `request.nodes` in the order `rand.Perm(len(request.nodes))` yields. The model does not
  know anything about `math/rand`: every call of `Sync` gets its permutation `π` from the environment (an *oracle*),
  theorems quantify over it. Whether the source draws a permutation at all is a regenerated fact
  (`Gen.syncIteratesRandPerm`); `PeerOrder.inOrder` is the model of a `Sync` that walks the list as given.
* **Run.** State: the store, the request queue `newReq` (capacity `syncQueueRequest`), `lastRoundTime`, whether the context
  of the current sync is still alive. Events: `send` (SendSyncRequest), `take now π` (one iteration of Run's loop taking the
  next request at clock reading `now`; if the admission rule starts a new sync — "canceling old sync" — the new `Sync`
  goroutine runs with the oracle's answer `π`), `stop`. The goroutine is folded into the `take` that starts it: its
  store writes are those of `sync` over the ordered peers, a peer that stalls parks it until the *next* start cancels its
  context (that is why `sync` treats a stall as "cancelled": nothing after it is tried), a sync that returns by itself
  cancels its own context (`innerCancel`), and the `newSyncedBeacon` arm has set `lastRoundTime` to the clock reading of
  the start (the peers answer at once or never: a stall is the only way to spend time).
* **CorrectPastBeacons.** `correctRequests v fb` = the `(from, to)` arguments of the `ReSync` calls, in order:
  `perRound` (the source: one `ReSync(b, b)` per faulty round) or `mergedRuns` (one call per maximal run of consecutive
  rounds). Which one the source has is `Gen.correctPastRequests`.
-/
import Drand.Beacon.Sync

namespace Drand.Beacon.Sync
open Drand Drand.Store Drand.Chain

/-! ### the order in which `Sync` tries the peers of a request -/

inductive PeerOrder where
  /-- `for _, n := range rand.Perm(len(request.nodes))` -/
  | randPerm
  /-- `for n := range request.nodes` -/
  | inOrder
  deriving DecidableEq, Repr

/-- `request.nodes[n]` for `n` ranging over the oracle's answer -/
def applyPerm (π : List Nat) (ps : List Peer) : List Peer := π.filterMap (ps[·]?)

def syncOrder (o : PeerOrder) (π : List Nat) (ps : List Peer) : List Peer :=
  match o with
  | .randPerm => applyPerm π ps
  | .inOrder => ps

/-- what `rand.Perm(n)` can answer -/
def IsPerm (n : Nat) (π : List Nat) : Prop := π.Perm (List.range n)

/-! ### `Run` -/

structure Request where
  upTo : Nat
  /-- the peers of the request, behaving as they do while this request's sync runs -/
  nodes : List Peer

structure RunSt where
  node : Node
  /-- `s.newReq` -/
  queue : List Request
  /-- seconds; `time.Unix(0, 0)` before the first sync -/
  lastRoundTime : Int
  /-- `ctx.Err() == nil` for the context of the current sync: the goroutine has neither returned nor been cancelled -/
  alive : Bool
  /-- `s.ctx` is done: Run has returned -/
  stopped : Bool
  /-- ghost: for every `Sync` Run started, the addresses asked, in the order asked (newest sync first) -/
  syncs : List (List String)

def RunSt.init (n : Node) : RunSt := ⟨n, [], 0, true, false, []⟩

inductive RunEv where
  /-- `SendSyncRequest` -/
  | send (r : Request)
  /-- one turn of Run's loop through the `newReq` arm at clock reading `now`; `π` is what `rand.Perm` answers if a `Sync` starts -/
  | take (now : Int) (π : List Nat)
  /-- `Stop()` -/
  | stop

inductive RunOut where
  | queued | blocked        -- send: room in the channel / the sender waits
  | idle                    -- take: no request waiting
  | lastErr                 -- take: `store.Last` failed, the request is dropped
  | filled | ignore         -- take: admission rule
  | started (res : SyncRes) (parked : Bool)
  | stopped
  deriving DecidableEq, Repr

/-- the addresses asked by the sync that took `old` to `new` (oldest first) -/
def askedSince (old new : Node) : List String :=
  ((new.calls.take (new.calls.length - old.calls.length)).reverse).map (·.1)

/-- "canceling old sync": `cancel(); ctx, cancel = context.WithCancel(s.ctx); lastRoundTime = now; go Sync(ctx, request)` with the
goroutine folded in: its writes, and whether it is parked in a stalling peer's stream (then its context stays alive until the
next start cancels it) or has returned and cancelled its own context -/
def startSync (o : PeerOrder) (cfg : Cfg) (self : String) (s : RunSt) (now : Int) (π : List Nat) (r : Request) : RunSt × RunOut :=
  let res := sync cfg self 0 r.upTo false s.node (syncOrder o π r.nodes)
  ({ s with node := res.1, lastRoundTime := now, alive := res.2.2, syncs := askedSince s.node res.1 :: s.syncs },
   .started res.2.1 res.2.2)

/-- the `case request := <-s.newReq` arm for the request `r` just taken from the channel -/
def takeReq (o : PeerOrder) (cfg : Cfg) (self : String) (factor period : Nat) (s : RunSt) (now : Int) (π : List Nat) (r : Request) :
    RunSt × RunOut :=
  if cfg.lastErr s.node.st.base then (s, .lastErr)
  else match (admitReq factor period now ⟨s.lastRoundTime, s.alive⟩ s.node.head r.upTo).2 with
    | .filled => (s, .filled)
    | .ignore => (s, .ignore)
    | .start => startSync o cfg self s now π r

def runStep (o : PeerOrder) (cfg : Cfg) (self : String) (factor period cap : Nat) (s : RunSt) : RunEv → RunSt × RunOut
  | .stop => ({ s with stopped := true, alive := false }, .stopped)
  | .send r =>
    if s.stopped then (s, .blocked)
    else if s.queue.length < cap then ({ s with queue := s.queue ++ [r] }, .queued)
    else (s, .blocked)
  | .take now π =>
    if s.stopped then (s, .stopped)
    else match s.queue with
    | [] => (s, .idle)
    | r :: q => takeReq o cfg self factor period { s with queue := q } now π r

def run (o : PeerOrder) (cfg : Cfg) (self : String) (factor period cap : Nat) (s : RunSt) (evs : List RunEv) : RunSt :=
  evs.foldl (fun s e => (runStep o cfg self factor period cap s e).1) s

/-- the daemon re-issues its request (`Handler.run` does so for every round it is behind) each time `gap` seconds have
passed: one `(π, peers)` per renewal — the oracle's answer and the peers as they behave during that renewal -/
def renewalEvents (upTo : Nat) (gap : Nat) : Int → List (List Nat × List Peer) → List RunEv
  | _, [] => []
  | t, (π, ps) :: rest => .send ⟨upTo, ps⟩ :: .take t π :: renewalEvents upTo gap (t + gap) rest

def renewals (o : PeerOrder) (cfg : Cfg) (self : String) (factor period cap : Nat) (upTo : Nat) (gap : Nat)
    (s : RunSt) (t : Int) (rs : List (List Nat × List Peer)) : RunSt :=
  run o cfg self factor period cap s (renewalEvents upTo gap t rs)

/-! ### the requests of `CorrectPastBeacons` -/

inductive CorrectReq where
  | perRound | mergedRuns
  deriving DecidableEq, Repr

/-- `from, to := fb[i], fb[i]; for i+1 < len(fb) && fb[i+1] == to+1 { i++; to++ }` -/
def mergeRunsGo (from_ to : Nat) : List Nat → List (Nat × Nat)
  | [] => [(from_, to)]
  | x :: rest => if x = to + 1 then mergeRunsGo from_ x rest else (from_, to) :: mergeRunsGo x x rest

def mergeRuns : List Nat → List (Nat × Nat)
  | [] => []
  | b :: rest => mergeRunsGo b b rest

def correctRequests : CorrectReq → List Nat → List (Nat × Nat)
  | .perRound, fb => fb.map fun b => (b, b)
  | .mergedRuns, fb => mergeRuns fb

/-- the loop of `CorrectPastBeacons` over its `ReSync` requests; `env i` = the peers (first attempt, retry) during request `i` -/
def correctLoopR (cfg : Cfg) (self : String) (env : Nat → List Peer × List Peer) :
    Nat → Bool → Node → Nat → List (Nat × Nat) → Node × CorrectRes × Bool
  | _, dead, n, errs, [] => (n, if errs = 0 then .ok else .errors errs, dead)
  | i, dead, n, errs, (f, t) :: rest =>
    if dead then (n, .cancelled, true)
    else
      let r := reSync cfg self f t false n (env i).1 (env i).2
      correctLoopR cfg self env (i + 1) r.2.2 r.1 (if r.2.1 = .ok then errs else errs + 1) rest

def correctPastV (v : CorrectReq) (cfg : Cfg) (self : String) (env : Nat → List Peer × List Peer) (n : Node) (fb : List Nat) :
    Node × CorrectRes × Bool :=
  correctLoopR cfg self env 0 false n 0 (correctRequests v fb)

end Drand.Beacon.Sync
