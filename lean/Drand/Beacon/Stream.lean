/-
Model of `beacon.SyncChain` (internal/chain/beacon/sync_manager.go) — the routine behind the protocol-level
`SyncChain` stream and the public `PublicRandStream` (internal/core/drand_beacon_public.go wraps its arguments
in `proxyRequest` / `proxyStream` and calls the same function) — as a small-step machine with the hand-over
between the catch-up scan and the live callback made explicit (C11).

One stream is a record; its steps mirror the statements of `SyncChain` in source order:

  `start`     `store.Last`; refuse when `last.Round < fromRound`
  `scanOpen`  (only when `fromRound != 0`) `store.Cursor` + `Seek(fromRound)` + `send` of the beacon found.
              bolt (trimmed and untrimmed): the cursor runs in one bbolt read transaction = a snapshot of the
              store taken here; memdb: the cursor is a position into the live slice (models of C18)
  `scanNext`  the pending `Send` returns, `Next`, `send`
  `register`  `store.AddCallback(id, …)`                — AFTER the scan (the TODO in the source)
  `deliver`   the callback worker hands the next queued job to the callback: `send`, or the close signal

and the environment may interleave, between any two of them,

  `put b`     `callbackStore.Put`: the beacon is stored, then queued for every registered callback
  `replaced`  another `AddCallback` under the same id ("SyncChain-"+remote address): close signal queued
  `detached`  another holder of the same id called `RemoveCallback(id)`: the channel is closed, no signal
  `cancel`    the stream context is done
  `sendFail`  the `Send` in progress (scan) / the next `Send` (live) returns an error

`Handover.tracked` is the corrected variant (not the code): every emission goes through `emit`, which remembers
the next expected round, drops what was already sent and fills what is missing from the store by round;
`register` then also catches up to the head.
-/
import Drand.Basic
import Drand.Store.Bolt
import Drand.Store.Mem

namespace Drand.Beacon.Stream
open Drand Drand.Store

/-- the base store under the wrapper stack, reduced to what the stream reads -/
inductive Store where
  | bolt (s : BoltState)
  | mem (s : MemState)

def Store.put : Store → Beacon → Store
  | .bolt s, b => .bolt (Bolt.put s b)
  | .mem s, b => .mem (Mem.put s b)

def Store.last : Store → Read
  | .bolt s => Bolt.last s
  | .mem s => Mem.last s

def Store.get : Store → Nat → Read
  | .bolt s, r => Bolt.get s r
  | .mem s, r => Mem.get s r

def Store.head (st : Store) : Nat := match st.last with | .ok b => b.round | .noBeacon => 0

/-- an open cursor: a bolt cursor carries its snapshot, a memdb cursor only a position -/
inductive Cur where
  | bolt (c : Cursor Beacon)
  | mem (pos : Nat)

inductive EndReason where
  | noBeacon      -- refused: last.Round < fromRound
  | replaced      -- ErrCallbackReplaced
  | canceled      -- ctx.Done
  | sendError     -- stream.Send failed
  | storeError    -- a read of the store failed (tracked variant: a round to fill is gone)
  deriving DecidableEq, Repr

inductive Phase where
  | idle
  | started
  | scanning (c : Cur)
  | scanned
  | live
  | done (e : EndReason)

inductive Job where
  | beacon (b : Beacon)
  | close
  deriving DecidableEq, Repr

inductive Handover where
  | asIs
  | tracked
  deriving DecidableEq, Repr

structure Strm where
  frm : Nat
  phase : Phase := .idle
  /-- the callback of this stream is the one registered under its id -/
  attached : Bool := false
  queue : List Job := []
  /-- every beacon handed to `stream.Send`, in call order -/
  sent : List Beacon := []
  /-- tracked variant only: the round the client expects next -/
  next : Nat := 0

/-- tracked variant: send the stored beacons `n, n+1, …` below `upTo`; a missing round ends the stream -/
def fill (st : Store) (s : Strm) : Nat → Nat → Strm
  | 0, _ => s
  | k + 1, upTo =>
    if s.next < upTo then
      match st.get s.next with
      | .ok b => fill st { s with sent := s.sent ++ [b], next := s.next + 1 } k upTo
      | .noBeacon => { s with phase := .done .storeError, attached := false }
    else s

def isDone : Phase → Bool
  | .done _ => true
  | _ => false

/-- hand one beacon to the client -/
def emit (h : Handover) (st : Store) (s : Strm) (b : Beacon) : Strm :=
  match h with
  | .asIs => { s with sent := s.sent ++ [b] }
  | .tracked =>
    if b.round < s.next then s else
    let s1 := fill st s (b.round - s.next) b.round
    if isDone s1.phase then s1 else { s1 with sent := s1.sent ++ [b], next := b.round + 1 }

def Strm.start (st : Store) (s : Strm) : Strm :=
  match s.phase with
  | .idle =>
    match st.last with
    | .noBeacon => { s with phase := .done .storeError }
    | .ok l =>
      if l.round < s.frm then { s with phase := .done .noBeacon }
      else if s.frm = 0 then { s with phase := .scanned, next := l.round + 1 }
      else { s with phase := .started, next := s.frm }
  | _ => s

def Strm.scanOpen (h : Handover) (st : Store) (s : Strm) : Strm :=
  match s.phase with
  | .started =>
    match st with
    | .bolt bs =>
      let (c, r) := Bolt.cursorStep ⟨bs, none⟩ (.seek s.frm)
      match r with
      | .ok b => emit h st { s with phase := .scanning (.bolt c) } b
      | .noBeacon => { s with phase := .scanned }
    | .mem ms =>
      let (p, r) := Mem.cursorStep ms 0 (.seek s.frm)
      match r with
      | .ok b => emit h st { s with phase := .scanning (.mem p) } b
      | .noBeacon => { s with phase := .scanned }
  | _ => s

def Strm.scanNext (h : Handover) (st : Store) (s : Strm) : Strm :=
  match s.phase with
  | .scanning (.bolt c) =>
    let (c', r) := Bolt.cursorStep c .next
    match r with
    | .ok b => emit h st { s with phase := .scanning (.bolt c') } b
    | .noBeacon => { s with phase := .scanned }
  | .scanning (.mem p) =>
    match st with
    | .mem ms =>
      let (p', r) := Mem.cursorStep ms p .next
      match r with
      | .ok b => emit h st { s with phase := .scanning (.mem p') } b
      | .noBeacon => { s with phase := .scanned }
    | .bolt _ => { s with phase := .scanned }   -- unreachable: a memdb cursor over a bolt store
  | _ => s

def Strm.register (h : Handover) (st : Store) (s : Strm) : Strm :=
  match s.phase with
  | .scanned =>
    let s1 : Strm := { s with phase := .live, attached := true, queue := [] }
    match h with
    | .asIs => s1
    | .tracked => fill st s1 (st.head + 1 - s1.next) (st.head + 1)
  | _ => s

/-- `callbackStore.Put` as seen by this stream: round 0 is never dispatched -/
def Strm.onPut (s : Strm) (b : Beacon) : Strm :=
  if s.attached && decide (b.round ≠ 0) then { s with queue := s.queue ++ [.beacon b] } else s

def Strm.deliver (h : Handover) (st : Store) (s : Strm) : Strm :=
  match s.phase with
  | .live =>
    match s.queue with
    | [] => s
    | .beacon b :: q => emit h st { s with queue := q } b
    | .close :: q => { s with queue := q, phase := .done .replaced }
  | _ => s

def Strm.replaced (s : Strm) : Strm :=
  if s.attached then { s with attached := false, queue := s.queue ++ [.close] } else s

def Strm.detached (s : Strm) : Strm := { s with attached := false }

def Strm.cancel (st : Store) (s : Strm) : Strm :=
  match s.phase with
  | .done _ => s
  | .idle =>
    match st with
    | .bolt _ => { s with phase := .done .canceled }    -- both bolt stores look at the context first in `Last`
    | .mem _ =>
      -- memdb does not: the refusal check comes before the first look at the context
      match (s.start st).phase with
      | .done e => { s with phase := .done e }
      | _ => { s with phase := .done .canceled, attached := false }
  | _ => { s with phase := .done .canceled, attached := false }

def Strm.sendFail (h : Handover) (s : Strm) : Strm :=
  match s.phase with
  | .scanning _ => { s with phase := .done .sendError }
  | .live =>
    match s.queue with
    | [] => s
    | .beacon b :: q =>
      match h with
      | .asIs => { s with queue := q, sent := s.sent ++ [b], phase := .done .sendError, attached := false }
      | .tracked => { s with queue := q, phase := .done .sendError, attached := false }   -- which Send fails is immaterial
    | .close :: q => { s with queue := q, phase := .done .replaced }
  | _ => s

/-! ### one stream and its environment -/

inductive Ev where
  | put (b : Beacon)
  | start | scanOpen | scanNext | register | deliver
  | replaced | detached | cancel | sendFail
  deriving Repr

structure Sys where
  store : Store
  s : Strm

def Sys.step (h : Handover) (x : Sys) : Ev → Sys
  | .put b => { store := x.store.put b, s := x.s.onPut b }
  | .start => { x with s := x.s.start x.store }
  | .scanOpen => { x with s := x.s.scanOpen h x.store }
  | .scanNext => { x with s := x.s.scanNext h x.store }
  | .register => { x with s := x.s.register h x.store }
  | .deliver => { x with s := x.s.deliver h x.store }
  | .replaced => { x with s := x.s.replaced }
  | .detached => { x with s := x.s.detached }
  | .cancel => { x with s := x.s.cancel x.store }
  | .sendFail => { x with s := x.s.sendFail h }

def Sys.run (h : Handover) (x : Sys) (es : List Ev) : Sys := es.foldl (Sys.step h) x

/-! ### the repaired callbackStore as seen by one stream

`callbackStore.Put` of the repaired store (Drand/Chain/CallbackStore.lean, `stepR`) never waits for a stream's callback and
never skips it: when the stream's job channel is full the store ENDS the stream's registration — the callback is
deregistered and its worker is left with what is queued followed by the close notice — which is exactly what `replaced`
does to a stream. `Strm.queue` holds the job the worker has in its hands (inside `Send`) as well as the jobs in the
channel, so the channel (capacity `cap`) is full when the queue holds `cap + 1` jobs. -/

/-- the dispatch of `b` finds the job channel of this stream full -/
def Strm.full (cap : Nat) (s : Strm) (b : Beacon) : Bool :=
  s.attached && decide (b.round ≠ 0) && decide (cap + 1 ≤ s.queue.length)

def Strm.onPutR (cap : Nat) (s : Strm) (b : Beacon) : Strm :=
  if s.full cap b then s.replaced else s.onPut b

def Sys.stepR (h : Handover) (cap : Nat) (x : Sys) : Ev → Sys
  | .put b => { store := x.store.put b, s := x.s.onPutR cap b }
  | e => Sys.step h x e

def Sys.runR (h : Handover) (cap : Nat) (x : Sys) (es : List Ev) : Sys := es.foldl (Sys.stepR h cap) x

/-! ### several streams over one callback store

Callbacks are registered under "SyncChain-" + remote address, so two streams of one client connection share an id:
`AddCallback` of the newer one replaces the older one (close signal), and `RemoveCallback(id)` — called by a
stream whose context ended or whose `Send` failed — removes whatever is registered under the id at that time. -/

structure Entry where
  sid : String
  addr : String
  s : Strm

structure Net where
  store : Store
  streams : List Entry

/-- the events of one stream that are steps of its own goroutines -/
inductive Own where
  | start | scanOpen | scanNext | register | deliver | cancel | sendFail
  deriving DecidableEq, Repr

def Own.toEv : Own → Ev
  | .start => .start | .scanOpen => .scanOpen | .scanNext => .scanNext | .register => .register
  | .deliver => .deliver | .cancel => .cancel | .sendFail => .sendFail

/-- what a step does to the callback table besides changing its own stream -/
inductive Effect where
  | none | add | remove
  deriving DecidableEq, Repr

/-- memdb only: `Seek(from)` finds nothing (the round is not in the ring), so a cancelled SyncChain that has not sent
anything yet never looks at its context before it reaches `AddCallback` -/
def Store.seekMisses : Store → Nat → Bool
  | .mem ms, r => match (Mem.cursorStep ms 0 (.seek r)).2 with | .ok _ => false | .noBeacon => true
  | .bolt _, _ => false

def Store.isMem : Store → Bool
  | .mem _ => true
  | .bolt _ => false

def effectOf (st : Store) (e : Own) (before after : Strm) : Effect :=
  match e, before.phase, after.phase with
  | .register, .scanned, _ => .add
  | .cancel, .live, _ => .remove
  | .cancel, .scanned, _ => .add            -- AddCallback runs, then ctx.Done removes it again
  | .cancel, .idle, .done .canceled =>
    if st.isMem && (before.frm = 0 || st.seekMisses before.frm) then .add else .none
  | .cancel, .started, .done .canceled => if st.seekMisses before.frm then .add else .none
  | .sendFail, .live, .done .sendError => .remove
  | _, _, _ => .none

def Net.put (n : Net) (b : Beacon) : Net :=
  { store := n.store.put b, streams := n.streams.map fun e => { e with s := e.s.onPut b } }

/-- `Put` of the repaired store -/
def Net.putR (cap : Nat) (n : Net) (b : Beacon) : Net :=
  { store := n.store.put b, streams := n.streams.map fun e => { e with s := e.s.onPutR cap b } }

def Net.own (h : Handover) (n : Net) (sid : String) (ev : Own) : Net :=
  match n.streams.find? (·.sid == sid) with
  | none => n
  | some me =>
    let after := ((Sys.step h ⟨n.store, me.s⟩ ev.toEv)).s
    let eff := effectOf n.store ev me.s after
    { n with streams := n.streams.map fun e =>
        if e.sid == sid then { e with s := after }
        else if e.addr == me.addr then
          match eff with
          | .none => e
          | .add => { e with s := e.s.replaced }
          | .remove => { e with s := e.s.detached }
        else e }

/-- a stream handler that deregisters with the remover of ITS OWN registration (`remove := store.AddStreamCallback(…)`,
`defer remove()`; reports/cb_fix_2.diff): when it ends, whatever another stream registered under the same id stays.
Registering still replaces (and tells) the holder of the id. -/
def Net.ownR (h : Handover) (n : Net) (sid : String) (ev : Own) : Net :=
  match n.streams.find? (·.sid == sid) with
  | none => n
  | some me =>
    let after := ((Sys.step h ⟨n.store, me.s⟩ ev.toEv)).s
    let eff := effectOf n.store ev me.s after
    { n with streams := n.streams.map fun e =>
        if e.sid == sid then { e with s := after }
        else if e.addr == me.addr then
          match eff with
          | .add => { e with s := e.s.replaced }
          | _ => e
        else e }

end Drand.Beacon.Stream
