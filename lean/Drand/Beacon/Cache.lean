/-
Model of internal/chain/beacon/cache.go: `partialCache` (C03 distinctness, C12 bounded per-signer state).
Go maps are association lists here; every function mirrors the Go method of the same name.
A partial signature is `2-byte big-endian signer index ‖ signature` (kyber tbls); `IndexOf` fails on
fewer than 2 bytes.
-/
import Drand.Basic
import Gen.Consts

namespace Drand.Beacon
open Drand

/-- the fields of `drand.PartialBeaconPacket` the cache reads -/
structure Partial where
  round : Nat
  prev : Bytes
  psig : Bytes
  deriving DecidableEq, Repr

/-- `ThresholdScheme.IndexOf`: the length must be exactly the signature-group point length + 2 -/
def indexOf (sigLen : Nat) (psig : Bytes) : Option Nat :=
  if psig.length ≠ sigLen + 2 then none else
  match psig with
  | a :: b :: _ => some (a.toNat * 256 + b.toNat)
  | _ => none

/-- `roundID(round, prev)` = be64 round ‖ prev : injective, so the pair itself is the id -/
abbrev RId := Nat × Bytes

structure RoundCache where
  round : Nat
  prev : Bytes
  sigs : List (Nat × Bytes)       -- signer index ↦ partial signature
  deriving DecidableEq, Repr

structure Cache where
  sigLen : Nat                    -- `scheme.SigGroup.PointLen()`
  rounds : List (RId × RoundCache)
  rcvd : List (Nat × List RId)
  /-- the variant switch (regenerated: `Gen.replaceSameIndex`): what `roundCache.append` does with a partial whose signer
  index is already cached for the round — false: the cached one stays (first wins), true: the new one replaces it -/
  replace : Bool := false
  deriving DecidableEq, Repr

def Cache.empty (sigLen : Nat) (replace : Bool := false) : Cache := ⟨sigLen, [], [], replace⟩

section assoc
variable {κ ν : Type} [DecidableEq κ]
def aget (k : κ) : List (κ × ν) → Option ν
  | [] => none
  | (k', v) :: t => if k = k' then some v else aget k t
def aset (k : κ) (v : ν) : List (κ × ν) → List (κ × ν)
  | [] => [(k, v)]
  | (k', v') :: t => if k = k' then (k, v) :: t else (k', v') :: aset k v t
def adel (k : κ) : List (κ × ν) → List (κ × ν)
  | [] => []
  | (k', v') :: t => if k = k' then adel k t else (k', v') :: adel k t
end assoc

def Cache.rcvdOf (c : Cache) (idx : Nat) : List RId := (aget idx c.rcvd).getD []

inductive AppendRes where
  | ok
  | errIndex        -- IndexOf failed
  | errEvicted      -- "evicted round missing from cache"
  deriving DecidableEq, Repr

/-- `roundCache.append`: false when this signer is already cached for the round; in the variant `rep` the bytes cached
for it are replaced by the new partial's (`r.sigs[idx] = p.GetPartialSig(); return !seen`) -/
def RoundCache.append (sigLen : Nat) (rep : Bool) (r : RoundCache) (p : Partial) : RoundCache × Bool :=
  match indexOf sigLen p.psig with
  | none => (r, false)
  | some idx =>
    match aget idx r.sigs with
    | some _ => (if rep then { r with sigs := aset idx p.psig r.sigs } else r, false)
    | none => ({ r with sigs := r.sigs ++ [(idx, p.psig)] }, true)

def maxPartials : Nat := Gen.maxPartialsPerNode

/-- `getCache`: the round cache to append to. The quota is enforced for every new (signer, round cache) pair —
also when the round cache was opened by another signer — by evicting this signer's oldest entry first. -/
def Cache.getCache (c : Cache) (id : RId) (p : Partial) : Cache × Except AppendRes RoundCache :=
  match indexOf c.sigLen p.psig with
  | none => (c, .error .errIndex)
  | some idx =>
    let existing := aget id c.rounds
    let seen : Bool := match existing with
      | some r => (aget idx r.sigs).isSome
      | none => false
    if seen then
      match existing with
      | some r => (c, .ok r)
      | none => (c, .error .errEvicted)   -- unreachable
    else
      let l := c.rcvdOf idx
      let evictedE : Except AppendRes Cache :=
        if l.length ≥ maxPartials then
          match l with
          | [] => .error .errEvicted      -- unreachable when maxPartials > 0
          | toEvict :: rest =>
            match aget toEvict c.rounds with
            | none => .error .errEvicted
            | some er =>
              let er' : RoundCache := { er with sigs := adel idx er.sigs }
              let rounds' := if er'.sigs.length = 0 then adel toEvict c.rounds else aset toEvict er' c.rounds
              .ok { c with rounds := rounds', rcvd := aset idx rest c.rcvd }
        else .ok c
      match evictedE with
      | .error e => (c, .error e)
      | .ok c1 =>
        match aget id c1.rounds with
        | some r => (c1, .ok r)
        | none =>
          let fresh : RoundCache := ⟨p.round, p.prev, []⟩
          ({ c1 with rounds := aset id fresh c1.rounds }, .ok fresh)

/-- `partialCache.Append` -/
def Cache.append (c : Cache) (p : Partial) : Cache × AppendRes :=
  let id : RId := (p.round, p.prev)
  match indexOf c.sigLen p.psig with
  | none => (c, .errIndex)
  | some idx =>
    match c.getCache id p with
    | (c', .error e) => (c', e)
    | (c', .ok r) =>
      let (r', added) := r.append c.sigLen c.replace p
      if added then
        ({ c' with rounds := aset id r' c'.rounds, rcvd := aset idx (c'.rcvdOf idx ++ [id]) c'.rcvd }, .ok)
      else if c.replace then ({ c' with rounds := aset id r' c'.rounds }, .ok)   -- the round cache is a pointer: the replaced bytes stay
      else (c', .ok)

/-- remove `id` from the list of every signer that has a partial in the flushed round -/
def dropId (id : RId) (sigs : List (Nat × Bytes)) (rcvd : List (Nat × List RId)) : List (Nat × List RId) :=
  sigs.foldl (fun acc s =>
    let l := ((aget s.1 acc).getD []).filter (· ≠ id)
    if l.length > 0 then aset s.1 l acc else adel s.1 acc) rcvd

/-- `FlushRounds(round)`: delete every round cache ≤ round -/
def Cache.flush (c : Cache) (round : Nat) : Cache :=
  c.rounds.foldl (fun acc e =>
    if e.2.round > round then acc
    else { acc with rounds := adel e.1 acc.rounds, rcvd := dropId e.1 e.2.sigs acc.rcvd }) c

def Cache.roundLen (c : Cache) (round : Nat) (prev : Bytes) : Option Nat :=
  (aget (round, prev) c.rounds).map (·.sigs.length)

end Drand.Beacon
