/-
Model of internal/chain/beacon/sync_manager.go (client side of chain sync) and of the follow loop of
internal/core/drand_beacon_control.go:StartFollowChain.                                             (C10)

* a peer's answer to one `SyncChain` call is `Resp`: a dial error, or the list of things that arrive on the channel
  (`pkt`, then `stall` = nothing more arrives until the context is cancelled, or `close`/end of list = channel closed);
* `loop` is the `for { select … }` of `tryNode`, check by check, `tryNode` the code before it, `sync` the shuffled
  loop of `Sync` over the peers *in the order they are tried* (any list = any permutation), `reSync`,
  `checkPast`, `correctPast` the repair entry points, `followLoop` the `for { … }` of StartFollowChain,
  `admitReq` the admission rule of `Run`;
* the store under the sync manager is the C02 stack: participant = appendStore → schemeStore → base
  (`Stack.put`), follow = schemeStore → base (`Stack.schemePut`, StartFollowChain builds no appendStore),
  repair = base store directly (`Stack.rawPut`, the `insecureStore`);
* crypto is an oracle `verify : Beacon → Bool`.

Variant switches (DESIGN §2.5): `roundCheck` = tryNode refuses a streamed beacon whose round is not `last.Round+1`
(as-is code: no such check), `rangeCheck` = on the repair path tryNode refuses rounds outside `[from, upTo]` (as-is: no
such check),
`followRetry` = StartFollowChain with a made `errChan` (as-is code: `var errChan chan error`, a nil channel: false),
`labelCheck` (argument of `checkLoop`) = CheckPastBeacons compares the round of the beacon it read with the round it asked
for (as-is: no such comparison).
-/
import Drand.Chain.Stack

namespace Drand.Beacon.Sync
open Drand Drand.Store Drand.Chain

inductive Item where
  | pkt (b : Beacon) (idOk : Bool)   -- idOk: metadata absent, or its beacon id is ours
  | stall
  | close
  deriving Repr

inductive Resp where
  | err
  | stream (items : List Item)
  deriving Repr

structure Peer where
  addr : String
  /-- answer to `SyncChain{FromRound}` -/
  serve : Nat → Resp

inductive Mode where
  | participant | follow
  deriving DecidableEq, Repr

structure Cfg where
  verify : Beacon → Bool
  /-- `store.Last` of the back-end fails (a trimmed previous-required store whose last round has no predecessor) -/
  lastErr : BoltState → Bool
  mode : Mode
  roundCheck : Bool
  rangeCheck : Bool
  followRetry : Bool

/-- one write that reached the base store through a sync path (ghost history, newest first) -/
structure Write where
  pkt : Beacon
  stored : Beacon
  deriving DecidableEq, Repr

structure Node where
  st : Stack
  writes : List Write
  /-- ghost: the `SyncChain` calls made so far (peer address, FromRound), newest first -/
  calls : List (String × Nat)

def Node.head (n : Node) : Nat := (Stack.last n.st.base).round

/-- what `schemeStore.Put` hands to the base store -/
def storedForm (chained : Bool) (b : Beacon) : Beacon := if chained then b else { b with prev := [] }

/-- the `Put` of tryNode: `insecureStore.Put` on the repair path, else `s.store.Put` -/
def store1 (cfg : Cfg) (resync : Bool) (n : Node) (b : Beacon) : Node × PutRes :=
  if resync then ({ n with st := n.st.rawPut b, writes := ⟨b, b⟩ :: n.writes }, .ok)
  else
    let r := match cfg.mode with
      | .participant => n.st.put b
      | .follow => n.st.schemePut b
    if r.2 = .ok then ({ n with st := r.1, writes := ⟨b, storedForm n.st.chained b⟩ :: n.writes }, .ok) else (n, r.2)

inductive TryRes where
  | reached      -- true
  | failed       -- false
  | cancelled    -- false, through `<-cnode.Done()`
  deriving DecidableEq, Repr

/-- the proposed check (variant `roundCheck`): sync hands beacons over in chain order -/
def roundOk (cfg : Cfg) (resync : Bool) (from_ upTo last : Nat) (b : Beacon) : Bool :=
  if resync then (if cfg.rangeCheck then decide (from_ ≤ b.round ∧ b.round ≤ upTo) else true)
  else (if cfg.roundCheck then decide (b.round = last + 1) else true)

/-- the receive loop of `tryNode`; `last` is the local variable of that name (its round) -/
def loop (cfg : Cfg) (resync : Bool) (from_ upTo : Nat) : Nat → Node → List Item → Node × TryRes
  | _, n, [] => (n, .failed)
  | _, n, .close :: _ => (n, .failed)
  | _, n, .stall :: _ => (n, .cancelled)
  | last, n, .pkt b idOk :: rest =>
    if idOk = false then (n, .failed)
    else if cfg.verify b = false then (n, .failed)
    else if roundOk cfg resync from_ upTo last b = false then (n, .failed)
    else
      let r := store1 cfg resync n b
      if r.2 = .ok then
        if b.round = upTo then (r.1, .reached) else loop cfg resync from_ upTo b.round r.1 rest
      else if r.2 = .already then (n, if b.round = upTo then .reached else .failed)
      else (n, .failed)

def tryNode (cfg : Cfg) (from_ upTo : Nat) (n : Node) (p : Peer) : Node × TryRes :=
  let resync := decide (from_ > 0)
  let from' := if from_ = 0 then n.head + 1 else from_
  if cfg.lastErr n.st.base then (n, .failed)
  else if from_ ≠ 0 ∧ from_ > upTo then (n, .failed)
  else
    let n1 : Node := { n with calls := (p.addr, from') :: n.calls }
    match p.serve from' with
    | .err => (n1, .failed)
    | .stream items => loop cfg resync from' upTo n.head n1 items

inductive SyncRes where
  | ok | failedAll | cancelled
  deriving DecidableEq, Repr

/-- `Sync`; `peers` in the order `rand.Perm` yields them; `dead` = the context is already cancelled -/
def sync (cfg : Cfg) (self : String) (from_ upTo : Nat) : Bool → Node → List Peer → Node × SyncRes × Bool
  | dead, n, [] => (n, .failedAll, dead)
  | dead, n, p :: ps =>
    if p.addr = self then sync cfg self from_ upTo dead n ps
    else if dead then (n, .cancelled, true)
    else
      let r := tryNode cfg from_ upTo n p
      match r.2 with
      | .reached => (r.1, .ok, false)
      | .failed => sync cfg self from_ upTo false r.1 ps
      | .cancelled => sync cfg self from_ upTo true r.1 ps

inductive ReRes where
  | ok | failedAll | cancelled | invalid
  deriving DecidableEq, Repr

def SyncRes.toRe : SyncRes → ReRes
  | .ok => .ok | .failedAll => .failedAll | .cancelled => .cancelled

/-- `ReSync`: `ps1` are the peers as they behave at the first attempt, `ps2` at the retry -/
def reSync (cfg : Cfg) (self : String) (from_ to : Nat) (dead : Bool) (n : Node) (ps1 ps2 : List Peer) :
    Node × ReRes × Bool :=
  if from_ = 0 then (n, .invalid, dead)
  else
    let r := sync cfg self from_ to dead n ps1
    if r.2.1 = .failedAll then
      let r2 := sync cfg self from_ to r.2.2 r.1 ps2
      (r2.1, r2.2.1.toRe, r2.2.2)
    else (r.1, r.2.1.toRe, r.2.2)

/-- what `store.Get(ctx, i)` answers -/
inductive GetRes where
  | ok (b : Beacon)
  /-- `ErrNoBeaconStored`: no record under that round (trimmed, previous-required: or none under the round before) -/
  | notStored
  /-- any other error: a record is there but cannot be decoded (a torn JSON value of the untrimmed bolt format, a row that
  does not scan), the store itself is failing -/
  | otherErr
  deriving DecidableEq, Repr

/-- the loop of `CheckPastBeacons`, statement by statement (`i` = the loop variable, `k` = rounds still to visit):
```
b, err := s.store.Get(ctx, i)
if err != nil { faultyBeacons = append(faultyBeacons, i); …; continue }        -- EVERY error (Gen.checkPastSteps)
if err = s.scheme.VerifyBeacon(b, s.info.PublicKey); err != nil { faultyBeacons = append(faultyBeacons, b.Round) }
```
Variant switch `labelCheck` (DESIGN §2.5): the corrected loop first compares the round of the beacon it read with the round
it asked for and reports the round asked for (as-is: no such comparison, and a beacon that does not verify is reported
under the round *it carries*). -/
def checkLoop (labelCheck : Bool) (verify : Beacon → Bool) (get : Nat → GetRes) : Nat → Nat → List Nat
  | _, 0 => []
  | i, k + 1 =>
    (match get i with
     | .notStored => [i]
     | .otherErr => [i]
     | .ok b =>
       if labelCheck && decide (b.round ≠ i) then [i]
       else if verify b = false then [b.round] else []) ++ checkLoop labelCheck verify get (i + 1) k

/-- `CheckPastBeacons(upTo)` once `store.Last` answered `lastRound` -/
def checkPast (labelCheck : Bool) (verify : Beacon → Bool) (get : Nat → GetRes) (lastRound upTo : Nat) : List Nat :=
  checkLoop labelCheck verify get 1 (if lastRound < upTo then lastRound else upTo)

inductive CorrectRes where
  | ok | errors (k : Nat) | cancelled
  deriving DecidableEq, Repr

/-- `CorrectPastBeacons`; `env i` = the peers (first attempt, retry) while faulty round number `i` is repaired -/
def correctLoop (cfg : Cfg) (self : String) (env : Nat → List Peer × List Peer) :
    Nat → Bool → Node → Nat → List Nat → Node × CorrectRes × Bool
  | _, dead, n, errs, [] => (n, if errs = 0 then .ok else .errors errs, dead)
  | i, dead, n, errs, b :: rest =>
    if dead then (n, .cancelled, true)
    else
      let r := reSync cfg self b b false n (env i).1 (env i).2
      correctLoop cfg self env (i + 1) r.2.2 r.1 (if r.2.1 = .ok then errs else errs + 1) rest

def correctPast (cfg : Cfg) (self : String) (env : Nat → List Peer × List Peer) (n : Node) (fb : List Nat) :
    Node × CorrectRes × Bool :=
  correctLoop cfg self env 0 false n 0 fb

inductive FollowRes where
  | done        -- the target was reached
  | following   -- still in the loop when the modelled attempts ran out
  | cancelled
  | stuck       -- as-is: the Sync goroutine blocks on the nil `errChan`, nobody ever retries
  deriving DecidableEq, Repr

/-- the `done` channel of StartFollowChain: the progress callback closes it as soon as a stored beacon has a round at or
beyond the target (`curr > targ ⇒ targ = curr`, then `curr == targ`); `upTo = 0` keeps following -/
def progressDone (upTo : Nat) (old new : Node) : Bool :=
  decide (upTo > 0) && (new.writes.take (new.writes.length - old.writes.length)).any fun w => decide (upTo ≤ w.stored.round)

/-- the `for { go Sync; select … }` of StartFollowChain; one element of `attempts` per loop iteration -/
def followLoop (cfg : Cfg) (self : String) (upTo : Nat) : Node → List (List Peer) → Node × FollowRes
  | n, [] => (n, .following)
  | n, ps :: rest =>
    let r := sync cfg self 0 upTo false n ps
    if r.2.1 = .ok ∨ progressDone upTo n r.1 = true then (r.1, .done)
    else match r.2.1 with
      | .cancelled => (r.1, .cancelled)
      | _ => if cfg.followRetry then followLoop cfg self upTo r.1 rest else (r.1, .stuck)

/-! ### `Run`: admission of a sync request -/

structure RunState where
  lastRoundTime : Int      -- seconds
  alive : Bool             -- `ctx.Err() == nil`: the context of the current sync has not been cancelled
  deriving DecidableEq, Repr

inductive Admission where
  | filled      -- "request already filled"
  | start       -- cancel the old sync, start a new one
  | ignore      -- a sync is running and made progress recently
  deriving DecidableEq, Repr

/-- the `case request := <-s.newReq` arm; `period`/`now` in seconds -/
def admitReq (factor : Nat) (period : Nat) (now : Int) (rs : RunState) (last upTo : Nat) : RunState × Admission :=
  if upTo > 0 ∧ last ≥ upTo then (rs, .filled)
  else if rs.alive = false ∨ now > rs.lastRoundTime + (period * factor : Nat) then
    ({ lastRoundTime := now, alive := true }, .start)
  else (rs, .ignore)

/-- `case <-s.newSyncedBeacon` -/
def RunState.beacon (rs : RunState) (now : Int) : RunState := { rs with lastRoundTime := now }
/-- the goroutine's `innerCancel()` after Sync returned -/
def RunState.finished (rs : RunState) : RunState := { rs with alive := false }

end Drand.Beacon.Sync
