/-
Model of a beacon node's write and read paths (C01, C03):
  internal/chain/beacon/node.go        `Handler.ProcessPartialBeacon`, `broadcastNextPartial`
  internal/chain/beacon/chainstore.go  `runAggregator`, `tryAppend`, `shouldSync`
  internal/chain/beacon/sync_manager.go `tryNode` (packet loop), `SyncChain` (serve side)
  internal/core/drand_beacon_public.go `PublicRand`, `proxyStream.Send`;  drand_proxy.go `drandProxy.Get`
  crypto/schemes.go                    `DigestBeacon` ×5, `VerifyBeacon`, `RandomnessFromSignature`
  crypto/vault/vault.go                live group / polynomial / share (`SetInfo`)

Cryptography is an oracle record `Crypto`; every theorem quantifies over it. Goroutines are explicit events:
`deliver` (a ProcessPartialBeacon call, ends with the send into `newPartials`), `aggPartial` / `aggStored`
(one iteration of the aggregator loop on one of its two channels), `tryNode` (one sync stream), … Channels are
lists (their bound only delays the sender). Each function follows the Go function statement by statement; the
statement skeletons are regenerated from the source (Gen.BeaconNode) and tied in DrandProofs/C01.lean, C03.lean.
-/
import Drand.Basic
import Drand.Codec.Hash
import Drand.Beacon.Cache
import Drand.Chain.Stack
import Gen.Consts
import Gen.BeaconNode
import Gen.CacheRules

namespace Drand.Beacon
open Drand Drand.Chain Drand.Store

/-- the cryptographic oracle. Polynomials, keys and shares are opaque identifiers. -/
structure Crypto where
  /-- the hash of the scheme's `DigestFunc` (sha256, keccak256 for bn254) -/
  hash : Bytes → Bytes
  /-- sha256 of `RandomnessFromSignature` -/
  rhash : Bytes → Bytes
  /-- `PubPoly.Commit()`: the group key of a public polynomial -/
  commit : Nat → Nat
  /-- `ThresholdScheme.VerifyPartial(pub, msg, psig)` -/
  verifyPartial : Nat → Bytes → Bytes → Bool
  /-- `ThresholdScheme.VerifyRecovered(key, msg, sig)` -/
  verifyRecovered : Nat → Bytes → Bytes → Bool
  /-- `ThresholdScheme.Recover(pub, msg, sigs, t, n)` -/
  recover : Nat → Bytes → List Bytes → Nat → Nat → Option Bytes
  /-- `ThresholdScheme.Sign(share, msg)` with the share of the given polynomial held by this node -/
  signPartial : Nat → Bytes → Bytes

/-! ### digest -/

/-- bytes written into the digest by one segment of a `DigestFunc` -/
def evalSeg (round : Nat) (prev : Bytes) : Gen.BeaconNode.DSeg → Bytes
  | .prevIfNonEmpty => if prev.length > 0 then prev else []
  | .roundBE64 => Codec.be 8 round

def evalSegs (segs : List Gen.BeaconNode.DSeg) (round : Nat) (prev : Bytes) : Bytes :=
  (segs.map (evalSeg round prev)).flatten

/-- the two digest layouts that exist (tied to `Gen.BeaconNode.digests` in DrandProofs/C01.lean) -/
def layoutOf (chained : Bool) : List Gen.BeaconNode.DSeg :=
  if chained then [.prevIfNonEmpty, .roundBE64] else [.roundBE64]

/-- what is written into the hash: chained `prev ‖ be64 round`, unchained `be64 round` -/
def preimage (chained : Bool) (round : Nat) (prev : Bytes) : Bytes := evalSegs (layoutOf chained) round prev

/-- `Scheme.DigestBeacon` -/
def digest (c : Crypto) (chained : Bool) (round : Nat) (prev : Bytes) : Bytes := c.hash (preimage chained round prev)

/-- `Scheme.VerifyBeacon(b, key)` = VerifyRecovered(key, DigestBeacon(b), b.Signature) -/
def verifyBeacon (c : Crypto) (chained : Bool) (key : Nat) (b : Beacon) : Bool :=
  c.verifyRecovered key (digest c chained b.round b.prev) b.sig

/-- `Beacon.Randomness()` = `RandomnessFromSignature(b.Signature)` -/
def Beacon.randomness (c : Crypto) (b : Beacon) : Bytes := c.rhash b.sig

/-! ### node state -/

/-- what the vault holds: the live group, its public polynomial and the node's share -/
structure GroupView where
  poly : Nat
  thr : Nat
  n : Nat
  members : List (Nat × String)     -- `Group.Node(idx)` ↦ address
  ownIndex : Nat                    -- `share.Share.I`
  deriving Repr

inductive Via where
  | publicRand | proxyGet | syncChain | publicStream
  deriving DecidableEq, Repr

/-- one beacon handed to a client or peer -/
structure Served where
  via : Via
  wanted : Nat                       -- requested round (0: latest / stream position)
  b : Beacon
  randomness : Option Bytes          -- the randomness field of the response, when the exit sets one
  deriving Repr

inductive Src where
  | agg | sync
  deriving DecidableEq, Repr

/-- a PublicRand call blocked on the next beacon; `proxy`: it came through `drandProxy.Get` -/
structure Waiter where
  proxy : Bool
  wanted : Nat
  deriving Repr

def viaOfRand (proxy : Bool) : Via := if proxy then .proxyGet else .publicRand
/-- `pub`: PublicRandStream (through `proxyStream`), otherwise the peer protocol's SyncChain -/
def viaOfStream (pub : Bool) : Via := if pub then .publicStream else .syncChain

structure Node where
  chained : Bool
  sigLen : Nat
  addr : String                      -- `h.addr`
  chainKey : Nat                     -- `info.PublicKey`, pinned by the sync manager
  group : GroupView                  -- vault (live)
  nextRound : Nat                    -- `common.NextRound(clock.Now(), …)`
  stack : Stack                      -- callback → append → scheme → base
  newPartials : List Partial         -- channel into the aggregator
  storedQ : List Beacon              -- `beaconStoredAgg`
  aggLast : Option Beacon            -- the aggregator's `lastBeacon` (nil until the first partial)
  cache : Cache                      -- the aggregator's partial cache
  waiters : List Waiter              -- PublicRand calls waiting for the next beacon
  streams : List (Bool × Nat)        -- live SyncChain (false) / PublicRandStream (true) callbacks, with their start round
  -- ghost state: what was written and what was served
  puts : List (Src × Beacon)
  served : List Served
  syncReqs : List Nat
  seen : List GroupView              -- every group view that has been live
  deriving Repr

def Node.init (chained : Bool) (sigLen : Nat) (addr : String) (chainKey : Nat) (g : GroupView) (seed : Bytes) : Node :=
  { chained, sigLen, addr, chainKey, group := g, nextRound := 0, stack := Stack.init chained seed,
    newPartials := [], storedQ := [], aggLast := none, cache := Cache.empty sigLen Gen.replaceSameIndex, waiters := [], streams := [],
    puts := [], served := [], syncReqs := [], seen := [g] }

/-- `h.chain.Last` / `store.Last` -/
def Node.last (s : Node) : Beacon := Stack.last s.stack.base

/-! ### the one write path: `callbackStore.Put` on top of the stack -/

/-- what a stream exit attaches: `proxyStream.Send` sets the randomness, the peer protocol does not carry one -/
def streamItem (c : Crypto) (b : Beacon) (st : Bool × Nat) : Served :=
  ⟨viaOfStream st.1, st.2, b, if st.1 then some (c.rhash b.sig) else none⟩

/-- the callbacks that run after a successful Put: waiting PublicRand calls are released (each callback removes
itself after one execution; it answers only if the round is the wanted one), live streams get the beacon -/
def Node.notify (c : Crypto) (s : Node) (b : Beacon) : Node :=
  let rel := s.waiters.filterMap fun w =>
    if b.round = w.wanted then
      some (⟨viaOfRand w.proxy, w.wanted, b, if w.proxy then some (c.rhash b.sig) else none⟩ : Served)
    else none
  { s with waiters := [], served := s.served ++ rel ++ s.streams.map (streamItem c b) }

/-- `callbackStore.Put`: the stack's Put; on success the stored beacon is dispatched to the callbacks -/
def Node.put (c : Crypto) (s : Node) (src : Src) (b : Beacon) : Node × PutRes :=
  match s.stack.put b with
  | (st', .ok) =>
    let stored := st'.appendLast
    (Node.notify c { s with stack := st', storedQ := s.storedQ ++ [stored], puts := s.puts ++ [(src, stored)] } stored, .ok)
  | (_, r) => (s, r)

/-! ### admission: `ProcessPartialBeacon` -/

inductive Admit where
  | future | past | badIndex | notMember | ownAddr | invalid | ownIndex | admitted
  deriving DecidableEq, Repr

def Admit.show : Admit → String
  | .future => "err-future" | .past => "ok" | .badIndex => "err-index" | .notMember => "err-not-member"
  | .ownAddr => "err-own-addr" | .invalid => "err-invalid" | .ownIndex => "ok" | .admitted => "ok"

def processPartial (c : Crypto) (s : Node) (p : Partial) : Node × Admit :=
  -- one round off in the future is allowed
  if p.round > s.nextRound then (s, .future) else
  -- partials for beacons already stored
  if p.round ≤ s.last.round then (s, .past) else
  match indexOf s.sigLen p.psig with
  | none => (s, .badIndex)
  | some idx =>
    -- `idx < 0` cannot happen: the index is an unsigned 16-bit prefix
    match aget idx s.group.members with
    | none => (s, .notMember)
    | some nodeName =>
      let msg := digest c s.chained p.round p.prev
      if nodeName = s.addr then (s, .ownAddr) else
      if !c.verifyPartial s.group.poly msg p.psig then (s, .invalid) else
      if idx = s.group.ownIndex then (s, .ownIndex) else
      ({ s with newPartials := s.newPartials ++ [p] }, .admitted)

/-- the skeleton of `ProcessPartialBeacon` this function mirrors -/
def processPartialSteps : List Gen.BeaconNode.Step := [
  .bind "addr:=net.RemoteAddress(ctx)",
  .bind "pRound:=p.GetRound()",
  .bind "nextRound,_:=common.NextRound(h.conf.Clock.Now().Unix(),h.conf.Group.Period,h.conf.Group.GenesisTime)",
  .bind "currentRound:=nextRound-1",
  .guard "pRound>nextRound" [.exit "return nil,fmt.Errorf(\"invalid round: %d instead of %d\",pRound,currentRound)"],
  .guard "latest,err:=h.chain.Last(ctx);err==nil&&pRound<=latest.GetRound()" [.exit "return new(proto.Empty),nil"],
  .bind "idx,err:=h.crypto.ThresholdScheme.IndexOf(p.GetPartialSig())",
  .guard "err!=nil" [.exit "return nil,err"],
  .guard "idx<0" [.bind "err:=fmt.Errorf(\"invalid index %d in partial for round %v\",idx,pRound)", .exit "return nil,err"],
  .bind "node:=h.crypto.GetGroup().Node(uint32(idx))",
  .guard "node==nil" [.bind "err:=fmt.Errorf(\"attempted to process beacon from node of index %d, but it was not in the group file\",uint32(idx))", .exit "return nil,err"],
  .bind "msg:=h.crypto.DigestBeacon(&common.Beacon{Round:pRound,PreviousSig:p.GetPreviousSignature()})",
  .bind "nodeName:=node.Address()",
  .guard "nodeName==h.addr" [.exit "return nil,fmt.Errorf(\"invalid own index %d in partial with msg %v partial_round %v\",idx,msg,pRound)"],
  .bind "err=h.crypto.ThresholdScheme.VerifyPartial(h.crypto.GetPub(),msg,p.GetPartialSig())",
  .guard "err!=nil" [.exit "return nil,err"],
  .guard "idx==h.crypto.Index()" [.exit "return new(proto.Empty),nil"],
  .call "h.chain.NewValidPartial(ctx,addr,p)",
  .exit "return new(proto.Empty),nil"]

/-- `broadcastNextPartial(current, upon = chain.Last)`: the node's own partial goes straight to the aggregator. When the
stored head is already ahead of the tick's round nothing is signed, queued or broadcast. -/
def ownPartial (c : Crypto) (s : Node) (cur : Nat) : Option Partial :=
  let upon := s.last
  if upon.round > cur then none else
  let rp : Nat × Bytes := if cur = upon.round then (cur, upon.prev) else (upon.round + 1, upon.sig)
  some ⟨rp.1, rp.2, c.signPartial s.group.poly (digest c s.chained rp.1 rp.2)⟩

def broadcastNextPartialSteps : List Gen.BeaconNode.Step := [
  .guard "upon.Round>current.round" [.exit "return "],
  .bind "previousSig:=upon.Signature",
  .bind "round:=upon.Round+1",
  .bind "beaconID:=common.GetCanonicalBeaconID(h.conf.Group.ID)",
  .branch "current.round==upon.Round" [.bind "previousSig=upon.PreviousSig", .bind "round=current.round"] [],
  .bind "msg:=h.crypto.DigestBeacon(&common.Beacon{Round:round,PreviousSig:previousSig})",
  .bind "currSig,err:=h.crypto.SignPartial(msg)",
  .guard "err!=nil" [.exit "return "],
  .bind "metadata:=proto.NewMetadata(h.version.ToProto())",
  .bind "metadata.BeaconID=beaconID",
  .bind "packet:=&proto.PartialBeaconPacket{Round:round,PreviousSignature:previousSig,PartialSig:currSig,Metadata:metadata}",
  .call "h.chain.NewValidPartial(ctx,h.addr,packet)",
  .loop "range h.crypto.GetGroup().Nodes" [.ctxCheck, .bind "idt:=id.Identity", .guard "h.addr==id.Address()" [.exit "continue"], .call "go func{…}(*idt)"]]

/-! ### the aggregator: `runAggregator`, `tryAppend` -/

inductive AggRes where
  | idle                 -- nothing in the channel
  | ignored              -- !shouldStore
  | appendErr            -- cache.Append failed
  | noRoundCache
  | belowThr
  | recoverFailed
  | invalidSig           -- VerifyRecovered failed
  | appended (b : Beacon)          -- tryAppend returned true
  | notAppendable (b : Beacon) (sync : Bool)
  deriving DecidableEq, Repr

/-- `tryAppend(last, newB)` -/
def tryAppend (c : Crypto) (s : Node) (last nb : Beacon) : Node × Bool :=
  if last.round + 1 ≠ nb.round then (s, false) else
  match Node.put c s .agg nb with
  | (s', .ok) => (s', true)
  | (s', .already) => (s', true)       -- race with the sync manager
  | (s', _) => (s', false)

def tryAppendSteps : List Gen.BeaconNode.Step := [
  .ctxCheck,
  .guard "last.Round+1!=newB.Round" [.exit "return false"],
  .guard "err:=c.Put(ctx,newB);err!=nil" [.guard "errors.Is(err,ErrBeaconAlreadyStored)" [.trySend "c.catchupBeacons<-newB", .exit "return true"], .exit "return false"],
  .trySend "c.catchupBeacons<-newB",
  .exit "return true"]

/-- `shouldSync` -/
def shouldSync (last nb : Beacon) : Bool := nb.round > last.round + 1

/-- outcome of the checks of one aggregator iteration that precede `FlushRounds` and `tryAppend` -/
inductive AggPre where
  | ignored | appendErr | noRoundCache | belowThr | recoverFailed | invalidSig
  | candidate (rc : RoundCache) (sig : Bytes)
  deriving DecidableEq, Repr

/-- the iteration up to and including `VerifyRecovered`: the cache after `Append`, and the verdict -/
def aggCheck (c : Crypto) (chained : Bool) (g : GroupView) (cache : Cache) (last : Beacon) (p : Partial) : Cache × AggPre :=
  let isNotInPast := decide (p.round > last.round)
  let isNotTooFar := decide (p.round ≤ last.round + Gen.partialCacheStoreLimit + 1)
  if !(isNotInPast && isNotTooFar) then (cache, .ignored) else
  let thr := g.thr
  let n := g.n
  match cache.append p with
  | (cache', .ok) =>
    match aget (p.round, p.prev) cache'.rounds with
    | none => (cache', .noRoundCache)
    | some rc =>
      if rc.sigs.length < thr then (cache', .belowThr) else
      let msg := digest c chained rc.round rc.prev
      match c.recover g.poly msg (rc.sigs.map (·.2)) thr n with
      | none => (cache', .recoverFailed)
      | some finalSig =>
        if !c.verifyRecovered (c.commit g.poly) msg finalSig then (cache', .invalidSig)
        else (cache', .candidate rc finalSig)
  | (cache', _) => (cache', .appendErr)

/-- the aggregator's `lastBeacon`, loaded from the store the first time it is needed -/
def Node.aggView (s : Node) : Beacon := match s.aggLast with | some b => b | none => s.last

/-- one iteration of `case partial := <-c.newPartials` -/
def aggOne (c : Crypto) (s : Node) (p : Partial) : Node × AggRes :=
  let last := s.aggView
  let s := { s with aggLast := some last }
  match aggCheck c s.chained s.group s.cache last p with
  | (cache', .candidate rc finalSig) =>
    let s := { s with cache := cache'.flush p.round }
    let nb : Beacon := ⟨rc.round, finalSig, rc.prev⟩
    match tryAppend c s last nb with
    | (s', true) => ({ s' with aggLast := some nb }, .appended nb)
    | (s', false) =>
      if shouldSync last nb then ({ s' with syncReqs := s'.syncReqs ++ [nb.round] }, .notAppendable nb true)
      else (s', .notAppendable nb false)
  | (cache', .ignored) => ({ s with cache := cache' }, .ignored)
  | (cache', .appendErr) => ({ s with cache := cache' }, .appendErr)
  | (cache', .noRoundCache) => ({ s with cache := cache' }, .noRoundCache)
  | (cache', .belowThr) => ({ s with cache := cache' }, .belowThr)
  | (cache', .recoverFailed) => ({ s with cache := cache' }, .recoverFailed)
  | (cache', .invalidSig) => ({ s with cache := cache' }, .invalidSig)

def aggregatorPartialSteps : List Gen.BeaconNode.Step := [
  .bind "var err error",
  .branch "lastBeacon==nil" [.bind "lastBeacon,err=c.Last(ctx)", .branch "err!=nil" [.guard "errors.Is(err,context.Canceled)" [.exit "return "], .guard "strings.Contains(err.Error(),\"sql: database is closed\")" [.exit "return "]] []] [],
  .bind "pRound:=partial.p.GetRound()",
  .bind "isNotInPast:=pRound>lastBeacon.Round",
  .bind "isNotTooFar:=pRound<=lastBeacon.Round+partialCacheStoreLimit+1",
  .bind "shouldStore:=isNotInPast&&isNotTooFar",
  .guard "!shouldStore" [.exit "break"],
  .bind "thr:=c.crypto.GetGroup().Threshold",
  .bind "n:=c.crypto.GetGroup().Len()",
  .ctxCheck,
  .bind "err=cache.Append(partial.p)",
  .guard "err!=nil" [.exit "break"],
  .bind "roundCache:=cache.GetRoundCache(partial.p.GetRound(),partial.p.GetPreviousSignature())",
  .guard "roundCache==nil" [.exit "break"],
  .guard "roundCache.Len()<thr" [.exit "break"],
  .bind "msg:=c.crypto.DigestBeacon(roundCache)",
  .bind "finalSig,err:=c.crypto.ThresholdScheme.Recover(c.crypto.GetPub(),msg,roundCache.Partials(),thr,n)",
  .guard "err!=nil" [.exit "break"],
  .guard "err:=c.crypto.ThresholdScheme.VerifyRecovered(c.crypto.GetPub().Commit(),msg,finalSig);err!=nil" [.exit "break"],
  .call "cache.FlushRounds(partial.p.GetRound())",
  .bind "newBeacon:=&common.Beacon{Round:roundCache.round,PreviousSig:roundCache.prev,Signature:finalSig}",
  .guard "c.tryAppend(ctx,lastBeacon,newBeacon)" [.bind "lastBeacon=newBeacon", .exit "break"],
  .ctxCheck,
  .branch "c.shouldSync(lastBeacon,newBeacon)" [.bind "peers:=toPeers(c.crypto.GetGroup().Nodes)", .call "c.syncm.SendSyncRequest(ctx,newBeacon.Round,peers)"] []]

/-- the aggregator takes the next partial from its channel -/
def aggPartial (c : Crypto) (s : Node) : Node × AggRes :=
  match s.newPartials with
  | [] => (s, .idle)
  | p :: rest => aggOne c { s with newPartials := rest } p

/-- `case lastBeacon = <-c.beaconStoredAgg: cache.FlushRounds(lastBeacon.Round)` -/
def aggStored (s : Node) : Node :=
  match s.storedQ with
  | [] => s
  | b :: q => { s with storedQ := q, aggLast := some b, cache := s.cache.flush b.round }

def aggregatorStoredSteps : List Gen.BeaconNode.Step := [.call "cache.FlushRounds(lastBeacon.Round)"]

/-! ### sync: the packet loop of `tryNode` (plain sync, `from = 0`) -/

structure SyncPkt where
  idOk : Bool            -- metadata == nil || metadata.BeaconID == s.info.ID
  b : Beacon
  deriving Repr

/-- processes packets until the stream is closed (→ false) or a return is reached; `last` is tryNode's local view of
the head: the store's head when the call starts, then the beacon it stored last -/
def tryNodeLoop (c : Crypto) (s : Node) (upTo : Nat) (last : Beacon) : List SyncPkt → Node × Bool
  | [] => (s, false)                                   -- channel closed
  | pk :: rest =>
    if !pk.idOk then (s, false) else
    if !verifyBeacon c s.chained s.chainKey pk.b then (s, false) else
    -- sync hands beacons over in chain order
    if pk.b.round ≠ last.round + 1 then (s, false) else
    match Node.put c s .sync pk.b with
    | (s', .ok) => if pk.b.round = upTo then (s', true) else tryNodeLoop c s' upTo pk.b rest
    | (s', .already) => (s', decide (pk.b.round = upTo))
    | (s', _) => (s', false)

def tryNode (c : Crypto) (s : Node) (upTo : Nat) (pkts : List SyncPkt) : Node × Bool := tryNodeLoop c s upTo s.last pkts

def tryNodePacketSteps : List Gen.BeaconNode.Step := [
  .guard "!ok" [.exit "return false"],
  .bind "metadata:=beaconPacket.GetMetadata()",
  .guard "metadata!=nil&&metadata.BeaconID!=s.info.ID" [.exit "return false"],
  .branch "idx:=beaconPacket.GetRound();target<idx||target-idx<commonutils.LogsToSkip||idx%commonutils.LogsToSkip==0" [.bind "cnode=dcontext.SetSkipLogs(cnode,false)"] [.bind "cnode=dcontext.SetSkipLogs(cnode,true)"],
  .bind "beacon:=protoToBeacon(beaconPacket)",
  .guard "err:=s.scheme.VerifyBeacon(beacon,s.info.PublicKey);err!=nil" [.exit "return false"],
  .branch "isResync" [.guard "beacon.Round<from||beacon.Round>upTo" [.exit "return false"]] [.guard "beacon.Round!=last.Round+1" [.exit "return false"]],
  .branch "isResync" [.guard "err:=s.insecureStore.Put(cnode,beacon);err!=nil" [.exit "return false"]] [.guard "err:=s.store.Put(cnode,beacon);err!=nil" [.guard "errors.Is(err,ErrBeaconAlreadyStored)" [.exit "return beacon.Round==upTo"], .exit "return false"]],
  .call "s.newSyncedBeacon<-beacon",
  .bind "last=beacon",
  .guard "last.Round==upTo" [.exit "return true"]]

def callbackPutSteps : List Gen.BeaconNode.Step := [
  .guard "err:=c.Store.Put(ctx,b);err!=nil" [.exit "return err"],
  .branch "b.Round!=0" [.call "c.RLock()", .call "defer c.RUnlock()", .loop "range c.callbacks" [.bind "j,ok:=c.newJob[id]", .guard "!ok" [.exit "continue"], .call "j<-cbPair{cb:cb,b:b}"]] [],
  .exit "return nil"]

/-- the repaired store (reports/cb_fix_1.diff): the same two stages — base `Put` first, its error returns before any
dispatch; then every registered callback is handed the beacon — with a dispatch that never waits for a stream consumer -/
def callbackPutStepsRepaired : List Gen.BeaconNode.Step := [
  .guard "err:=c.Store.Put(ctx,b);err!=nil" [.exit "return err"],
  .branch "b.Round!=0" [.call "c.Lock()", .call "defer c.Unlock()", .loop "range c.callbacks" [.bind "j,ok:=c.newJob[id]", .guard "!ok" [.exit "continue"], .bind "job:=cbPair{cb:cb,b:b}", .guard "!c.workers[id].stream" [.call "j<-job", .exit "continue"], .select [.selectCase "j<-job" [], .selectCase "default" [.call "c.stopWorker(id,true)", .call "delete(c.callbacks,id)"]]]] [],
  .exit "return nil"]

/-! ### memdb start-up: `storeCurrentFromPeerNetwork` -/

/-- what goes into the still empty in-memory store, given the beacon the peers answered with: round 0 is replaced by the
genesis beacon of the group file, anything else is stored only if it verifies -/
def bootstrapPut (c : Crypto) (chained : Bool) (key : Nat) (seed : Bytes) (answer : Beacon) : Option Beacon :=
  if answer.round = 0 then some (genesis seed)
  else if !verifyBeacon c chained key answer then none
  else some answer

def bootstrapSteps : List Gen.BeaconNode.Step := [
  .bind "clkNow:=bp.opts.clock.Now().Unix()",
  .guard "bp.group==nil" [.exit "return nil"],
  .bind "targetRound:=common.CurrentRound(clkNow,bp.group.Period,bp.group.GenesisTime)",
  .guard "targetRound<2" [.exit "return nil"],
  .bind "peers:=bp.computePeers(bp.group.Nodes)",
  .bind "targetBeacon,err:=bp.loadBeaconFromPeers(ctx,targetRound,peers)",
  .branch "errors.Is(err,errNoRoundInPeers)" [.branch "targetRound>1" [.bind "targetBeacon,err=bp.loadBeaconFromPeers(ctx,0,peers)"] []] [],
  .guard "err!=nil" [.exit "return err"],
  .guard "targetBeacon.Round==0" [.bind "err=store.Put(ctx,chain.GenesisBeacon(bp.group.GenesisSeed))", .exit "return err"],
  .bind "err=bp.group.Scheme.VerifyBeacon(&targetBeacon,bp.group.PublicKey.Key())",
  .guard "err!=nil" [.exit "return err"],
  .bind "err=store.Put(ctx,&targetBeacon)",
  .branch "err!=nil" [] [],
  .exit "return err"]

/-! ### read side -/

inductive PubRes where
  | ok (b : Beacon) (randomness : Option Bytes)
  | err
  | waiting            -- callback registered; answered by `Node.notify` or dropped by `waiterTimeout`
  deriving Repr

/-- `BeaconProcess.PublicRand(round)`; with `proxy` it is `drandProxy.Get`, which adds the randomness -/
def publicRand (c : Crypto) (s : Node) (proxy : Bool) (wanted : Nat) : Node × PubRes :=
  let last := s.last
  if wanted = last.round + 1 then
    ({ s with waiters := s.waiters ++ [⟨proxy, wanted⟩] }, .waiting)
  else
    let r : Read := if wanted > 0 then Bolt.get s.stack.base wanted else .ok last
    match r with
    | .noBeacon => (s, .err)
    | .ok b =>
      let rnd := if proxy then some (c.rhash b.sig) else none
      ({ s with served := s.served ++ [⟨viaOfRand proxy, wanted, b, rnd⟩] }, .ok b rnd)

def publicRandSteps : List Gen.BeaconNode.Step := [
  .bind "var addr=net.RemoteAddress(ctx)",
  .call "bp.state.RLock()",
  .call "defer bp.state.RUnlock()",
  .guard "bp.beacon==nil||len(bp.chainHash)==0" [.exit "return nil,errors.New(\"drand: beacon generation not started yet\")"],
  .bind "beaconResp,err:=bp.beacon.Store().Last(ctx)",
  .branch "wanted:=in.GetRound();err==nil&&wanted==beaconResp.GetRound()+1" [.bind "cctx,cancel:=context.WithCancel(ctx)", .bind "waitlist:=make(chan *common.Beacon,1)", .bind "rnd:=make([]byte,sha256.Size)", .bind "_,err=rand.Read(rnd)", .branch "err!=nil" [.bind "_=copy(rnd,beaconResp.GetRandomness())"] [], .bind "cbID:=addr+hex.EncodeToString(rnd)", .bind "var mu sync.Mutex", .fn "fn" [.call "mu.Lock()", .call "defer mu.Unlock()", .guard "cctx.Err()!=nil" [.exit "return "], .call "bp.beacon.Store().RemoveCallback(cbID)", .branch "b.GetRound()==wanted" [.call "waitlist<-b"] [], .call "close(waitlist)", .call "cancel()"], .call "bp.beacon.Store().AddCallback(cbID,fn)", .select [.selectCase "<-ctx.Done()" [.call "bp.beacon.Store().RemoveCallback(cbID)", .exit "return nil,fmt.Errorf(\"ctx Done in PublicRand waiting for next beacon: %w\",ctx.Err())"], .selectCase "b,ok:=<-waitlist" [.branch "ok" [.bind "beaconResp,err=b,nil"] [.exit "return nil,fmt.Errorf(\"failed to wait for next beacon %d\",wanted)"]], .selectCase "<-time.After(bp.group.Period+time.Second)" [.call "cancel()", .call "bp.beacon.Store().RemoveCallback(cbID)", .exit "return nil,fmt.Errorf(\"waited too long for next beacon %d\",wanted)"]]] [.branch "wanted>0" [.bind "beaconResp,err=bp.beacon.Store().Get(ctx,wanted)"] []],
  .guard "err!=nil||beaconResp==nil" [.exit "return nil,fmt.Errorf(\"can't retrieve beacon %d: %w\",in.GetRound(),err)"],
  .bind "response:=beaconToProto(beaconResp)",
  .bind "response.Metadata=bp.newMetadata()",
  .exit "return response,nil"]

/-- the cursor part of `SyncChain(from)`: `Seek(from)` then `Next` to the end of the snapshot -/
def scanFrom (base : BoltState) (from_ : Nat) : List Beacon := (base.filter (fun e => from_ ≤ e.1)).map (·.2)

inductive ServeRes where
  | tooFar                        -- last.Round < fromRound: ErrNoBeaconStored
  | sent (bs : List Beacon)
  deriving Repr

/-- `SyncChain(req.from, stream)` (peer protocol) / `PublicRandStream` (via `proxyStream`): scan, then go live -/
def syncServe (c : Crypto) (s : Node) (pub : Bool) (from_ : Nat) : Node × ServeRes :=
  if s.last.round < from_ then (s, .tooFar) else
  let bs := if from_ ≠ 0 then scanFrom s.stack.base from_ else []
  ({ s with served := s.served ++ bs.map (fun b => streamItem c b (pub, from_)), streams := s.streams ++ [(pub, from_)] }, .sent bs)

/-! ### events -/

inductive Ev where
  | tick (next : Nat)                       -- the clock moves: `NextRound` now returns `next`
  | setInfo (g : GroupView)                 -- `vault.SetInfo` (reshare transition)
  | deliver (p : Partial)                   -- a peer calls ProcessPartialBeacon
  | own (cur : Nat)                         -- `broadcastNextPartial` at tick `cur`
  | aggPartial
  | aggStored
  | swapStored                              -- two concurrent Puts dispatched their callbacks in the other order
  | tryNode (upTo : Nat) (pkts : List SyncPkt)
  | publicRand (proxy : Bool) (wanted : Nat)
  | waiterTimeout
  | serve (pub : Bool) (from_ : Nat)
  | stopStreams

def Node.step (c : Crypto) (s : Node) : Ev → Node
  | .tick next => { s with nextRound := next }
  | .setInfo g => { s with group := g, seen := s.seen ++ [g] }
  | .deliver p => (processPartial c s p).1
  | .own cur => match ownPartial c s cur with
    | some p => { s with newPartials := s.newPartials ++ [p] }
    | none => s
  | .aggPartial => (aggPartial c s).1
  | .aggStored => aggStored s
  | .swapStored => match s.storedQ with
    | a :: b :: q => { s with storedQ := b :: a :: q }
    | _ => s
  | .tryNode upTo pkts => (tryNode c s upTo pkts).1
  | .publicRand proxy wanted => (publicRand c s proxy wanted).1
  | .waiterTimeout => { s with waiters := [] }
  | .serve pub from_ => (syncServe c s pub from_).1
  | .stopStreams => { s with streams := [] }

def Node.run (c : Crypto) (s : Node) (evs : List Ev) : Node := evs.foldl (Node.step c) s

end Drand.Beacon
