/-
Model of what a node does with a completed DKG (C07):
  internal/core/drand_beacon.go           `onDKGCompleted`, `transitionToNext`, `joinNetwork`, `leaveNetwork`, `storeDKGOutput`
  internal/core/drand_beacon_control.go   `validateGroupTransition`
  internal/chain/beacon/node.go           `TransitionNewGroup` (callback at the first stored round ≥ tRound−1), the admission
                                          checks of `ProcessPartialBeacon`
  crypto/vault/vault.go                   `NewVault`, `SetInfo`
  common/chain/info.go                    `NewChainInfo`, `Info.Hash` (preimage: Drand.Codec, C17)
Core Lean only. Crypto answers (`VerifyPartial`, `IndexOf`) are an oracle record.
-/
import Drand.DKG.Order

namespace Drand.Beacon.Transition
open Drand Drand.Codec Drand.DKG

abbrev G := Group Bytes

/-- `common.CompareBeaconIDs` on UTF-8 bytes -/
def compareBeaconIDs (a b : Bytes) : Bool := (isDefaultId a && isDefaultId b) || a == b

inductive VErr where
  | newNil | nilDeref | genesisTime | period | id | seed | past
  deriving DecidableEq, Repr

def VErr.name : VErr → String
  | .newNil => "new-nil" | .nilDeref => "panic" | .genesisTime => "genesis-time" | .period => "period"
  | .id => "id" | .seed => "seed" | .past => "past"

/-- `(*BeaconProcess).validateGroupTransition(oldGroup, newGroup)`, `now = bp.opts.clock.Now().Unix()`.
Same order of checks as the code. Scheme, threshold, members and public key are not looked at. -/
def validateGroupTransition (old new : Option G) (now : Int) : Except VErr Unit :=
  match old with
  | none => match new with
    | none => .error .newNil
    | some _ => .ok ()
  | some o => match new with
    | none => .error .nilDeref
    | some n =>
      if o.genesisTime != n.genesisTime then .error .genesisTime
      else if o.periodSec != n.periodSec then .error .period
      else if !(compareBeaconIDs o.id n.id) then .error .id
      else if o.genesisSeed != n.genesisSeed then .error .seed
      else if n.transitionTime < now then .error .past
      else .ok ()

/-- `chain.Info` -/
structure Info where
  params : ChainParams
  scheme : String
  deriving DecidableEq, Repr

/-- `chain.NewChainInfo(g)`; `PublicKey.Key()` is the first coefficient -/
def chainInfo (g : G) : Info :=
  { params := { periodSec := g.periodSec, genesis := g.genesisTime, pk := g.coeffs.headD [], seed := g.genesisSeed, id := g.id },
    scheme := g.scheme }

/-- preimage of `Info.Hash()` -/
def chainHashPre (g : G) : Bytes := chainPreimage (chainInfo g).params

/-! ### the vault -/

structure Vault where
  share : Nat            -- identifies the key share (the epoch it belongs to)
  shareIndex : Nat
  group : G
  pub : List Bytes       -- public polynomial
  chain : Info
  scheme : String
  deriving DecidableEq, Repr

/-- `vault.NewVault` -/
def newVault (g : G) (share shareIndex : Nat) : Vault :=
  { share, shareIndex, group := g, pub := g.coeffs, chain := chainInfo g, scheme := g.scheme }

/-- `(*Vault).SetInfo`: share, group, pub — "v.chain info is constant", "v.Scheme cannot change either" -/
def Vault.setInfo (v : Vault) (ng : G) (ks ksIndex : Nat) : Vault :=
  { v with share := ks, shareIndex := ksIndex, group := ng, pub := ng.coeffs }

/-! ### the handler around a transition -/

structure Pending where
  targetRound : Nat
  group : G
  share : Nat
  shareIndex : Nat
  deriving DecidableEq, Repr

structure Handler where
  periodSec : Nat        -- h.conf.Group.Period / GenesisTime: fixed when the handler is made
  genesis : Int
  vault : Vault
  pending : Option Pending := none   -- the registered "transition" callback
  queue : List Nat := []             -- rounds handed to the callback's worker that it has not run yet
  fatal : Bool := false
  deriving Repr

inductive Ev where
  | transitionNewGroup (ng : G) (share shareIndex : Nat)
  | stored (round : Nat)      -- callbackStore.Put of a beacon (after the base store accepted it)
  | worker                    -- the callback worker runs the next queued job
  deriving Repr

/-- `(*Handler).TransitionNewGroup` -/
def Handler.transitionNewGroup (h : Handler) (ng : G) (share shareIndex : Nat) : Handler :=
  let targetTime := ng.transitionTime
  let tRound := Time.currentRoundM targetTime h.periodSec h.genesis
  let tTime := Time.timeOfRoundM h.periodSec h.genesis tRound
  if tTime != targetTime then { h with fatal := true }
  else
    -- AddCallback("transition", …) replaces an existing callback of that id together with its job queue
    { h with pending := some ⟨(tRound + Time.two64 - 1) % Time.two64, ng, share, shareIndex⟩, queue := [] }

def Handler.step (h : Handler) : Ev → Handler
  | .transitionNewGroup ng s i => h.transitionNewGroup ng s i
  | .stored r =>
    -- round 0 is not dispatched; a job is queued only for a registered callback
    if r != 0 && h.pending.isSome then { h with queue := h.queue ++ [r] } else h
  | .worker =>
    match h.queue, h.pending with
    | r :: rest, some p =>
      if r < p.targetRound then { h with queue := rest }
      else { h with vault := h.vault.setInfo p.group p.share p.shareIndex, pending := none, queue := [] }
    | _, _ => h

def Handler.run (h : Handler) (evs : List Ev) : Handler := evs.foldl Handler.step h

/-! ### admission of partial signatures (the checks of `ProcessPartialBeacon`) -/

structure CryptoOracle where
  indexOf : Bytes → Option Nat                       -- `ThresholdScheme.IndexOf`
  verifyPartial : List Bytes → Bytes → Bytes → Bool  -- `VerifyPartial(pub, msg, sig)`

inductive Admit where
  | futureRound | pastIgnored | badIndex | notInGroup | ownAddress | invalidPartial | ownIndexIgnored | accepted
  deriving DecidableEq, Repr

def Admit.name : Admit → String
  | .futureRound => "refused:round" | .pastIgnored => "ignored:past" | .badIndex => "refused:index"
  | .notInGroup => "refused:not-in-group" | .ownAddress => "refused:own" | .invalidPartial => "refused:invalid-partial"
  | .ownIndexIgnored => "ignored:own-index" | .accepted => "accepted"

/-- `ProcessPartialBeacon`, in the order of the code; `msg` is `DigestBeacon(round, prev)` -/
def processPartial (v : Vault) (o : CryptoOracle) (selfAddr : String) (nextRound lastStored : Nat)
    (pRound : Nat) (msg sig : Bytes) : Admit :=
  if pRound > nextRound then .futureRound
  else if pRound ≤ lastStored then .pastIgnored
  else match o.indexOf sig with
    | none => .badIndex
    | some idx =>
      match v.group.nodes.find? (·.index == idx) with
      | none => .notInGroup
      | some node =>
        if node.addr == selfAddr then .ownAddress
        else if !(o.verifyPartial v.pub msg sig) then .invalidPartial
        else if idx == v.shareIndex then .ownIndexIgnored
        else .accepted

/-! ### the beacon process and the outcome of a DKG -/

structure BP where
  addr : String
  group : Option G := none           -- bp.group
  share : Option Nat := none         -- bp.share
  fileGroup : Option G := none       -- key store: group file
  fileShare : Option Nat := none     -- key store: share file
  handler : Option Handler := none
  stopAt : Option Int := none        -- leaveNetwork: StopAt(time)
  deriving Repr

/-- what the DKG process reports about one attempt -/
inductive Outcome where
  | completed (old : Option G) (new : G) (newShare newShareIndex : Nat)
  | failed | aborted | timedOut
  deriving Repr

inductive BPErr where
  | transition (e : VErr) | nilHandler | notInEither
  deriving DecidableEq, Repr

/-- `storeDKGOutput`: memory, then group file, then share file -/
def BP.storeDKGOutput (bp : BP) (g : G) (s : Nat) : BP :=
  { bp with group := some g, share := some s, fileGroup := some g, fileShare := some s }

def inGroup (g : G) (addr : String) : Bool := g.nodes.any (·.addr == addr)

/-- `onDKGCompleted` → `transitionToNext` / `leaveNetwork` / `joinNetwork`; returns the new state together with
the error the code returns (the state is returned in both cases: `transitionToNext` stores the output *before* it
finds the handler missing) -/
def BP.onDKGCompleted (bp : BP) (old : Option G) (new : G) (newShare newShareIndex : Nat) (now : Int) : BP × Option BPErr :=
  let wasIn := match old with | some o => inGroup o bp.addr | none => false
  let isIn := inGroup new bp.addr
  if wasIn then
    if isIn then
      -- transitionToNext
      match validateGroupTransition bp.group (some new) now with
      | .error e => (bp, some (.transition e))
      | .ok () =>
        let bp := bp.storeDKGOutput new newShare
        match bp.handler with
        | none => (bp, some .nilHandler)
        | some h => ({ bp with handler := some (h.transitionNewGroup new newShare newShareIndex) }, none)
    else
      -- leaveNetwork: stop at TransitionTime−1 of *bp.group* (the old group), then reset the key store
      ({ bp with stopAt := bp.group.map (·.transitionTime - 1), fileGroup := none, fileShare := none }, none)
  else if isIn then
    -- joinNetwork
    match (if bp.group.isSome then validateGroupTransition bp.group (some new) now else .ok ()) with
    | .error e => (bp, some (.transition e))
    | .ok () =>
      let bp := bp.storeDKGOutput new newShare
      ({ bp with handler := some { periodSec := new.periodSec, genesis := new.genesisTime,
                                   vault := newVault new newShare newShareIndex } }, none)
  else (bp, some .notInEither)

/-- the beacon process listens on `completedDKGs`; `executeAndFinishDKG` sends on it only after a successful
`SaveFinished` (the failure branch returns first — regenerated fact `Gen.execFinishOrder`) -/
def BP.onOutcome (bp : BP) (o : Outcome) (now : Int) : BP :=
  match o with
  | .completed old new s i => (bp.onDKGCompleted old new s i now).1
  | .failed | .aborted | .timedOut => bp

end Drand.Beacon.Transition
