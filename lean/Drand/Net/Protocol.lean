/-
Model of the beacon protocol loop at message level (C05).

  internal/chain/beacon/node.go        Handler.run (tick ⇒ broadcastNextPartial on head+1 or re-sign; gap ⇒ RunSync;
                                       AppendedBeaconNoSync ⇒ catch-up goroutine), Catchup, ProcessPartialBeacon
  internal/chain/beacon/chainstore.go  runAggregator (window, threshold, flush, tryAppend, shouldSync)
  internal/chain/beacon/sync_manager.go  Run admission ("already filled"), Sync/tryNode (pull from a peer that has more)
  internal/chain/beacon/ticker.go      one tick per period and node

`n` nodes, each `{up, head, clock, lastTick, held, pending, syncTo}`; a connectivity relation; a multiset of
partial-signature messages in flight.  The round arithmetic and every guard come from `Gen.NetRules`
(regenerated from the Go source on every check run), so the model follows the code's own comparisons.

Abstractions (stated, not proved): cryptography is ideal (an honest partial verifies, `Recover` succeeds on
≥ thr distinct valid partials: RecoverSpec); the aggregator's private `lastBeacon` equals the stored head (the
`beaconStoredAgg` notification is consumed before the next partial); goroutines are explicit events; the
`catchupBeacons` channel (capacity 1) is drained by the run loop before the next append; a sync that finds a
peer with more beacons follows it until its target is reached, one that finds none ends (ErrFailedAll); the
2-period sync-restart rule and gRPC are not modelled; timers are the events `advance`, `tick`, `fire`.
-/
import Gen.Consts
import Gen.NetRules

namespace Drand.Net

structure Node where
  /-- the Handler is running -/
  up : Bool := true
  /-- round of the last stored beacon -/
  head : Nat := 0
  /-- current round according to this node's clock -/
  clock : Nat := 0
  /-- `current.round` of `Handler.run` (0 before the first tick) -/
  lastTick : Nat := 0
  /-- the aggregator's partial cache: round → signer index → held -/
  held : Nat → Nat → Bool := fun _ _ => false
  /-- sleeping catch-up goroutines: the round each was launched on -/
  pending : List Nat := []
  /-- target of the running sync (0: none) -/
  syncTo : Nat := 0

/-- a partial signature of `src` on `round`, on its way to `dst` -/
structure Msg where
  src : Nat
  dst : Nat
  round : Nat
  deriving DecidableEq, Repr

structure State where
  n : Nat
  thr : Nat
  node : Nat → Node
  /-- `conn i j`: a call from i reaches j -/
  conn : Nat → Nat → Bool
  msgs : List Msg

/-- `roundCache.Len()`: number of distinct signer indices held for round `r` -/
def count (n : Nat) (held : Nat → Nat → Bool) (r : Nat) : Nat :=
  ((List.range n).filter (fun k => held r k)).length

/-- `partialCache.FlushRounds(r)`: forget every round ≤ r -/
def flush (held : Nat → Nat → Bool) (r : Nat) : Nat → Nat → Bool :=
  fun r' k => decide (r < r') && held r' k

/-- `cache.Append` of a partial of `src` on `r` (a second partial of the same signer changes nothing) -/
def addPartial (held : Nat → Nat → Bool) (r src : Nat) : Nat → Nat → Bool :=
  fun r' k => (decide (r' = r) && decide (k = src)) || held r' k

def Node.setHead (d : Node) (r : Nat) : Node := { d with head := r }
def Node.setTick (d : Node) (c : Nat) : Node := { d with lastTick := c }
def Node.setHeld (d : Node) (h : Nat → Nat → Bool) : Node := { d with held := h }
def Node.setPending (d : Node) (p : List Nat) : Node := { d with pending := p }
def Node.setSync (d : Node) (v : Nat) : Node := { d with syncTo := v }

/-- `appendStore.Put` seen from the protocol: only `head + 1` is ever accepted (C02) -/
def Node.put (d : Node) (r : Nat) : Node :=
  if r = d.head + 1 then d.setHead r else d

/-- a sync stream stores the peer's beacons one by one up to `target`; the aggregator is told
(`beaconStoredAgg`) and flushes its cache -/
def Node.appendTo (d : Node) (target : Nat) : Node :=
  let d' := (List.range' (d.head + 1) (target - d.head)).foldl Node.put d
  d'.setHeld (flush d'.held d'.head)

/-- `runAggregator` on one valid partial (own or received) -/
def Node.aggregate (n thr : Nat) (d : Node) (src r : Nat) : Node :=
  if !Gen.aggInWindow r d.head then d                                   -- ignoring_partial
  else
    let held := addPartial d.held r src                                 -- cache.Append
    if Gen.aggNotEnough (count n held r) thr then d.setHeld held
    else
      -- Recover + VerifyRecovered succeed (RecoverSpec); cache.FlushRounds(r) comes before tryAppend
      let d1 := d.setHeld (flush held r)
      if Gen.tryAppendRefuse d.head r then
        -- aggregated but not appendable
        if Gen.shouldSync d.head r then d1.setSync (max d.syncTo r) else d1
      else
        -- Put succeeds (C02), the beacon is offered to catchupBeacons; Handler.run launches the catch-up goroutine
        let d2 := d1.put r
        if Gen.catchupLaunch r d.lastTick then d2.setPending (d.pending ++ [r]) else d2

def State.setNode (s : State) (i : Nat) (d : Node) : State :=
  { s with node := fun k => if k = i then d else s.node k }

/-- the packets `broadcastNextPartial` sends: one per other group member -/
def others (n i r : Nat) : List Msg :=
  ((List.range n).filter (fun j => j != i)).map (fun j => ⟨i, j, r⟩)

/-- `broadcastNextPartial` after the round is fixed: own partial straight to the aggregator, one message per peer -/
def Node.broadcast (n thr i : Nat) (d : Node) (r : Nat) : Node × List Msg :=
  (d.aggregate n thr i r, others n i r)

/-- `Handler.run`, case tick, at node i: the new node state and the packets sent -/
def Node.tickStep (n thr i : Nat) (d : Node) : Node × List Msg :=
  if !d.up then (d, []) else
  let b := (d.setTick d.clock).broadcast n thr i (Gen.bnpRound d.clock d.head)
  if Gen.gapSync d.head d.clock then (b.1.setSync (max b.1.syncTo d.clock), b.2)      -- RunSync(current.round)
  else b

/-- the oldest sleeping catch-up goroutine wakes: `broadcastNextPartial(c, &latest)`, `latest.Round < c.round` -/
def Node.fireStep (n thr i : Nat) (d : Node) : Node × List Msg :=
  if !d.up then (d, []) else
  match d.pending with
  | [] => (d, [])
  | r :: rest => (d.setPending rest).broadcast n thr i (r + 1)

/-- `c` catch-up goroutines wake one after the other -/
def Node.fireSteps (n thr i : Nat) : Nat → Node → Node × List Msg
  | 0, d => (d, [])
  | c + 1, d => ((Node.fireSteps n thr i c (d.fireStep n thr i).1).1, (d.fireStep n thr i).2 ++ (Node.fireSteps n thr i c (d.fireStep n thr i).1).2)

/-- `ProcessPartialBeacon` (honest sender: index, group membership and signature checks pass); `reach`: the call arrives -/
def Node.recvStep (n thr : Nat) (reach : Bool) (d : Node) (m : Msg) : Node :=
  if !d.up then d
  else if !reach then d                                                  -- the call fails
  else if Gen.ppbFuture m.round (d.clock + 1) then d                     -- ignoring future partial
  else if Gen.ppbPast m.round d.head then d                              -- ignoring past partial
  else if m.src = m.dst then d                                           -- own address
  else d.aggregate n thr m.src m.round

/-- node i takes a step that depends on its own state only and may send packets -/
def State.act (s : State) (i : Nat) (F : Node → Node × List Msg) : State :=
  { s with node := fun k => if k = i then (F (s.node i)).1 else s.node k, msgs := s.msgs ++ (F (s.node i)).2 }

def State.tick (s : State) (i : Nat) : State := s.act i (Node.tickStep s.n s.thr i)

def State.fire (s : State) (i : Nat) : State := s.act i (Node.fireStep s.n s.thr i)

/-- every catch-up goroutine of node i that was sleeping at the start of the sub-round wakes -/
def State.fireNode (s : State) (i : Nat) : State :=
  s.act i (fun d => Node.fireSteps s.n s.thr i d.pending.length d)

def State.recv (s : State) (m : Msg) : State :=
  s.act m.dst (fun d => (d.recvStep s.n s.thr (s.conn m.src m.dst) m, []))

/-- fair delivery: every message in flight is handed to its destination (undeliverable ones are lost) -/
def State.deliverAll (s : State) : State :=
  s.msgs.foldl State.recv { s with msgs := [] }

/-- a sync stream needs the request to reach the peer and the beacons to come back -/
def State.peerOk (s : State) (i j : Nat) : Bool :=
  j != i && (s.node j).up && s.conn i j && s.conn j i

def State.maxPeerHead (s : State) (i : Nat) : Nat :=
  (List.range s.n).foldl (fun m j => if s.peerOk i j then max m (s.node j).head else m) 0

/-- `SyncManager`: the running request of node i pulls from a connected peer that has more -/
def State.pull (s : State) (i : Nat) : State :=
  if !(s.node i).up then s
  else if (s.node i).syncTo = 0 then s
  else if Gen.syncFilled (s.node i).syncTo (s.node i).head then s.setNode i ((s.node i).setSync 0)    -- request already filled
  else if s.maxPeerHead i ≤ (s.node i).head then s.setNode i ((s.node i).setSync 0)                  -- tried all nodes
  else
    s.setNode i (((s.node i).appendTo (min (s.node i).syncTo (s.maxPeerHead i))).setSync
      (if ((s.node i).appendTo (min (s.node i).syncTo (s.maxPeerHead i))).head < (s.node i).syncTo then (s.node i).syncTo else 0))

def State.stop (s : State) (i : Nat) : State :=
  s.setNode i { (s.node i) with up := false, held := fun _ _ => false, pending := [], syncTo := 0 }

/-- a new Handler on the same store, then `Catchup`: run from the next round, sync up to it -/
def State.restart (s : State) (i : Nat) : State :=
  if (s.node i).up then s
  else s.setNode i { (s.node i) with up := true, held := fun _ _ => false, pending := [], lastTick := 0,
                                     syncTo := (s.node i).clock + Gen.catchupSyncAhead }

/-- one period passes on every clock (lock-step) -/
def State.advance (s : State) : State :=
  { s with node := fun k => { (s.node k) with clock := (s.node k).clock + 1 } }

inductive Ev where
  | advance
  | tick (i : Nat)
  | fire (i : Nat)
  | deliver (k : Nat)
  | drop (k : Nat)
  | deliverAll
  | pull (i : Nat)
  | stop (i : Nat)
  | restart (i : Nat)
  | setConn (c : Nat → Nat → Bool)

def State.apply (s : State) : Ev → State
  | .advance => s.advance
  | .tick i => s.tick i
  | .fire i => s.fire i
  | .deliver k =>
    match s.msgs[k]? with
    | some m => ({ s with msgs := s.msgs.eraseIdx k }).recv m
    | none => s
  | .drop k => { s with msgs := s.msgs.eraseIdx k }
  | .deliverAll => s.deliverAll
  | .pull i => s.pull i
  | .stop i => s.stop i
  | .restart i => s.restart i
  | .setConn c => { s with conn := c }

def State.run (s : State) (evs : List Ev) : State := evs.foldl State.apply s

def State.init (n thr : Nat) : State :=
  { n := n, thr := thr, node := fun _ => {}, conn := fun _ _ => true, msgs := [] }

/-! ### fair sub-rounds -/

def State.forAll (s : State) (f : State → Nat → State) : State := (List.range s.n).foldl f s

/-- syncs pull, every message is delivered, syncs pull again (a follower receives what its peer just stored) -/
def State.settle (s : State) : State := ((s.forAll State.pull).deliverAll).forAll State.pull

/-- the fair sub-round that starts a period: every clock advances, every up node ticks once -/
def State.fairTick (s : State) : State := (s.advance.forAll State.tick).settle

/-- a fair catch-up sub-round (one CatchupPeriod later): the sleeping catch-up goroutines fire -/
def State.fairCatch (s : State) : State := (s.forAll State.fireNode).settle

def State.fairCatchN (s : State) : Nat → State
  | 0 => s
  | c + 1 => s.fairCatch.fairCatchN c

/-- a fair round: the tick sub-round followed by `extra` catch-up sub-rounds -/
def State.fairRound (s : State) (extra : Nat) : State := s.fairTick.fairCatchN extra

end Drand.Net
