/-
Message-level model of the beacon protocol ACROSS A RESHARING and with non-contiguous share indices (C03, C05, C07).
It is the model of Drand/Net/Protocol.lean with what that one abstracts away made explicit:

  common/key/group.go                  Group.Node: membership lookup BY INDEX VALUE (linear scan, equality on Index)
  crypto/vault/vault.go                the vault {group (members WITH their indices, threshold), share (its index, its epoch)};
                                       SetInfo switches all of it at once
  internal/chain/beacon/node.go        TransitionNewGroup: a callback registered at some time, which switches the vault at the
                                       first beacon stored AFTER the registration whose round is not below transition−1
                                       (skip condition and target round regenerated: Gen.transitionSkip / Gen.transitionTarget);
                                       broadcastNextPartial: recipients = the members of the node's CURRENT vault group;
                                       ProcessPartialBeacon: lookup of the signer's index in the CURRENT group, own address,
                                       VerifyPartial under the CURRENT public polynomial, own index
  internal/chain/beacon/chainstore.go  runAggregator: threshold = the CURRENT vault threshold, read at every iteration;
                                       Recover under the CURRENT polynomial (RecoverSpec: succeeds iff ≥ thr of the cached
                                       partials verify under it; the others are skipped)
  internal/core/drand_beacon.go        transitionToNext (group/share files first, then TransitionNewGroup), joinNetwork
                                       (files, then a new Handler + Catchup), leaveNetwork (StopAt)

A partial carries the signer's share index and the epoch (= polynomial) of the share that made it. Ideal cryptography:
a partial verifies under exactly the polynomial of its epoch (a share of the previous epoch is valid under the new polynomial
only by coincidence). The partial cache is keyed by (round, signer index) as partialCache/roundCache are: a second partial
with the same index is ignored whatever its epoch (variant `replace`, regenerated from `roundCache.append`: the newest
partial of an index replaces the cached one).

`cfg.lateSwitch` is the variant switch (DESIGN §2.5): false = the code as it is (Gen.transitionLateSwitch), true = the
repair of reports/trans_fix_1.diff (TransitionNewGroup switches at once when the head is already at the target).
Other abstractions as in Protocol.lean (the callback worker runs before the node's next timer event).
-/
import Gen.Consts
import Gen.NetRules
import Gen.ReshareRules

namespace Drand.Net.Reshare

structure Member where
  /-- which node (its address / identity) -/
  node : Nat
  /-- its share index in this group -/
  index : Nat
  deriving DecidableEq, Repr

structure Grp where
  members : List Member
  thr : Nat
  deriving DecidableEq, Repr

/-- `(*Group).Node(i)`: the first member for which the regenerated test holds (equality on the index), `none` after the loop -/
def Grp.node? (g : Grp) (i : Nat) : Option Member := g.members.find? (fun m => Gen.groupNodeMatch m.index i)

/-- what `vault.SetInfo` replaces in one step -/
structure Vault where
  grp : Grp
  /-- the polynomial the share and the public polynomial belong to -/
  epoch : Nat
  /-- `share.Share.I` -/
  index : Nat
  deriving DecidableEq, Repr

/-- the registered "transition" callback -/
structure Pend where
  target : Nat
  vault : Vault
  deriving DecidableEq, Repr

structure Node where
  up : Bool := false
  head : Nat := 0
  clock : Nat := 0
  lastTick : Nat := 0
  /-- the aggregator's partial cache: round → signer index → epoch of the partial held -/
  held : Nat → Nat → Option Nat := fun _ _ => none
  pending : List Nat := []
  syncTo : Nat := 0
  vault : Vault
  pend : Option Pend := none
  /-- group and share files: what a new Handler of this node is built with -/
  disk : Vault
  /-- the variant of `roundCache.append` this node runs (`Cfg.replaceSameIndex`, regenerated: Gen.replaceSameIndex):
  false = the first partial of an index is kept, true = the newest one replaces it -/
  replace : Bool := false

/-- a partial signature: sender (peer address), signer index inside the signature, epoch of the signing share -/
structure Msg where
  src : Nat
  idx : Nat
  epoch : Nat
  round : Nat
  dst : Nat
  deriving DecidableEq, Repr

structure Cfg where
  /-- `TransitionNewGroup` switches at once when the head is already at the target round -/
  lateSwitch : Bool
  /-- `roundCache.append` replaces the partial cached for a signer index by the newest one (reports/quiet_fix_2.diff) -/
  replaceSameIndex : Bool := false
  deriving DecidableEq, Repr

structure State where
  cfg : Cfg
  /-- node ids are `< n` -/
  n : Nat
  /-- share indices are `< nIdx` -/
  nIdx : Nat
  node : Nat → Node
  conn : Nat → Nat → Bool
  msgs : List Msg

/-- `roundCache.Len()`: distinct signer indices held for round `r` -/
def count (B : Nat) (held : Nat → Nat → Option Nat) (r : Nat) : Nat :=
  ((List.range B).filter (fun k => (held r k).isSome)).length

/-- how many of them verify under the polynomial of epoch `e` (what `Recover` can use) -/
def valid (B : Nat) (held : Nat → Nat → Option Nat) (r e : Nat) : Nat :=
  ((List.range B).filter (fun k => held r k == some e)).length

def flush (held : Nat → Nat → Option Nat) (r : Nat) : Nat → Nat → Option Nat :=
  fun r' k => if r < r' then held r' k else none

/-- `cache.Append`: the first partial of an index is kept, later ones are ignored -/
def addPartial (held : Nat → Nat → Option Nat) (r idx ep : Nat) : Nat → Nat → Option Nat :=
  fun r' k => if r' = r ∧ k = idx then (match held r k with | some x => some x | none => some ep) else held r' k

/-- `cache.Append`, variant "newest wins": the partial replaces what is cached for the index -/
def setPartial (held : Nat → Nat → Option Nat) (r idx ep : Nat) : Nat → Nat → Option Nat :=
  fun r' k => if r' = r ∧ k = idx then some ep else held r' k

def Node.setHead (d : Node) (r : Nat) : Node := { d with head := r }
def Node.setTick (d : Node) (c : Nat) : Node := { d with lastTick := c }
def Node.setHeld (d : Node) (h : Nat → Nat → Option Nat) : Node := { d with held := h }
def Node.setPending (d : Node) (p : List Nat) : Node := { d with pending := p }
def Node.setSync (d : Node) (v : Nat) : Node := { d with syncTo := v }

/-- the "transition" callback on a stored beacon of round `r` -/
def Node.onStored (d : Node) (r : Nat) : Node :=
  match d.pend with
  | none => d
  | some p => if Gen.transitionSkip r p.target then d else { d with vault := p.vault, pend := none }

/-- `appendStore.Put` (only head+1 is accepted, C02) followed by the callbacks -/
def Node.put (d : Node) (r : Nat) : Node :=
  if r = d.head + 1 then (d.setHead r).onStored r else d

def Node.appendTo (d : Node) (target : Nat) : Node :=
  let d' := (List.range' (d.head + 1) (target - d.head)).foldl Node.put d
  d'.setHeld (flush d'.held d'.head)

/-- `cache.Append` at this node, in the variant it runs -/
def Node.cacheAdd (d : Node) (r idx ep : Nat) : Nat → Nat → Option Nat :=
  if d.replace then setPartial d.held r idx ep else addPartial d.held r idx ep

/-- `runAggregator` on one admitted partial (own or received) -/
def Node.aggregate (B : Nat) (d : Node) (idx ep r : Nat) : Node :=
  if !Gen.aggInWindow r d.head then d
  else
    let thr := d.vault.grp.thr                                         -- read now, from the vault
    let held := d.cacheAdd r idx ep
    if Gen.aggNotEnough (count B held r) thr then d.setHeld held
    else if valid B held r d.vault.epoch < thr then d.setHeld held     -- Recover: not enough valid partials → break
    else
      let d1 := d.setHeld (flush held r)
      if Gen.tryAppendRefuse d.head r then
        if Gen.shouldSync d.head r then d1.setSync (max d.syncTo r) else d1
      else
        let d2 := d1.put r
        if Gen.catchupLaunch r d.lastTick then d2.setPending (d.pending ++ [r]) else d2

/-- the nodes `broadcastNextPartial` sends to: every member of the vault's group but the node itself -/
def Node.recipients (d : Node) (i : Nat) : List Nat :=
  (d.vault.grp.members.filter (fun m => m.node != i)).map (·.node)

def Node.broadcast (B i : Nat) (d : Node) (r : Nat) : Node × List Msg :=
  (d.aggregate B d.vault.index d.vault.epoch r,
   (d.recipients i).map (fun j => ⟨i, d.vault.index, d.vault.epoch, r, j⟩))

def Node.tickStep (B i : Nat) (d : Node) : Node × List Msg :=
  if !d.up then (d, []) else
  let b := (d.setTick d.clock).broadcast B i (Gen.bnpRound d.clock d.head)
  if Gen.gapSync d.head d.clock then (b.1.setSync (max b.1.syncTo d.clock), b.2) else b

def Node.fireStep (B i : Nat) (d : Node) : Node × List Msg :=
  if !d.up then (d, []) else
  match d.pending with
  | [] => (d, [])
  | r :: rest => (d.setPending rest).broadcast B i (r + 1)

def Node.fireSteps (B i : Nat) : Nat → Node → Node × List Msg
  | 0, d => (d, [])
  | c + 1, d => ((Node.fireSteps B i c (d.fireStep B i).1).1, (d.fireStep B i).2 ++ (Node.fireSteps B i c (d.fireStep B i).1).2)

inductive Admit where
  | future | past | notMember | ownAddress | invalid | ownIndex | admitted
  deriving DecidableEq, Repr

/-- the checks of `ProcessPartialBeacon` at node `self`, in the order of the code -/
def Node.admission (self : Nat) (d : Node) (m : Msg) : Admit :=
  if Gen.ppbFuture m.round (d.clock + 1) then .future
  else if Gen.ppbPast m.round d.head then .past
  else match d.vault.grp.node? m.idx with
    | none => .notMember                                     -- not in the group file
    | some mem =>
      if mem.node = self then .ownAddress
      else if m.epoch ≠ d.vault.epoch then .invalid          -- VerifyPartial under the current public polynomial
      else if m.idx = d.vault.index then .ownIndex           -- ignored
      else .admitted

/-- `ProcessPartialBeacon`; `reach`: the call arrives -/
def Node.recvStep (B self : Nat) (reach : Bool) (d : Node) (m : Msg) : Node :=
  if !d.up then d
  else if !reach then d
  else match d.admission self m with
    | .admitted => d.aggregate B m.idx m.epoch m.round
    | _ => d

def State.setNode (s : State) (i : Nat) (d : Node) : State :=
  { s with node := fun k => if k = i then d else s.node k }

def State.act (s : State) (i : Nat) (F : Node → Node × List Msg) : State :=
  { s with node := fun k => if k = i then (F (s.node i)).1 else s.node k, msgs := s.msgs ++ (F (s.node i)).2 }

def State.tick (s : State) (i : Nat) : State := s.act i (Node.tickStep s.nIdx i)
def State.fire (s : State) (i : Nat) : State := s.act i (Node.fireStep s.nIdx i)
def State.fireNode (s : State) (i : Nat) : State := s.act i (fun d => Node.fireSteps s.nIdx i d.pending.length d)
def State.recv (s : State) (m : Msg) : State :=
  s.act m.dst (fun d => (d.recvStep s.nIdx m.dst (s.conn m.src m.dst) m, []))
def State.deliverAll (s : State) : State := s.msgs.foldl State.recv { s with msgs := [] }

/-- a sync stream: the peers are the members of the node's current group -/
def State.peerOk (s : State) (i j : Nat) : Bool :=
  j != i && (s.node j).up && s.conn i j && s.conn j i

def State.maxPeerHead (s : State) (i : Nat) : Nat :=
  ((s.node i).recipients i).foldl (fun m j => if s.peerOk i j then max m (s.node j).head else m) 0

def State.pull (s : State) (i : Nat) : State :=
  if !(s.node i).up then s
  else if (s.node i).syncTo = 0 then s
  else if Gen.syncFilled (s.node i).syncTo (s.node i).head then s.setNode i ((s.node i).setSync 0)
  else if s.maxPeerHead i ≤ (s.node i).head then s.setNode i ((s.node i).setSync 0)
  else
    s.setNode i (((s.node i).appendTo (min (s.node i).syncTo (s.maxPeerHead i))).setSync
      (if ((s.node i).appendTo (min (s.node i).syncTo (s.maxPeerHead i))).head < (s.node i).syncTo then (s.node i).syncTo else 0))

def State.stop (s : State) (i : Nat) : State :=
  s.setNode i { (s.node i) with up := false, held := fun _ _ => none, pending := [], syncTo := 0 }

/-- a new Handler on the same store, built from the group and share files, then `Catchup` -/
def State.restart (s : State) (i : Nat) : State :=
  if (s.node i).up then s
  else s.setNode i { (s.node i) with up := true, held := fun _ _ => none, pending := [], lastTick := 0,
                                     vault := (s.node i).disk, pend := none,
                                     syncTo := (s.node i).clock + Gen.catchupSyncAhead }

/-- `transitionToNext` at a remaining node: files, then `TransitionNewGroup(newShare, newGroup)`; `tRound` is the
transition round of the new group -/
def Node.announce (c : Cfg) (d : Node) (v : Vault) (tRound : Nat) : Node :=
  let d1 := { d with disk := v }
  if !d.up then d1
  else
    let target := Gen.transitionTarget tRound
    if c.lateSwitch && decide (target ≤ d.head) then { d1 with vault := v, pend := none }
    else { d1 with pend := some ⟨target, v⟩ }

/-- `joinNetwork`: files, then a new Handler with the new group and share + `Catchup` -/
def State.join (s : State) (i : Nat) (v : Vault) : State :=
  if (s.node i).up then s
  else s.setNode i { (s.node i) with up := true, held := fun _ _ => none, pending := [], lastTick := 0,
                                     vault := v, disk := v, pend := none,
                                     syncTo := (s.node i).clock + Gen.catchupSyncAhead }

def State.advance (s : State) : State :=
  { s with node := fun k => { (s.node k) with clock := (s.node k).clock + 1 } }

inductive Ev where
  | advance
  | tick (i : Nat)
  | fire (i : Nat)
  | deliver (k : Nat)
  | drop (k : Nat)
  | deliverAll
  | pull (i : Nat)
  | stop (i : Nat)
  | restart (i : Nat)
  | setConn (c : Nat → Nat → Bool)
  /-- anybody may put any packet on the wire (a leaver that keeps signing, an adversary replaying old shares) -/
  | send (m : Msg)
  | announce (i : Nat) (v : Vault) (tRound : Nat)
  | join (i : Nat) (v : Vault)

def State.apply (s : State) : Ev → State
  | .advance => s.advance
  | .tick i => s.tick i
  | .fire i => s.fire i
  | .deliver k =>
    match s.msgs[k]? with
    | some m => ({ s with msgs := s.msgs.eraseIdx k }).recv m
    | none => s
  | .drop k => { s with msgs := s.msgs.eraseIdx k }
  | .deliverAll => s.deliverAll
  | .pull i => s.pull i
  | .stop i => s.stop i
  | .restart i => s.restart i
  | .setConn c => { s with conn := c }
  | .send m => { s with msgs := s.msgs ++ [m] }
  | .announce i v t => s.setNode i ((s.node i).announce s.cfg v t)
  | .join i v => s.join i v

def State.run (s : State) (evs : List Ev) : State := evs.foldl State.apply s

/-- `members` (node id, share index) form the first group with threshold `thr`; node ids `< n`, indices `< nIdx` -/
def State.init (cfg : Cfg) (n nIdx : Nat) (g : Grp) : State :=
  { cfg, n, nIdx,
    node := fun i =>
      match g.members.find? (fun m => m.node == i) with
      | some m => { up := true, vault := ⟨g, 0, m.index⟩, disk := ⟨g, 0, m.index⟩, replace := cfg.replaceSameIndex }
      | none => { up := false, vault := ⟨g, 0, 0⟩, disk := ⟨g, 0, 0⟩, replace := cfg.replaceSameIndex },
    conn := fun _ _ => true, msgs := [] }

/-! ### fair sub-rounds -/

def State.forAll (s : State) (f : State → Nat → State) : State := (List.range s.n).foldl f s
def State.settle (s : State) : State := ((s.forAll State.pull).deliverAll).forAll State.pull
def State.fairTick (s : State) : State := (s.advance.forAll State.tick).settle
def State.fairCatch (s : State) : State := (s.forAll State.fireNode).settle

end Drand.Net.Reshare
