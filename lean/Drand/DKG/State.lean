/-
Model of internal/dkg/state_machine.go (C08, C09): `DBState` and every method on it, mirrored in the Go
order of checks. `now` is an argument (the code calls `time.Now()`); times are unix seconds.
The transition table, proposal-phase set and terminal set are the regenerated `Gen.*`.
-/
import Drand.Basic
import Gen.DKGTable
import Gen.DKGAuth

namespace Drand.DKG
open Drand
export Gen (Status)

/-- `drand.Participant`; `selfSigOK` is the answer of the real verifier to
`key.IdentityFromProto(p, scheme)` + `ValidSignature()` under the scheme of the terms in play
(an oracle label: a function of addr/key/sig/scheme) -/
structure Participant where
  addr : String
  key : Bytes
  sig : Bytes
  selfSigOK : Bool := true
  keyOK : Bool := true          -- the key bytes decode to a point of the key group (oracle label)
  scheme : String := ""         -- the scheme the self-signature was made under (it signs the scheme name)
  deriving Repr, Inhabited

/-- `util.EqualParticipant` -/
def Participant.eq (a b : Participant) : Bool := a.addr == b.addr && a.key == b.key && a.sig == b.sig

/-- `util.Contains` -/
def contains (l : List Participant) (p : Participant) : Bool := l.any (·.eq p)
/-- `util.ContainsAll`: by address only -/
def containsAll (haystack needles : List Participant) : Bool :=
  needles.all fun n => haystack.any (·.addr == n.addr)
/-- `util.Without` -/
def without (l : List Participant) (p : Participant) : List Participant := l.filter (fun x => !(x.eq p))
/-- `util.Filter(_, util.NonEmpty)` -/
def nonEmpty (l : List Participant) : List Participant := l.filter (fun p => p.addr != "")

/-- what the state machine reads of `key.Group` -/
structure GroupLite where
  nodes : List Participant
  genesisTime : Int
  genesisSeed : Bytes
  tag : Nat := 0        -- identifies the group/epoch for the harness
  deriving Repr, Inhabited

/-- `drand.ProposalTerms` -/
structure Terms where
  beaconID : String
  epoch : Nat
  threshold : Nat
  timeout : Int
  schemeID : String
  genesisTime : Int
  genesisSeed : Bytes
  catchupSec : Nat
  periodSec : Nat
  leader : Participant
  joining : List Participant
  remaining : List Participant
  leaving : List Participant
  deriving Repr, Inhabited

structure DBState where
  beaconID : String
  epoch : Nat := 0
  state : Status := .fresh
  threshold : Nat := 0
  timeout : Int := 0
  schemeID : String := ""
  genesisTime : Int := 0
  genesisSeed : Bytes := []
  catchupSec : Nat := 0
  periodSec : Nat := 0
  leader : Option Participant := none
  remaining : List Participant := []
  joining : List Participant := []
  leaving : List Participant := []
  acceptors : List Participant := []
  rejectors : List Participant := []
  finalGroup : Option GroupLite := none
  keyShare : Option Nat := none
  deriving Repr, Inhabited

def newFreshState (beaconID : String) : DBState := { beaconID }

inductive Err where
  | invalidStateChange (src dst : Status)
  | timeoutReached | invalidBeaconID | invalidScheme | invalidKeyScheme
  | genesisTimeNotEqual | noGenesisSeedForFirstEpoch | genesisTimeNotConsistentWithProposal
  | genesisSeedCannotChange | schemeCannotChange | beaconPeriodCannotChange | selfMissingFromProposal | cannotJoinIfNotInJoining
  | joiningAfterFirstEpochNeedsGroupFile | invalidEpoch | leaderCantJoinAfterFirstEpoch
  | leaderNotRemaining | leaderNotJoining | onlyJoinersAllowedForFirstEpoch | noNodesRemaining
  | missingNodesInProposal | cannotProposeAsNonLeader | thresholdHigherThanNodeCount | nodeCountTooLow
  | thresholdTooLow | remainingAndLeavingNodesMustExistInCurrentEpoch
  | cannotAcceptProposalWhereLeaving | cannotAcceptProposalWhereJoining
  | cannotRejectProposalWhereLeaving | cannotRejectProposalWhereJoining | cannotLeaveIfNotALeaver
  | onlyLeaderCanTriggerExecute | onlyLeaderCanRemoteAbort | cannotExecuteIfNotJoinerOrRemainer
  | unknownAcceptor | duplicateAcceptance | invalidAcceptor | invalidRejector | unknownRejector
  | duplicateRejection | finalGroupCannotBeEmpty | keyShareCannotBeEmpty
  | receivedAcceptance | receivedRejection
  | panicNilFinalGroup        -- `currentState.FinalGroup.Nodes` with a nil FinalGroup (Go nil dereference)
  | noSuchParticipant | badSignature   -- verifyMessage
  | other (s : String)
  deriving Repr, DecidableEq

def Err.name : Err → String
  | .invalidStateChange a b => s!"InvalidStateChange:{a.name}->{b.name}"
  | .timeoutReached => "ErrTimeoutReached" | .invalidBeaconID => "ErrInvalidBeaconID"
  | .invalidScheme => "ErrInvalidScheme" | .invalidKeyScheme => "ErrInvalidKeyScheme"
  | .genesisTimeNotEqual => "ErrGenesisTimeNotEqual"
  | .noGenesisSeedForFirstEpoch => "ErrNoGenesisSeedForFirstEpoch"
  | .genesisTimeNotConsistentWithProposal => "ErrGenesisTimeNotConsistentWithProposal"
  | .genesisSeedCannotChange => "ErrGenesisSeedCannotChange"
  | .schemeCannotChange => "ErrSchemeCannotChange"
  | .beaconPeriodCannotChange => "ErrBeaconPeriodCannotChange"
  | .selfMissingFromProposal => "ErrSelfMissingFromProposal"
  | .cannotJoinIfNotInJoining => "ErrCannotJoinIfNotInJoining"
  | .joiningAfterFirstEpochNeedsGroupFile => "ErrJoiningAfterFirstEpochNeedsGroupFile"
  | .invalidEpoch => "ErrInvalidEpoch" | .leaderCantJoinAfterFirstEpoch => "ErrLeaderCantJoinAfterFirstEpoch"
  | .leaderNotRemaining => "ErrLeaderNotRemaining" | .leaderNotJoining => "ErrLeaderNotJoining"
  | .onlyJoinersAllowedForFirstEpoch => "ErrOnlyJoinersAllowedForFirstEpoch"
  | .noNodesRemaining => "ErrNoNodesRemaining" | .missingNodesInProposal => "ErrMissingNodesInProposal"
  | .cannotProposeAsNonLeader => "ErrCannotProposeAsNonLeader"
  | .thresholdHigherThanNodeCount => "ErrThresholdHigherThanNodeCount" | .nodeCountTooLow => "ErrNodeCountTooLow"
  | .thresholdTooLow => "ErrThresholdTooLow"
  | .remainingAndLeavingNodesMustExistInCurrentEpoch => "ErrRemainingAndLeavingNodesMustExistInCurrentEpoch"
  | .cannotAcceptProposalWhereLeaving => "ErrCannotAcceptProposalWhereLeaving"
  | .cannotAcceptProposalWhereJoining => "ErrCannotAcceptProposalWhereJoining"
  | .cannotRejectProposalWhereLeaving => "ErrCannotRejectProposalWhereLeaving"
  | .cannotRejectProposalWhereJoining => "ErrCannotRejectProposalWhereJoining"
  | .cannotLeaveIfNotALeaver => "ErrCannotLeaveIfNotALeaver"
  | .onlyLeaderCanTriggerExecute => "ErrOnlyLeaderCanTriggerExecute"
  | .onlyLeaderCanRemoteAbort => "ErrOnlyLeaderCanRemoteAbort"
  | .cannotExecuteIfNotJoinerOrRemainer => "ErrCannotExecuteIfNotJoinerOrRemainer"
  | .unknownAcceptor => "ErrUnknownAcceptor" | .duplicateAcceptance => "ErrDuplicateAcceptance"
  | .invalidAcceptor => "ErrInvalidAcceptor" | .invalidRejector => "ErrInvalidRejector"
  | .unknownRejector => "ErrUnknownRejector" | .duplicateRejection => "ErrDuplicateRejection"
  | .finalGroupCannotBeEmpty => "ErrFinalGroupCannotBeEmpty" | .keyShareCannotBeEmpty => "ErrKeyShareCannotBeEmpty"
  | .receivedAcceptance => "ErrReceivedAcceptance" | .receivedRejection => "ErrReceivedRejection"
  | .panicNilFinalGroup => "panic" | .noSuchParticipant => "no-such-participant"
  | .badSignature => "bad-signature" | .other s => s

abbrev R := Except Err DBState

def validChange (a b : Status) : Except Err Unit :=
  if Gen.isValidStateChange a b then .ok () else .error (.invalidStateChange a b)

/-- `hasTimedOut`: Timeout ≤ now -/
def hasTimedOut (d : DBState) (now : Int) : Bool := d.timeout ≤ now

def isProposalPhase (d : DBState) : Bool := Gen.proposalPhase.contains d.state

/-- `dkg.MinimumT` -/
def minimumT (n : Nat) : Nat := n / 2 + 1

/-! ### proposal validation -/

/-- length of an identity signature under a scheme (`Scheme.SigGroup.PointLen()`; kyber's point encodings — trusted, and
compared by the `dkgsm` driver with the length of every well-formed participant signature the harness makes) -/
def schemeSigLen (scheme : String) : Nat :=
  if scheme == "pedersen-bls-chained" || scheme == "pedersen-bls-unchained" then 96
  else if scheme == "bls-unchained-g1-rfc9380" || scheme == "bls-unchained-on-g1" then 48
  else if scheme == "bls-bn254-unchained-on-g1" then 64 else 0

/-- (variant: reports/dkg_fix_1.diff) every participant signature written into the signed message has the length of a
signature of the scheme -/
def sigLengthsOK (t : Terms) : Bool :=
  (t.joining ++ t.remaining ++ t.leaving ++ [t.leader]).all fun p => p.sig.length == schemeSigLen t.schemeID

def validateEpoch (cur : DBState) (t : Terms) : Except Err Unit :=
  if t.epoch < cur.epoch then .error .invalidEpoch
  else if t.epoch == cur.epoch && cur.state != .aborted && cur.state != .timedOut && cur.state != .failed then
    .error .invalidEpoch
  else if t.epoch > cur.epoch + 1 && (cur.state != .left && cur.state != .fresh) then .error .invalidEpoch
  else .ok ()

def validateForAllDKGsV (fixSigLen : Bool) (cur : DBState) (t : Terms) (now : Int) : Except Err Unit := do
  if cur.beaconID != t.beaconID then throw .invalidBeaconID
  if !(Gen.schemeIDs.contains t.schemeID) then throw .invalidScheme
  if !(t.joining.all (fun p => p.selfSigOK && p.scheme == t.schemeID)) then throw .invalidKeyScheme
  -- the code as it is has no such check (Gen.DKGAuth.validatesSignatureLengths = false): finding "list boundary inside a signature field"
  if fixSigLen && !(sigLengthsOK t) then throw .invalidKeyScheme
  if t.timeout < now then throw .timeoutReached
  let nodeCount := t.joining.length + t.remaining.length
  if t.threshold > nodeCount then throw .thresholdHigherThanNodeCount
  if t.threshold < minimumT nodeCount then throw .thresholdTooLow
  validateEpoch cur t

/-- `validateForAllDKGs` of the code as regenerated -/
def validateForAllDKGs (cur : DBState) (t : Terms) (now : Int) : Except Err Unit :=
  validateForAllDKGsV Gen.DKGAuth.validatesSignatureLengths cur t now

def validateFirstEpoch (t : Terms) : Except Err Unit := do
  if t.genesisSeed.length != 0 then throw .noGenesisSeedForFirstEpoch
  if !t.remaining.isEmpty || !t.leaving.isEmpty then throw .onlyJoinersAllowedForFirstEpoch
  if !(contains t.joining t.leader) then throw .leaderNotJoining
  if t.joining.length < t.threshold then throw .thresholdHigherThanNodeCount
  pure ()

def validateReshareTerms (cur : DBState) (t : Terms) : Except Err Unit := do
  if t.remaining.length == 0 then throw .noNodesRemaining
  if contains t.joining t.leader then throw .leaderCantJoinAfterFirstEpoch
  if contains t.leaving t.leader || !(contains t.remaining t.leader) then throw .leaderNotRemaining
  if t.remaining.length < cur.threshold then throw .nodeCountTooLow
  pure ()

def validateReshareForRemainers (cur : DBState) (t : Terms) : Except Err Unit := do
  if t.genesisTime != cur.genesisTime then throw .genesisTimeNotEqual
  if t.genesisSeed != cur.genesisSeed then throw .genesisSeedCannotChange
  if t.schemeID != cur.schemeID then throw .schemeCannotChange
  if t.periodSec != cur.periodSec then throw .beaconPeriodCannotChange
  match cur.finalGroup with
  | none => throw .panicNilFinalGroup
  | some g =>
    let last := g.nodes
    if !(containsAll last (t.remaining ++ t.leaving)) then throw .remainingAndLeavingNodesMustExistInCurrentEpoch
    if !(containsAll (t.remaining ++ t.leaving) last) then throw .missingNodesInProposal
    if t.remaining.length < cur.threshold then throw .nodeCountTooLow
    pure ()

/-- `ValidateProposal` -/
def validateProposal (cur : DBState) (t : Terms) (now : Int) : Except Err Unit := do
  validateForAllDKGs cur t now
  if t.epoch == 1 then validateFirstEpoch t
  else
    validateReshareTerms cur t
    -- nodes that are Fresh, or that Left and only hold leftover state, take a reshare proposal at face value
    if cur.state != .fresh && cur.state != .left then validateReshareForRemainers cur t else pure ()

def stateFromTerms (d : DBState) (t : Terms) (st : Status) (seed : Bytes) : DBState :=
  { beaconID := d.beaconID, epoch := t.epoch, state := st, threshold := t.threshold, timeout := t.timeout,
    schemeID := t.schemeID, catchupSec := t.catchupSec, periodSec := t.periodSec, genesisTime := t.genesisTime,
    genesisSeed := seed, leader := some t.leader, remaining := nonEmpty t.remaining, joining := nonEmpty t.joining,
    leaving := nonEmpty t.leaving }

/-! ### the methods of DBState -/

/-- `Proposing` (leader's own state). The Go code compares the leader *pointer* with `me`; the callers always
pass `me` itself, modelled as participant equality. -/
def DBState.proposing (d : DBState) (me : Participant) (t : Terms) (now : Int) : R := do
  validChange d.state .proposing
  if !(t.leader.eq me) then throw .cannotProposeAsNonLeader
  validateProposal d t now
  if d.state == .fresh && t.epoch > 1 then throw .invalidEpoch
  pure (stateFromTerms d t .proposing d.genesisSeed)

/-- `Proposed` (a proposal received from `sender`) -/
def DBState.proposed (d : DBState) (me : Participant) (t : Terms) (sender : String) (now : Int) : R := do
  validChange d.state .proposed
  if t.leader.addr != sender then throw .cannotProposeAsNonLeader
  validateProposal d t now
  if !(contains t.joining me) && !(contains t.remaining me) && !(contains t.leaving me) then
    throw .selfMissingFromProposal
  pure (stateFromTerms d t .proposed t.genesisSeed)

def validatePreviousGroupForJoiners (d : DBState) (prev : Option GroupLite) : Except Err Unit :=
  match prev with
  | none => if d.epoch == 1 then .ok () else .error .joiningAfterFirstEpochNeedsGroupFile
  | some g =>
    if g.genesisTime != d.genesisTime then .error .genesisTimeNotConsistentWithProposal
    else if g.genesisSeed != d.genesisSeed then .error .genesisSeedCannotChange
    else .ok ()

def DBState.joined (d : DBState) (me : Participant) (prev : Option GroupLite) (now : Int) : R := do
  validChange d.state .joined
  if hasTimedOut d now then throw .timeoutReached
  if !(contains d.joining me) then throw .cannotJoinIfNotInJoining
  validatePreviousGroupForJoiners d prev
  pure { d with state := .joined, finalGroup := prev }

def DBState.timedOut (d : DBState) : R := do
  validChange d.state .timedOut
  pure { d with state := .timedOut }

def DBState.startAbort (d : DBState) : R := do
  validChange d.state .aborted
  pure { d with state := .aborted }

def DBState.aborted (d : DBState) (sender : String) : R := do
  validChange d.state .aborted
  if (d.leader.map (·.addr)).getD "" != sender then throw .onlyLeaderCanRemoteAbort
  pure { d with state := .aborted }

def DBState.accepted (d : DBState) (me : Participant) (now : Int) : R := do
  validChange d.state .accepted
  if hasTimedOut d now then throw .timeoutReached
  if contains d.leaving me then throw .cannotAcceptProposalWhereLeaving
  if contains d.joining me then throw .cannotAcceptProposalWhereJoining
  pure { d with acceptors := d.acceptors ++ [me], rejectors := without d.rejectors me, state := .accepted }

def DBState.rejected (d : DBState) (me : Participant) (now : Int) : R := do
  validChange d.state .rejected
  if hasTimedOut d now then throw .timeoutReached
  if contains d.joining me then throw .cannotRejectProposalWhereJoining
  if contains d.leaving me then throw .cannotRejectProposalWhereLeaving
  pure { d with rejectors := d.rejectors ++ [me], acceptors := without d.acceptors me, state := .rejected }

def DBState.left (d : DBState) (me : Participant) (now : Int) : R := do
  validChange d.state .left
  if hasTimedOut d now then throw .timeoutReached
  if !(contains d.leaving me) && !(contains d.joining me) then throw .cannotLeaveIfNotALeaver
  pure { d with state := .left }

def DBState.startExecuting (d : DBState) (me : Participant) (now : Int) : R := do
  if hasTimedOut d now then throw .timeoutReached
  if contains d.leaving me then d.left me now
  else
    validChange d.state .executing
    if !((d.leader.map (·.eq me)).getD false) then throw .onlyLeaderCanTriggerExecute
    pure { d with state := .executing }

def DBState.executing (d : DBState) (me : Participant) (sender : String) (now : Int) : R := do
  if hasTimedOut d now then throw .timeoutReached
  if contains d.leaving me && Gen.isValidStateChange d.state .left then
    -- only the leader's execute packet may send a leaver off
    if sender != (d.leader.map (·.addr)).getD "" then throw .onlyLeaderCanTriggerExecute
    d.left me now
  else
    validChange d.state .executing
    if !(contains d.remaining me) && !(contains d.joining me) then throw .cannotExecuteIfNotJoinerOrRemainer
    if sender != (d.leader.map (·.addr)).getD "" then throw .onlyLeaderCanTriggerExecute
    pure { d with state := .executing }

def DBState.complete (d : DBState) (g : Option GroupLite) (share : Option Nat) (now : Int) : R := do
  validChange d.state .complete
  if hasTimedOut d now then throw .timeoutReached
  match g, share with
  | none, _ => throw .finalGroupCannotBeEmpty
  | some _, none => throw .keyShareCannotBeEmpty
  | some gg, some sh =>
    pure { d with state := .complete, finalGroup := some gg, keyShare := some sh, genesisSeed := gg.genesisSeed }

def DBState.receivedAcceptance (d : DBState) (them : Participant) (sender : String) : R := do
  if !(isProposalPhase d) then throw .receivedAcceptance
  if !(contains d.remaining them) then throw .unknownAcceptor
  if contains d.acceptors them then throw .duplicateAcceptance
  if sender != them.addr then throw .invalidAcceptor
  pure { d with acceptors := d.acceptors ++ [them], rejectors := without d.rejectors them }

def DBState.receivedRejection (d : DBState) (them : Participant) (sender : String) : R := do
  if !(isProposalPhase d) then throw .receivedRejection
  if !(contains d.remaining them) then throw .unknownRejector
  if contains d.rejectors them then throw .duplicateRejection
  if sender != them.addr then throw .invalidRejector
  pure { d with acceptors := without d.acceptors them, rejectors := d.rejectors ++ [them] }

def DBState.failed (d : DBState) : R := do
  validChange d.state .failed
  pure { d with state := .failed }

/-- `termsFromState` -/
def termsFromState (s : DBState) : Terms :=
  { beaconID := s.beaconID, threshold := s.threshold, epoch := s.epoch, schemeID := s.schemeID,
    periodSec := s.periodSec, catchupSec := s.catchupSec, genesisTime := s.genesisTime,
    genesisSeed := s.genesisSeed, timeout := s.timeout, leader := s.leader.getD default,
    joining := s.joining, remaining := s.remaining, leaving := s.leaving }

end Drand.DKG
