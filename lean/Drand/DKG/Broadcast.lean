/-
Model of the echo broadcast of the DKG (internal/dkg/broadcast.go), C06.

One `Node` per participant = one `echoBroadcast`: the set of hashes already seen, its `dispatcher` (one relay worker per
other participant: a bounded queue `newCh`, the packet the worker goroutine took from the queue and is sending, and
whether the goroutine is still running), the in-flight `go broadcastDirect` sends of its own bundles, the three
bounded application channels, the `isStopped` flag and whether the context of the request that created the
broadcaster has ended.  `Net` is k such nodes; the links between them are events: a send of a worker (or of a direct
broadcast) is carried out by an event that says whether the link delivered it (`ok`) or the client call returned an
error (`cut`) — nothing is ever re-sent.

A packet is abstracted to the labels the code branches on: the hash of the bundle (`Packet.Hash()`: it does NOT cover the
signature), whether it decodes (`protoToDKGPacket`), whether its dealer / share index is known to the DKG config and
whether the signature verifies (`dkg.VerifyPacketSignature` = index lookup, then `Auth.Verify`).

The two switches of `Cfg` are regenerated facts (Gen.Bcast): in which order `BroadcastDKG` records and verifies, and
whether the relay workers leave when the request context ends.
-/
import Drand.Basic
import Gen.Broadcast

namespace Drand.DKG.Bcast

inductive Kind where
  | deal | resp | just
  deriving DecidableEq, Repr, Inhabited

structure Pkt where
  hash : Nat
  kind : Kind := .deal
  decodes : Bool := true        -- protoToDKGPacket succeeds
  idxKnown : Bool := true       -- the dealer / share index is one of the config's nodes
  sigValid : Bool := true       -- Auth.Verify(pub of that index, hash, signature)
  deriving DecidableEq, Repr, Inhabited

/-- `dkg.VerifyPacketSignature(&config, packet) == nil` -/
def Pkt.verifies (p : Pkt) : Bool := p.idxKnown && p.sigValid

structure Cfg where
  n : Nat                              -- len(to): participants, the node itself included
  putBeforeVerify : Bool := false      -- BroadcastDKG writes the seen-set before verifying the signature
  workersFollowCtx : Bool := false     -- sender.run leaves when the context it was started with is done
  deriving Repr, DecidableEq

/-- the code as regenerated -/
def Cfg.asIs (n : Nat) : Cfg :=
  { n, putBeforeVerify := Gen.Bcast.seenPutBeforeVerify,
    workersFollowCtx := Gen.Bcast.workerCtxIsRequest && Gen.Bcast.senderRunStopsOnCtxDone }

/-- `senderQueueSize(len(to))`: capacity of every relay queue -/
def Cfg.qcap (c : Cfg) : Nat := Gen.Bcast.senderQueueSize c.n
/-- `make(chan …, len(to))`: capacity of each application channel -/
def Cfg.appCap (c : Cfg) : Nat := c.n

/-- `sender` + its goroutine `sender.run` -/
structure Worker where
  queue : List Pkt := []            -- newCh (buffered)
  inflight : Option Pkt := none     -- taken from newCh, inside `s.client.BroadcastDKG`
  alive : Bool := true              -- the goroutine has not returned
  deriving Repr, DecidableEq, Inhabited

structure Node where
  id : Nat
  seen : List Nat := []                       -- arraySet
  workers : Nat → Worker := fun _ => {}       -- dispatcher.senders, by destination
  direct : List (Nat × Pkt) := []             -- sends of `go dispatcher.broadcastDirect` not yet carried out
  deals : List Pkt := []
  resps : List Pkt := []
  justs : List Pkt := []
  stopped : Bool := false
  ctxEnded : Bool := false
  /-- ghost: every bundle handed to an application channel, in order; `true` = by the node's own Push -/
  appLog : List (Pkt × Bool) := []
  /-- ghost: hashes of the bundles passToApplication dropped because the application channel was full -/
  appFull : List Nat := []

/-- the destinations of a node's dispatcher: every participant but itself -/
def Cfg.isPeer (c : Cfg) (me d : Nat) : Bool := decide (d < c.n) && d != me
def Cfg.peers (c : Cfg) (me : Nat) : List Nat := (List.range c.n).filter (c.isPeer me)

def Node.chan (n : Node) : Kind → List Pkt
  | .deal => n.deals | .resp => n.resps | .just => n.justs
def Node.setChan (n : Node) (k : Kind) (l : List Pkt) : Node :=
  match k with
  | .deal => { n with deals := l } | .resp => { n with resps := l } | .just => { n with justs := l }

/-- `arraySet.put` -/
def put (seen : List Nat) (h : Nat) : List Nat := if seen.contains h then seen else seen ++ [h]

/-- `sender.sendPacket`: `select { case s.newCh <- p: default: }`. An idle running worker is blocked receiving, so the
packet goes straight to it; otherwise it is buffered if there is room, otherwise dropped. Returns `false` when dropped. -/
def Worker.offer (w : Worker) (qcap : Nat) (p : Pkt) : Worker × Bool :=
  if w.alive && w.inflight.isNone && w.queue.isEmpty then ({ w with inflight := some p }, true)
  else if w.queue.length < qcap then ({ w with queue := w.queue ++ [p] }, true)
  else (w, false)

/-- the worker's send has returned: next turn of the loop of `sender.run` -/
def Worker.next (w : Worker) (leave closed : Bool) : Worker :=
  if leave then { w with inflight := none, alive := false }        -- (variant) `case <-ctx.Done(): return`
  else match w.queue with
    | p :: rest => { w with inflight := some p, queue := rest }
    | [] => { w with inflight := none, alive := !closed }          -- `range` over a closed, drained channel ends

/-- `dispatcher.broadcast`: sendPacket to every sender; second component: the destinations whose queue was full -/
def Node.enqueueAll (c : Cfg) (n : Node) (p : Pkt) : Node × List Nat :=
  ({ n with workers := fun d => if c.isPeer n.id d then ((n.workers d).offer c.qcap p).1 else n.workers d },
   (c.peers n.id).filter fun d => !((n.workers d).offer c.qcap p).2)

/-- `echoBroadcast.sendout` -/
def Node.sendout (c : Cfg) (n : Node) (p : Pkt) (bypass : Bool) : Node × List Nat :=
  if n.stopped then (n, [])                                        -- if b.isStopped { return }
  else
    let n1 := { n with seen := put n.seen p.hash }                 -- b.hashes.put(h)
    if bypass then ({ n1 with direct := n1.direct ++ (c.peers n.id).map (fun d => (d, p)) }, [])   -- go b.dispatcher.broadcastDirect
    else n1.enqueueAll c p                                         -- b.dispatcher.broadcast

/-- `echoBroadcast.passToApplication`: non-blocking send; `false` = the channel was full -/
def Node.pass (c : Cfg) (n : Node) (p : Pkt) : Node × Bool :=
  if (n.chan p.kind).length < c.appCap then
    ({ n.setChan p.kind (n.chan p.kind ++ [p]) with appLog := n.appLog ++ [(p, false)] }, true)
  else ({ n with appFull := n.appFull ++ [p.hash] }, false)

inductive RecvOut where
  | badPacket                        -- protoToDKGPacket failed: error
  | dup                              -- hash already seen: nil
  | badSig                           -- VerifyPacketSignature failed: error
  | ok (handed : Bool) (full : List Nat)
  deriving Repr, DecidableEq

/-- `echoBroadcast.BroadcastDKG` -/
def Node.recv (c : Cfg) (n : Node) (p : Pkt) : Node × RecvOut :=
  if !p.decodes then (n, .badPacket)
  else if n.seen.contains p.hash then (n, .dup)
  else
    let n0 := if c.putBeforeVerify then { n with seen := n.seen ++ [p.hash] } else n
    if !p.verifies then (n0, .badSig)
    else
      let r1 := n0.sendout c p false
      let r2 := r1.1.pass c p
      (r2.1, .ok r2.2 r1.2)

/-- `PushDeals` / `PushResponses` / `PushJustifications`: a blocking send to the own application channel, then sendout
with bypass. `none`: the channel is full, the call does not return (the event does not happen). -/
def Node.push (c : Cfg) (n : Node) (p : Pkt) : Option Node :=
  if (n.chan p.kind).length < c.appCap then
    let n1 := { n.setChan p.kind (n.chan p.kind ++ [p]) with appLog := n.appLog ++ [(p, true)] }
    some (n1.sendout c p true).1
  else none

/-- `echoBroadcast.Stop`: isStopped, then close every queue; a worker waiting on an empty queue returns -/
def Node.stop (n : Node) : Node :=
  { n with stopped := true,
           workers := fun d => let w := n.workers d
                               if w.inflight.isNone && w.queue.isEmpty then { w with alive := false } else w }

/-- the context of the request that created the broadcaster ends -/
def Node.ctxEnd (c : Cfg) (n : Node) : Node :=
  { n with ctxEnded := true,
           workers := fun d => let w := n.workers d
                               if c.workersFollowCtx && w.inflight.isNone then { w with alive := false } else w }

/-- the application reads one bundle -/
def Node.take (n : Node) (k : Kind) : Node × Option Pkt :=
  match n.chan k with
  | [] => (n, none)
  | p :: rest => (n.setChan k rest, some p)

/-! ### k nodes and the links between them -/

inductive Loss where
  | queueFull      -- the relay queue for that destination was full
  | linkDown       -- the client call returned an error
  | destStopped    -- the destination was stopped: it does not record the hash
  | destRefused    -- the destination answered with an error (does not decode / does not verify)
  deriving Repr, DecidableEq

structure Net where
  nodes : Nat → Node
  /-- ghost: transmissions that did not make the destination record the hash: (from, to, hash, why) -/
  lost : List (Nat × Nat × Nat × Loss) := []

def Net.init : Net := { nodes := fun i => { id := i } }

def Net.setNode (s : Net) (i : Nat) (n : Node) : Net := { s with nodes := fun j => if j = i then n else s.nodes j }

inductive Out where
  | ok | err | dup | blocked | idle | cut | none
  | took (p : Pkt)
  | delivered (o : RecvOut)
  deriving Repr, DecidableEq

/-- node `d` is called with `p` by `src` (a participant's worker, or anybody else: `src ≥ n`) -/
def Net.deliver (c : Cfg) (s : Net) (src d : Nat) (p : Pkt) : Net × RecvOut :=
  let nd := s.nodes d
  let (nd', out) := nd.recv c p
  let s1 := s.setNode d nd'
  match out with
  | .badPacket | .badSig => ({ s1 with lost := s1.lost ++ [(src, d, p.hash, .destRefused)] }, out)
  | .dup => (s1, out)
  | .ok _ full =>
    ({ s1 with lost := s1.lost ++ (if nd.stopped then [(src, d, p.hash, Loss.destStopped)] else []) ++
                        full.map (fun x => (d, x, p.hash, Loss.queueFull)) }, out)

inductive Ev where
  | push (i : Nat) (p : Pkt)                       -- the DKG protocol of node i pushes its own bundle
  | inject (j : Nat) (p : Pkt)                     -- somebody who is not one of the modelled workers calls BroadcastDKG on j
  | relay (i d : Nat) (ok : Bool)                  -- the send of worker i→d returns: delivered, or the link failed
  | direct (i d : Nat) (h : Nat) (ok : Bool)       -- the direct send of i's own bundle h to d is carried out
  | ctxEnd (i : Nat)
  | stop (i : Nat)
  | take (i : Nat) (k : Kind)
  deriving Repr, DecidableEq

def removeFirst (l : List (Nat × Pkt)) (d h : Nat) : Option (Pkt × List (Nat × Pkt)) :=
  match l with
  | [] => none
  | (d', p) :: rest =>
    if d' = d ∧ p.hash = h then some (p, rest)
    else (removeFirst rest d h).map fun r => (r.1, (d', p) :: r.2)

/-- the send of worker i→d has returned: the worker takes the next packet of its queue (or leaves) -/
def Net.advance (c : Cfg) (s : Net) (i d : Nat) : Net :=
  let ni := s.nodes i
  s.setNode i { ni with workers := fun x =>
    if x = d then (ni.workers d).next (c.workersFollowCtx && ni.ctxEnded) ni.stopped else ni.workers x }

def Net.step (c : Cfg) (s : Net) : Ev → Net × Out
  | .push i p =>
    match (s.nodes i).push c p with
    | none => (s, .blocked)
    | some n' => (s.setNode i n', .ok)
  | .inject j p => ((s.deliver c c.n j p).1, .delivered (s.deliver c c.n j p).2)
  | .relay i d ok =>
    match ((s.nodes i).workers d).inflight with
    | none => (s, .idle)
    | some p =>
      -- the call returns, the worker turns to its queue again
      let s1 := s.advance c i d
      if ok then ((s1.deliver c i d p).1, .delivered (s1.deliver c i d p).2)
      else ({ s1 with lost := s1.lost ++ [(i, d, p.hash, .linkDown)] }, .cut)
  | .direct i d h ok =>
    match removeFirst (s.nodes i).direct d h with
    | none => (s, .idle)
    | some (p, rest) =>
      let s1 := s.setNode i { s.nodes i with direct := rest }
      if ok then ((s1.deliver c i d p).1, .delivered (s1.deliver c i d p).2)
      else ({ s1 with lost := s1.lost ++ [(i, d, p.hash, .linkDown)] }, .cut)
  | .ctxEnd i => (s.setNode i ((s.nodes i).ctxEnd c), .ok)
  | .stop i => (s.setNode i (s.nodes i).stop, .ok)
  | .take i k =>
    (s.setNode i ((s.nodes i).take k).1, match ((s.nodes i).take k).2 with | some p => .took p | none => .none)

def Net.run (c : Cfg) (s : Net) (evs : List Ev) : Net := evs.foldl (fun q e => (q.step c e).1) s

end Drand.DKG.Bcast
