/-
Model of the group assembly at the end of a DKG (C06):
  internal/util/participant_utils.go  `SortedByPublicKey`, `ToNode`, `ToKeyNode`
  internal/dkg/execution.go           `setupDKG` (index assignment), the tail of `startDKGExecution`
                                      (transition time, QUAL → nodes) and `asGroup`.
Core Lean only. The hash is abstract (`H`); the group-hash preimage is the C17 model (`Drand.Codec`).
-/
import Drand.Basic
import Drand.Time
import Drand.Codec.Hash
import Drand.DKG.State
import Gen.Consts
import Gen.DKGTable
import Gen.DKGRun

namespace Drand.DKG
open Drand Drand.Codec

/-- Go's `string(a) < string(b)` on raw key bytes: lexicographic on unsigned bytes, a proper prefix is smaller. -/
def keyLt : Bytes → Bytes → Bool
  | [], [] => false
  | [], _ :: _ => true
  | _ :: _, [] => false
  | a :: as, b :: bs => a < b || (a == b && keyLt as bs)

/-- insertion into a list sorted by key (with pairwise distinct keys the result of `sort.Slice` does not
depend on the sorting algorithm: DrandProofs/C06 `c06_order_independent`) -/
def insertPart (p : Participant) : List Participant → List Participant
  | [] => [p]
  | x :: t => if keyLt p.key x.key then p :: x :: t else x :: insertPart p t

/-- `util.SortedByPublicKey` -/
def sortedByPublicKey : List Participant → List Participant
  | [] => []
  | x :: t => insertPart x (sortedByPublicKey t)

/-- `dkg.Node` as built by `util.ToNode(index, participant, sch)` inside `TryMapEach`: the index is the position
in the sorted list -/
structure DkgNode where
  index : Nat
  key : Bytes
  deriving DecidableEq, Repr

def enumFrom {α : Type} : Nat → List α → List (Nat × α)
  | _, [] => []
  | n, x :: t => (n, x) :: enumFrom (n + 1) t

/-- `config.NewNodes` of `initialDKGConfig` / `reshareDKGConfig`; `none` when a key does not decode
(`ErrInvalidKeyScheme`) -/
def newNodes (remaining joining : List Participant) : Option (List DkgNode) :=
  let sorted := sortedByPublicKey (remaining ++ joining)
  if sorted.all (·.keyOK) then some ((enumFrom 0 sorted).map fun (i, p) => ⟨i, p.key⟩) else none

/-- the DKG index a participant gets: its rank among all keys -/
def indexOfKey (remaining joining : List Participant) (k : Bytes) : Option Nat :=
  ((enumFrom 0 (sortedByPublicKey (remaining ++ joining))).find? (fun (_, p) => p.key == k)).map (·.1)

/-! ### asGroup -/

/-- the fields of `DBState` that `asGroup` reads -/
structure Details where
  beaconID : Bytes
  threshold : Nat
  periodSec : Nat
  schemeID : String
  catchupSec : Nat
  genesisTime : Int
  genesisSeed : Bytes
  remaining : List Participant
  joining : List Participant
  deriving Repr

def Details.ofState (d : DBState) : Details :=
  { beaconID := d.beaconID.toUTF8.toList, threshold := d.threshold, periodSec := d.periodSec, schemeID := d.schemeID,
    catchupSec := d.catchupSec, genesisTime := d.genesisTime, genesisSeed := d.genesisSeed,
    remaining := d.remaining, joining := d.joining }

/-- `key.Node` as built by `util.ToKeyNode` -/
structure GNode where
  index : Nat
  addr : String
  key : Bytes
  sig : Bytes
  deriving DecidableEq, Repr

/-- the genesis seed of a group: given by the terms, or (epoch 1) the hash of the group itself -/
inductive Seed where
  | given (b : Bytes)
  | hashOf (p : GroupParams)
  deriving DecidableEq, Repr

/-- `key.Group` (the ten fields of the property statement) -/
structure Group (σ : Type) where
  id : Bytes
  threshold : Nat
  periodSec : Nat
  scheme : String
  catchupSec : Nat
  genesisTime : Int
  genesisSeed : σ
  transitionTime : Int
  nodes : List GNode
  coeffs : List Bytes          -- `PublicKey.Coefficients`, marshalled
  deriving DecidableEq, Repr

/-- which expression of `asGroup` fills which field of the model's `Group` (same order as the Go literal);
tied to the regenerated `Gen.asGroupFields` in DrandProofs/C06 -/
def asGroupFieldMap : List (String × String) := [
  ("ID", "details.BeaconID"),                      -- id
  ("Threshold", "int(details.Threshold)"),         -- threshold
  ("Period", "details.BeaconPeriod"),              -- periodSec
  ("Scheme", "sch"),                               -- scheme        (sch = GetSchemeByID(details.SchemeID))
  ("CatchupPeriod", "details.CatchupPeriod"),      -- catchupSec
  ("GenesisTime", "details.GenesisTime.Unix()"),   -- genesisTime
  ("GenesisSeed", "details.GenesisSeed"),          -- genesisSeed   (then the epoch-1 rule)
  ("TransitionTime", "transitionTime"),            -- transitionTime
  ("Nodes", "remainingNodes"),                     -- nodes         (ToKeyNode of sorted[v.Index] for v in finalNodes)
  ("PublicKey", "keyShare.Public()")]              -- coeffs

/-- `crypto.GetSchemeByID`: "" is the default scheme -/
def schemeByID (id : String) : Option String :=
  let id' := if id = "" then Gen.defaultSchemeID else id
  if Gen.schemeIDs.contains id' then some id' else none

/-- the loop `for i, v := range finalNodes { util.ToKeyNode(int(v.Index), allSortedParticipants[v.Index], …) }` -/
def keyNodes (all : List Participant) : List Nat → Except String (List GNode)
  | [] => .ok []
  | i :: t =>
    match all[i]? with
    | none => .error "panic:index-out-of-range"
    | some p =>
      if !p.keyOK then .error "ErrInvalidKeyScheme"
      else match keyNodes all t with
        | .error e => .error e
        | .ok r => .ok (⟨i, p.addr, p.key, p.sig⟩ :: r)

def insertGNode (n : GNode) : List GNode → List GNode
  | [] => [n]
  | x :: t => if n.index < x.index then n :: x :: t else x :: insertGNode n t

/-- `sort.Slice(g.Nodes, Index <)` inside `Group.Hash()`: it sorts the group's own slice in place -/
def sortGNodes : List GNode → List GNode
  | [] => []
  | x :: t => insertGNode x (sortGNodes t)

def hashParams (g : Group Seed) : GroupParams :=
  { nodes := g.nodes.map fun n => ⟨n.index, n.key⟩, threshold := g.threshold, genesis := g.genesisTime,
    transition := g.transitionTime, pk := some g.coeffs, id := g.id }

/-- `asGroup(ctx, details, keyShare, finalNodes, transitionTime)`; `qual` are the `Index` fields of `finalNodes`
(= `config.NewNodes[v.Index]` for `v` in QUAL), `coeffs` the commitments of the key share. The seed stays symbolic. -/
def asGroupS (d : Details) (coeffs : List Bytes) (qual : List Nat) (tt : Int) : Except String (Group Seed) :=
  match schemeByID d.schemeID with
  | none => .error "unknown-scheme"
  | some sch =>
    let all := sortedByPublicKey (d.remaining ++ d.joining)
    match keyNodes all qual with
    | .error e => .error e
    | .ok nodes =>
      let g : Group Seed :=
        { id := d.beaconID, threshold := d.threshold, periodSec := d.periodSec, scheme := sch, catchupSec := d.catchupSec,
          genesisTime := d.genesisTime, genesisSeed := .given d.genesisSeed, transitionTime := tt, nodes := nodes,
          coeffs := coeffs }
      if d.genesisSeed.length == 0 then
        -- `group.GenesisSeed = group.Hash()`; Hash() leaves the nodes sorted by index
        .ok { g with genesisSeed := .hashOf (hashParams g), nodes := sortGNodes nodes }
      else .ok g

def Seed.eval (H : Bytes → Bytes) : Seed → Bytes
  | .given b => b
  | .hashOf p => H (groupPreimage H p)

def Group.eval (H : Bytes → Bytes) (g : Group Seed) : Group Bytes :=
  { id := g.id, threshold := g.threshold, periodSec := g.periodSec, scheme := g.scheme, catchupSec := g.catchupSec,
    genesisTime := g.genesisTime, genesisSeed := g.genesisSeed.eval H, transitionTime := g.transitionTime,
    nodes := g.nodes, coeffs := g.coeffs }

/-- `asGroup` with the hash function `H` (BLAKE2b-256 in the code) -/
def asGroup (H : Bytes → Bytes) (d : Details) (coeffs : List Bytes) (qual : List Nat) (tt : Int) :
    Except String (Group Bytes) :=
  (asGroupS d coeffs qual tt).map (Group.eval H)

/-! ### transition time -/

/-- the tail of `startDKGExecution`: epoch 1 → genesis; otherwise the start of the
`roundsUntilTransition`-th round after the round current at the node's own `time.Now()` -/
def transitionTime (epoch : Nat) (now : Int) (periodSec : Nat) (genesis : Int) : Int :=
  if epoch == 1 then genesis
  else
    let currentRound := Time.currentRoundM now periodSec genesis
    Time.timeOfRoundM periodSec genesis ((currentRound + Gen.roundsUntilTransition) % Time.two64)

/-- the same over the exact layer of `Drand.Time` (C16: equal to the machine layer on the whole sane domain) -/
def transitionTimeZ (epoch : Nat) (now : Int) (periodSec : Nat) (genesis : Int) : Int :=
  if epoch == 1 then genesis
  else Time.timeOfRoundZ periodSec genesis (Time.currentRoundZ now periodSec genesis + Gen.roundsUntilTransition)

/-- what one node does when its kyber protocol ends: its own clock, then `asGroup` -/
def finishDKG (H : Bytes → Bytes) (d : Details) (epoch : Nat) (now : Int) (coeffs : List Bytes) (qual : List Nat) :
    Except String (Group Bytes) :=
  asGroup H d coeffs qual (transitionTime epoch now d.periodSec d.genesisTime)

end Drand.DKG
