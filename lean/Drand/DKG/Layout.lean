/-
Byte-level layout of the message a DKG control packet's signature is made on (internal/dkg/actions_signing.go,
`messageForSigning`): `ret.WriteString` / `ret.Write` into one buffer — no field carries its length. (C09)
Strings are taken as ASCII (beacon ids, scheme names and host:port addresses are); integers are the 4 little-endian bytes
of `binary.LittleEndian.AppendUint32`; a time is the 15 bytes of Go's `time.Time.MarshalBinary` for a UTC time without
nanoseconds (version 1, seconds since year 1 big-endian, nanoseconds, zone offset -1), which is what
`timestamppb.AsTime()` of the whole-second timestamps in play gives.
-/
import Drand.DKG.Process

namespace Drand.DKG
open Drand

/-- the bytes `messageForSigning` returns -/
def signedBytes (beaconID : String) (p : Packet) (t : Terms) : Bytes := encodeSegs (messageForSigning beaconID p t)

end Drand.DKG
