/-
Model of dkg.Process (internal/dkg/actions_active.go, actions_passive.go, actions_signing.go, execution.go):
the two buckets of the DKG store, operator commands, gossip packets with their authentication, and the
completion / failure steps of an execution.  (C08, C09)
Signatures are idealised: a signature is the pair (key that made it, message it was made on).
-/
import Drand.DKG.State

namespace Drand.DKG
open Drand

/-- the message a DKG packet signature covers, as the ordered list of fields `messageForSigning` writes -/
inductive Seg where
  | str (s : String)
  | bytes (b : Bytes)
  | u32 (n : Nat)
  | time (t : Int)
  deriving Repr, DecidableEq

inductive Packet where
  | proposal (t : Terms)
  | accept (acceptor : Participant)
  | reject (rejector : Participant)
  | execute (time : Int)
  | abort (reason : String)
  deriving Repr

/-- `messageForSigning(beaconID, packet, proposal)` -/
def messageForSigning (beaconID : String) (p : Packet) (t : Terms) : List Seg :=
  [.str ("beaconID:" ++ beaconID ++ "\n")] ++
  (match p with
   | .proposal pt => [.str "Proposal:", .str (pt.beaconID ++ "\n"), .u32 pt.epoch,
                      .str ("\nLeader:" ++ pt.leader.addr ++ "\n"), .bytes pt.leader.sig]
   | .accept a => [.str ("Accepted:" ++ a.addr ++ "\n")]
   | .reject r => [.str ("Rejected:" ++ r.addr ++ "\n")]
   | .abort reason => [.str ("Aborted:" ++ reason ++ "\n")]
   | .execute tm => [.str "Execute:", .time tm]) ++
  [.str "Proposal:\n", .str (t.beaconID ++ "\n"), .u32 t.epoch, .str ("\nLeader:" ++ t.leader.addr ++ "\n"),
   .bytes t.leader.sig, .u32 t.threshold, .time t.timeout, .u32 t.catchupSec, .u32 t.periodSec,
   .str ("\nScheme: " ++ t.schemeID ++ "\n"), .time t.genesisTime] ++
  t.joining.flatMap (fun p => [.str ("\nJoiner:" ++ p.addr ++ "\nSig:"), .bytes p.sig]) ++
  t.remaining.flatMap (fun p => [.str ("\nRemainer:" ++ p.addr ++ "\nSig:"), .bytes p.sig]) ++
  t.leaving.flatMap (fun p => [.str ("\nLeaver:" ++ p.addr ++ "\nSig:"), .bytes p.sig])

/-- `drand.GossipMetadata` with an idealised signature -/
structure Meta where
  beaconID : String
  addr : String
  sigId : String            -- the signature bytes (hex), used only for de-duplication
  sigKey : Bytes            -- the public key whose private key made the signature
  sigMsg : List Seg         -- the message it was made on
  deriving Repr

structure Proc where
  beaconID : String
  me : Participant
  current : Option DBState := none
  finished : Option DBState := none
  seen : List String := []
  executing : Bool := false     -- an entry in `Executions`
  deriving Repr

def Proc.getCurrent (p : Proc) : DBState := p.current.getD (newFreshState p.beaconID)

/-- the state a command or packet is applied to: the last finished (or fresh) state after a terminal one -/
def Proc.base (p : Proc) : DBState :=
  let cur := p.getCurrent
  if Gen.terminalStates.contains cur.state then p.finished.getD (newFreshState p.beaconID) else cur

/-- `verifyMessage(packet, termsFromState(next))` -/
def verifyMessage (m : Meta) (pk : Packet) (t : Terms) : Except Err Unit :=
  match (t.remaining ++ t.joining).find? (fun p => p.addr == m.addr) with
  | none => .error .noSuchParticipant
  | some p =>
    if m.sigKey == p.key && decide (m.sigMsg = messageForSigning m.beaconID pk t) then .ok () else .error .badSignature

/-- `DBState.Apply` -/
def applyPacket (d : DBState) (me : Participant) (pk : Packet) (sender : String) (now : Int) : R :=
  match pk with
  | .proposal t => d.proposed me t sender now
  | .accept a => d.receivedAcceptance a sender
  | .reject r => d.receivedRejection r sender
  | .execute _ => d.executing me sender now
  | .abort _ => d.aborted sender

/-- gossip marks the packet as seen only when there is somebody else to send it to -/
def gossipRecipients (me : Participant) (l : List Participant) : List Participant := without (nonEmpty l) me

inductive Out where
  | ok
  | dup                      -- duplicate packet ignored
  | err (e : Err)
  | savedThenErr (e : String)   -- the state was written, then a later step failed
  deriving Repr

/-- `Process.Packet` for the five control packets (`setupOK`: whether `setupDKG` succeeds, an environment fact) -/
def Proc.packet (p : Proc) (m : Meta) (pk : Packet) (now : Int) (setupOK : Bool := true) : Proc × Out :=
  if m.sigId.length < 8 then (p, .err (.other "sig-too-short"))
  else if p.seen.contains m.sigId then (p, .dup)
  else
    match applyPacket p.base p.me pk m.addr now with
    | .error e => (p, .err e)
    | .ok next =>
      match verifyMessage m pk (termsFromState next) with
      | .error e => (p, .err e)
      | .ok () =>
        let rec' := gossipRecipients p.me (next.joining ++ next.remaining ++ next.leaving)
        let p' := { p with current := some next, seen := if rec'.isEmpty then p.seen else m.sigId :: p.seen }
        match pk with
        | .execute _ => if setupOK then ({ p' with executing := true }, .ok) else (p', .savedThenErr "setup")
        | _ => (p', .ok)

inductive Cmd where
  | initial (t : Terms)          -- terms as `StartNetwork` builds them
  | resharing (t : Terms)        -- terms as `StartProposal` builds them
  | join (prev : Option GroupLite)
  | accept | reject | execute | abort
  deriving Repr

/-- `Process.Command` (the v1→v2 key-migration branch of StartProposal is excluded) -/
def Proc.command (p : Proc) (c : Cmd) (now : Int) (setupOK : Bool := true) : Proc × Out :=
  let cur := p.base
  let me := p.me
  let finish (next : DBState) (gossipTo : List Participant) (blocking : Bool) : Proc × Out :=
    let p' := { p with current := some next }
    if blocking && (gossipRecipients me gossipTo).isEmpty then (p', .savedThenErr "gossip-empty") else (p', .ok)
  match c with
  | .initial t =>
    match cur.proposing me t now with
    | .error e => (p, .err e)
    | .ok n => finish n (n.joining ++ n.remaining) true
  | .resharing t =>
    match cur.proposing me t now with
    | .error e => (p, .err e)
    | .ok n => finish n (n.joining ++ n.remaining) true
  | .join prev =>
    if cur.epoch > 1 && prev.isNone then (p, .err (.other "group-file-required")) else
    match cur.joined me (if cur.epoch > 1 then prev else none) now with
    | .error e => (p, .err e)
    | .ok n => ({ p with current := some n }, .ok)
  | .accept =>
    match cur.accepted me now with
    | .error e => (p, .err e)
    | .ok n => finish n [] false
  | .reject =>
    match cur.rejected me now with
    | .error e => (p, .err e)
    | .ok n => finish n [] false
  | .execute =>
    match cur.startExecuting me now with
    | .error e => (p, .err e)
    | .ok n =>
      let p' := { p with current := some n }
      if n.state == .executing then
        if setupOK then ({ p' with executing := true }, .ok) else (p', .savedThenErr "setup")
      else
        -- a leaver running `execute` ends in Left, but executeDKG is still attempted
        if setupOK then ({ p' with executing := true }, .ok) else (p', .savedThenErr "setup")
  | .abort =>
    match cur.startAbort with
    | .error e => (p, .err e)
    | .ok n => finish n [] false

/-- the two endings of `executeAndFinishDKG` -/
def Proc.completeDKG (p : Proc) (g : Option GroupLite) (share : Option Nat) (now : Int) : Proc × Out :=
  match p.getCurrent.complete g share now with
  | .error e => (p, .err e)
  | .ok fin => ({ p with current := some fin, finished := some fin }, .ok)   -- SaveFinished writes both buckets

def Proc.failDKG (p : Proc) : Proc × Out :=
  match p.getCurrent.failed with
  | .error e => (p, .err e)
  | .ok n => ({ p with current := some n }, .ok)

inductive Ev where
  | cmd (c : Cmd) (setupOK : Bool)
  | pkt (m : Meta) (pk : Packet) (setupOK : Bool)
  | complete (g : Option GroupLite) (share : Option Nat)
  | fail
  deriving Repr

def Proc.step (p : Proc) (now : Int) : Ev → Proc × Out
  | .cmd c s => p.command c now s
  | .pkt m pk s => p.packet m pk now s
  | .complete g sh => p.completeDKG g sh now
  | .fail => p.failDKG

/-- events carry the wall-clock reading at which they are processed -/
def Proc.run (p : Proc) (evs : List (Int × Ev)) : Proc := evs.foldl (fun q e => (q.step e.1 e.2).1) p

end Drand.DKG
