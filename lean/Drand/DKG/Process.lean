/-
Model of dkg.Process (internal/dkg/actions_active.go, actions_passive.go, actions_signing.go, execution.go):
the two buckets of the DKG store, operator commands, gossip packets with their authentication, and the
completion / failure steps of an execution.  (C08, C09)
Signatures are idealised: a signature is the pair (key that made it, message it was made on).
-/
import Drand.DKG.State

namespace Drand.DKG
open Drand

/-- the message a DKG packet signature covers, as the ordered list of fields `messageForSigning` writes -/
inductive Seg where
  | str (s : String)
  | bytes (b : Bytes)
  | u32 (n : Nat)
  | time (t : Int)
  deriving Repr, DecidableEq

/-! Byte-level encoding of the signed message: `ret.WriteString` / `ret.Write` into one buffer, no field carries its length.
Strings are taken as 7-bit text; integers are the 4 little-endian bytes of `binary.LittleEndian.AppendUint32`; a time is the
15 bytes of Go's `time.Time.MarshalBinary` for a whole-second UTC time (version 1, seconds since year 1 big-endian,
nanoseconds, zone offset -1). -/

def le32 (n : Nat) : Bytes :=
  [UInt8.ofNat (n % 256), UInt8.ofNat (n / 256 % 256), UInt8.ofNat (n / 65536 % 256), UInt8.ofNat (n / 16777216 % 256)]

def be64 (n : Nat) : Bytes :=
  [UInt8.ofNat (n / 72057594037927936 % 256), UInt8.ofNat (n / 281474976710656 % 256), UInt8.ofNat (n / 1099511627776 % 256),
   UInt8.ofNat (n / 4294967296 % 256), UInt8.ofNat (n / 16777216 % 256), UInt8.ofNat (n / 65536 % 256),
   UInt8.ofNat (n / 256 % 256), UInt8.ofNat (n % 256)]

/-- seconds between year 1 and 1970 (Go's `unixToInternal`) -/
def unixToInternal : Int := 62135596800

def timeBytes (t : Int) : Bytes := [1] ++ be64 (t + unixToInternal).toNat ++ [0, 0, 0, 0, 255, 255]

def strBytes (s : String) : Bytes := s.toList.map fun c => UInt8.ofNat c.toNat

def Seg.encode : Seg → Bytes
  | .str s => strBytes s
  | .bytes b => b
  | .u32 n => le32 n
  | .time t => timeBytes t

def encodeSegs (l : List Seg) : Bytes := l.flatMap Seg.encode

inductive Packet where
  | proposal (t : Terms)
  | accept (acceptor : Participant)
  | reject (rejector : Participant)
  | execute (time : Int)
  | abort (reason : String)
  deriving Repr

/-- `messageForSigning(beaconID, packet, proposal)` -/
def messageForSigning (beaconID : String) (p : Packet) (t : Terms) : List Seg :=
  [.str ("beaconID:" ++ beaconID ++ "\n")] ++
  (match p with
   | .proposal pt => [.str "Proposal:", .str (pt.beaconID ++ "\n"), .u32 pt.epoch,
                      .str ("\nLeader:" ++ pt.leader.addr ++ "\n"), .bytes pt.leader.sig]
   | .accept a => [.str ("Accepted:" ++ a.addr ++ "\n")]
   | .reject r => [.str ("Rejected:" ++ r.addr ++ "\n")]
   | .abort reason => [.str ("Aborted:" ++ reason ++ "\n")]
   | .execute tm => [.str "Execute:", .time tm]) ++
  [.str "Proposal:\n", .str (t.beaconID ++ "\n"), .u32 t.epoch, .str ("\nLeader:" ++ t.leader.addr ++ "\n"),
   .bytes t.leader.sig, .u32 t.threshold, .time t.timeout, .u32 t.catchupSec, .u32 t.periodSec,
   .str ("\nScheme: " ++ t.schemeID ++ "\n"), .time t.genesisTime] ++
  t.joining.flatMap (fun p => [.str ("\nJoiner:" ++ p.addr ++ "\nSig:"), .bytes p.sig]) ++
  t.remaining.flatMap (fun p => [.str ("\nRemainer:" ++ p.addr ++ "\nSig:"), .bytes p.sig]) ++
  t.leaving.flatMap (fun p => [.str ("\nLeaver:" ++ p.addr ++ "\nSig:"), .bytes p.sig])

/-- `drand.GossipMetadata` with an idealised signature -/
structure Meta where
  beaconID : String
  addr : String
  sigId : String            -- the signature bytes (hex), used only for de-duplication
  sigKey : Bytes            -- the public key whose private key made the signature
  sigMsg : List Seg         -- the message it was made on
  deriving Repr

structure Proc where
  beaconID : String
  me : Participant
  current : Option DBState := none
  finished : Option DBState := none
  seen : List (Bytes × Bytes) := []   -- `SeenPackets`: signatures are deterministic and unique, so a signature is identified by (key, message bytes)
  executing : Bool := false     -- an entry in `Executions`
  deriving Repr

def Proc.getCurrent (p : Proc) : DBState := p.current.getD (newFreshState p.beaconID)

/-- the state a command or packet is applied to: the last finished (or fresh) state after a terminal one -/
def Proc.base (p : Proc) : DBState :=
  let cur := p.getCurrent
  if Gen.terminalStates.contains cur.state then p.finished.getD (newFreshState p.beaconID) else cur

/-- `verifyMessage(packet, termsFromState(next))` -/
def verifyMessage (m : Meta) (pk : Packet) (t : Terms) : Except Err Unit :=
  match (t.remaining ++ t.joining).find? (fun p => p.addr == m.addr) with
  | none => .error .noSuchParticipant
  | some p =>
    -- a signature verifies iff it was made, with that key, on the same BYTES
    if m.sigKey == p.key && encodeSegs m.sigMsg == encodeSegs (messageForSigning m.beaconID pk t) then .ok ()
    else .error .badSignature

/-- `DBState.Apply` -/
def applyPacket (d : DBState) (me : Participant) (pk : Packet) (sender : String) (now : Int) : R :=
  match pk with
  | .proposal t => d.proposed me t sender now
  | .accept a => d.receivedAcceptance a sender
  | .reject r => d.receivedRejection r sender
  | .execute _ => d.executing me sender now
  | .abort _ => d.aborted sender

/-- gossip marks the packet as seen only when there is somebody else to send it to -/
def gossipRecipients (me : Participant) (l : List Participant) : List Participant := without (nonEmpty l) me

inductive Out where
  | ok
  | dup                      -- duplicate packet ignored
  | err (e : Err)
  | savedThenErr (e : String)   -- the state was written, then a later step failed
  deriving Repr

/-- whether `setupDKG` succeeds for the state just saved: every participant key must decode (`util.ToNode`) and
there must be somebody to broadcast to -/
def setupOK (next : DBState) : Bool :=
  let ps := next.remaining ++ next.joining
  ps.all (·.keyOK) && !ps.isEmpty

/-- `Process.Packet` for the five control packets -/
def Proc.packet (p : Proc) (m : Meta) (pk : Packet) (now : Int) : Proc × Out :=
  if m.sigId.length < 8 then (p, .err (.other "sig-too-short"))
  else if p.seen.contains (m.sigKey, encodeSegs m.sigMsg) then (p, .dup)
  else
    match applyPacket p.base p.me pk m.addr now with
    | .error e => (p, .err e)
    | .ok next =>
      match verifyMessage m pk (termsFromState next) with
      | .error e => (p, .err e)
      | .ok () =>
        let rec' := gossipRecipients p.me (next.joining ++ next.remaining ++ next.leaving)
        let p' := { p with current := some next, seen := if rec'.isEmpty then p.seen else (m.sigKey, encodeSegs m.sigMsg) :: p.seen }
        match pk with
        | .execute _ => if setupOK next then ({ p' with executing := true }, .ok) else (p', .savedThenErr "setup")
        | _ => (p', .ok)

/-- `drand.FirstProposalOptions` -/
structure InitOpts where
  threshold : Nat
  timeout : Int
  genesisTime : Int
  schemeID : String
  catchupSec : Nat
  periodSec : Nat
  joining : List Participant
  deriving Repr

/-- `drand.ProposalOptions` -/
structure ReshareOpts where
  threshold : Nat
  timeout : Int
  catchupSec : Nat
  joining : List Participant
  remaining : List Participant
  leaving : List Participant
  deriving Repr

/-- the terms `StartNetwork` builds -/
def initialTerms (beaconID : String) (me : Participant) (o : InitOpts) : Terms :=
  { beaconID, threshold := o.threshold, epoch := 1, timeout := o.timeout, leader := me, schemeID := o.schemeID,
    genesisTime := o.genesisTime, genesisSeed := [], catchupSec := o.catchupSec, periodSec := o.periodSec,
    joining := nonEmpty o.joining, remaining := [], leaving := [] }

/-- the terms `StartProposal` builds from the state the command is applied to -/
def reshareTerms (beaconID : String) (me : Participant) (cur : DBState) (o : ReshareOpts) : Terms :=
  { beaconID, threshold := o.threshold, epoch := cur.epoch + 1, schemeID := cur.schemeID, periodSec := cur.periodSec,
    catchupSec := o.catchupSec, genesisTime := cur.genesisTime, genesisSeed := cur.genesisSeed, timeout := o.timeout,
    leader := me, joining := o.joining, remaining := o.remaining, leaving := o.leaving }

inductive Cmd where
  | initial (o : InitOpts)
  | resharing (o : ReshareOpts)
  | join (prev : Option GroupLite)
  | accept | reject | execute | abort
  deriving Repr

/-- `Process.Command` (the v1→v2 key-migration branch of StartProposal is excluded) -/
def Proc.command (p : Proc) (c : Cmd) (now : Int) : Proc × Out :=
  let cur := p.base
  let me := p.me
  -- after a successful command the packet is signed over the new state's terms and gossiped to joiners+remainers
  -- and (separately) to leavers; `gossip` records the signature as seen whenever it has a recipient
  let finish (next : DBState) (pk : Option Packet) (blocking : Bool) : Proc × Out :=
    let main := gossipRecipients me (next.joining ++ next.remaining)
    let lv := gossipRecipients me next.leaving
    let seen' := match pk with
      | some pk => if main.isEmpty && lv.isEmpty then p.seen
                   else (me.key, encodeSegs (messageForSigning p.beaconID pk (termsFromState next))) :: p.seen
      | none => p.seen
    let p' := { p with current := some next, seen := seen' }
    if blocking && main.isEmpty then (p', .savedThenErr "gossip-empty") else (p', .ok)
  match c with
  | .initial o =>
    match cur.proposing me (initialTerms p.beaconID me o) now with
    | .error e => (p, .err e)
    | .ok n => finish n (some (.proposal (initialTerms p.beaconID me o))) true
  | .resharing o =>
    match cur.proposing me (reshareTerms p.beaconID me cur o) now with
    | .error e => (p, .err e)
    | .ok n => finish n (some (.proposal (reshareTerms p.beaconID me cur o))) true
  | .join prev =>
    if cur.epoch > 1 && prev.isNone then (p, .err (.other "group-file-required")) else
    match cur.joined me (if cur.epoch > 1 then prev else none) now with
    | .error e => (p, .err e)
    | .ok n => ({ p with current := some n }, .ok)
  | .accept =>
    match cur.accepted me now with
    | .error e => (p, .err e)
    | .ok n => finish n (some (.accept me)) false
  | .reject =>
    match cur.rejected me now with
    | .error e => (p, .err e)
    | .ok n => finish n (some (.reject me)) false
  | .execute =>
    match cur.startExecuting me now with
    | .error e => (p, .err e)
    | .ok n =>
      let p' := { p with current := some n }
      -- (a leaver running `execute` ends in Left; executeDKG is attempted all the same)
      if setupOK n then ({ p' with executing := true }, .ok) else (p', .savedThenErr "setup")
  | .abort =>
    match cur.startAbort with
    | .error e => (p, .err e)
    | .ok n => finish n (some (.abort "none")) false

/-- the two endings of `executeAndFinishDKG` -/
def Proc.completeDKG (p : Proc) (g : Option GroupLite) (share : Option Nat) (now : Int) : Proc × Out :=
  match p.getCurrent.complete g share now with
  | .error e => (p, .err e)
  | .ok fin => ({ p with current := some fin, finished := some fin }, .ok)   -- SaveFinished writes both buckets

def Proc.failDKG (p : Proc) : Proc × Out :=
  match p.getCurrent.failed with
  | .error e => (p, .err e)
  | .ok n => ({ p with current := some n }, .ok)

inductive Ev where
  | cmd (c : Cmd)
  | pkt (m : Meta) (pk : Packet)
  | complete (g : Option GroupLite) (share : Option Nat)
  | fail
  deriving Repr

def Proc.step (p : Proc) (now : Int) : Ev → Proc × Out
  | .cmd c => p.command c now
  | .pkt m pk => p.packet m pk now
  | .complete g sh => p.completeDKG g sh now
  | .fail => p.failDKG

/-- events carry the wall-clock reading at which they are processed -/
def Proc.run (p : Proc) (evs : List (Int × Ev)) : Proc := evs.foldl (fun q e => (q.step e.1 e.2).1) p

end Drand.DKG
