/-
C15 — private keys and shares never leave the node.  Model (core Lean only).

1. Node state is split `pub × sec`. Every response / packet / log-line constructor is a `ChanSpec` whose
   `build` field has type `Pub → Nat → Val`: it cannot mention the secret part. Signing channels attach
   `cr.sign key msg`, DKG channels attach `cr.deal key msg` (the kyber protocol), `msg` again built from `Pub`.
2. File model: how each file class below a node's folder is created (`Creator`), the mode it ends up with under
   a umask, and the step-by-step model of `fs.CreateSecureFile` followed by the TOML write of `key.Save`.
   The table is computed from the facts go2lean extracted (`Gen.saveCallSites`, `Gen.fileStorePaths`,
   `Gen.secretTomlers`, the permission constants), so it follows the source.
3. The byte scanner that the check runs over everything a real node emitted: raw / hex / HEX / base64
   (std, url, padded, unpadded) encodings and an infix search.
4. `allowedReaders`: the hand-written allow-list for `Gen.secretReaders`.
-/
import Drand.Basic
import Gen.Consts
import Gen.Secrets

namespace Drand.Secrecy
open Drand

/-! ## 1. public × secret state and output channels -/

/-- `protobuf/dkg.Participant` / `key.Identity`: address, long-term PUBLIC key, self-signature -/
structure Participant where
  addr : String
  key : Bytes
  sig : Bytes
  deriving DecidableEq, Repr, Inhabited

/-- `key.Group` (all of it is public) -/
structure GroupPub where
  threshold : Nat
  period : Nat
  catchup : Nat
  genesis : Int
  transition : Int
  seed : Bytes
  id : String
  scheme : String
  nodes : List (Nat × Participant)
  commits : List Bytes
  deriving DecidableEq, Repr, Inhabited

/-- `dkg.DBState` without `KeyShare` -/
structure DkgPub where
  beaconId : String
  epoch : Nat
  state : Nat
  threshold : Nat
  timeout : Int
  genesis : Int
  seed : Bytes
  leader : Option Participant
  remaining : List Participant
  joining : List Participant
  leaving : List Participant
  acceptors : List Participant
  rejectors : List Participant
  finalGroup : List String
  deriving DecidableEq, Repr, Inhabited

/-- everything a node knows that is not secret -/
structure Pub where
  identity : Participant
  scheme : String
  beaconId : String
  version : String
  group : Option GroupPub
  dkgCurrent : DkgPub
  dkgFinished : Option DkgPub
  chain : List Beacon
  shareIndex : Option Nat
  reachable : List (String × Bool)
  deriving DecidableEq, Repr, Inhabited

/-- the long-term scalar (`key.Pair.Key`) and the share scalar (`key.Share.Share.V`) -/
structure Sec where
  longterm : Bytes
  share : Option Bytes
  deriving DecidableEq, Repr, Inhabited

structure Node where
  pub : Pub
  sec : Sec
  deriving DecidableEq, Repr, Inhabited

/-- output values (protobuf messages, JSON bodies, log lines) as trees -/
inductive Val where
  | none
  | str (s : String)
  | bytes (b : Bytes)
  | nat (n : Nat)
  | int (i : Int)
  | list (l : List Val)
  | record (fields : List (String × Val))
  deriving Repr, Inhabited

inductive Kind where
  | pub   -- built from public state only
  | sign  -- public body plus a signature made with a secret key
  | dkg   -- public envelope plus the kyber DKG's own output (encrypted deals, responses, justifications)
  | mixed -- an aggregate of the above (a raw connection byte stream)
  deriving DecidableEq, Repr, Inhabited

def Kind.show : Kind → String
  | .pub => "pub" | .sign => "sign" | .dkg => "dkg" | .mixed => "mixed"

/-- cryptographic operations are an oracle; theorems quantify over it -/
structure Crypto where
  sign : Bytes → Bytes → Bytes
  deal : Bytes → Bytes → Bytes

inductive WhichKey where
  | longterm | share
  deriving DecidableEq, Repr

def keyOf (s : Sec) : WhichKey → Option Bytes
  | .longterm => some s.longterm
  | .share => s.share

/-- one way bytes leave a node -/
structure ChanSpec where
  label : String
  kind : Kind
  /-- the message body: a function of the PUBLIC state and a request parameter only -/
  build : Pub → Nat → Val
  which : WhichKey := .longterm
  /-- what gets signed / fed to the DKG: again public only -/
  msg : Pub → Nat → Bytes := fun _ _ => []

def withCrypto (f : Bytes → Bytes → Bytes) (body : Val) (k : Option Bytes) (m : Bytes) : Val :=
  .record [("body", body), ("crypto", match k with | some k => .bytes (f k m) | Option.none => .none)]

/-- what the node emits on channel `c` for request parameter `arg` -/
def emit (cr : Crypto) (n : Node) (c : ChanSpec) (arg : Nat) : Val :=
  match c.kind with
  | .pub => c.build n.pub arg
  | .mixed => c.build n.pub arg
  | .sign => withCrypto cr.sign (c.build n.pub arg) (keyOf n.sec c.which) (c.msg n.pub arg)
  | .dkg => withCrypto cr.deal (c.build n.pub arg) (keyOf n.sec c.which) (c.msg n.pub arg)

/-! ### builders (mirror the Go response constructors; all take `Pub`) -/

def vPart (p : Participant) : Val := .record [("address", .str p.addr), ("key", .bytes p.key), ("signature", .bytes p.sig)]
def vParts (l : List Participant) : Val := .list (l.map vPart)
def vMeta (p : Pub) : Val := .record [("nodeVersion", .str p.version), ("beaconID", .str p.beaconId)]
def vBeacon (b : Beacon) : Val := .record [("round", .nat b.round), ("signature", .bytes b.sig), ("previous_signature", .bytes b.prev)]

/-- `BeaconProcess.PublicKey` / `GetIdentity` -/
def bIdentity (p : Pub) (_ : Nat) : Val :=
  .record [("pubKey", .bytes p.identity.key), ("addr", .str p.identity.addr), ("signature", .bytes p.identity.sig),
    ("schemeName", .str p.scheme), ("metadata", vMeta p)]

/-- `Group.ToProto` -/
def vGroup (g : GroupPub) : Val :=
  .record [("nodes", .list (g.nodes.map fun (i, n) => .record [("index", .nat i), ("public", vPart n)])),
    ("threshold", .nat g.threshold), ("period", .nat g.period), ("catchup_period", .nat g.catchup),
    ("genesis_time", .int g.genesis), ("transition_time", .int g.transition), ("genesis_seed", .bytes g.seed),
    ("dist_key", .list (g.commits.map .bytes)), ("schemeID", .str g.scheme), ("beaconID", .str g.id)]

def bGroup (p : Pub) (_ : Nat) : Val :=
  match p.group with
  | some g => .record [("group", vGroup g), ("metadata", vMeta p)]
  | Option.none => .str "drand: no dkg group setup yet"

/-- `chain.NewChainInfo(group).ToProto` -/
def bChainInfo (p : Pub) (_ : Nat) : Val :=
  match p.group with
  | some g => .record [("public_key", match g.commits.head? with | some c => .bytes c | Option.none => .none),
      ("period", .nat g.period), ("genesis_time", .int g.genesis), ("group_hash", .bytes g.seed),
      ("schemeID", .str g.scheme), ("metadata", vMeta p)]
  | Option.none => .str "drand: no dkg group setup yet"

/-- one `DKGEntry` of `Process.DKGStatus`: every `DBState` field except `KeyShare` -/
def vDkgEntry (d : DkgPub) : Val :=
  .record [("beaconID", .str d.beaconId), ("state", .nat d.state), ("epoch", .nat d.epoch), ("threshold", .nat d.threshold),
    ("timeout", .int d.timeout), ("genesisTime", .int d.genesis), ("genesisSeed", .bytes d.seed),
    ("leader", match d.leader with | some l => vPart l | Option.none => .none),
    ("remaining", vParts d.remaining), ("joining", vParts d.joining), ("leaving", vParts d.leaving),
    ("acceptors", vParts d.acceptors), ("rejectors", vParts d.rejectors), ("finalGroup", .list (d.finalGroup.map .str))]

def bDkgStatus (p : Pub) (_ : Nat) : Val :=
  .record [("current", vDkgEntry p.dkgCurrent),
    ("complete", match p.dkgFinished with | some d => vDkgEntry d | Option.none => .none)]

/-- `BeaconProcess.Status` / `RemoteStatus` -/
def bStatus (p : Pub) (_ : Nat) : Val :=
  .record [("dkg", .nat p.dkgCurrent.state), ("epoch", .nat p.dkgCurrent.epoch),
    ("beacon", .record [("isRunning", .nat (if p.group.isSome then 1 else 0))]),
    ("chainStore", .record [("isEmpty", .nat (if p.chain.isEmpty then 1 else 0)),
      ("lastStored", .nat (p.chain.foldl (fun m b => max m b.round) 0)), ("length", .nat p.chain.length)]),
    ("connections", .list (p.reachable.map fun (a, ok) => .record [("addr", .str a), ("ok", .nat (if ok then 1 else 0))]))]

/-- `PublicRand`, HTTP `/public/{round}`: a stored beacon (0 = latest) -/
def bRand (p : Pub) (round : Nat) : Val :=
  let b := if round = 0 then p.chain.getLast? else p.chain.find? (·.round = round)
  match b with
  | some b => .record [("beacon", vBeacon b), ("metadata", vMeta p)]
  | Option.none => .str "no beacon stored"

/-- `SyncChain`, `PublicRandStream`, the backup file: stored beacons from a round on -/
def bChainFrom (p : Pub) (fromRound : Nat) : Val := .list ((p.chain.filter (fromRound ≤ ·.round)).map vBeacon)

def bEmpty (p : Pub) (_ : Nat) : Val := .record [("metadata", vMeta p)]
def bIds (p : Pub) (_ : Nat) : Val := .record [("ids", .list [.str p.beaconId]), ("metadata", vMeta p)]
def bSchemes (_ : Pub) (_ : Nat) : Val := .list []
def bError (p : Pub) (code : Nat) : Val := .record [("error-code", .nat code), ("beaconID", .str p.beaconId)]

/-- a log line: event number and public context (addresses, rounds, epochs, truncated public keys, group hash) -/
def bLog (p : Pub) (event : Nat) : Val :=
  .record [("event", .nat event), ("logger", .str p.identity.addr), ("beaconID", .str p.beaconId),
    ("epoch", .nat p.dkgCurrent.epoch), ("round", .nat (p.chain.foldl (fun m b => max m b.round) 0)),
    ("index", match p.shareIndex with | some i => .nat i | Option.none => .none),
    ("group", match p.group with | some g => vGroup g | Option.none => .none)]

/-- the body of an outgoing `PartialBeaconPacket` (round, previous signature); the partial signature is `cr.sign share msg` -/
def bPartial (p : Pub) (round : Nat) : Val :=
  .record [("round", .nat round), ("previous_signature", match p.chain.find? (·.round + 1 = round) with
    | some b => .bytes b.sig | Option.none => .none), ("metadata", vMeta p)]

def natBytes (n : Nat) : Bytes := [UInt8.ofNat (n / 16777216 % 256), UInt8.ofNat (n / 65536 % 256), UInt8.ofNat (n / 256 % 256), UInt8.ofNat (n % 256)]

/-- the beacon digest: round (and previous signature for chained schemes) -/
def mPartial (p : Pub) (round : Nat) : Bytes :=
  (match p.chain.find? (·.round + 1 = round) with | some b => b.sig | Option.none => []) ++ natBytes round

/-- `messageForSigning`: beacon id, packet kind, proposal terms (all in `DkgPub`) -/
def mGossip (p : Pub) (kind : Nat) : Bytes :=
  p.beaconId.toUTF8.toList ++ natBytes kind ++ natBytes p.dkgCurrent.epoch ++ natBytes p.dkgCurrent.threshold ++ p.dkgCurrent.seed

/-- a gossip packet (proposal / accept / reject / execute / abort): terms + metadata{address, signature} -/
def bGossip (p : Pub) (kind : Nat) : Val :=
  .record [("kind", .nat kind), ("terms", vDkgEntry p.dkgCurrent), ("address", .str p.identity.addr)]

/-- a kyber bundle envelope: dealer index, session id (nonce), public coefficients -/
def bBundle (p : Pub) (phase : Nat) : Val :=
  .record [("phase", .nat phase), ("beaconID", .str p.beaconId), ("dealer", match p.shareIndex with | some i => .nat i | Option.none => .none),
    ("nonce", .bytes p.dkgCurrent.seed)]

def mBundle (p : Pub) (phase : Nat) : Bytes := natBytes phase ++ p.dkgCurrent.seed ++ (p.dkgCurrent.joining.map (·.key)).flatten

/-- self-signature of the identity (`Pair.SelfSign`): scheme name ++ hash of the public key -/
def mSelfSign (p : Pub) (_ : Nat) : Bytes := p.scheme.toUTF8.toList ++ p.identity.key

def pubChan (label : String) (b : Pub → Nat → Val) : ChanSpec := { label := label, kind := .pub, build := b }

/-- Every way bytes leave a node that the harness can observe, by the label the harness gives it.
`:req` of an RPC is what a node (or a client) sends, `:resp` what the serving node answers. -/
def channels : List ChanSpec := [
  -- drand.Control (local control port)
  pubChan "grpc:/drand.Control/PingPong:resp" bEmpty,
  pubChan "grpc:/drand.Control/Status:resp" bStatus,
  pubChan "grpc:/drand.Control/ListSchemes:resp" bSchemes,
  pubChan "grpc:/drand.Control/PublicKey:resp" bIdentity,
  pubChan "grpc:/drand.Control/ChainInfo:resp" bChainInfo,
  pubChan "grpc:/drand.Control/GroupFile:resp" bGroup,
  pubChan "grpc:/drand.Control/Shutdown:resp" bEmpty,
  pubChan "grpc:/drand.Control/LoadBeacon:resp" bEmpty,
  pubChan "grpc:/drand.Control/StartFollowChain:resp" bStatus,
  pubChan "grpc:/drand.Control/StartCheckChain:resp" bStatus,
  pubChan "grpc:/drand.Control/BackupDatabase:resp" bEmpty,
  pubChan "grpc:/drand.Control/RemoteStatus:resp" bStatus,
  -- dkg.DKGControl (local control port)
  pubChan "grpc:/dkg.DKGControl/Command:resp" bEmpty,
  pubChan "grpc:/dkg.DKGControl/DKGStatus:resp" bDkgStatus,
  -- drand.Public
  pubChan "grpc:/drand.Public/PublicRand:resp" bRand,
  pubChan "grpc:/drand.Public/PublicRandStream:resp" bChainFrom,
  pubChan "grpc:/drand.Public/ChainInfo:resp" bChainInfo,
  pubChan "grpc:/drand.Public/ListBeaconIDs:resp" bIds,
  -- drand.Protocol, serving side
  pubChan "grpc:/drand.Protocol/GetIdentity:resp" bIdentity,
  pubChan "grpc:/drand.Protocol/PartialBeacon:resp" bEmpty,
  pubChan "grpc:/drand.Protocol/SyncChain:resp" bChainFrom,
  pubChan "grpc:/drand.Protocol/Status:resp" bStatus,
  -- dkg.DKGPublic, serving side
  pubChan "grpc:/dkg.DKGPublic/Packet:resp" bEmpty,
  pubChan "grpc:/dkg.DKGPublic/BroadcastDKG:resp" bEmpty,
  pubChan "grpc:/grpc.health.v1.Health/Check:resp" bEmpty,
  -- requests a node sends to its peers
  { label := "grpc:/drand.Protocol/PartialBeacon:req", kind := .sign, build := bPartial, which := .share, msg := mPartial },
  { label := "grpc:/dkg.DKGPublic/Packet:req", kind := .sign, build := bGossip, which := .longterm, msg := mGossip },
  { label := "grpc:/dkg.DKGPublic/BroadcastDKG:req", kind := .dkg, build := bBundle, which := .longterm, msg := mBundle },
  pubChan "grpc:/drand.Protocol/GetIdentity:req" bEmpty,
  pubChan "grpc:/drand.Protocol/SyncChain:req" bEmpty,
  pubChan "grpc:/drand.Protocol/Status:req" bEmpty,
  pubChan "grpc:/drand.Public/PublicRand:req" bEmpty,
  pubChan "grpc:/drand.Public/ChainInfo:req" bEmpty,
  pubChan "grpc:/drand.Public/PublicRandStream:req" bEmpty,
  pubChan "grpc:/drand.Public/ListBeaconIDs:req" bEmpty,
  pubChan "grpc:/grpc.health.v1.Health/Check:req" bEmpty,
  -- the key file's self-signature is made once with the long-term key and then served as public data
  { label := "identity:self-signature", kind := .sign, build := bIdentity, which := .longterm, msg := mSelfSign },
  -- HTTP
  pubChan "http:/chains" bIds,
  pubChan "http:/health" bStatus,
  pubChan "http:/info" bChainInfo,
  pubChan "http:/public/latest" bRand,
  pubChan "http:/public/{round}" bRand,
  pubChan "http:/{hash}/info" bChainInfo,
  pubChan "http:/{hash}/health" bStatus,
  pubChan "http:/{hash}/public/latest" bRand,
  pubChan "http:/{hash}/public/{round}" bRand,
  pubChan "http:(other)" bError,
  -- logs
  pubChan "log:node" bLog,
  pubChan "log:process-stdout" bLog,
  -- gRPC status / trailers (error texts)
  pubChan "grpc-headers" bError,
  -- whole connection byte streams: a concatenation of the above
  { label := "netraw", kind := .mixed, build := bError }
]

/-- channel lookup by harness label. Requests made by the harness itself (control and public clients) and header
blocks are normalised first: see `normLabel`. -/
def findChan (label : String) : Option ChanSpec := channels.find? (·.label == label)

/-! ## 2. files -/

inductive Creator where
  | secureFile                 -- fs.CreateSecureFile: create, close, chmod rwFilePermission, reopen
  | plainCreate                -- os.Create: 0666 &^ umask
  | boltOpen (perm : Nat)      -- bolt.Open(path, perm): os.OpenFile(O_CREATE, perm) = perm &^ umask
  deriving DecidableEq, Repr

def notMask (umask : Nat) : Nat := 0o777 ^^^ (umask % 512)

/-- permission bits of a file created this way (it did not exist before) under `umask` -/
def modeAfter : Creator → Nat → Nat
  | .secureFile, _ => Gen.rwFilePermission
  | .plainCreate, u => 0o666 &&& notMask u
  | .boltOpen p, u => p &&& notMask u

structure FileClass where
  name : String
  relPath : String
  creator : Creator
  holdsSecret : Bool
  deriving DecidableEq, Repr

/-- a file of the key store: creator and secrecy follow the extracted `Save` call site for that field -/
def storeFile (name field : String) : Option FileClass :=
  match Gen.saveCallSites.find? (fun s => s.2.1 == field), Gen.fileStorePaths.lookup field with
  | some (_, _, tomler, secure), some p =>
    some ⟨name, "multibeacon/<id>/" ++ p, if secure then .secureFile else .plainCreate, Gen.secretTomlers.contains tomler⟩
  | _, _ => Option.none

/-- dkg.db holds secret material iff the value its writers encode (`DBState.TOML`) is a secret reader -/
def dkgDbHoldsSecret : Bool := Gen.secretTomlers.contains "internal/dkg:DBState.TOML" && !Gen.dkgStoreWriters.isEmpty

/-- the files below a node's folder, with the dkg.db open permission as a parameter (variant switch) -/
def fileTable (dkgPerm : Nat) : List FileClass :=
  [storeFile "private-key" "f.privateKeyFile", storeFile "public-key" "f.publicKeyFile",
   storeFile "group" "f.groupFile", storeFile "share" "f.shareFile"].filterMap id ++
  [⟨"dkg-db", Gen.dkgStoreFile, .boltOpen dkgPerm, dkgDbHoldsSecret⟩,
   ⟨"chain-db", "multibeacon/<id>/db/drand.db", .boltOpen Gen.chainBoltStoreOpenPerm, false⟩,
   ⟨"backup", "<BackupDBRequest.OutputFile>", .secureFile, false⟩]

/-- the table for the code as it is -/
def files : List FileClass := fileTable Gen.dkgBoltStoreOpenPerm

def asIsDkgPerm : Nat := 0o660
def fixedDkgPerm : Nat := 0o600

def ownerOnly (mode : Nat) : Prop := mode &&& 0o077 = 0
instance (m : Nat) : Decidable (ownerOnly m) := by unfold ownerOnly; infer_instance

/-! ### `fs.CreateSecureFile` + `key.Save`, step by step -/

structure FileSt where
  present : Bool
  mode : Nat
  content : Bytes
  deriving DecidableEq, Repr

inductive Step where
  | create            -- os.Create: O_RDWR|O_CREATE|O_TRUNC, 0666
  | close
  | chmod (m : Nat)
  | openRW            -- os.OpenFile(O_RDWR, perm): no O_CREATE, so perm is unused
  | write (d : Bytes)
  deriving DecidableEq, Repr

def stepOfLabel (s : String) : Option Step :=
  if s = "create" then some .create
  else if s = "close" then some .close
  else if s = "chmod:rwFilePermission" then some (.chmod Gen.rwFilePermission)
  else if s = "open:os.O_RDWR:rwFilePermission" then some .openRW
  else Option.none

/-- the statements of `fs.CreateSecureFile`, as extracted -/
def secureCreateSteps : List Step := Gen.createSecureFileSteps.filterMap stepOfLabel

def execStep (umask : Nat) (st : FileSt) : Step → FileSt
  | .create => if st.present then { st with content := [] } else ⟨true, 0o666 &&& notMask umask, []⟩
  | .close => st
  | .openRW => st
  | .chmod m => { st with mode := m }
  | .write d => { st with content := st.content ++ d }

/-- all states the file goes through -/
def trace (umask : Nat) : FileSt → List Step → List FileSt
  | _, [] => []
  | st, s :: t => let st' := execStep umask st s; st' :: trace umask st' t

/-- `key.Save(path, t, secure)`: creator, then the TOML encoding is written -/
def saveSteps (secure : Bool) (data : Bytes) : List Step :=
  (if secure then secureCreateSteps else [.create]) ++ [.write data]

/-! ### `key.Save` as a protocol on TWO files: the target and its temporary sibling

Variant switch (C13, DESIGN §2.5): `key.Save` either writes the target in place, or (after `fix: key files are
replaced atomically`) applies the same creator to `<target>.tmp`, writes the encoding there and renames it over the
target. The temporary file holds the secret too: it is a file of the secret class for as long as it exists. Which
variant the tree under test has is the regenerated pair `Gen.saveWritesTo` / `Gen.saveRenamesOverTarget`. -/

structure SaveSt where
  target : FileSt
  tmp : FileSt
  deriving DecidableEq, Repr

inductive SStep where
  | onTarget (s : Step)
  | onTmp (s : Step)
  | renameTmp            -- os.Rename(tmp, target): the target now is the inode that was tmp (mode and content), tmp is gone
  deriving DecidableEq, Repr

def noFile : FileSt := ⟨false, 0, []⟩

def execS (umask : Nat) (st : SaveSt) : SStep → SaveSt
  | .onTarget s => { st with target := execStep umask st.target s }
  | .onTmp s => { st with tmp := execStep umask st.tmp s }
  | .renameTmp => if st.tmp.present then ⟨st.tmp, noFile⟩ else st

def traceS (umask : Nat) : SaveSt → List SStep → List SaveSt
  | _, [] => []
  | st, s :: t => let st' := execS umask st s; st' :: traceS umask st' t

/-- `key.Save(path, t, secure)` in the variant that renames (`renames = true`) or writes in place -/
def saveProtocol (renames secure : Bool) (data : Bytes) : List SStep :=
  if renames then (saveSteps secure data).map .onTmp ++ [.renameTmp] else (saveSteps secure data).map .onTarget

/-- the protocol of the tree under test -/
def codeSaveProtocol (secure : Bool) (data : Bytes) : List SStep := saveProtocol Gen.saveRenamesOverTarget secure data

/-- a file that holds anything is owner-only -/
def FileSt.tight (f : FileSt) : Prop := f.content ≠ [] → ownerOnly f.mode
instance (f : FileSt) : Decidable f.tight := by unfold FileSt.tight; infer_instance

/-! ## 3. the scanner -/

def isInfixB (p : Bytes) : Bytes → Bool
  | [] => p.isEmpty
  | x :: t => p.isPrefixOf (x :: t) || isInfixB p t

def asciiHex (upper : Bool) (n : Nat) : UInt8 :=
  if n < 10 then UInt8.ofNat (48 + n) else UInt8.ofNat ((if upper then 55 else 87) + n)

def hexEnc (upper : Bool) (b : Bytes) : Bytes :=
  b.flatMap fun x => [asciiHex upper (x.toNat / 16), asciiHex upper (x.toNat % 16)]

/-- base64 alphabet index → ASCII -/
def b64Char (url : Bool) (n : Nat) : UInt8 :=
  if n < 26 then UInt8.ofNat (65 + n)
  else if n < 52 then UInt8.ofNat (97 + (n - 26))
  else if n < 62 then UInt8.ofNat (48 + (n - 52))
  else if n = 62 then (if url then 45 else 43)
  else (if url then 95 else 47)

def b64Enc (url pad : Bool) : Bytes → Bytes
  | [] => []
  | [a] => [b64Char url (a.toNat / 4), b64Char url (a.toNat % 4 * 16)] ++ (if pad then [61, 61] else [])
  | [a, b] => [b64Char url (a.toNat / 4), b64Char url (a.toNat % 4 * 16 + b.toNat / 16), b64Char url (b.toNat % 16 * 4)] ++
      (if pad then [61] else [])
  | a :: b :: c :: t => b64Char url (a.toNat / 4) :: b64Char url (a.toNat % 4 * 16 + b.toNat / 16) ::
      b64Char url (b.toNat % 16 * 4 + c.toNat / 64) :: b64Char url (c.toNat % 64) :: b64Enc url pad t

/-- the encodings of a secret the property statement names -/
def encodings (s : Bytes) : List (String × Bytes) :=
  [("raw", s), ("hex", hexEnc false s), ("HEX", hexEnc true s),
   ("b64", b64Enc false true s), ("b64-nopad", b64Enc false false s),
   ("b64url", b64Enc true true s), ("b64url-nopad", b64Enc true false s)]

/-- first encoding of `s` found inside `blob` -/
def leak (s blob : Bytes) : Option String :=
  ((encodings s).find? fun e => isInfixB e.2 blob).map (·.1)

/-! ## 4. who may touch secret fields -/

/-- The functions that are allowed to read secret-bearing fields, each with the reason.
A new entry in `Gen.secretReaders` re-opens `c15_readers_allowed`. -/
def allowedReaders : List String := [
  "common/key:Pair.FromTOML",                  -- parses the private key file into Pair.Key (inbound)
  "common/key:Pair.SelfSign",                  -- signs the identity with the long-term key: output is a signature
  "common/key:Pair.TOML",                      -- serialises the private key; only caller that writes it is Save(secure=true)
  "common/key:Share.FromTOML",                 -- parses the share file / dkg.db entry (inbound)
  "common/key:Share.PrivateShare",             -- accessor used by Vault.SignPartial only
  "common/key:Share.TOML",                     -- serialises the share; written by Save(secure=true) and into dkg.db
  "crypto/vault:Vault.Index",                  -- reads Share.Share.I, the PUBLIC index, never V
  "crypto/vault:Vault.SignPartial",            -- threshold-signs a beacon digest: output is a partial signature
  "internal/core:BeaconProcess.joinNetwork",   -- hands dkgOutput.New.KeyShare to storeDKGOutput / the beacon handler
  "internal/core:BeaconProcess.transitionToNext", -- same, for a reshare
  "internal/core:DrandDaemon.reconcileKeyFiles", -- (reconciling start-up only) hands the record's KeyShare to store.SaveShare = Save(secure=true); what it compares is share.Public(), the commitments
  "internal/dkg:DBState.Complete",             -- stores the handle of the new share in the state
  "internal/dkg:DBState.Equals",               -- reflect.DeepEqual of two states, result is a Bool
  "internal/dkg:DBState.TOML",                 -- serialises the state for dkg.db
  "internal/dkg:DBStateTOML.FromTOML",         -- parses a dkg.db entry (inbound)
  "internal/dkg:Process.LastCompleted",        -- (reconciling start-up only) hands the KeyShare handle of the finished record to the daemon's start-up path
  "internal/dkg:Process.executeAndFinishDKG",  -- passes output.KeyShare to DBState.Complete
  "internal/dkg:Process.initialDKGConfig",     -- gives the long-term key to kyber's dkg.Config.Longterm
  "internal/dkg:Process.reshareDKGConfig",     -- gives long-term key and previous share to kyber's dkg.Config
  "internal/dkg:Process.signMessage",          -- signs a gossip packet with the long-term key
  "internal/dkg:Process.startDKGExecution",    -- wraps kyber's result (Result.Key) into a key.Share
  "internal/dkg:justifToProto",                -- kyber Justification.Share: a dealer's revealed sub-share, public by protocol
  "internal/dkg:protoToJustif"                 -- the inbound direction of the same wire field
]

/-- the readers that exist only on a tree whose start-up path reconciles the key files with the completed DKG record
(reports/crash2_fix_1.diff; `Gen.startupVariant`, C13) -/
def reconcileReaders : List String := ["internal/core:DrandDaemon.reconcileKeyFiles", "internal/dkg:Process.LastCompleted"]

end Drand.Secrecy
