/- Sorted association lists keyed by round: the abstract content of a bolt bucket whose keys are
8-byte big-endian rounds (bbolt iterates keys in ascending byte order = ascending round order). -/
namespace Drand.Store

variable {α : Type}

def insert (k : Nat) (v : α) : List (Nat × α) → List (Nat × α)
  | [] => [(k, v)]
  | (k', v') :: t =>
    if k < k' then (k, v) :: (k', v') :: t
    else if k = k' then (k, v) :: t
    else (k', v') :: insert k v t

def erase (k : Nat) : List (Nat × α) → List (Nat × α)
  | [] => []
  | (k', v') :: t => if k = k' then t else (k', v') :: erase k t

def lookup (k : Nat) : List (Nat × α) → Option α
  | [] => none
  | (k', v') :: t => if k = k' then some v' else lookup k t

/-- index of the first entry whose key is ≥ k (bbolt `Cursor.Seek`) -/
def seekIdx (k : Nat) : List (Nat × α) → Nat
  | [] => 0
  | (k', _) :: t => if k ≤ k' then 0 else seekIdx k t + 1

def keys (l : List (Nat × α)) : List Nat := l.map (·.1)

/-- strictly ascending keys -/
def Sorted : List (Nat × α) → Prop
  | [] => True
  | [_] => True
  | (k, _) :: (k', v') :: t => k < k' ∧ Sorted ((k', v') :: t)

end Drand.Store
