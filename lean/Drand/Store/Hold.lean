/-
Reads return *values*.                                                                         (C18, inherited by C01/C02/C10/C11)

Every read path of a back-end (`Get`, `Last`, the four cursor moves) hands the caller a `*common.Beacon`; the caller keeps
using it after the read returned (PublicRand marshals it, the HTTP proxy hashes its signature, CheckPastBeacons verifies
it) while the aggregator and the sync manager keep writing. In the model a read result is a Lean value, so it cannot
change; this file makes that obligation explicit so that it is *stated* (theorem `c18_read_is_snapshot`) and *driven*
against the implementation (engine `store`, ops `hold` / `cmp`): the Go value a read returned must stay byte-identical to
what it was when the read returned, whatever is written later.

`Backend σ` is the read/write interface the three models (untrimmed bolt, trimmed bolt, memdb) share.
A read-only cursor session is a list of moves inside one `Cursor(ctx, fn)` call; its value is what the last move returned.
-/
import Drand.Store.Mem
namespace Drand.Store

/-! ### read-only cursor sessions, per back-end -/

def Bolt.session (s : BoltState) (ops : List CurOp) : List Read :=
  (ops.foldl (fun (acc : Cursor Beacon × List Read) op =>
    let (c', r) := Bolt.cursorStep acc.1 op; (c', r :: acc.2)) (⟨s, none⟩, [])).2.reverse

def Trimmed.session (s : TrimmedState) (ops : List CurOp) : List Read :=
  (ops.foldl (fun (acc : Cursor Bytes × List Read) op =>
    let (c', r) := Trimmed.cursorStep s.requiresPrevious acc.1 op; (c', r :: acc.2)) (⟨s.kv, none⟩, [])).2.reverse

/-- memdb: `pos` starts at 0 (`&memDBCursor{s: s}`) -/
def Mem.session (s : MemState) (ops : List CurOp) : List Read :=
  (ops.foldl (fun (acc : Nat × List Read) op =>
    let (p', r) := Mem.cursorStep s acc.1 op; (p', r :: acc.2)) (0, [])).2.reverse

/-- what a caller can ask a store for -/
inductive ReadReq where
  | get (r : Nat)
  | last
  /-- a read-only cursor session; the value is what its last move returned -/
  | cursor (ops : List CurOp)
  deriving Repr

def lastRead (l : List Read) : Read := l.getLast?.getD .noBeacon

/-- the interface shared by the three back-end models -/
structure Backend (σ : Type) where
  put : σ → Beacon → σ
  del : σ → Nat → σ
  read : σ → ReadReq → Read

def boltBackend : Backend BoltState where
  put := Bolt.put
  del := Bolt.del
  read s
    | .get r => Bolt.get s r
    | .last => Bolt.last s
    | .cursor ops => lastRead (Bolt.session s ops)

def trimmedBackend : Backend TrimmedState where
  put := Trimmed.put
  del := Trimmed.del
  read s
    | .get r => Trimmed.get s r
    | .last => Trimmed.last s
    | .cursor ops => lastRead (Trimmed.session s ops)

def memBackend : Backend MemState where
  put := Mem.put
  del := Mem.del
  read s
    | .get r => Mem.get s r
    | .last => Mem.last s
    | .cursor ops => lastRead (Mem.session s ops)

/-! ### a store together with the values its callers still hold -/

structure Held (σ : Type) where
  store : σ
  /-- slot ↦ the value a read returned, newest binding first -/
  slots : List (Nat × Read)

inductive HOp where
  | put (b : Beacon)
  | del (r : Nat)
  /-- a caller performs the read and keeps the result in `slot` -/
  | hold (slot : Nat) (rq : ReadReq)

def Held.step {σ : Type} (B : Backend σ) (h : Held σ) : HOp → Held σ
  | .put b => { h with store := B.put h.store b }
  | .del r => { h with store := B.del h.store r }
  | .hold k rq => { h with slots := (k, B.read h.store rq) :: h.slots }

def Held.run {σ : Type} (B : Backend σ) (h : Held σ) (ops : List HOp) : Held σ := ops.foldl (Held.step B) h

/-- what the caller holding `slot` sees when it looks at its value now -/
def Held.slot {σ : Type} (h : Held σ) (k : Nat) : Option Read := h.slots.lookup k

/-! ### `Put` under a context

A bolt `Put` checks its context on entry and (untrimmed) once more inside the write transaction; memdb ignores the
context. Whether a `Put` whose context is cancelled around the call succeeds is decided by the scheduler — the model takes
the answer (`ok`) as given and fixes what the state must be: answered ok ⇒ written, answered with an error ⇒ nothing
written. -/
def Backend.putCtx {σ : Type} (B : Backend σ) (s : σ) (b : Beacon) (ok : Bool) : σ := if ok then B.put s b else s

end Drand.Store
