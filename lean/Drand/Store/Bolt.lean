/- Model of internal/chain/boltdb: the untrimmed store (value = whole JSON beacon) and the trimmed
store (value = signature only; previous signature reconstructed from round-1 when the context
requires it). A cursor session runs inside one bbolt read transaction: it sees a snapshot. -/
import Drand.Basic
import Drand.Store.Assoc
namespace Drand.Store

inductive Read where
  | ok (b : Beacon)
  | noBeacon
  deriving DecidableEq, Repr

def Read.show : Read → String
  | .ok b => b.show
  | .noBeacon => "none"

/-! ### untrimmed -/
abbrev BoltState := List (Nat × Beacon)

def Bolt.put (s : BoltState) (b : Beacon) : BoltState := insert b.round b s
def Bolt.get (s : BoltState) (r : Nat) : Read :=
  match lookup r s with | some b => .ok b | none => .noBeacon
def Bolt.last (s : BoltState) : Read :=
  match s.getLast? with | some (_, b) => .ok b | none => .noBeacon
def Bolt.del (s : BoltState) (r : Nat) : BoltState := erase r s
def Bolt.len (s : BoltState) : Nat := s.length

/-- cursor over a snapshot; `pos = none` is "not positioned / exhausted" -/
structure Cursor (α : Type) where
  snap : List (Nat × α)
  pos : Option Nat

inductive CurOp where
  | first | next | last | seek (r : Nat)
  deriving DecidableEq, Repr

/-- raw bbolt cursor movement: new position and the key/value found there -/
def Cursor.move {α : Type} (c : Cursor α) (op : CurOp) : Cursor α × Option (Nat × α) :=
  let p : Option Nat :=
    match op with
    | .first => if c.snap.isEmpty then none else some 0
    | .last => if c.snap.isEmpty then none else some (c.snap.length - 1)
    | .next => match c.pos with
      | some i => if i + 1 < c.snap.length then some (i + 1) else none
      | none => none
    | .seek r => let i := seekIdx r c.snap; if i < c.snap.length then some i else none
  ({ c with pos := p }, match p with | some i => c.snap[i]? | none => none)

def Bolt.cursorStep (c : Cursor Beacon) (op : CurOp) : Cursor Beacon × Read :=
  let (c', kv) := c.move op
  (c', match kv with | some (_, b) => .ok b | none => .noBeacon)

/-! ### trimmed -/
structure TrimmedState where
  requiresPrevious : Bool
  kv : List (Nat × Bytes)

def Trimmed.put (s : TrimmedState) (b : Beacon) : TrimmedState := { s with kv := insert b.round b.sig s.kv }
def Trimmed.del (s : TrimmedState) (r : Nat) : TrimmedState := { s with kv := erase r s.kv }
def Trimmed.len (s : TrimmedState) : Nat := s.kv.length

/-- `getBeacon(round, canFetchPrevious)` -/
def Trimmed.getBeacon (rp : Bool) (kv : List (Nat × Bytes)) (r : Nat) (canFetchPrevious : Bool) : Read :=
  match lookup r kv with
  | none => .noBeacon
  | some sig =>
    if canFetchPrevious && rp && decide (r > 0) then
      match lookup (r - 1) kv with
      | none => .noBeacon
      | some p => .ok ⟨r, sig, p⟩
    else .ok ⟨r, sig, []⟩

def Trimmed.get (s : TrimmedState) (r : Nat) : Read := Trimmed.getBeacon s.requiresPrevious s.kv r true

/-- `getCursorBeacon`: the beacon is labelled with the key the cursor found -/
def Trimmed.ofKV (rp : Bool) (kv : List (Nat × Bytes)) (found : Option (Nat × Bytes)) : Read :=
  match found with
  | none => .noBeacon
  | some (k, sig) =>
    if rp && decide (k > 0) then
      match Trimmed.getBeacon rp kv (k - 1) false with
      | .ok pb => .ok ⟨k, sig, pb.sig⟩
      | .noBeacon => .noBeacon
    else .ok ⟨k, sig, []⟩

def Trimmed.last (s : TrimmedState) : Read := Trimmed.ofKV s.requiresPrevious s.kv s.kv.getLast?

def Trimmed.cursorStep (rp : Bool) (c : Cursor Bytes) (op : CurOp) : Cursor Bytes × Read :=
  let (c', kv) := c.move op
  (c', Trimmed.ofKV rp c.snap kv)

end Drand.Store
