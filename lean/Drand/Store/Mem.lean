/- Model of internal/chain/memdb: a sorted slice bounded by `bufferSize`; `Put` keeps an existing round;
the cursor is a *live* positional index into the slice (no snapshot). -/
import Drand.Basic
import Drand.Store.Bolt
namespace Drand.Store

structure MemState where
  cap : Nat
  store : List Beacon

/-- ordered insert by round (the Go code appends and re-sorts when the new round is below the last) -/
def Mem.ins (b : Beacon) : List Beacon → List Beacon
  | [] => [b]
  | x :: t => if b.round < x.round then b :: x :: t else x :: Mem.ins b t

def Mem.put (s : MemState) (b : Beacon) : MemState :=
  if s.store.any (·.round == b.round) then s
  else
    let l := Mem.ins b s.store
    { s with store := if l.length > s.cap then l.drop (l.length - s.cap) else l }

def Mem.get (s : MemState) (r : Nat) : Read :=
  match s.store.find? (·.round == r) with | some b => .ok b | none => .noBeacon
def Mem.last (s : MemState) : Read :=
  match s.store.getLast? with | some b => .ok b | none => .noBeacon
def Mem.del (s : MemState) (r : Nat) : MemState :=
  match s.store.findIdx? (·.round == r) with
  | some i => { s with store := s.store.eraseIdx i }
  | none => s
def Mem.len (s : MemState) : Nat := s.store.length

/-- positional cursor: `pos` survives across mutations of the slice, exactly as in the Go code -/
def Mem.cursorStep (s : MemState) (pos : Nat) (op : CurOp) : Nat × Read :=
  match op with
  | .first => if s.store.isEmpty then (pos, .noBeacon) else
      (0, match s.store[0]? with | some b => .ok b | none => .noBeacon)
  | .next =>
    if s.store.isEmpty then (pos, .noBeacon)
    else
      let p := pos + 1
      if p ≥ s.store.length then (p, .noBeacon)
      else (p, match s.store[p]? with | some b => .ok b | none => .noBeacon)
  | .seek r =>
    match s.store.findIdx? (·.round == r) with
    | some i => (i, match s.store[i]? with | some b => .ok b | none => .noBeacon)
    | none => (pos, .noBeacon)
  | .last => if s.store.isEmpty then (pos, .noBeacon) else
      (s.store.length - 1, match s.store.getLast? with | some b => .ok b | none => .noBeacon)

end Drand.Store
