import DrandProofs.C16
import DrandProofs.C17
import DrandProofs.C18
import DrandProofs.C02
import DrandProofs.C11
import DrandProofs.C12
