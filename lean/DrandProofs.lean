import DrandProofs.C16
