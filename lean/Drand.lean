import Drand.Time
import Drand.Driver.Time
