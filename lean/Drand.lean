import Drand.Basic
import Drand.Time
import Drand.Store.Mem
import Drand.Driver.Time
import Drand.Driver.Store
import Drand.Codec.Hash
import Drand.Driver.Hash
