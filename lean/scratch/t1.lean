import DrandProofs.C10
namespace Drand.Beacon.Sync
open Drand Drand.Store Drand.Chain

def cxVerify (b : Beacon) : Bool := b.sig == [1, UInt8.ofNat b.round]
def cxCfg : Cfg := { verify := cxVerify, lastErr := fun _ => false, mode := .follow, roundCheck := false, rangeCheck := false, followRetry := false }
def cxNode : Node := ⟨Stack.init false [0, 0], [], []⟩
def cxLiar : Peer := ⟨"liar", fun from_ => .stream [.pkt ⟨from_ + 5, [1, UInt8.ofNat (from_ + 5)], []⟩ true]⟩

example : ((sync cxCfg "self" 0 9 false cxNode [cxLiar]).1.st.base.map (·.1)) = [0, 6] := by decide
example : ((sync cxCfg "self" 0 9 false cxNode [cxLiar]).1.writes.map (·.stored.round)) = [6] := by decide
end Drand.Beacon.Sync
