/-
C11 — a beacon stream delivers every round once, in order, from the requested round.
Model: Drand/Beacon/Stream.lean (`beacon.SyncChain` as a small-step machine; protocol `SyncChain` and public
`PublicRandStream` both run it).

Full statement (`c11_exact`): for every schedule of store appends and stream steps, a stream from round r hands the client
exactly the stored beacons r, r+1, r+2, … (first from the store, then live), each once, in order, each equal to the stored one.

  * the code as it is (`Handover.asIs`) does NOT satisfy it:
      `c11_gap_counterexample`          bolt: a beacon appended after the cursor's read transaction was opened and before
                                        `AddCallback` is in neither phase (4 stream steps, 2 appends) — the TODO in the source
      `c11_memdb_shift_counterexample`  memdb, full ring: an append during the scan shifts the slice under the positional
                                        cursor, `Next` skips a round — even with no append between scan and registration
      `c11_memdb_evicted_counterexample` memdb: a start round that has left the ring is not refused, `Seek` misses, the
                                        stored rounds above it are never sent
      `c11_detach_counterexample`       two streams under one callback id: the older one's `RemoveCallback(id)` removes the
                                        newer one's callback, which then gets nothing more and never ends
    what does hold for it:
      `c11_scan_exact`      the scan phase sends exactly the snapshot's beacons ≥ r, ascending, each the stored one
      `c11_live_fifo`       after `AddCallback`: exactly the beacons appended since, in append order, each once
      `c11_no_repeat`       no round is ever sent twice, rounds only go up — every schedule, bolt and memdb
      `c11_sent_stored`     (bolt) every beacon sent is the stored beacon of its round
      `c11_exact_partial`   no append between ScanOpen and Register  ⇒  sent ++ queued = all stored beacons ≥ r, in order
  * the corrected variant (`Handover.tracked`: remember the next round, drop what was sent, fill gaps from the store):
      `c11_exact_tracked`   every schedule, both back-ends: rounds sent are r, r+1, r+2, … without gap or repeat
                            (that such a stream, once live and drained, has reached the head is not proved here; it is
                            observed by the differential run of the repaired code against this variant)
-/
import Drand.Beacon.Stream
import Gen.Callback
import DrandProofs.C18
import DrandProofs.C02

namespace Drand.Beacon.Stream
open Drand Drand.Store

/-! ### ties to the regenerated facts: the order of store/cursor calls inside `SyncChain` -/

/-- `Last`, then (inside `Cursor`) `Seek(fromRound)` / `Next`, and only then `AddCallback`; `RemoveCallback(id)` on a
failed live `Send` and on `ctx.Done` — or (`Gen.syncChainRemovesOwnOnly`, reports/cb_fix_2.diff) the deferred remover of
the stream's own registration, which go2lean checks separately (`remove := store.AddStreamCallback(…)`; `defer remove()`) -/
theorem tie_syncchain_calls :
    Gen.syncChainCalls = ["store.Last(ctx)", "store.Cursor(ctx,func{…})", "c.Seek(ctx,fromRound)", "c.Next(ctx)",
      (if Gen.syncChainRegistersStream then "store.AddStreamCallback(id,func{…})" else "store.AddCallback(id,func{…})")] ++
      (if Gen.syncChainRemovesOwnOnly then [] else ["store.RemoveCallback(id)", "store.RemoveCallback(id)"]) ∧
    Gen.syncChainScanLoop = "bb!=nil;bb,err=c.Next(ctx)" := by decide

/-- the refusal check and the `fromRound != 0` guard around the scan -/
theorem tie_syncchain_guards : Gen.syncChainGuards = ["err!=nil", "last.Round<fromRound", "fromRound!=0"] := by decide

/-- the model's `put` queues the beacon for every attached stream unconditionally (`Strm.onPut` appends to an unbounded
list): that is `callbackStore.Put` as long as its dispatch is a plain channel send — which waits for room in the
job queue (C12's concern) but never skips a callback. A `select` with a `default` branch that merely went on would drop
the beacon for a stream whose queue is full, and `c11_live_fifo` would no longer speak about the code: go2lean refuses
that shape. The one other shape it accepts is the repaired store, whose `default` branch ENDS the stream (`Strm.onPutR`;
DrandProofs/C11R.lean shows that every run with it is a run of this machine with a `replaced` event at that point). -/
theorem tie_dispatch_lossless :
    (Gen.callbackPutDispatchBlocking = true ∨ Gen.callbackOverflowEndsConsumer = true) ∧ Gen.callbackPutBaseFirst = true := by decide

/-! ### the witnesses (replayed on the real SyncChain: corpus/C11/*.json) -/

def tb (r : Nat) : Beacon := ⟨r, [UInt8.ofNat r], if r = 0 then [] else [UInt8.ofNat (r - 1)]⟩
def boltOf (n : Nat) : Store := (List.range (n + 1)).foldl (fun st r => st.put (tb r)) (.bolt [])
def memOf (cap n : Nat) : Store := (List.range (n + 1)).foldl (fun st r => st.put (tb r)) (.mem ⟨cap, []⟩)
def roundsOf (l : List Beacon) : List Nat := l.map (·.round)
def jobRounds (q : List Job) : List Nat := q.filterMap fun | .beacon b => some b.round | .close => none

/-- **Hand-over gap (bolt).** Store holds 0..2; stream from 1. The scan's read transaction is opened, round 3 is appended,
the scan finishes (it sees the snapshot 0..2), the callback is registered, round 4 is appended and delivered:
the client gets 1, 2, 4 — round 3 is stored (`get 3` answers) but is never sent and nothing is queued. -/
theorem c11_gap_counterexample :
    let x := Sys.run .asIs ⟨boltOf 2, { frm := 1 }⟩
      [.start, .scanOpen, .put (tb 3), .scanNext, .scanNext, .register, .put (tb 4), .deliver]
    roundsOf x.s.sent = [1, 2, 4] ∧ x.s.queue = [] ∧ x.store.get 3 = .ok (tb 3) ∧ x.s.attached = true := by decide

/-- the same with the append between the closing of the cursor and `AddCallback` -/
theorem c11_gap_counterexample_after_scan :
    let x := Sys.run .asIs ⟨boltOf 2, { frm := 2 }⟩ [.start, .scanOpen, .scanNext, .put (tb 3), .register, .put (tb 4), .deliver]
    roundsOf x.s.sent = [2, 4] ∧ x.s.queue = [] ∧ x.store.get 3 = .ok (tb 3) := by decide

/-- **Cursor shift (memdb, full ring).** Capacity 10 holding 0..9; stream from 5. After the first `Send` (round 5, position 5)
round 10 is appended: round 0 is dropped, every beacon moves one position down, `Next` reads position 6 = round 7.
No append happens between the end of the scan and `AddCallback`, and still round 6 is never sent. -/
theorem c11_memdb_shift_counterexample :
    let x := Sys.run .asIs ⟨memOf 10 9, { frm := 5 }⟩
      [.start, .scanOpen, .put (tb 10), .scanNext, .scanNext, .scanNext, .scanNext, .scanNext, .register]
    roundsOf x.s.sent = [5, 7, 8, 9, 10] ∧ x.store.get 6 = .ok (tb 6) ∧ (match x.s.phase with | .live => true | _ => false) = true := by decide

/-- **Evicted start round (memdb).** Capacity 10 holding 2..11; a stream from 1 is not refused (11 ≥ 1), `Seek(1)` finds
nothing, the error is swallowed and the stream goes live: the first beacon the client sees is 12 (3..11 are still stored). -/
theorem c11_memdb_evicted_counterexample :
    let x := Sys.run .asIs ⟨memOf 10 11, { frm := 1 }⟩ [.start, .scanOpen, .register, .put (tb 12), .deliver]
    roundsOf x.s.sent = [12] ∧ x.store.get 3 = .ok (tb 3) ∧ x.store.get 11 = .ok (tb 11) := by decide

/-- **Stale RemoveCallback.** Streams a and b come from one address (one callback id). a is live, b registers (a gets the
close signal queued behind round 4), a's `Send` of round 4 fails: its `RemoveCallback(id)` removes b's callback.
Rounds 6 and 7 are appended: b is still in its live phase, is no longer attached, has nothing queued and has sent only 5. -/
theorem c11_detach_counterexample :
    let n0 : Net := ⟨memOf 16 3, [⟨"a", "8.8.8.8:1001", { frm := 0 }⟩, ⟨"b", "8.8.8.8:1001", { frm := 0 }⟩]⟩
    let n := ((((((((((n0.own .asIs "a" .start).own .asIs "a" .register).put (tb 4)).own .asIs "b" .start).own .asIs "b" .register).put (tb 5)).own
      .asIs "a" .sendFail).put (tb 6)).put (tb 7)).own .asIs "b" .deliver).own .asIs "b" .deliver
    (n.streams.map fun e => (e.sid, roundsOf e.s.sent, e.s.attached, jobRounds e.s.queue,
        (match e.s.phase with | .live => "live" | .done .sendError => "send-error" | _ => "other"))) =
      [("a", [4], false, [], "send-error"), ("b", [5], false, [], "live")] ∧ n.store.head = 7 := by decide

/-! ### the scan phase (bolt) -/

variable {α : Type}

private theorem sorted_tail' {a : Nat × α} {t : List (Nat × α)} (h : Sorted (a :: t)) : Sorted t := by
  cases t with
  | nil => trivial
  | cons b t => obtain ⟨k, v⟩ := a; obtain ⟨k', v'⟩ := b; exact h.2

private theorem sorted_lt_of_mem {k : Nat} {v : α} {t : List (Nat × α)} (h : Sorted ((k, v) :: t)) (p : Nat × α) (hp : p ∈ t) : k < p.1 := by
  induction t generalizing k v with
  | nil => cases hp
  | cons b t ih =>
    obtain ⟨k', v'⟩ := b
    rcases List.mem_cons.mp hp with rfl | hp
    · exact h.1
    · exact Nat.lt_trans h.1 (ih h.2 hp)

/-- on a sorted snapshot, what lies from the `Seek k` position on is exactly what has a key ≥ k -/
theorem drop_seekIdx (l : List (Nat × α)) (h : Sorted l) (k : Nat) :
    l.drop (seekIdx k l) = l.filter (fun p => decide (k ≤ p.1)) := by
  induction l with
  | nil => rfl
  | cons a t ih =>
    obtain ⟨k', v'⟩ := a
    unfold seekIdx
    split
    · rename_i hk
      have : ∀ p ∈ (k', v') :: t, decide (k ≤ p.1) = true := by
        intro p hp
        rcases List.mem_cons.mp hp with rfl | hp
        · simpa using hk
        · have := sorted_lt_of_mem h p hp; simp; omega
      simp [List.filter_eq_self.mpr this]
    · rename_i hk
      simp [hk, ih (sorted_tail' h)]

def scanOut (bs : BoltState) (frm : Nat) : List Beacon := (bs.filter (fun p => decide (frm ≤ p.1))).map (·.2)

/-- what the bolt scan has sent, by phase -/
def ScanInv (bs : BoltState) (frm : Nat) (s : Strm) : Prop :=
  match s.phase with
  | .scanning (.bolt c) => c.snap = bs ∧ ∃ j, c.pos = some j ∧ seekIdx frm bs ≤ j ∧ j < bs.length ∧
        s.sent = ((bs.drop (seekIdx frm bs)).take (j + 1 - seekIdx frm bs)).map (·.2)
  | .scanning (.mem _) => False
  | .scanned => s.sent = scanOut bs frm
  | .live => ∃ l, s.sent = scanOut bs frm ++ l
  | .done _ => True
  | .idle => False
  | .started => False

private theorem scanInv_open (bs : BoltState) (hb : Sorted bs) (s : Strm) (hs : s.phase = .started) (hsent : s.sent = []) :
    ScanInv bs s.frm (s.scanOpen .asIs (.bolt bs)) := by
  unfold Strm.scanOpen
  simp only [hs, Bolt.cursorStep, Cursor.move]
  by_cases hi : seekIdx s.frm bs < bs.length
  · simp only [hi, if_true]
    have hget : bs[seekIdx s.frm bs]? = some bs[seekIdx s.frm bs] := by simp [hi]
    rw [hget]
    simp only [emit, ScanInv]
    refine ⟨trivial, seekIdx s.frm bs, rfl, Nat.le_refl _, hi, ?_⟩
    have h1 : seekIdx s.frm bs + 1 - seekIdx s.frm bs = 1 := by omega
    rw [h1, hsent, List.take_one, List.head?_drop, hget]
    rfl
  · simp only [hi, if_false, ScanInv]
    rw [hsent, scanOut, ← drop_seekIdx bs hb]
    simp [List.drop_eq_nil_of_le (Nat.le_of_not_lt hi)]

private theorem phase_onPut (s : Strm) (b : Beacon) : (s.onPut b).phase = s.phase ∧ (s.onPut b).sent = s.sent ∧ (s.onPut b).frm = s.frm := by
  unfold Strm.onPut; split <;> simp

private theorem scanInv_step (bs : BoltState) (hb : Sorted bs) (frm : Nat) (x : Sys) (e : Ev) (h : ScanInv bs frm x.s) :
    ScanInv bs frm (Sys.step .asIs x e).s := by
  cases e with
  | put b =>
    have := phase_onPut x.s b
    simp only [Sys.step]
    unfold ScanInv at h ⊢
    rw [this.1, this.2.1]; exact h
  | start =>
    simp only [Sys.step, Strm.start]
    split
    · rename_i hp; simp [ScanInv, hp] at h
    · exact h
  | scanOpen =>
    simp only [Sys.step, Strm.scanOpen]
    split
    · rename_i hp; simp [ScanInv, hp] at h
    · exact h
  | scanNext =>
    simp only [Sys.step, Strm.scanNext]
    split
    · rename_i c hp
      simp only [ScanInv, hp] at h
      obtain ⟨hsnap, j, hpos, hij, hjl, hsent⟩ := h
      obtain ⟨snap, pos⟩ := c
      simp only at hsnap hpos
      subst hsnap; subst hpos
      simp only [Bolt.cursorStep, Cursor.move]
      by_cases hn : j + 1 < snap.length
      · simp only [hn, if_true]
        have hget : snap[j + 1]? = some snap[j + 1] := by simp [hn]
        rw [hget]
        simp only [emit, ScanInv]
        refine ⟨trivial, j + 1, rfl, by omega, hn, ?_⟩
        rw [hsent]
        have h2 : j + 1 + 1 - seekIdx frm snap = (j + 1 - seekIdx frm snap) + 1 := by omega
        rw [h2, List.take_succ, List.map_append]
        congr 1
        have h3 : seekIdx frm snap + (j + 1 - seekIdx frm snap) = j + 1 := by omega
        simp [List.getElem?_drop, h3, hget]
      · simp only [hn, if_false, ScanInv]
        rw [hsent, scanOut, ← drop_seekIdx snap hb]
        congr 1
        apply List.take_of_length_le
        simp; omega
    · rename_i p hp; simp [ScanInv, hp] at h
    · exact h
  | register =>
    simp only [Sys.step, Strm.register]
    split
    · rename_i hp
      simp only [ScanInv, hp] at h
      simp [ScanInv, h]
    · exact h
  | deliver =>
    simp only [Sys.step, Strm.deliver]
    split
    · rename_i hp
      simp only [ScanInv, hp] at h
      obtain ⟨l, hl⟩ := h
      split
      · simp [ScanInv, hp, hl]
      · rename_i b q hq
        simp only [emit, ScanInv, hp]; exact ⟨l ++ [b], by simp [hl]⟩
      · simp [ScanInv]
    · exact h
  | replaced =>
    simp only [Sys.step, Strm.replaced]
    split
    · unfold ScanInv at h ⊢; exact h
    · exact h
  | detached => simp only [Sys.step, Strm.detached]; unfold ScanInv at h ⊢; exact h
  | cancel =>
    simp only [Sys.step, Strm.cancel]
    split
    · exact h
    · rename_i hp; simp [ScanInv, hp] at h
    · simp [ScanInv]
  | sendFail =>
    simp only [Sys.step, Strm.sendFail]
    split
    · simp [ScanInv]
    · split
      · exact h
      · simp [ScanInv]
      · simp [ScanInv]
    · exact h


/-- **C11, scan phase (bolt, code as it is).** Open the cursor on a store `bs` (sorted, each entry labelled with its own
round) for a stream from round `frm`; then, after ANY sequence of further events — appends, steps of this stream, actions
of the environment — the stream has, while it scans, sent a non-empty prefix of the snapshot's entries with round ≥ frm,
once the cursor is closed exactly all of them (`scanOut bs frm`), ascending and each equal to the stored beacon, and in
the live phase that list followed by live deliveries. Appends made after the cursor was opened are not among them. -/
theorem c11_scan_exact (bs : BoltState) (hb : BoltInv bs) (s : Strm) (hs : s.phase = .started) (hsent : s.sent = [])
    (es : List Ev) :
    ScanInv bs s.frm (Sys.run .asIs (Sys.step .asIs ⟨.bolt bs, s⟩ .scanOpen) es).s := by
  have h0 : ScanInv bs s.frm (Sys.step .asIs ⟨.bolt bs, s⟩ .scanOpen).s := scanInv_open bs hb.1 s hs hsent
  generalize Sys.step .asIs ⟨.bolt bs, s⟩ .scanOpen = x at h0
  induction es generalizing x with
  | nil => exact h0
  | cons e es ih => exact ih _ (scanInv_step bs hb.1 s.frm x e h0)

/-- what the scan sends is a sub-list of the snapshot: every beacon is the stored beacon of its round, rounds ascend -/
theorem c11_scan_out_stored (bs : BoltState) (hb : BoltInv bs) (frm : Nat) :
    (∀ b ∈ scanOut bs frm, Bolt.get bs b.round = .ok b ∧ frm ≤ b.round) ∧
    (∀ r b, Bolt.get bs r = .ok b → frm ≤ r → b ∈ scanOut bs frm) := by
  constructor
  · intro b hbm
    simp only [scanOut, List.mem_map, List.mem_filter, decide_eq_true_eq] at hbm
    obtain ⟨p, ⟨hp, hge⟩, rfl⟩ := hbm
    have hl := hb.2 p hp
    refine ⟨?_, by omega⟩
    have : lookup p.2.round bs = some p.2 := by
      rw [hl]
      clear hge hl
      have hs := hb.1
      induction bs with
      | nil => cases hp
      | cons a t ih =>
        obtain ⟨k, v⟩ := a
        rcases List.mem_cons.mp hp with rfl | hp
        · simp [lookup]
        · have hlt := sorted_lt_of_mem hs p hp
          have : ¬ p.1 = k := by omega
          simp only [lookup, this, if_false]
          exact ih ⟨sorted_tail' hs, fun q hq => hb.2 q (List.mem_cons_of_mem _ hq)⟩ hp (sorted_tail' hs)
    simp [Bolt.get, this]
  · intro r b hg hge
    simp only [Bolt.get] at hg
    cases hl : lookup r bs with
    | none => simp [hl] at hg
    | some b' =>
      simp [hl] at hg; subst hg
      have hm : (r, b') ∈ bs := by
        clear hge hb
        induction bs with
        | nil => simp [lookup] at hl
        | cons a t ih =>
          obtain ⟨k, v⟩ := a
          simp only [lookup] at hl
          split at hl
          · cases hl; subst_vars; simp
          · exact List.mem_cons_of_mem _ (ih hl)
      simp only [scanOut, List.mem_map, List.mem_filter, decide_eq_true_eq]
      exact ⟨(r, b'), ⟨hm, hge⟩, rfl⟩

-- non-vacuity: a store and a stream that satisfy the hypotheses, with a non-trivial scan
example : ∃ bs s, BoltInv bs ∧ s.phase = .started ∧ s.sent = [] ∧ roundsOf (scanOut bs s.frm) = [2, 3] ∧
    ScanInv bs s.frm (Sys.run .asIs (Sys.step .asIs ⟨.bolt bs, s⟩ .scanOpen) [.put (tb 4), .scanNext, .put (tb 5), .scanNext]).s := by
  have hb : BoltInv [(1, tb 1), (2, tb 2), (3, tb 3)] :=
    ⟨⟨by decide, by decide, trivial⟩, by intro p hp; simp at hp; rcases hp with rfl | rfl | rfl <;> rfl⟩
  exact ⟨_, { frm := 2, phase := .started }, hb, rfl, rfl, by decide, c11_scan_exact _ hb _ rfl rfl _⟩

/-! ### the live phase -/

/-- the beacons a run appends (round 0 is never dispatched) -/
def putsIn (es : List Ev) : List Beacon :=
  es.filterMap fun | .put b => if b.round ≠ 0 then some b else none | _ => none

def queueBeacons (q : List Job) : List Beacon := q.filterMap fun | .beacon b => some b | .close => none

/-- steps that do not take the stream's callback away or end the stream -/
def Ev.quiet : Ev → Bool
  | .replaced | .detached | .cancel | .sendFail => false
  | _ => true

def LiveInv (s : Strm) : Prop :=
  (match s.phase with | .live => True | _ => False) ∧ s.attached = true ∧ ∀ j ∈ s.queue, j ≠ Job.close

private theorem queueBeacons_append (a b : List Job) : queueBeacons (a ++ b) = queueBeacons a ++ queueBeacons b := by
  simp [queueBeacons, List.filterMap_append]

private theorem live_step (x : Sys) (e : Ev) (h : LiveInv x.s) (hq : e.quiet = true) :
    LiveInv (Sys.step .asIs x e).s ∧
    (Sys.step .asIs x e).s.sent ++ queueBeacons (Sys.step .asIs x e).s.queue = x.s.sent ++ queueBeacons x.s.queue ++ putsIn [e] := by
  obtain ⟨hp, ha, hc⟩ := h
  have hlive : x.s.phase = .live := by
    cases hph : x.s.phase <;> simp [hph] at hp ⊢
  cases e with
  | put b =>
    simp only [Sys.step, Strm.onPut, ha, Bool.true_and]
    by_cases hb : b.round = 0
    · simp [hb, putsIn, LiveInv, hlive, ha]; exact hc
    · simp only [hb, ne_eq, not_false_eq_true, decide_true, if_true]
      refine ⟨⟨by simp [hlive], rfl, ?_⟩, ?_⟩
      · intro j hj
        simp only [List.mem_append, List.mem_singleton] at hj
        rcases hj with h1 | h1
        · exact hc j h1
        · subst h1; simp
      · simp [queueBeacons_append, putsIn, hb, queueBeacons]
  | start => simp [Sys.step, Strm.start, hlive, putsIn, LiveInv, ha]; exact hc
  | scanOpen => simp [Sys.step, Strm.scanOpen, hlive, putsIn, LiveInv, ha]; exact hc
  | scanNext => simp [Sys.step, Strm.scanNext, hlive, putsIn, LiveInv, ha]; exact hc
  | register => simp [Sys.step, Strm.register, hlive, putsIn, LiveInv, ha]; exact hc
  | deliver =>
    simp only [Sys.step, Strm.deliver, hlive]
    cases hqu : x.s.queue with
    | nil => simp [putsIn, LiveInv, hlive, ha, hqu, queueBeacons]
    | cons j q =>
      cases j with
      | close => exact absurd rfl (hc .close (by simp [hqu]))
      | beacon b =>
        simp only [emit]
        refine ⟨⟨by simp [hlive], ha, ?_⟩, ?_⟩
        · intro j hj; exact hc j (by simp [hqu]; exact Or.inr hj)
        · simp [putsIn, queueBeacons]
  | replaced => cases hq
  | detached => cases hq
  | cancel => cases hq
  | sendFail => cases hq

private theorem putsIn_cons (e : Ev) (es : List Ev) : putsIn (e :: es) = putsIn [e] ++ putsIn es := by
  simp [putsIn, List.filterMap_cons]
  cases e <;> simp
  split <;> simp

private theorem live_run (x : Sys) (es : List Ev) (h : LiveInv x.s) (hq : ∀ e ∈ es, e.quiet = true) :
    LiveInv (Sys.run .asIs x es).s ∧
    (Sys.run .asIs x es).s.sent ++ queueBeacons (Sys.run .asIs x es).s.queue = x.s.sent ++ queueBeacons x.s.queue ++ putsIn es := by
  induction es generalizing x with
  | nil => simp [Sys.run, putsIn, h]
  | cons e es ih =>
    have h1 := live_step x e h (hq e (by simp))
    have h2 := ih (Sys.step .asIs x e) h1.1 (fun e' he' => hq e' (List.mem_cons_of_mem _ he'))
    refine ⟨h2.1, ?_⟩
    simp only [Sys.run, List.foldl_cons] at h2 ⊢
    rw [h2.2, h1.2, putsIn_cons e es]
    simp [List.append_assoc]

/-- **C11, live phase (code as it is).** From `AddCallback` on, as long as nobody takes the callback away and the stream
is not ended, what the stream has sent plus what is still queued for it is exactly: what it had sent before, followed by the
beacons appended since, in append order, each once. -/
theorem c11_live_fifo (x : Sys) (hx : match x.s.phase with | .scanned => True | _ => False) (es : List Ev)
    (hq : ∀ e ∈ es, e.quiet = true) :
    let y := Sys.run .asIs (Sys.step .asIs x .register) es
    y.s.sent ++ queueBeacons y.s.queue = x.s.sent ++ putsIn es ∧ LiveInv y.s := by
  have hsc : x.s.phase = .scanned := by cases hph : x.s.phase <;> simp [hph] at hx ⊢
  have h0 : LiveInv (Sys.step .asIs x .register).s := by
    simp [Sys.step, Strm.register, hsc, LiveInv]
  have := live_run _ es h0 hq
  refine ⟨?_, this.1⟩
  rw [this.2]
  simp [Sys.step, Strm.register, hsc, queueBeacons]


example :
    let y := Sys.run .asIs (Sys.step .asIs ⟨boltOf 2, { frm := 2, phase := .scanned, sent := [tb 2] }⟩ .register)
      [.put (tb 3), .put (tb 4), .deliver, .put (tb 5)];
    roundsOf y.s.sent = [2, 3] ∧ jobRounds y.s.queue = [4, 5] := by decide

/-! ### no append between ScanOpen and Register ⇒ exact -/

private theorem insert_above {α : Type} (k : Nat) (v : α) (l : List (Nat × α)) (h : ∀ p ∈ l, p.1 < k) :
    Store.insert k v l = l ++ [(k, v)] := by
  induction l with
  | nil => rfl
  | cons a t ih =>
    obtain ⟨k', v'⟩ := a
    have h1 : k' < k := h (k', v') (by simp)
    have h2 : ¬ k < k' := by omega
    have h3 : ¬ k = k' := by omega
    simp only [Store.insert, h2, h3, if_false, List.cons_append]
    rw [ih (fun p hp => h p (List.mem_cons_of_mem _ hp))]

/-- appends are chain-legal: each goes above the current head -/
def legalFrom (hd : Nat) : List Ev → Prop
  | [] => True
  | .put b :: es => hd < b.round ∧ legalFrom b.round es
  | _ :: es => legalFrom hd es

private theorem scanOut_run (frm : Nat) (es : List Ev) : ∀ (hd : Nat) (bs : BoltState) (s : Strm),
    (∀ p ∈ bs, p.1 ≤ hd) → frm ≤ hd → legalFrom hd es →
    ∃ bs', (Sys.run .asIs ⟨.bolt bs, s⟩ es).store = .bolt bs' ∧ scanOut bs' frm = scanOut bs frm ++ putsIn es := by
  induction es with
  | nil => intro hd bs s _ _ _; exact ⟨bs, rfl, by simp [putsIn]⟩
  | cons e es ih =>
    intro hd bs s hmax hfrm hleg
    cases e with
    | put b =>
      obtain ⟨hlt, hleg'⟩ := hleg
      have habove : ∀ p ∈ bs, p.1 < b.round := fun p hp => Nat.lt_of_le_of_lt (hmax p hp) hlt
      have hput : Bolt.put bs b = bs ++ [(b.round, b)] := insert_above _ _ _ habove
      obtain ⟨bs', h1, h2⟩ := ih b.round (bs ++ [(b.round, b)]) (s.onPut b)
        (by intro p hp; simp only [List.mem_append, List.mem_singleton] at hp
            rcases hp with h | h
            · exact Nat.le_of_lt (habove p h)
            · subst h; exact Nat.le_refl _)
        (by omega) hleg'
      refine ⟨bs', ?_, ?_⟩
      · simpa [Sys.run, Sys.step, Store.put, hput] using h1
      · rw [h2, putsIn_cons]
        have hb0 : b.round ≠ 0 := by omega
        have hge : frm ≤ b.round := by omega
        simp [scanOut, List.filter_append, hge, putsIn, hb0]
    | start | scanOpen | scanNext | register | deliver | replaced | detached | cancel | sendFail =>
      obtain ⟨bs', h1, h2⟩ := ih hd bs _ hmax hfrm hleg
      exact ⟨bs', by simpa [Sys.run, Sys.step] using h1, by rw [h2, putsIn_cons]; simp [putsIn]⟩

private theorem store_noput (es : List Ev) (hno : ∀ e ∈ es, (match e with | .put _ => false | _ => true) = true) (x : Sys) :
    (Sys.run .asIs x es).store = x.store := by
  induction es generalizing x with
  | nil => rfl
  | cons e es ih =>
    have := hno e (by simp)
    simp only [Sys.run, List.foldl_cons]
    have h2 := ih (fun e' he' => hno e' (List.mem_cons_of_mem _ he')) (Sys.step .asIs x e)
    simp only [Sys.run] at h2
    rw [h2]
    cases e <;> simp_all [Sys.step]

/-- **C11, exactness under the hypothesis the proof forces (bolt, code as it is).** If no beacon is appended between the
opening of the scan and `AddCallback` (`es1` has no append), nobody disturbs the stream, and later appends are chain-legal,
then at every later moment what the stream has sent plus what is queued for it is exactly the list of ALL stored beacons with
round ≥ r, in ascending order, each once (`scanOut` of the store as it is at that moment). Without the hypothesis this
fails: `c11_gap_counterexample`. -/
theorem c11_exact_partial (bs : BoltState) (hb : BoltInv bs) (hd : Nat) (hmax : ∀ p ∈ bs, p.1 ≤ hd) (s : Strm)
    (hs : s.phase = .started) (hsent : s.sent = []) (hfrm : s.frm ≤ hd)
    (es1 es2 : List Ev)
    (hno : ∀ e ∈ es1, (match e with | .put _ => false | _ => true) = true)
    (hscanned : match (Sys.run .asIs (Sys.step .asIs ⟨.bolt bs, s⟩ .scanOpen) es1).s.phase with | .scanned => True | _ => False)
    (hq2 : ∀ e ∈ es2, e.quiet = true) (hleg : legalFrom hd es2) :
    ∃ bs', (Sys.run .asIs (Sys.step .asIs (Sys.run .asIs (Sys.step .asIs ⟨.bolt bs, s⟩ .scanOpen) es1) .register) es2).store = .bolt bs' ∧
      (Sys.run .asIs (Sys.step .asIs (Sys.run .asIs (Sys.step .asIs ⟨.bolt bs, s⟩ .scanOpen) es1) .register) es2).s.sent ++
        queueBeacons (Sys.run .asIs (Sys.step .asIs (Sys.run .asIs (Sys.step .asIs ⟨.bolt bs, s⟩ .scanOpen) es1) .register) es2).s.queue
        = scanOut bs' s.frm := by
  have hA := c11_scan_exact bs hb s hs hsent es1
  generalize hx1 : Sys.run .asIs (Sys.step .asIs ⟨.bolt bs, s⟩ .scanOpen) es1 = x1 at hA hscanned ⊢
  have hst : x1.store = .bolt bs := by
    rw [← hx1, store_noput es1 hno]; rfl
  have hsc : x1.s.phase = .scanned := by cases hph : x1.s.phase <;> simp [hph] at hscanned ⊢
  have hsent1 : x1.s.sent = scanOut bs s.frm := by simpa [ScanInv, hsc] using hA
  have hB := (c11_live_fifo x1 hscanned es2 hq2).1
  have hreg : Sys.step .asIs x1 .register = ⟨.bolt bs, (Sys.step .asIs x1 .register).s⟩ := by
    cases x1; simp_all [Sys.step]
  obtain ⟨bs', h1, h2⟩ := scanOut_run s.frm es2 hd bs (Sys.step .asIs x1 .register).s hmax hfrm hleg
  refine ⟨bs', ?_, ?_⟩
  · rw [hreg]; exact h1
  · rw [hB, hsent1, h2]

/-! ### the corrected variant -/

/-- every entry of a bolt store is labelled with its own round (no order needed) -/
def StoreLab : Store → Prop
  | .bolt bs => ∀ p ∈ bs, p.2.round = p.1
  | .mem _ => True

private theorem mem_insert' {α : Type} {k : Nat} {v : α} {l : List (Nat × α)} {p : Nat × α}
    (h : p ∈ Store.insert k v l) : p = (k, v) ∨ p ∈ l := by
  induction l with
  | nil => simp [Store.insert] at h; exact Or.inl h
  | cons a t ih =>
    obtain ⟨k', v'⟩ := a
    simp only [Store.insert] at h
    split at h
    · rcases List.mem_cons.mp h with h | h
      · exact Or.inl h
      · exact Or.inr h
    · split at h
      · rcases List.mem_cons.mp h with h | h
        · exact Or.inl h
        · exact Or.inr (List.mem_cons_of_mem _ h)
      · rcases List.mem_cons.mp h with h | h
        · exact Or.inr (by rw [h]; simp)
        · rcases ih h with h | h
          · exact Or.inl h
          · exact Or.inr (List.mem_cons_of_mem _ h)

private theorem storeLab_put (st : Store) (b : Beacon) (h : StoreLab st) : StoreLab (st.put b) := by
  cases st with
  | mem ms => trivial
  | bolt bs =>
    intro p hp
    rcases mem_insert' hp with rfl | hp
    · rfl
    · exact h p hp

private theorem lookup_mem' {α : Type} {k : Nat} {v : α} {l : List (Nat × α)} (h : lookup k l = some v) : (k, v) ∈ l := by
  induction l with
  | nil => simp [lookup] at h
  | cons a t ih =>
    obtain ⟨k', v'⟩ := a
    simp only [lookup] at h
    split at h
    · cases h; subst_vars; simp
    · exact List.mem_cons_of_mem _ (ih h)

private theorem get_label (st : Store) (h : StoreLab st) (r : Nat) (b : Beacon) (hg : st.get r = .ok b) : b.round = r := by
  cases st with
  | bolt bs =>
    simp only [Store.get, Bolt.get] at hg
    cases hl : lookup r bs with
    | none => simp [hl] at hg
    | some b' =>
      simp [hl] at hg; subst hg
      exact h _ (lookup_mem' hl)
  | mem ms =>
    simp only [Store.get, Mem.get] at hg
    cases hf : ms.store.find? (·.round == r) with
    | none => simp [hf] at hg
    | some b' =>
      simp [hf] at hg; subst hg
      have := List.find?_some hf
      simpa using this

/-- rounds sent are a, a+1, a+2, …; with `next` the round after the last one -/
def Run (a : Nat) (s : Strm) : Prop := roundsOf s.sent = List.range' a s.sent.length ∧ s.next = a + s.sent.length

private theorem range'_snoc (a n : Nat) : List.range' a (n + 1) = List.range' a n ++ [a + n] := by
  exact List.range'_1_concat

private theorem run_snoc (a : Nat) (s : Strm) (b : Beacon) (h : Run a s) (hb : b.round = s.next) :
    Run a { s with sent := s.sent ++ [b], next := s.next + 1 } := by
  obtain ⟨h1, h2⟩ := h
  constructor
  · simp only [roundsOf, List.map_append, List.length_append, List.length_cons, List.length_nil] at h1 ⊢
    rw [range'_snoc, ← h1]; simp [hb, h2]
  · simp [h2]; omega

/-- `fill`: either it ends the stream because a round is gone (what was sent is still a run), or it leaves everything
but `sent`/`next` alone, the run stays a run, and with enough fuel `next` reaches `upTo` and never passes it -/
private theorem fill_spec (st : Store) (hl : StoreLab st) (a : Nat) : ∀ (k : Nat) (s : Strm) (upTo : Nat), Run a s →
    (Run a (fill st s k upTo) ∧ (fill st s k upTo).phase = s.phase ∧ (fill st s k upTo).frm = s.frm ∧
      (fill st s k upTo).queue = s.queue ∧ (fill st s k upTo).attached = s.attached ∧
      (upTo - s.next ≤ k → upTo ≤ (fill st s k upTo).next) ∧ (s.next ≤ upTo → (fill st s k upTo).next ≤ upTo) ∧
      s.next ≤ (fill st s k upTo).next) ∨
    (roundsOf (fill st s k upTo).sent = List.range' a (fill st s k upTo).sent.length ∧
      (fill st s k upTo).phase = .done .storeError ∧ (fill st s k upTo).frm = s.frm) := by
  intro k
  induction k with
  | zero =>
    intro s upTo h
    exact Or.inl ⟨h, rfl, rfl, rfl, rfl, by simp [fill]; omega, by simp [fill], by simp [fill]⟩
  | succ k ih =>
    intro s upTo h
    simp only [fill]
    split
    · rename_i hlt
      split
      · rename_i b hg
        have hb := get_label st hl _ _ hg
        rcases ih { s with sent := s.sent ++ [b], next := s.next + 1 } upTo (run_snoc a s b h hb) with h1 | h1
        · obtain ⟨r1, r2, r3, r4, r5, r6, r7, r8⟩ := h1
          refine Or.inl ⟨r1, r2, r3, r4, r5, ?_, ?_, ?_⟩
          · intro hk; apply r6; simp; omega
          · intro _; apply r7; simp; omega
          · simp at r8; omega
        · exact Or.inr h1
      · exact Or.inr ⟨h.1, rfl, rfl⟩
    · rename_i hge
      exact Or.inl ⟨h, rfl, rfl, rfl, rfl, by intro _; omega, by intro h'; exact h', Nat.le_refl _⟩

/-- the invariant of the corrected variant -/
def TrInv (s : Strm) : Prop :=
  ∃ a, roundsOf s.sent = List.range' a s.sent.length ∧ (s.frm ≠ 0 → s.sent ≠ [] → a = s.frm) ∧
    (match s.phase with
     | .idle => s.sent = []
     | .done _ => True
     | _ => s.next = a + s.sent.length ∧ (s.frm ≠ 0 → a = s.frm))

/-- `emit` on a stream in an active phase -/
private theorem emit_tracked (st : Store) (hl : StoreLab st) (a : Nat) (s : Strm) (b : Beacon) (h : Run a s) (hf : s.frm ≠ 0 → a = s.frm) :
    (Run a (emit .tracked st s b) ∧ (emit .tracked st s b).phase = s.phase ∧ (emit .tracked st s b).frm = s.frm) ∨
    (roundsOf (emit .tracked st s b).sent = List.range' a (emit .tracked st s b).sent.length ∧
      (emit .tracked st s b).phase = .done .storeError ∧ (emit .tracked st s b).frm = s.frm) := by
  simp only [emit]
  split
  · exact Or.inl ⟨h, rfl, rfl⟩
  · rename_i hge
    rcases fill_spec st hl a (b.round - s.next) s b.round h with h1 | h1
    · obtain ⟨r1, r2, r3, _, _, r6, r7, _⟩ := h1
      have hn : (fill st s (b.round - s.next) b.round).next = b.round := by
        have := r6 (Nat.le_refl _); have := r7 (by omega); omega
      split
      · rename_i hd
        left; exact ⟨r1, r2, r3⟩
      · left
        have := run_snoc a _ b r1 hn.symm
        rw [hn] at this
        exact ⟨this, r2, r3⟩
    · obtain ⟨r1, r2, r3⟩ := h1
      have hd : isDone (fill st s (b.round - s.next) b.round).phase = true := by rw [r2]; rfl
      simp only [hd, if_true]
      exact Or.inr ⟨r1, r2, r3⟩

def Phase.active : Phase → Bool
  | .idle => false
  | .done _ => false
  | _ => true

private theorem trInv_active {s : Strm} (h : TrInv s) (ha : s.phase.active = true) :
    ∃ a, Run a s ∧ (s.frm ≠ 0 → a = s.frm) := by
  obtain ⟨a, h1, _, h3⟩ := h
  cases hp : s.phase <;> simp [hp, Phase.active] at ha h3 <;> exact ⟨a, ⟨h1, h3.1⟩, h3.2⟩

private theorem trInv_of_run {s : Strm} (a : Nat) (h : Run a s) (hf : s.frm ≠ 0 → a = s.frm) (hp : s.phase.active = true) : TrInv s := by
  refine ⟨a, h.1, fun h0 _ => hf h0, ?_⟩
  cases hph : s.phase <;> simp [hph, Phase.active] at hp ⊢ <;> exact ⟨h.2, hf⟩

private theorem trInv_of_done {s : Strm} (a : Nat) (h : roundsOf s.sent = List.range' a s.sent.length) (hf : s.frm ≠ 0 → a = s.frm)
    (e : EndReason) (hp : s.phase = .done e) : TrInv s :=
  ⟨a, h, fun h0 _ => hf h0, by simp [hp]⟩

private theorem trInv_emit (st : Store) (hl : StoreLab st) (s : Strm) (b : Beacon) (a : Nat) (h : Run a s) (hf : s.frm ≠ 0 → a = s.frm)
    (hp : s.phase.active = true) : TrInv (emit .tracked st s b) := by
  rcases emit_tracked st hl a s b h hf with ⟨h1, h2, h3⟩ | ⟨h1, h2, h3⟩
  · exact trInv_of_run a h1 (by rw [h3]; exact hf) (by rw [h2]; exact hp)
  · exact trInv_of_done a h1 (by rw [h3]; exact hf) _ h2

private theorem trInv_congr {s s' : Strm} (h : TrInv s) (h1 : s'.phase = s.phase) (h2 : s'.sent = s.sent) (h3 : s'.next = s.next)
    (h4 : s'.frm = s.frm) : TrInv s' := by
  unfold TrInv at h ⊢
  rw [h1, h2, h3, h4]; exact h

private theorem trInv_end {s s' : Strm} (h : TrInv s) (e : EndReason) (h1 : s'.phase = .done e) (h2 : s'.sent = s.sent)
    (h4 : s'.frm = s.frm) : TrInv s' := by
  obtain ⟨a, r1, r2, r3⟩ := h
  refine ⟨a, by rw [h2]; exact r1, by rw [h2, h4]; exact r2, by simp [h1]⟩

private theorem trInv_step (x : Sys) (hl : StoreLab x.store) (e : Ev) (h : TrInv x.s) :
    TrInv (Sys.step .tracked x e).s ∧ StoreLab (Sys.step .tracked x e).store := by
  cases e with
  | put b =>
    refine ⟨?_, storeLab_put _ _ hl⟩
    simp only [Sys.step, Strm.onPut]
    split
    · exact trInv_congr h rfl rfl rfl rfl
    · exact h
  | start =>
    refine ⟨?_, hl⟩
    simp only [Sys.step, Strm.start]
    split
    · rename_i hp
      have hs0 : x.s.sent = [] := by obtain ⟨_, _, _, h3⟩ := h; simpa [hp] using h3
      split
      · exact trInv_end h _ rfl rfl rfl
      · rename_i l hlast
        split
        · exact trInv_end h _ rfl rfl rfl
        · split
          · rename_i h0
            exact trInv_of_run (l.round + 1) ⟨by simp [roundsOf, hs0], by simp [hs0]⟩ (by intro hne; exact absurd h0 hne) rfl
          · exact trInv_of_run x.s.frm ⟨by simp [roundsOf, hs0], by simp [hs0]⟩ (fun _ => rfl) rfl
    · exact h
  | scanOpen =>
    refine ⟨?_, hl⟩
    simp only [Sys.step, Strm.scanOpen]
    split
    · rename_i hp
      obtain ⟨a, hr, hf⟩ := trInv_active h (by simp [hp, Phase.active])
      split
      · split
        · exact trInv_emit _ hl _ _ a hr hf rfl
        · exact trInv_of_run a hr hf rfl
      · split
        · exact trInv_emit _ hl _ _ a hr hf rfl
        · exact trInv_of_run a hr hf rfl
    · exact h
  | scanNext =>
    refine ⟨?_, hl⟩
    simp only [Sys.step, Strm.scanNext]
    split
    · rename_i c hp
      obtain ⟨a, hr, hf⟩ := trInv_active h (by simp [hp, Phase.active])
      split
      · exact trInv_emit _ hl _ _ a hr hf rfl
      · exact trInv_of_run a hr hf rfl
    · rename_i p hp
      obtain ⟨a, hr, hf⟩ := trInv_active h (by simp [hp, Phase.active])
      split
      · split
        · exact trInv_emit _ hl _ _ a hr hf rfl
        · exact trInv_of_run a hr hf rfl
      · exact trInv_of_run a hr hf rfl
    · exact h
  | register =>
    refine ⟨?_, hl⟩
    simp only [Sys.step, Strm.register]
    split
    · rename_i hp
      obtain ⟨a, hr, hf⟩ := trInv_active h (by simp [hp, Phase.active])
      have hr1 : Run a { x.s with phase := .live, attached := true, queue := [] } := hr
      rcases fill_spec x.store hl a (x.store.head + 1 - x.s.next) _ (x.store.head + 1) hr1 with h1 | h1
      · obtain ⟨r1, r2, r3, _⟩ := h1
        exact trInv_of_run a r1 (by rw [r3]; exact hf) (by rw [r2]; rfl)
      · obtain ⟨r1, r2, r3⟩ := h1
        exact trInv_of_done a r1 (by rw [r3]; exact hf) _ r2
    · exact h
  | deliver =>
    refine ⟨?_, hl⟩
    simp only [Sys.step, Strm.deliver]
    split
    · rename_i hp
      obtain ⟨a, hr, hf⟩ := trInv_active h (by simp [hp, Phase.active])
      split
      · exact h
      · exact trInv_emit _ hl _ _ a hr hf (by simp [hp, Phase.active])
      · exact trInv_end h _ rfl rfl rfl
    · exact h
  | replaced =>
    refine ⟨?_, hl⟩
    simp only [Sys.step, Strm.replaced]
    split
    · exact trInv_congr h rfl rfl rfl rfl
    · exact h
  | detached => exact ⟨trInv_congr h rfl rfl rfl rfl, hl⟩
  | cancel =>
    refine ⟨?_, hl⟩
    simp only [Sys.step, Strm.cancel]
    split
    · exact h
    · split
      · exact trInv_end h _ rfl rfl rfl
      · split
        · exact trInv_end h _ rfl rfl rfl
        · exact trInv_end h _ rfl rfl rfl
    · exact trInv_end h _ rfl rfl rfl
  | sendFail =>
    refine ⟨?_, hl⟩
    simp only [Sys.step, Strm.sendFail]
    split
    · exact trInv_end h _ rfl rfl rfl
    · split
      · exact h
      · exact trInv_end h _ rfl rfl rfl
      · exact trInv_end h _ rfl rfl rfl
    · exact h

private theorem fill_frm (st : Store) : ∀ (k : Nat) (s : Strm) (upTo : Nat), (fill st s k upTo).frm = s.frm := by
  intro k
  induction k with
  | zero => intro s upTo; rfl
  | succ k ih =>
    intro s upTo
    simp only [fill]
    split
    · split
      · rw [ih]
      · rfl
    · rfl

private theorem emit_frm (h : Handover) (st : Store) (s : Strm) (b : Beacon) : (emit h st s b).frm = s.frm := by
  cases h with
  | asIs => rfl
  | tracked =>
    simp only [emit]
    split
    · rfl
    · split
      · exact fill_frm _ _ _ _
      · exact fill_frm _ _ _ _

/-- no step changes the round a stream was asked to start from -/
theorem frm_step (h : Handover) (x : Sys) (e : Ev) : (Sys.step h x e).s.frm = x.s.frm := by
  cases e with
  | put b => simp only [Sys.step, Strm.onPut]; split <;> rfl
  | start =>
    simp only [Sys.step, Strm.start]
    split
    · split
      · rfl
      · split
        · rfl
        · split <;> rfl
    · rfl
  | scanOpen =>
    simp only [Sys.step, Strm.scanOpen]
    split
    · split
      · split
        · exact emit_frm _ _ _ _
        · rfl
      · split
        · exact emit_frm _ _ _ _
        · rfl
    · rfl
  | scanNext =>
    simp only [Sys.step, Strm.scanNext]
    split
    · split
      · exact emit_frm _ _ _ _
      · rfl
    · split
      · split
        · exact emit_frm _ _ _ _
        · rfl
      · rfl
    · rfl
  | register =>
    simp only [Sys.step, Strm.register]
    split
    · cases h with
      | asIs => rfl
      | tracked => exact fill_frm _ _ _ _
    · rfl
  | deliver =>
    simp only [Sys.step, Strm.deliver]
    split
    · split
      · rfl
      · exact emit_frm _ _ _ _
      · rfl
    · rfl
  | replaced => simp only [Sys.step, Strm.replaced]; split <;> rfl
  | detached => rfl
  | cancel =>
    simp only [Sys.step, Strm.cancel]
    split
    · rfl
    · split
      · rfl
      · split <;> rfl
    · rfl
  | sendFail =>
    simp only [Sys.step, Strm.sendFail]
    split
    · rfl
    · split
      · rfl
      · cases h <;> rfl
      · rfl
    · rfl

/-- **C11, corrected variant: exact for every schedule.** With the tracked hand-over, whatever the interleaving of
appends (legal or not), scan steps, registration, deliveries and environment actions, on bolt and on memdb (full ring or
not): the rounds handed to the client are a, a+1, a+2, … — no gap, no repeat — and a is the requested round r when r ≠ 0. -/
theorem c11_exact_tracked (x : Sys) (hl : StoreLab x.store) (hidle : match x.s.phase with | .idle => True | _ => False)
    (hsent : x.s.sent = []) (es : List Ev) :
    ∃ a, roundsOf (Sys.run .tracked x es).s.sent = List.range' a (Sys.run .tracked x es).s.sent.length ∧
      (x.s.frm ≠ 0 → (Sys.run .tracked x es).s.sent ≠ [] → a = x.s.frm) := by
  have h0 : TrInv x.s := by
    refine ⟨0, by simp [hsent, roundsOf], by simp [hsent], ?_⟩
    cases hp : x.s.phase <;> simp [hp] at hidle ⊢; exact hsent
  have key : ∀ (es : List Ev) (x : Sys), StoreLab x.store → TrInv x.s →
      TrInv (Sys.run .tracked x es).s ∧ (Sys.run .tracked x es).s.frm = x.s.frm := by
    intro es
    induction es with
    | nil => intro x _ h; exact ⟨h, rfl⟩
    | cons e es ih =>
      intro x hl h
      have h1 := trInv_step x hl e h
      have h2 := ih _ h1.2 h1.1
      refine ⟨h2.1, ?_⟩
      simp only [Sys.run, List.foldl_cons] at h2 ⊢
      rw [h2.2]
      exact frm_step _ _ _
  obtain ⟨⟨a, h1, h2, _⟩, h3⟩ := key es x hl h0
  exact ⟨a, h1, by rw [h3] at h2; exact h2⟩


-- non-vacuity: on the schedules of the two counterexamples the corrected variant delivers without a gap
example : roundsOf (Sys.run .tracked ⟨boltOf 2, { frm := 1 }⟩
    [.start, .scanOpen, .put (tb 3), .scanNext, .scanNext, .register, .put (tb 4), .deliver]).s.sent = [1, 2, 3, 4] := by decide
example : roundsOf (Sys.run .tracked ⟨memOf 10 9, { frm := 5 }⟩
    [.start, .scanOpen, .put (tb 10), .scanNext, .scanNext, .scanNext, .scanNext, .scanNext, .register]).s.sent = [5, 6, 7, 8, 9, 10] := by decide

/-! ### no round twice -/

def Store.rounds : Store → List Nat
  | .bolt bs => bs.map (·.1)
  | .mem ms => ms.store.map (·.round)

/-- every stored round is below n (an append of round n is chain-legal) -/
def Store.allLt (st : Store) (n : Nat) : Prop := ∀ r ∈ st.rounds, r < n

def StoreOK : Store → Prop
  | .bolt bs => (bs.map (·.1)).Pairwise (· < ·) ∧ ∀ p ∈ bs, p.2.round = p.1
  | .mem ms => (ms.store.map (·.round)).Pairwise (· < ·) ∧ 0 < ms.cap ∧ ms.store.length ≤ ms.cap

private theorem mem_ins_above (b : Beacon) (l : List Beacon) (h : ∀ x ∈ l, x.round < b.round) : Mem.ins b l = l ++ [b] := by
  induction l with
  | nil => rfl
  | cons x t ih =>
    have h1 : ¬ b.round < x.round := by have := h x (by simp); omega
    simp only [Mem.ins, h1, if_false, List.cons_append]
    rw [ih (fun y hy => h y (List.mem_cons_of_mem _ hy))]

/-- a chain-legal append to memdb: the new beacon goes to the end, and the oldest one is dropped when the ring is full -/
private theorem mem_put_above (ms : MemState) (b : Beacon) (h : ∀ x ∈ ms.store, x.round < b.round) :
    (Mem.put ms b).store = (ms.store ++ [b]).drop (ms.store.length + 1 - ms.cap) ∧ (Mem.put ms b).cap = ms.cap := by
  have hany : ms.store.any (·.round == b.round) = false := by
    simp only [List.any_eq_false, beq_iff_eq]
    intro x hx; have := h x hx; omega
  simp only [Mem.put, hany, Bool.false_eq_true, if_false, mem_ins_above b _ h]
  constructor
  · split
    · simp
    · rename_i hle
      have : ms.store.length + 1 - ms.cap = 0 := by simp at hle; omega
      simp [this]
  · trivial

private theorem insert_above' {α : Type} (k : Nat) (v : α) (l : List (Nat × α)) (h : ∀ p ∈ l, p.1 < k) :
    Store.insert k v l = l ++ [(k, v)] := by
  induction l with
  | nil => rfl
  | cons a t ih =>
    obtain ⟨k', v'⟩ := a
    have h1 : k' < k := h (k', v') (by simp)
    have h2 : ¬ k < k' := by omega
    have h3 : ¬ k = k' := by omega
    simp only [Store.insert, h2, h3, if_false, List.cons_append]
    rw [ih (fun p hp => h p (List.mem_cons_of_mem _ hp))]

private theorem pairwise_snoc (l : List Nat) (y : Nat) (h : l.Pairwise (· < ·)) (hy : ∀ x ∈ l, x < y) : (l ++ [y]).Pairwise (· < ·) := by
  rw [List.pairwise_append]
  exact ⟨h, by simp, by simpa using hy⟩

/-- a chain-legal append keeps the store well-formed, and its round is stored afterwards -/
private theorem storeOK_put (st : Store) (b : Beacon) (h : StoreOK st) (hl : st.allLt b.round) :
    StoreOK (st.put b) ∧ b.round ∈ (st.put b).rounds := by
  cases st with
  | bolt bs =>
    have hab : ∀ p ∈ bs, p.1 < b.round := fun p hp => hl p.1 (by simp [Store.rounds]; exact ⟨p.2, hp⟩)
    simp only [Store.put, Bolt.put, insert_above' _ _ _ hab, StoreOK, Store.rounds]
    refine ⟨⟨?_, ?_⟩, by simp⟩
    · simp only [List.map_append, List.map_cons, List.map_nil]
      exact pairwise_snoc _ _ h.1 (by simpa [Store.allLt, Store.rounds] using hl)
    · intro p hp
      simp only [List.mem_append, List.mem_singleton] at hp
      rcases hp with hp | rfl
      · exact h.2 p hp
      · rfl
  | mem ms =>
    have hab : ∀ x ∈ ms.store, x.round < b.round := fun x hx => hl x.round (by simp [Store.rounds]; exact ⟨x, hx, rfl⟩)
    obtain ⟨hs, hc⟩ := mem_put_above ms b hab
    obtain ⟨h1, h2, h3⟩ := h
    have hd : ms.store.length + 1 - ms.cap ≤ ms.store.length := by omega
    simp only [Store.put, StoreOK, Store.rounds, hs, hc]
    refine ⟨⟨?_, h2, ?_⟩, ?_⟩
    · have hp : ((ms.store ++ [b]).map (·.round)).Pairwise (· < ·) := by
        simp only [List.map_append, List.map_cons, List.map_nil]
        exact pairwise_snoc _ _ h1 (by simpa using hab)
      rw [List.map_drop]
      exact hp.sublist (List.drop_sublist _ _)
    · simp; omega
    · rw [List.drop_append_of_le_length hd]; simp


/-- r is not above what is stored: whatever is above every stored round is above r -/
def allBelow (st : Store) (r : Nat) : Prop := ∀ n, st.allLt n → r < n

private theorem allBelow_of_mem (st : Store) (r : Nat) (h : r ∈ st.rounds) : allBelow st r := fun _ hn => hn r h

private theorem allBelow_put (st : Store) (b : Beacon) (hok : StoreOK st) (hl : st.allLt b.round) (r : Nat) (h : allBelow st r) :
    allBelow (st.put b) r := by
  intro n hn
  have h1 := hn b.round (storeOK_put st b hok hl).2
  have h2 := h b.round hl
  omega

private theorem allBelow_put_self (st : Store) (b : Beacon) (hok : StoreOK st) (hl : st.allLt b.round) : allBelow (st.put b) b.round :=
  allBelow_of_mem _ _ (storeOK_put st b hok hl).2

/-- the memdb position after a chain-legal append: still inside the slice, and on a round that is not smaller -/
private theorem mem_shift (ms : MemState) (b b0 : Beacon) (pos : Nat) (hok : StoreOK (.mem ms)) (hl : (Store.mem ms).allLt b.round)
    (hp : ms.store[pos]? = some b0) :
    ∃ b', (Mem.put ms b).store[pos]? = some b' ∧ b0.round ≤ b'.round := by
  have hab : ∀ x ∈ ms.store, x.round < b.round := fun x hx => hl x.round (by simp [Store.rounds]; exact ⟨x, hx, rfl⟩)
  obtain ⟨hs, _⟩ := mem_put_above ms b hab
  obtain ⟨h1, h2, h3⟩ := hok
  have hlt : pos < ms.store.length := by
    rcases Nat.lt_or_ge pos ms.store.length with h | h
    · exact h
    · simp [List.getElem?_eq_none h] at hp
  rw [hs, List.getElem?_drop]
  have hd : ms.store.length + 1 - ms.cap = 0 ∨ ms.store.length + 1 - ms.cap = 1 := by omega
  rcases hd with hd | hd
  · rw [hd]; simp only [Nat.zero_add]
    rw [List.getElem?_append_left hlt]
    exact ⟨b0, hp, Nat.le_refl _⟩
  · rw [hd]
    by_cases hn : 1 + pos < ms.store.length
    · rw [List.getElem?_append_left hn]
      refine ⟨ms.store[1 + pos], by simp [hn], ?_⟩
      have hpw := List.pairwise_iff_getElem.mp h1 pos (1 + pos) (by simpa using hlt) (by simpa using hn) (by omega)
      have : ms.store[pos] = b0 := by
        have := List.getElem?_eq_getElem hlt; rw [this] at hp; exact Option.some.inj hp
      simp only [List.getElem_map] at hpw
      rw [this] at hpw; omega
    · have he : 1 + pos = ms.store.length := by omega
      rw [List.getElem?_append_right (by omega)]
      refine ⟨b, by simp [he], ?_⟩
      exact Nat.le_of_lt (hab b0 (List.mem_of_getElem? hp))

/-- what the stream has open, by phase -/
def NRc (x : Sys) : Prop :=
  match x.s.phase with
  | .idle => x.s.queue = [] ∧ x.s.attached = false ∧ x.s.sent = []
  | .started => x.s.queue = [] ∧ x.s.attached = false ∧ x.s.sent = []
  | .scanned => x.s.queue = [] ∧ x.s.attached = false
  | .scanning (.bolt c) => x.s.queue = [] ∧ x.s.attached = false ∧
      (c.snap.map (·.1)).Pairwise (· < ·) ∧ (∀ p ∈ c.snap, p.2.round = p.1) ∧ (∀ p ∈ c.snap, allBelow x.store p.1) ∧
      ∃ j p, c.pos = some j ∧ c.snap[j]? = some p ∧ ∀ r ∈ roundsOf x.s.sent, r ≤ p.1
  | .scanning (.mem pos) => x.s.queue = [] ∧ x.s.attached = false ∧
      ∃ ms b, x.store = .mem ms ∧ ms.store[pos]? = some b ∧ ∀ r ∈ roundsOf x.s.sent, r ≤ b.round
  | .live => True
  | .done _ => True

def NR (x : Sys) : Prop :=
  StoreOK x.store ∧ (roundsOf x.s.sent ++ jobRounds x.s.queue).Pairwise (· < ·) ∧
  (∀ r ∈ roundsOf x.s.sent ++ jobRounds x.s.queue, allBelow x.store r) ∧ NRc x

private theorem nr_put (x : Sys) (b : Beacon) (h : NR x) (hl : x.store.allLt b.round) : NR (Sys.step .asIs x (.put b)) := by
  obtain ⟨hS, hA, hB, hC⟩ := h
  have hS' := (storeOK_put x.store b hS hl).1
  have hB' : ∀ r ∈ roundsOf x.s.sent ++ jobRounds x.s.queue, allBelow (x.store.put b) r :=
    fun r hr => allBelow_put _ _ hS hl r (hB r hr)
  simp only [Sys.step, Strm.onPut]
  split
  · rename_i hatt
    simp only [Bool.and_eq_true, decide_eq_true_eq] at hatt
    have hq : jobRounds (x.s.queue ++ [Job.beacon b]) = jobRounds x.s.queue ++ [b.round] := by
      simp [jobRounds, List.filterMap_append]
    refine ⟨hS', ?_, ?_, ?_⟩
    · show (roundsOf x.s.sent ++ jobRounds (x.s.queue ++ [Job.beacon b])).Pairwise (· < ·)
      rw [hq, ← List.append_assoc]
      exact pairwise_snoc _ _ hA (fun r hr => hB r hr b.round hl)
    · intro r hr
      have hr' : r ∈ (roundsOf x.s.sent ++ jobRounds x.s.queue) ++ [b.round] := by
        have : r ∈ roundsOf x.s.sent ++ jobRounds (x.s.queue ++ [Job.beacon b]) := hr
        rw [hq, ← List.append_assoc] at this; exact this
      rcases List.mem_append.mp hr' with h1 | h1
      · exact hB' r h1
      · simp at h1; subst h1; exact allBelow_put_self _ _ hS hl
    · -- an attached stream is live or done: nothing phase-specific to keep
      unfold NRc at hC ⊢
      cases hp : x.s.phase with
      | idle => simp [hp, hatt.1] at hC
      | started => simp [hp, hatt.1] at hC
      | scanned => simp [hp, hatt.1] at hC
      | scanning c => cases c <;> simp [hp, hatt.1] at hC
      | live => simp [hp]
      | done e => simp [hp]
  · refine ⟨hS', hA, hB', ?_⟩
    unfold NRc at hC ⊢
    cases hp : x.s.phase with
    | idle => simpa [hp] using hC
    | started => simpa [hp] using hC
    | scanned => simpa [hp] using hC
    | live => simp
    | done e => simp
    | scanning c =>
      cases c with
      | bolt c =>
        simp only [hp] at hC ⊢
        obtain ⟨h1, h2, h3, h4, h5, h6⟩ := hC
        exact ⟨h1, h2, h3, h4, fun p hp' => allBelow_put _ _ hS hl _ (h5 p hp'), h6⟩
      | mem pos =>
        simp only [hp] at hC ⊢
        obtain ⟨h1, h2, ms, b0, hst, hpos, hle⟩ := hC
        rw [hst] at hS hl
        obtain ⟨b', hb1, hb2⟩ := mem_shift ms b b0 pos hS hl hpos
        refine ⟨h1, h2, Mem.put ms b, b', by rw [hst]; rfl, hb1, fun r hr => Nat.le_trans (hle r hr) hb2⟩

private theorem jobRounds_nil : jobRounds [] = [] := rfl

private theorem nr_start (x : Sys) (h : NR x) : NR (Sys.step .asIs x .start) := by
  obtain ⟨hS, hA, hB, hC⟩ := h
  simp only [Sys.step, Strm.start]
  split
  · rename_i hp
    simp only [NRc, hp] at hC
    split
    · exact ⟨hS, hA, hB, by simp [NRc]⟩
    · split
      · exact ⟨hS, hA, hB, by simp [NRc]⟩
      · split
        · exact ⟨hS, hA, hB, by simp [NRc, hC.1, hC.2.1]⟩
        · exact ⟨hS, hA, hB, by simp [NRc, hC.1, hC.2.1, hC.2.2]⟩
  · exact ⟨hS, hA, hB, hC⟩

private theorem mem_seek_cases (ms : MemState) (pos r : Nat) :
    (∃ i b, Mem.cursorStep ms pos (.seek r) = (i, .ok b) ∧ ms.store[i]? = some b) ∨
    (∃ p, Mem.cursorStep ms pos (.seek r) = (p, .noBeacon)) := by
  simp only [Mem.cursorStep]
  split
  · rename_i i _
    cases hg : ms.store[i]? with
    | some b => exact Or.inl ⟨i, b, by simp, hg⟩
    | none => exact Or.inr ⟨i, by simp⟩
  · exact Or.inr ⟨pos, rfl⟩

private theorem mem_next_cases (ms : MemState) (pos : Nat) :
    (∃ b, Mem.cursorStep ms pos .next = (pos + 1, .ok b) ∧ ms.store[pos + 1]? = some b) ∨
    (∃ p, Mem.cursorStep ms pos .next = (p, .noBeacon)) := by
  simp only [Mem.cursorStep]
  split
  · exact Or.inr ⟨pos, rfl⟩
  · split
    · exact Or.inr ⟨pos + 1, rfl⟩
    · cases hg : ms.store[pos + 1]? with
      | some b => exact Or.inl ⟨b, by simp, rfl⟩
      | none => exact Or.inr ⟨pos + 1, by simp⟩

private theorem nr_scanOpen (x : Sys) (h : NR x) : NR (Sys.step .asIs x .scanOpen) := by
  obtain ⟨hS, hA, hB, hC⟩ := h
  simp only [Sys.step, Strm.scanOpen]
  split
  · rename_i hp
    simp only [NRc, hp] at hC
    obtain ⟨hq, hat, hsent⟩ := hC
    split
    · -- bolt: the cursor is a snapshot of the store as it is now
      rename_i bs hst
      simp only [Bolt.cursorStep, Cursor.move]
      by_cases hi : seekIdx x.s.frm bs < bs.length
      · simp only [hi, if_true]
        have hget : bs[seekIdx x.s.frm bs]? = some bs[seekIdx x.s.frm bs] := by simp [hi]
        rw [hget]
        simp only [emit]
        have hmem : bs[seekIdx x.s.frm bs] ∈ bs := List.getElem_mem hi
        rw [hst] at hS
        have hlab := hS.2 _ hmem
        have hbel : ∀ p ∈ bs, allBelow x.store p.1 := by
          intro p hp'; apply allBelow_of_mem; rw [hst]; simp [Store.rounds]; exact ⟨p.2, hp'⟩
        refine ⟨by rw [hst]; exact hS, ?_, ?_, ?_⟩
        · simp [hsent, hq, roundsOf, jobRounds]
        · intro r hr
          simp [hsent, hq, roundsOf, jobRounds] at hr
          subst hr; rw [hlab]; exact hbel _ hmem
        · simp only [NRc]
          refine ⟨hq, hat, hS.1, hS.2, hbel, seekIdx x.s.frm bs, _, rfl, hget, ?_⟩
          intro r hr
          simp [hsent, roundsOf] at hr
          subst hr; rw [hlab]; exact Nat.le_refl _
      · simp only [hi, if_false]
        exact ⟨hS, hA, hB, by simp [NRc, hq, hat]⟩
    · -- memdb: a position into the live slice
      rename_i ms hst
      rcases mem_seek_cases ms 0 x.s.frm with ⟨i, b, heq, hgi⟩ | ⟨p, heq⟩
      · rw [heq]
        simp only [emit]
        have hmem : b ∈ ms.store := List.mem_of_getElem? hgi
        have hbel : allBelow x.store b.round := by
          apply allBelow_of_mem; rw [hst]; simp [Store.rounds]; exact ⟨b, hmem, rfl⟩
        refine ⟨hS, ?_, ?_, ?_⟩
        · simp [hsent, hq, roundsOf, jobRounds]
        · intro r hr
          simp [hsent, hq, roundsOf, jobRounds] at hr
          subst hr; exact hbel
        · simp only [NRc]
          refine ⟨hq, hat, ms, b, hst, hgi, ?_⟩
          intro r hr
          simp [hsent, roundsOf] at hr
          subst hr; exact Nat.le_refl _
      · rw [heq]
        exact ⟨hS, hA, hB, by simp [NRc, hq, hat]⟩
  · exact ⟨hS, hA, hB, hC⟩

private theorem nr_scanNext (x : Sys) (h : NR x) : NR (Sys.step .asIs x .scanNext) := by
  obtain ⟨hS, hA, hB, hC⟩ := h
  simp only [Sys.step, Strm.scanNext]
  split
  · -- bolt
    rename_i c hp
    simp only [NRc, hp] at hC
    obtain ⟨hq, hat, hpw, hlab, hbel, j, p, hpos, hgj, hle⟩ := hC
    obtain ⟨snap, pos⟩ := c
    simp only at hpos hgj hpw hlab hbel
    subst hpos
    simp only [Bolt.cursorStep, Cursor.move]
    by_cases hn : j + 1 < snap.length
    · simp only [hn, if_true]
      have hget : snap[j + 1]? = some snap[j + 1] := by simp [hn]
      rw [hget]
      simp only [emit]
      have hmem : snap[j + 1] ∈ snap := List.getElem_mem hn
      have hjl : j < snap.length := by omega
      have hpj : snap[j] = p := by
        have := List.getElem?_eq_getElem hjl; rw [this] at hgj; exact Option.some.inj hgj
      have hlt : p.1 < (snap[j + 1]).1 := by
        have := List.pairwise_iff_getElem.mp hpw j (j + 1) (by simpa using hjl) (by simpa using hn) (by omega)
        simpa [hpj] using this
      have hall : ∀ r ∈ roundsOf x.s.sent ++ jobRounds x.s.queue, r < (snap[j + 1]).2.round := by
        intro r hr
        rw [hq, jobRounds_nil, List.append_nil] at hr
        have := hle r hr
        rw [hlab _ hmem]; omega
      refine ⟨hS, ?_, ?_, ?_⟩
      · show (roundsOf (x.s.sent ++ [(snap[j + 1]).2]) ++ jobRounds x.s.queue).Pairwise (· < ·)
        rw [hq, jobRounds_nil, List.append_nil]
        simp only [roundsOf, List.map_append, List.map_cons, List.map_nil]
        apply pairwise_snoc
        · simpa [hq, jobRounds_nil, roundsOf] using hA
        · intro r hr; exact hall r (by rw [hq, jobRounds_nil, List.append_nil]; exact hr)
      · intro r hr
        have hr' : r ∈ roundsOf (x.s.sent ++ [(snap[j + 1]).2]) ++ jobRounds x.s.queue := hr
        rw [hq, jobRounds_nil, List.append_nil] at hr'
        simp only [roundsOf, List.map_append, List.map_cons, List.map_nil, List.mem_append, List.mem_singleton] at hr'
        rcases hr' with h1 | h1
        · exact hB r (by rw [hq, jobRounds_nil, List.append_nil]; exact h1)
        · subst h1; rw [hlab _ hmem]; exact hbel _ hmem
      · simp only [NRc]
        refine ⟨hq, hat, hpw, hlab, hbel, j + 1, snap[j + 1], rfl, hget, ?_⟩
        intro r hr
        simp only [roundsOf, List.map_append, List.map_cons, List.map_nil, List.mem_append, List.mem_singleton] at hr
        rcases hr with h1 | h1
        · have := hle r h1; omega
        · subst h1; rw [hlab _ hmem]; exact Nat.le_refl _
    · simp only [hn, if_false]
      exact ⟨hS, hA, hB, by simp [NRc, hq, hat]⟩
  · -- memdb
    rename_i pos hp
    simp only [NRc, hp] at hC
    obtain ⟨hq, hat, ms, b0, hst, hgp, hle⟩ := hC
    rw [hst]
    simp only
    rcases mem_next_cases ms pos with ⟨b, heq, hgn⟩ | ⟨p', heq⟩
    · rw [heq]
      simp only [emit]
      have hmem : b ∈ ms.store := List.mem_of_getElem? hgn
      have hS' := hS
      rw [hst] at hS'
      have hlt : b0.round < b.round := by
        have hl0 : pos < ms.store.length := by
          rcases Nat.lt_or_ge pos ms.store.length with h | h
          · exact h
          · simp [List.getElem?_eq_none h] at hgp
        have hl1 : pos + 1 < ms.store.length := by
          rcases Nat.lt_or_ge (pos + 1) ms.store.length with h | h
          · exact h
          · simp [List.getElem?_eq_none h] at hgn
        have := List.pairwise_iff_getElem.mp hS'.1 pos (pos + 1) (by simpa using hl0) (by simpa using hl1) (by omega)
        have e0 : ms.store[pos] = b0 := by
          have := List.getElem?_eq_getElem hl0; rw [this] at hgp; exact Option.some.inj hgp
        have e1 : ms.store[pos + 1] = b := by
          have := List.getElem?_eq_getElem hl1; rw [this] at hgn; exact Option.some.inj hgn
        simpa [e0, e1] using this
      have hbel : allBelow x.store b.round := by
        apply allBelow_of_mem; rw [hst]; simp [Store.rounds]; exact ⟨b, hmem, rfl⟩
      refine ⟨by rw [← hst]; exact hS, ?_, ?_, ?_⟩
      · show (roundsOf (x.s.sent ++ [b]) ++ jobRounds x.s.queue).Pairwise (· < ·)
        rw [hq, jobRounds_nil, List.append_nil]
        simp only [roundsOf, List.map_append, List.map_cons, List.map_nil]
        apply pairwise_snoc
        · simpa [hq, jobRounds_nil, roundsOf] using hA
        · intro r hr; have := hle r hr; omega
      · intro r hr
        have hr' : r ∈ roundsOf (x.s.sent ++ [b]) ++ jobRounds x.s.queue := hr
        rw [hq, jobRounds_nil, List.append_nil] at hr'
        simp only [roundsOf, List.map_append, List.map_cons, List.map_nil, List.mem_append, List.mem_singleton] at hr'
        rw [← hst]
        rcases hr' with h1 | h1
        · exact hB r (by rw [hq, jobRounds_nil, List.append_nil]; exact h1)
        · subst h1; exact hbel
      · simp only [NRc]
        refine ⟨hq, hat, ms, b, rfl, hgn, ?_⟩
        intro r hr
        simp only [roundsOf, List.map_append, List.map_cons, List.map_nil, List.mem_append, List.mem_singleton] at hr
        rcases hr with h1 | h1
        · have := hle r h1; omega
        · subst h1; exact Nat.le_refl _
    · rw [heq]
      rw [← hst]
      exact ⟨hS, hA, hB, by simp [NRc, hq, hat]⟩
  · exact ⟨hS, hA, hB, hC⟩

private theorem nrc_queue_irrelevant (x : Sys) (s' : Strm) (h : NRc x) (hp : s'.phase = x.s.phase) (hs : s'.sent = x.s.sent)
    (hq : s'.queue = x.s.queue) (ha : s'.attached = x.s.attached) : NRc ⟨x.store, s'⟩ := by
  unfold NRc at h ⊢
  simp only [hp, hs, hq, ha]
  exact h

private theorem nr_rest (x : Sys) (e : Ev) (h : NR x)
    (he : match e with | .put _ | .start | .scanOpen | .scanNext => False | _ => True) : NR (Sys.step .asIs x e) := by
  obtain ⟨hS, hA, hB, hC⟩ := h
  cases e with
  | put b => cases he
  | start => cases he
  | scanOpen => cases he
  | scanNext => cases he
  | register =>
    simp only [Sys.step, Strm.register]
    split
    · rename_i hp
      simp only [NRc, hp] at hC
      refine ⟨hS, ?_, ?_, by simp [NRc]⟩
      · simpa [hC.1] using hA
      · simpa [hC.1] using hB
    · exact ⟨hS, hA, hB, hC⟩
  | deliver =>
    simp only [Sys.step, Strm.deliver]
    split
    · split
      · exact ⟨hS, hA, hB, hC⟩
      · rename_i hp _ b q hq
        simp only [emit]
        have e1 : roundsOf (x.s.sent ++ [b]) ++ jobRounds q = roundsOf x.s.sent ++ jobRounds x.s.queue := by
          simp [hq, roundsOf, jobRounds, List.filterMap_cons]
        refine ⟨hS, ?_, ?_, by simp [NRc, hp]⟩
        · show (roundsOf (x.s.sent ++ [b]) ++ jobRounds q).Pairwise (· < ·)
          rw [e1]; exact hA
        · intro r hr
          have : r ∈ roundsOf (x.s.sent ++ [b]) ++ jobRounds q := hr
          rw [e1] at this; exact hB r this
      · rename_i hp _ q hq
        have e1 : jobRounds q = jobRounds x.s.queue := by simp [hq, jobRounds, List.filterMap_cons]
        refine ⟨hS, ?_, ?_, by simp [NRc]⟩
        · show (roundsOf x.s.sent ++ jobRounds q).Pairwise (· < ·)
          rw [e1]; exact hA
        · intro r hr
          have : r ∈ roundsOf x.s.sent ++ jobRounds q := hr
          rw [e1] at this; exact hB r this
    · exact ⟨hS, hA, hB, hC⟩
  | replaced =>
    simp only [Sys.step, Strm.replaced]
    split
    · rename_i hat
      have e1 : jobRounds (x.s.queue ++ [Job.close]) = jobRounds x.s.queue := by simp [jobRounds, List.filterMap_append]
      refine ⟨hS, ?_, ?_, ?_⟩
      · show (roundsOf x.s.sent ++ jobRounds (x.s.queue ++ [Job.close])).Pairwise (· < ·)
        rw [e1]; exact hA
      · intro r hr
        have : r ∈ roundsOf x.s.sent ++ jobRounds (x.s.queue ++ [Job.close]) := hr
        rw [e1] at this; exact hB r this
      · unfold NRc at hC ⊢
        cases hp : x.s.phase with
        | idle => simp [hp, hat] at hC
        | started => simp [hp, hat] at hC
        | scanned => simp [hp, hat] at hC
        | scanning c => cases c <;> simp [hp, hat] at hC
        | live => simp [hp]
        | done e => simp [hp]
    · exact ⟨hS, hA, hB, hC⟩
  | detached =>
    simp only [Sys.step, Strm.detached]
    refine ⟨hS, hA, hB, ?_⟩
    unfold NRc at hC ⊢
    cases hp : x.s.phase with
    | idle => simp only [hp] at hC ⊢; exact ⟨hC.1, trivial, hC.2.2⟩
    | started => simp only [hp] at hC ⊢; exact ⟨hC.1, trivial, hC.2.2⟩
    | scanned => simp only [hp] at hC ⊢; exact ⟨hC.1, trivial⟩
    | scanning c =>
      cases c with
      | bolt c => simp only [hp] at hC ⊢; exact ⟨hC.1, trivial, hC.2.2⟩
      | mem pos => simp only [hp] at hC ⊢; exact ⟨hC.1, trivial, hC.2.2⟩
    | live => simp [hp]
    | done e => simp [hp]
  | cancel =>
    simp only [Sys.step, Strm.cancel]
    split
    · exact ⟨hS, hA, hB, hC⟩
    · split
      · exact ⟨hS, hA, hB, by simp [NRc]⟩
      · split
        · exact ⟨hS, hA, hB, by simp [NRc]⟩
        · exact ⟨hS, hA, hB, by simp [NRc]⟩
    · exact ⟨hS, hA, hB, by simp [NRc]⟩
  | sendFail =>
    simp only [Sys.step, Strm.sendFail]
    split
    · exact ⟨hS, hA, hB, by simp [NRc]⟩
    · split
      · exact ⟨hS, hA, hB, hC⟩
      · rename_i b q hq
        have e1 : roundsOf (x.s.sent ++ [b]) ++ jobRounds q = roundsOf x.s.sent ++ jobRounds x.s.queue := by
          simp [hq, roundsOf, jobRounds, List.filterMap_cons]
        refine ⟨hS, ?_, ?_, by simp [NRc]⟩
        · show (roundsOf (x.s.sent ++ [b]) ++ jobRounds q).Pairwise (· < ·)
          rw [e1]; exact hA
        · intro r hr
          have : r ∈ roundsOf (x.s.sent ++ [b]) ++ jobRounds q := hr
          rw [e1] at this; exact hB r this
      · rename_i q hq
        have e1 : jobRounds q = jobRounds x.s.queue := by simp [hq, jobRounds, List.filterMap_cons]
        refine ⟨hS, ?_, ?_, by simp [NRc]⟩
        · show (roundsOf x.s.sent ++ jobRounds q).Pairwise (· < ·)
          rw [e1]; exact hA
        · intro r hr
          have : r ∈ roundsOf x.s.sent ++ jobRounds q := hr
          rw [e1] at this; exact hB r this
    · exact ⟨hS, hA, hB, hC⟩

/-- every append of the run is chain-legal at the moment it is made -/
def legalRun (x : Sys) : List Ev → Prop
  | [] => True
  | e :: es => (match e with | .put b => x.store.allLt b.round | _ => True) ∧ legalRun (Sys.step .asIs x e) es

private theorem nr_step (x : Sys) (e : Ev) (h : NR x) (hl : match e with | .put b => x.store.allLt b.round | _ => True) :
    NR (Sys.step .asIs x e) := by
  cases e with
  | put b => exact nr_put x b h hl
  | start => exact nr_start x h
  | scanOpen => exact nr_scanOpen x h
  | scanNext => exact nr_scanNext x h
  | register => exact nr_rest x _ h trivial
  | deliver => exact nr_rest x _ h trivial
  | replaced => exact nr_rest x _ h trivial
  | detached => exact nr_rest x _ h trivial
  | cancel => exact nr_rest x _ h trivial
  | sendFail => exact nr_rest x _ h trivial

private theorem nr_run (es : List Ev) : ∀ (x : Sys), NR x → legalRun x es → NR (Sys.run .asIs x es) := by
  induction es with
  | nil => intro x h _; exact h
  | cons e es ih =>
    intro x h hl
    exact ih _ (nr_step x e h hl.1) hl.2

/-- **C11, no repeat (code as it is).** For every schedule — any interleaving of chain-legal appends with the steps of the
stream and the actions of its environment — on bolt and on memdb (full ring or not), the rounds handed to the client are
strictly increasing: no round is sent twice, none out of order; and so is everything still queued behind them. -/
theorem c11_no_repeat (x : Sys) (hS : StoreOK x.store) (hidle : match x.s.phase with | .idle => True | _ => False)
    (hfresh : x.s.sent = [] ∧ x.s.queue = [] ∧ x.s.attached = false) (es : List Ev) (hleg : legalRun x es) :
    (roundsOf (Sys.run .asIs x es).s.sent ++ jobRounds (Sys.run .asIs x es).s.queue).Pairwise (· < ·) := by
  have h0 : NR x := by
    refine ⟨hS, by simp [hfresh.1, hfresh.2.1, roundsOf, jobRounds], by simp [hfresh.1, hfresh.2.1, roundsOf, jobRounds], ?_⟩
    unfold NRc
    cases hp : x.s.phase <;> simp [hp] at hidle ⊢
    exact ⟨hfresh.2.1, hfresh.2.2, hfresh.1⟩
  exact (nr_run es x h0 hleg).2.1


-- non-vacuity: a full memdb ring, appends in the middle of the scan and after registration
example :
    let x : Sys := ⟨memOf 10 9, { frm := 5 }⟩
    let es : List Ev := [.start, .scanOpen, .put (tb 10), .scanNext, .put (tb 11), .scanNext, .scanNext, .scanNext, .scanNext, .register, .put (tb 12), .deliver]
    legalRun x es ∧ roundsOf (Sys.run .asIs x es).s.sent = [5, 7, 9, 10, 11, 12] := by
  refine ⟨?_, by decide⟩
  simp only [legalRun, and_true, true_and]
  refine ⟨?_, ?_, ?_⟩ <;> (intro r hr; revert r; decide)

/-! ### what is sent is what is stored (bolt) -/

/-- everything the stream holds — sent, queued, or visible to its open cursor — is an entry of the bolt store -/
def SS (x : Sys) : Prop :=
  ∃ bs, x.store = .bolt bs ∧ (∀ p ∈ bs, p.2.round = p.1) ∧ (∀ b ∈ x.s.sent, (b.round, b) ∈ bs) ∧
    (∀ b ∈ queueBeacons x.s.queue, (b.round, b) ∈ bs) ∧
    (match x.s.phase with
     | .scanning (.bolt c) => ∀ p ∈ c.snap, p ∈ bs
     | .scanning (.mem _) => False
     | _ => True)

private theorem ss_step (x : Sys) (e : Ev) (h : SS x) (hl : match e with | .put b => x.store.allLt b.round | _ => True) :
    SS (Sys.step .asIs x e) := by
  obtain ⟨bs, hst, hlab, hsent, hq, hc⟩ := h
  cases e with
  | put b =>
    rw [hst] at hl
    have hab : ∀ p ∈ bs, p.1 < b.round := fun p hp => hl p.1 (by simp [Store.rounds]; exact ⟨p.2, hp⟩)
    have hput : x.store.put b = .bolt (bs ++ [(b.round, b)]) := by
      rw [hst]; simp [Store.put, Bolt.put, insert_above' _ _ _ hab]
    have hsub : ∀ p, p ∈ bs → p ∈ bs ++ [(b.round, b)] := fun p hp => List.mem_append_left _ hp
    refine ⟨bs ++ [(b.round, b)], hput, ?_, ?_, ?_, ?_⟩
    · intro p hp
      rcases List.mem_append.mp hp with h1 | h1
      · exact hlab p h1
      · simp at h1; subst h1; rfl
    · simp only [Sys.step, Strm.onPut]
      split <;> exact fun b' hb' => hsub _ (hsent b' hb')
    · simp only [Sys.step, Strm.onPut]
      split
      · intro b' hb'
        simp only [queueBeacons, List.filterMap_append, List.mem_append] at hb'
        rcases hb' with h1 | h1
        · exact hsub _ (hq b' h1)
        · simp at h1; subst h1; simp
      · exact fun b' hb' => hsub _ (hq b' hb')
    · have hph : (Sys.step .asIs x (.put b)).s.phase = x.s.phase := by
        simp only [Sys.step, Strm.onPut]; split <;> rfl
      simp only [hph]
      cases hp : x.s.phase with
      | scanning c =>
        cases c with
        | bolt c => simp only [hp] at hc ⊢; exact fun p hp' => hsub _ (hc p hp')
        | mem pos => simp [hp] at hc
      | _ => simp
  | start =>
    refine ⟨bs, hst, hlab, ?_⟩
    simp only [Sys.step, Strm.start]
    split
    · split
      · exact ⟨hsent, hq, trivial⟩
      · split
        · exact ⟨hsent, hq, trivial⟩
        · split <;> exact ⟨hsent, hq, trivial⟩
    · exact ⟨hsent, hq, hc⟩
  | scanOpen =>
    refine ⟨bs, hst, hlab, ?_⟩
    simp only [Sys.step, Strm.scanOpen]
    split
    · rw [hst]
      simp only [Bolt.cursorStep, Cursor.move]
      by_cases hi : seekIdx x.s.frm bs < bs.length
      · simp only [hi, if_true]
        have hget : bs[seekIdx x.s.frm bs]? = some bs[seekIdx x.s.frm bs] := by simp [hi]
        rw [hget]
        simp only [emit]
        have hmem : bs[seekIdx x.s.frm bs] ∈ bs := List.getElem_mem hi
        refine ⟨?_, hq, fun p hp => hp⟩
        intro b' hb'
        rcases List.mem_append.mp hb' with h1 | h1
        · exact hsent b' h1
        · simp at h1; subst h1
          have := hlab _ hmem
          rw [this]; exact hmem
      · simp only [hi, if_false]
        exact ⟨hsent, hq, trivial⟩
    · exact ⟨hsent, hq, hc⟩
  | scanNext =>
    refine ⟨bs, hst, hlab, ?_⟩
    simp only [Sys.step, Strm.scanNext]
    split
    · rename_i c hp
      simp only [hp] at hc
      obtain ⟨snap, pos⟩ := c
      simp only [Bolt.cursorStep, Cursor.move]
      cases pos with
      | none => simp; exact ⟨hsent, hq⟩
      | some j =>
        by_cases hn : j + 1 < snap.length
        · simp only [hn, if_true]
          have hget : snap[j + 1]? = some snap[j + 1] := by simp [hn]
          rw [hget]
          simp only [emit]
          have hmem : snap[j + 1] ∈ bs := hc _ (List.getElem_mem hn)
          refine ⟨?_, hq, hc⟩
          intro b' hb'
          rcases List.mem_append.mp hb' with h1 | h1
          · exact hsent b' h1
          · simp at h1; subst h1
            have := hlab _ hmem
            rw [this]; exact hmem
        · simp only [hn, if_false]
          exact ⟨hsent, hq, trivial⟩
    · rename_i pos hp; simp [hp] at hc
    · exact ⟨hsent, hq, hc⟩
  | register =>
    refine ⟨bs, hst, hlab, ?_⟩
    simp only [Sys.step, Strm.register]
    split
    · exact ⟨hsent, by simp [queueBeacons], trivial⟩
    · exact ⟨hsent, hq, hc⟩
  | deliver =>
    refine ⟨bs, hst, hlab, ?_⟩
    simp only [Sys.step, Strm.deliver]
    split
    · rename_i hp
      split
      · exact ⟨hsent, hq, hc⟩
      · rename_i b q hqu
        simp only [emit]
        have hb : (b.round, b) ∈ bs := hq b (by simp [hqu, queueBeacons])
        refine ⟨?_, fun b' hb' => hq b' (by simp [hqu, queueBeacons] at hb' ⊢; exact Or.inr hb'), by simp [hp]⟩
        intro b' hb'
        rcases List.mem_append.mp hb' with h1 | h1
        · exact hsent b' h1
        · simp at h1; subst h1; exact hb
      · rename_i q hqu
        exact ⟨hsent, fun b' hb' => hq b' (by simpa [hqu, queueBeacons] using hb'), trivial⟩
    · exact ⟨hsent, hq, hc⟩
  | replaced =>
    refine ⟨bs, hst, hlab, ?_⟩
    simp only [Sys.step, Strm.replaced]
    split
    · exact ⟨hsent, fun b' hb' => hq b' (by simpa [queueBeacons, List.filterMap_append] using hb'), hc⟩
    · exact ⟨hsent, hq, hc⟩
  | detached => exact ⟨bs, hst, hlab, hsent, hq, hc⟩
  | cancel =>
    refine ⟨bs, hst, hlab, ?_⟩
    simp only [Sys.step, Strm.cancel]
    split
    · exact ⟨hsent, hq, hc⟩
    · split
      · exact ⟨hsent, hq, trivial⟩
      · split <;> exact ⟨hsent, hq, trivial⟩
    · exact ⟨hsent, hq, trivial⟩
  | sendFail =>
    refine ⟨bs, hst, hlab, ?_⟩
    simp only [Sys.step, Strm.sendFail]
    split
    · exact ⟨hsent, hq, trivial⟩
    · split
      · exact ⟨hsent, hq, hc⟩
      · rename_i b q hqu
        have hb : (b.round, b) ∈ bs := hq b (by simp [hqu, queueBeacons])
        refine ⟨?_, fun b' hb' => hq b' (by simp [hqu, queueBeacons] at hb' ⊢; exact Or.inr hb'), trivial⟩
        intro b' hb'
        rcases List.mem_append.mp hb' with h1 | h1
        · exact hsent b' h1
        · simp at h1; subst h1; exact hb
      · rename_i q hqu
        exact ⟨hsent, fun b' hb' => hq b' (by simpa [hqu, queueBeacons] using hb'), trivial⟩
    · exact ⟨hsent, hq, hc⟩


private theorem lookup_of_mem_pairwise (bs : BoltState) (h : (bs.map (·.1)).Pairwise (· < ·)) (p : Nat × Beacon) (hp : p ∈ bs) :
    lookup p.1 bs = some p.2 := by
  induction bs with
  | nil => cases hp
  | cons a t ih =>
    obtain ⟨k, v⟩ := a
    simp only [List.map_cons, List.pairwise_cons] at h
    rcases List.mem_cons.mp hp with rfl | hp
    · simp [lookup]
    · have hlt : k < p.1 := h.1 p.1 (by simp; exact ⟨p.2, hp⟩)
      have hne : ¬ p.1 = k := by omega
      simp only [lookup, hne, if_false]
      exact ih h.2 hp

/-- **C11, content (bolt, code as it is).** For every schedule with chain-legal appends, every beacon handed to the
client — in the scan phase or live — is, byte for byte, the beacon the store holds for that round. -/
theorem c11_sent_stored (x : Sys) (bs0 : BoltState) (hst : x.store = .bolt bs0) (hS : StoreOK x.store)
    (hidle : match x.s.phase with | .idle => True | _ => False)
    (hfresh : x.s.sent = [] ∧ x.s.queue = [] ∧ x.s.attached = false) (es : List Ev) (hleg : legalRun x es) :
    ∃ bs, (Sys.run .asIs x es).store = .bolt bs ∧ ∀ b ∈ (Sys.run .asIs x es).s.sent, Bolt.get bs b.round = .ok b := by
  have h0 : SS x := by
    refine ⟨bs0, hst, ?_, by simp [hfresh.1], by simp [hfresh.2.1, queueBeacons], ?_⟩
    · rw [hst] at hS; exact hS.2
    · cases hp : x.s.phase <;> simp [hp] at hidle ⊢
  have hNR0 : NR x := by
    refine ⟨hS, by simp [hfresh.1, hfresh.2.1, roundsOf, jobRounds], by simp [hfresh.1, hfresh.2.1, roundsOf, jobRounds], ?_⟩
    unfold NRc
    cases hp : x.s.phase <;> simp [hp] at hidle ⊢
    exact ⟨hfresh.2.1, hfresh.2.2, hfresh.1⟩
  have key : ∀ (es : List Ev) (x : Sys), SS x → legalRun x es → SS (Sys.run .asIs x es) := by
    intro es
    induction es with
    | nil => intro x h _; exact h
    | cons e es ih => intro x h hl; exact ih _ (ss_step x e h hl.1) hl.2
  obtain ⟨bs, h1, _, h3, _⟩ := key es x h0 hleg
  have hok := (nr_run es x hNR0 hleg).1
  rw [h1] at hok
  refine ⟨bs, h1, fun b hb => ?_⟩
  have := lookup_of_mem_pairwise bs hok.1 _ (h3 b hb)
  simp [Bolt.get, this]

/-! ### several streams: each one sees a run of the single-stream machine -/

private theorem find_unique (l : List Entry) (sid : String) (me me0 : Entry)
    (hnd : (l.map (·.sid)).Nodup) (hf : l.find? (·.sid == sid) = some me0) (hme : me ∈ l) (hs : me.sid = sid) : me0 = me := by
  induction l with
  | nil => cases hme
  | cons a t ih =>
    simp only [List.map_cons, List.nodup_cons] at hnd
    simp only [List.find?_cons] at hf
    cases hb : (a.sid == sid) with
    | true =>
      have ha : a.sid = sid := by simpa using hb
      rw [hb] at hf
      cases hf
      rcases List.mem_cons.mp hme with rfl | hme
      · rfl
      · exfalso; apply hnd.1
        simp only [List.mem_map]
        exact ⟨me, hme, by rw [hs, ha]⟩
    | false =>
      have ha : ¬ a.sid = sid := by simpa using hb
      rw [hb] at hf
      rcases List.mem_cons.mp hme with rfl | hme
      · exact absurd hs ha
      · exact ih hnd.2 hf hme

/-- **C11, several streams and reconnects.** In a system of any number of streams over one callback store (distinct stream
handles, callback ids shared by streams from one address), every step of the system — an append, or a step of any
stream — is, for each single stream, one step of the single-stream machine (its own step, or `replaced` / `detached`
caused by another stream under its id), or no step at all. Hence every statement above that holds for ALL event sequences
(`c11_scan_exact`, `c11_no_repeat`, `c11_sent_stored`, `c11_exact_tracked`) holds for every stream of such a system. -/
theorem c11_net_projection (h : Handover) (n : Net) (hnd : (n.streams.map (·.sid)).Nodup) (me : Entry) (hme : me ∈ n.streams) :
    (∀ b, ∃ me' ∈ (n.put b).streams, me'.sid = me.sid ∧ me'.addr = me.addr ∧
        (⟨(n.put b).store, me'.s⟩ : Sys) = Sys.step h ⟨n.store, me.s⟩ (.put b)) ∧
    (∀ sid' ev, ∃ me' ∈ (n.own h sid' ev).streams, me'.sid = me.sid ∧ me'.addr = me.addr ∧ (n.own h sid' ev).store = n.store ∧
        (me'.s = me.s ∨ ∃ e : Ev, (⟨n.store, me'.s⟩ : Sys) = Sys.step h ⟨n.store, me.s⟩ e)) := by
  constructor
  · intro b
    refine ⟨{ me with s := me.s.onPut b }, ?_, rfl, rfl, rfl⟩
    simp only [Net.put, List.mem_map]
    exact ⟨me, hme, rfl⟩
  · intro sid' ev
    unfold Net.own
    cases hf : n.streams.find? (·.sid == sid') with
    | none => exact ⟨me, hme, rfl, rfl, rfl, Or.inl rfl⟩
    | some me0 =>
      by_cases hs : me.sid = sid'
      · have := find_unique n.streams sid' me me0 hnd hf hme hs
        subst this
        refine ⟨{ me0 with s := (Sys.step h ⟨n.store, me0.s⟩ ev.toEv).s }, ?_, rfl, rfl, rfl, Or.inr ⟨ev.toEv, ?_⟩⟩
        · simp only [List.mem_map]
          exact ⟨me0, hme, by simp [hs]⟩
        · cases ev <;> rfl
      · by_cases ha : me.addr = me0.addr
        · cases heff : effectOf n.store ev me0.s (Sys.step h ⟨n.store, me0.s⟩ ev.toEv).s with
          | none =>
            refine ⟨me, ?_, rfl, rfl, rfl, Or.inl rfl⟩
            simp only [List.mem_map]
            exact ⟨me, hme, by simp [hs, ha, heff]⟩
          | add =>
            refine ⟨{ me with s := me.s.replaced }, ?_, rfl, rfl, rfl, Or.inr ⟨.replaced, rfl⟩⟩
            simp only [List.mem_map]
            exact ⟨me, hme, by simp [hs, ha, heff]⟩
          | remove =>
            refine ⟨{ me with s := me.s.detached }, ?_, rfl, rfl, rfl, Or.inr ⟨.detached, rfl⟩⟩
            simp only [List.mem_map]
            exact ⟨me, hme, by simp [hs, ha, heff]⟩
        · refine ⟨me, ?_, rfl, rfl, rfl, Or.inl rfl⟩
          simp only [List.mem_map]
          exact ⟨me, hme, by simp [hs, ha]⟩

/-! ### non-vacuity of the conditional theorems -/

private theorem okStore : BoltInv [(1, tb 1), (2, tb 2), (3, tb 3)] :=
  ⟨⟨by decide, by decide, trivial⟩, by intro p hp; simp at hp; rcases hp with rfl | rfl | rfl <;> rfl⟩

-- `c11_exact_partial`: its hypotheses hold on a concrete run (scan without appends, then appends and a delivery)
example : ∃ bs', roundsOf (scanOut bs' 2) = [2, 3, 4, 5] ∧
    (Sys.run .asIs (Sys.step .asIs (Sys.run .asIs (Sys.step .asIs ⟨.bolt [(1, tb 1), (2, tb 2), (3, tb 3)], { frm := 2, phase := .started }⟩ .scanOpen)
        [.scanNext, .scanNext]) .register) [.put (tb 4), .deliver, .put (tb 5)]).store = .bolt bs' := by
  obtain ⟨bs', h1, _⟩ := c11_exact_partial [(1, tb 1), (2, tb 2), (3, tb 3)] okStore 3 (by decide) { frm := 2, phase := .started } rfl rfl
    (by decide) [.scanNext, .scanNext] [.put (tb 4), .deliver, .put (tb 5)] (by decide) trivial (by decide) ⟨by decide, by decide, trivial⟩
  refine ⟨bs', ?_, h1⟩
  have : bs' = [(1, tb 1), (2, tb 2), (3, tb 3), (4, tb 4), (5, tb 5)] := by
    have h2 : (Sys.run .asIs (Sys.step .asIs (Sys.run .asIs (Sys.step .asIs ⟨.bolt [(1, tb 1), (2, tb 2), (3, tb 3)], { frm := 2, phase := .started }⟩ .scanOpen)
        [.scanNext, .scanNext]) .register) [.put (tb 4), .deliver, .put (tb 5)]).store = .bolt [(1, tb 1), (2, tb 2), (3, tb 3), (4, tb 4), (5, tb 5)] := by rfl
    rw [h2] at h1; cases h1; rfl
  subst this; decide

-- `c11_sent_stored` / `c11_no_repeat`: a fresh stream on a well-formed store with a legal run
example : ∃ bs, ∀ b ∈ (Sys.run .asIs ⟨.bolt [(1, tb 1), (2, tb 2), (3, tb 3)], { frm := 2 }⟩
    [.start, .scanOpen, .put (tb 4), .scanNext, .scanNext, .register, .put (tb 5), .deliver]).s.sent, Bolt.get bs b.round = .ok b := by
  have hS : StoreOK (.bolt [(1, tb 1), (2, tb 2), (3, tb 3)]) :=
    ⟨by decide, by intro p hp; simp at hp; rcases hp with rfl | rfl | rfl <;> rfl⟩
  have hleg : legalRun ⟨.bolt [(1, tb 1), (2, tb 2), (3, tb 3)], { frm := 2 }⟩
      [.start, .scanOpen, .put (tb 4), .scanNext, .scanNext, .register, .put (tb 5), .deliver] := by
    simp only [legalRun, and_true, true_and]
    refine ⟨?_, ?_⟩ <;> (intro r hr; revert r; decide)
  obtain ⟨bs, _, h⟩ := c11_sent_stored _ _ rfl hS trivial ⟨rfl, rfl, rfl⟩ _ hleg
  exact ⟨bs, h⟩

/-! ### concurrent writers of one round reach the streams once (corollary of C02)

`callbackStore.Put` dispatches a beacon to the callbacks exactly when the Put below it answered nil
(`tie_dispatch_lossless`: base Put first, error ⇒ return). The `put b` event of this file *is* such a Put. When `k` writers
(the aggregator, the sync manager) Put beacons of the next round at the same time, C02 shows that exactly the first
acceptable one answers nil — so the streams see at most one `put` event for that round, and exactly one on an unchained
scheme. -/

/-- the `put` events `k` concurrent Puts of the next round produce, in the order the mutex serialises them -/
def raceEvents (s : Chain.Stack) (bs : List Beacon) : List Ev :=
  ((bs.zip (s.putAll bs).2).filter (fun p => p.2 == .ok)).map fun p => .put (Chain.stored s.chained p.1)

private theorem count_snd_zip {α β : Type} [BEq β] (l1 : List α) (l2 : List β) (h : l1.length = l2.length) (a : β) :
    ((l1.zip l2).filter (fun p => p.2 == a)).length = l2.countP (· == a) := by
  induction l1 generalizing l2 with
  | nil => cases l2 with
    | nil => rfl
    | cons y l2 => simp at h
  | cons x l1 ih =>
    cases l2 with
    | nil => simp at h
    | cons y l2 =>
      have := ih l2 (by simpa using h)
      simp only [List.zip_cons_cons, List.filter_cons, List.countP_cons]
      split <;> simp_all

/-- **c11_concurrent_puts_one_event.** `k` concurrent Puts of round `head+1` (any order `bs`) hand the streams at most one
`put` event; on an unchained scheme, for a non-empty race, exactly one — that of the first writer in the order. A stream in
its live phase therefore queues the round once. -/
theorem c11_concurrent_puts_one_event (s : Chain.Stack) (h : Chain.ChainInv s) (bs : List Beacon)
    (hr : ∀ b ∈ bs, b.round = (Chain.Stack.last s.base).round + 1) :
    (raceEvents s bs).length ≤ 1 ∧
    (s.chained = false → bs ≠ [] → (raceEvents s bs).length = 1) := by
  obtain ⟨c1, _, c3⟩ := Chain.c02_concurrent_same_round_one_winner s h bs hr
  have hlen : (raceEvents s bs).length = (s.putAll bs).2.count .ok := by
    unfold raceEvents
    rw [List.length_map, count_snd_zip bs _ c3.symm]
    rfl
  refine ⟨?_, ?_⟩
  · rw [hlen, c1]; split <;> omega
  · intro hc hne
    cases bs with
    | nil => exact absurd rfl hne
    | cons b rest =>
      rw [hlen]
      exact (Chain.c02_concurrent_unchained_first_wins s h hc b rest hr).1

example : (raceEvents (Chain.Stack.init false [0xaa]) [⟨1, [0xc2], [0x07]⟩, ⟨1, [0xc0], []⟩, ⟨1, [0xc2], []⟩]).length = 1 ∧
    ((Chain.Stack.init false [0xaa]).putAll [⟨1, [0xc2], [0x07]⟩, ⟨1, [0xc0], []⟩, ⟨1, [0xc2], []⟩]).2 = [.ok, .dupDiffSig, .already] := by
  decide

end Drand.Beacon.Stream
