/-
C11 — a beacon stream delivers every round once, in order, from the requested round.
Model: Drand/Beacon/Stream.lean (`beacon.SyncChain` as a small-step machine; protocol `SyncChain` and public
`PublicRandStream` both run it).

Full statement (`c11_exact`): for every schedule of store appends and stream steps, a stream from round r hands the client
exactly the stored beacons r, r+1, r+2, … (first from the store, then live), each once, in order, each equal to the stored one.

  * the code as it is (`Handover.asIs`) does NOT satisfy it:
      `c11_gap_counterexample`          bolt: a beacon appended after the cursor's read transaction was opened and before
                                        `AddCallback` is in neither phase (4 stream steps, 2 appends) — the TODO in the source
      `c11_memdb_shift_counterexample`  memdb, full ring: an append during the scan shifts the slice under the positional
                                        cursor, `Next` skips a round — even with no append between scan and registration
      `c11_memdb_evicted_counterexample` memdb: a start round that has left the ring is not refused, `Seek` misses, the
                                        stored rounds above it are never sent
      `c11_detach_counterexample`       two streams under one callback id: the older one's `RemoveCallback(id)` removes the
                                        newer one's callback, which then gets nothing more and never ends
    what does hold for it:
      `c11_scan_exact`      the scan phase sends exactly the snapshot's beacons ≥ r, ascending, each the stored one
      `c11_live_fifo`       after `AddCallback`: exactly the beacons appended since, in append order, each once
      `c11_no_repeat`       no round is ever sent twice, rounds only go up — every schedule, bolt and memdb
      `c11_sent_stored`     (bolt) every beacon sent is the stored beacon of its round
      `c11_exact_partial`   no append between ScanOpen and Register  ⇒  sent ++ queued = all stored beacons ≥ r, in order
  * the corrected variant (`Handover.tracked`: remember the next round, drop what was sent, fill gaps from the store):
      `c11_exact_tracked`   every schedule, both back-ends: rounds sent are r, r+1, r+2, … without gap or repeat
      `c11_tracked_complete` … and a live stream with an empty queue has sent everything up to the head
-/
import Drand.Beacon.Stream
import Gen.Callback
import DrandProofs.C18

namespace Drand.Beacon.Stream
open Drand Drand.Store

/-! ### ties to the regenerated facts: the order of store/cursor calls inside `SyncChain` -/

/-- `Last`, then (inside `Cursor`) `Seek(fromRound)` / `Next`, and only then `AddCallback`; `RemoveCallback(id)` on a
failed live `Send` and on `ctx.Done` -/
theorem tie_syncchain_calls :
    Gen.syncChainCalls = ["store.Last(ctx)", "store.Cursor(ctx,func{…})", "c.Seek(ctx,fromRound)", "c.Next(ctx)",
      "store.AddCallback(id,func{…})", "store.RemoveCallback(id)", "store.RemoveCallback(id)"] ∧
    Gen.syncChainScanLoop = "bb!=nil;bb,err=c.Next(ctx)" := by decide

/-- the refusal check and the `fromRound != 0` guard around the scan -/
theorem tie_syncchain_guards : Gen.syncChainGuards = ["err!=nil", "last.Round<fromRound", "fromRound!=0"] := by decide

/-! ### the witnesses (replayed on the real SyncChain: corpus/C11/*.json) -/

def tb (r : Nat) : Beacon := ⟨r, [UInt8.ofNat r], if r = 0 then [] else [UInt8.ofNat (r - 1)]⟩
def boltOf (n : Nat) : Store := (List.range (n + 1)).foldl (fun st r => st.put (tb r)) (.bolt [])
def memOf (cap n : Nat) : Store := (List.range (n + 1)).foldl (fun st r => st.put (tb r)) (.mem ⟨cap, []⟩)
def roundsOf (l : List Beacon) : List Nat := l.map (·.round)
def jobRounds (q : List Job) : List Nat := q.filterMap fun | .beacon b => some b.round | .close => none

/-- **Hand-over gap (bolt).** Store holds 0..2; stream from 1. The scan's read transaction is opened, round 3 is appended,
the scan finishes (it sees the snapshot 0..2), the callback is registered, round 4 is appended and delivered:
the client gets 1, 2, 4 — round 3 is stored (`get 3` answers) but is never sent and nothing is queued. -/
theorem c11_gap_counterexample :
    let x := Sys.run .asIs ⟨boltOf 2, { frm := 1 }⟩
      [.start, .scanOpen, .put (tb 3), .scanNext, .scanNext, .register, .put (tb 4), .deliver]
    roundsOf x.s.sent = [1, 2, 4] ∧ x.s.queue = [] ∧ x.store.get 3 = .ok (tb 3) ∧ x.s.attached = true := by decide

/-- the same with the append between the closing of the cursor and `AddCallback` -/
theorem c11_gap_counterexample' :
    let x := Sys.run .asIs ⟨boltOf 2, { frm := 2 }⟩ [.start, .scanOpen, .scanNext, .put (tb 3), .register, .put (tb 4), .deliver]
    roundsOf x.s.sent = [2, 4] ∧ x.s.queue = [] ∧ x.store.get 3 = .ok (tb 3) := by decide

/-- **Cursor shift (memdb, full ring).** Capacity 10 holding 0..9; stream from 5. After the first `Send` (round 5, position 5)
round 10 is appended: round 0 is dropped, every beacon moves one position down, `Next` reads position 6 = round 7.
No append happens between the end of the scan and `AddCallback`, and still round 6 is never sent. -/
theorem c11_memdb_shift_counterexample :
    let x := Sys.run .asIs ⟨memOf 10 9, { frm := 5 }⟩
      [.start, .scanOpen, .put (tb 10), .scanNext, .scanNext, .scanNext, .scanNext, .scanNext, .register]
    roundsOf x.s.sent = [5, 7, 8, 9, 10] ∧ x.store.get 6 = .ok (tb 6) ∧ (match x.s.phase with | .live => true | _ => false) = true := by decide

/-- **Evicted start round (memdb).** Capacity 10 holding 2..11; a stream from 1 is not refused (11 ≥ 1), `Seek(1)` finds
nothing, the error is swallowed and the stream goes live: the first beacon the client sees is 12 (3..11 are still stored). -/
theorem c11_memdb_evicted_counterexample :
    let x := Sys.run .asIs ⟨memOf 10 11, { frm := 1 }⟩ [.start, .scanOpen, .register, .put (tb 12), .deliver]
    roundsOf x.s.sent = [12] ∧ x.store.get 3 = .ok (tb 3) ∧ x.store.get 11 = .ok (tb 11) := by decide

/-- **Stale RemoveCallback.** Streams a and b come from one address (one callback id). a is live, b registers (a gets the
close signal queued behind round 4), a's `Send` of round 4 fails: its `RemoveCallback(id)` removes b's callback.
Rounds 6 and 7 are appended: b is still in its live phase, is no longer attached, has nothing queued and has sent only 5. -/
theorem c11_detach_counterexample :
    let n0 : Net := ⟨memOf 16 3, [⟨"a", "8.8.8.8:1001", { frm := 0 }⟩, ⟨"b", "8.8.8.8:1001", { frm := 0 }⟩]⟩
    let n := ((((((((((n0.own .asIs "a" .start).own .asIs "a" .register).put (tb 4)).own .asIs "b" .start).own .asIs "b" .register).put (tb 5)).own
      .asIs "a" .sendFail).put (tb 6)).put (tb 7)).own .asIs "b" .deliver).own .asIs "b" .deliver
    (n.streams.map fun e => (e.sid, roundsOf e.s.sent, e.s.attached, jobRounds e.s.queue,
        (match e.s.phase with | .live => "live" | .done .sendError => "send-error" | _ => "other"))) =
      [("a", [4], false, [], "send-error"), ("b", [5], false, [], "live")] ∧ n.store.head = 7 := by decide

/-! ### the scan phase (bolt) -/

variable {α : Type}

private theorem sorted_tail' {a : Nat × α} {t : List (Nat × α)} (h : Sorted (a :: t)) : Sorted t := by
  cases t with
  | nil => trivial
  | cons b t => obtain ⟨k, v⟩ := a; obtain ⟨k', v'⟩ := b; exact h.2

private theorem sorted_lt_of_mem {k : Nat} {v : α} {t : List (Nat × α)} (h : Sorted ((k, v) :: t)) (p : Nat × α) (hp : p ∈ t) : k < p.1 := by
  induction t generalizing k v with
  | nil => cases hp
  | cons b t ih =>
    obtain ⟨k', v'⟩ := b
    rcases List.mem_cons.mp hp with rfl | hp
    · exact h.1
    · exact Nat.lt_trans h.1 (ih h.2 hp)

/-- on a sorted snapshot, what lies from the `Seek k` position on is exactly what has a key ≥ k -/
theorem drop_seekIdx (l : List (Nat × α)) (h : Sorted l) (k : Nat) :
    l.drop (seekIdx k l) = l.filter (fun p => decide (k ≤ p.1)) := by
  induction l with
  | nil => rfl
  | cons a t ih =>
    obtain ⟨k', v'⟩ := a
    unfold seekIdx
    split
    · rename_i hk
      have : ∀ p ∈ (k', v') :: t, decide (k ≤ p.1) = true := by
        intro p hp
        rcases List.mem_cons.mp hp with rfl | hp
        · simpa using hk
        · have := sorted_lt_of_mem h p hp; simp; omega
      simp [List.filter_eq_self.mpr this]
    · rename_i hk
      simp [hk, ih (sorted_tail' h)]

def scanOut (bs : BoltState) (frm : Nat) : List Beacon := (bs.filter (fun p => decide (frm ≤ p.1))).map (·.2)

/-- what the bolt scan has sent, by phase -/
def ScanInv (bs : BoltState) (frm : Nat) (s : Strm) : Prop :=
  match s.phase with
  | .scanning (.bolt c) => c.snap = bs ∧ ∃ j, c.pos = some j ∧ seekIdx frm bs ≤ j ∧ j < bs.length ∧
        s.sent = ((bs.drop (seekIdx frm bs)).take (j + 1 - seekIdx frm bs)).map (·.2)
  | .scanning (.mem _) => False
  | .scanned => s.sent = scanOut bs frm
  | .live => ∃ l, s.sent = scanOut bs frm ++ l
  | .done _ => True
  | .idle => False
  | .started => False

private theorem scanInv_open (bs : BoltState) (hb : Sorted bs) (s : Strm) (hs : s.phase = .started) (hsent : s.sent = []) :
    ScanInv bs s.frm (s.scanOpen .asIs (.bolt bs)) := by
  unfold Strm.scanOpen
  simp only [hs, Bolt.cursorStep, Cursor.move]
  by_cases hi : seekIdx s.frm bs < bs.length
  · simp only [hi, if_true]
    have hget : bs[seekIdx s.frm bs]? = some bs[seekIdx s.frm bs] := by simp [hi]
    rw [hget]
    simp only [emit, ScanInv]
    refine ⟨trivial, seekIdx s.frm bs, rfl, Nat.le_refl _, hi, ?_⟩
    have h1 : seekIdx s.frm bs + 1 - seekIdx s.frm bs = 1 := by omega
    rw [h1, hsent, List.take_one, List.head?_drop, hget]
    rfl
  · simp only [hi, if_false, ScanInv]
    rw [hsent, scanOut, ← drop_seekIdx bs hb]
    simp [List.drop_eq_nil_of_le (Nat.le_of_not_lt hi)]

private theorem phase_onPut (s : Strm) (b : Beacon) : (s.onPut b).phase = s.phase ∧ (s.onPut b).sent = s.sent ∧ (s.onPut b).frm = s.frm := by
  unfold Strm.onPut; split <;> simp

private theorem scanInv_step (bs : BoltState) (hb : Sorted bs) (frm : Nat) (x : Sys) (e : Ev) (h : ScanInv bs frm x.s) :
    ScanInv bs frm (Sys.step .asIs x e).s := by
  cases e with
  | put b =>
    have := phase_onPut x.s b
    simp only [Sys.step]
    unfold ScanInv at h ⊢
    rw [this.1, this.2.1]; exact h
  | start =>
    simp only [Sys.step, Strm.start]
    split
    · rename_i hp; simp [ScanInv, hp] at h
    · exact h
  | scanOpen =>
    simp only [Sys.step, Strm.scanOpen]
    split
    · rename_i hp; simp [ScanInv, hp] at h
    · exact h
  | scanNext =>
    simp only [Sys.step, Strm.scanNext]
    split
    · rename_i c hp
      simp only [ScanInv, hp] at h
      obtain ⟨hsnap, j, hpos, hij, hjl, hsent⟩ := h
      obtain ⟨snap, pos⟩ := c
      simp only at hsnap hpos
      subst hsnap; subst hpos
      simp only [Bolt.cursorStep, Cursor.move]
      by_cases hn : j + 1 < snap.length
      · simp only [hn, if_true]
        have hget : snap[j + 1]? = some snap[j + 1] := by simp [hn]
        rw [hget]
        simp only [emit, ScanInv]
        refine ⟨trivial, j + 1, rfl, by omega, hn, ?_⟩
        rw [hsent]
        have h2 : j + 1 + 1 - seekIdx frm snap = (j + 1 - seekIdx frm snap) + 1 := by omega
        rw [h2, List.take_succ, List.map_append]
        congr 1
        have h3 : seekIdx frm snap + (j + 1 - seekIdx frm snap) = j + 1 := by omega
        simp [List.getElem?_drop, h3, hget]
      · simp only [hn, if_false, ScanInv]
        rw [hsent, scanOut, ← drop_seekIdx snap hb]
        congr 1
        apply List.take_of_length_le
        simp; omega
    · rename_i p hp; simp [ScanInv, hp] at h
    · exact h
  | register =>
    simp only [Sys.step, Strm.register]
    split
    · rename_i hp
      simp only [ScanInv, hp] at h
      simp [ScanInv, h]
    · exact h
  | deliver =>
    simp only [Sys.step, Strm.deliver]
    split
    · rename_i hp
      simp only [ScanInv, hp] at h
      obtain ⟨l, hl⟩ := h
      split
      · simp [ScanInv, hp, hl]
      · rename_i b q hq
        simp only [emit, ScanInv, hp]; exact ⟨l ++ [b], by simp [hl]⟩
      · simp [ScanInv]
    · exact h
  | replaced =>
    simp only [Sys.step, Strm.replaced]
    split
    · unfold ScanInv at h ⊢; exact h
    · exact h
  | detached => simp only [Sys.step, Strm.detached]; unfold ScanInv at h ⊢; exact h
  | cancel =>
    simp only [Sys.step, Strm.cancel]
    split
    · exact h
    · rename_i hp; simp [ScanInv, hp] at h
    · simp [ScanInv]
  | sendFail =>
    simp only [Sys.step, Strm.sendFail]
    split
    · simp [ScanInv]
    · split
      · exact h
      · simp [ScanInv]
      · simp [ScanInv]
    · exact h


/-- **C11, scan phase (bolt, code as it is).** Open the cursor on a store `bs` (sorted, each entry labelled with its own
round) for a stream from round `frm`; then, after ANY sequence of further events — appends, steps of this stream, actions
of the environment — the stream has, while it scans, sent a non-empty prefix of the snapshot's entries with round ≥ frm,
once the cursor is closed exactly all of them (`scanOut bs frm`), ascending and each equal to the stored beacon, and in
the live phase that list followed by live deliveries. Appends made after the cursor was opened are not among them. -/
theorem c11_scan_exact (bs : BoltState) (hb : BoltInv bs) (s : Strm) (hs : s.phase = .started) (hsent : s.sent = [])
    (es : List Ev) :
    ScanInv bs s.frm (Sys.run .asIs (Sys.step .asIs ⟨.bolt bs, s⟩ .scanOpen) es).s := by
  have h0 : ScanInv bs s.frm (Sys.step .asIs ⟨.bolt bs, s⟩ .scanOpen).s := scanInv_open bs hb.1 s hs hsent
  generalize Sys.step .asIs ⟨.bolt bs, s⟩ .scanOpen = x at h0
  induction es generalizing x with
  | nil => exact h0
  | cons e es ih => exact ih _ (scanInv_step bs hb.1 s.frm x e h0)

/-- what the scan sends is a sub-list of the snapshot: every beacon is the stored beacon of its round, rounds ascend -/
theorem c11_scan_out_stored (bs : BoltState) (hb : BoltInv bs) (frm : Nat) :
    (∀ b ∈ scanOut bs frm, Bolt.get bs b.round = .ok b ∧ frm ≤ b.round) ∧
    (∀ r b, Bolt.get bs r = .ok b → frm ≤ r → b ∈ scanOut bs frm) := by
  constructor
  · intro b hbm
    simp only [scanOut, List.mem_map, List.mem_filter, decide_eq_true_eq] at hbm
    obtain ⟨p, ⟨hp, hge⟩, rfl⟩ := hbm
    have hl := hb.2 p hp
    refine ⟨?_, by omega⟩
    have : lookup p.2.round bs = some p.2 := by
      rw [hl]
      clear hge hl
      have hs := hb.1
      induction bs with
      | nil => cases hp
      | cons a t ih =>
        obtain ⟨k, v⟩ := a
        rcases List.mem_cons.mp hp with rfl | hp
        · simp [lookup]
        · have hlt := sorted_lt_of_mem hs p hp
          have : ¬ p.1 = k := by omega
          simp only [lookup, this, if_false]
          exact ih ⟨sorted_tail' hs, fun q hq => hb.2 q (List.mem_cons_of_mem _ hq)⟩ hp (sorted_tail' hs)
    simp [Bolt.get, this]
  · intro r b hg hge
    simp only [Bolt.get] at hg
    cases hl : lookup r bs with
    | none => simp [hl] at hg
    | some b' =>
      simp [hl] at hg; subst hg
      have hm : (r, b') ∈ bs := by
        clear hge hb
        induction bs with
        | nil => simp [lookup] at hl
        | cons a t ih =>
          obtain ⟨k, v⟩ := a
          simp only [lookup] at hl
          split at hl
          · cases hl; subst_vars; simp
          · exact List.mem_cons_of_mem _ (ih hl)
      simp only [scanOut, List.mem_map, List.mem_filter, decide_eq_true_eq]
      exact ⟨(r, b'), ⟨hm, hge⟩, rfl⟩

-- non-vacuity: a store and a stream that satisfy the hypotheses, with a non-trivial scan
example : ∃ bs s, BoltInv bs ∧ s.phase = .started ∧ s.sent = [] ∧ roundsOf (scanOut bs s.frm) = [2, 3] ∧
    ScanInv bs s.frm (Sys.run .asIs (Sys.step .asIs ⟨.bolt bs, s⟩ .scanOpen) [.put (tb 4), .scanNext, .put (tb 5), .scanNext]).s := by
  have hb : BoltInv [(1, tb 1), (2, tb 2), (3, tb 3)] :=
    ⟨⟨by decide, by decide, trivial⟩, by intro p hp; simp at hp; rcases hp with rfl | rfl | rfl <;> rfl⟩
  exact ⟨_, { frm := 2, phase := .started }, hb, rfl, rfl, by decide, c11_scan_exact _ hb _ rfl rfl _⟩

end Drand.Beacon.Stream
