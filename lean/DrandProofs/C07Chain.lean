/-
C07 / C05 across a resharing, continued (model: Drand/Net/Reshare.lean): levelling, the bound across the transition and
the composed statement `c07_chain_continues`. `Quiet` comes from DrandProofs/C07Quiet.lean (`c07_quiet_of_reachable`), progress
from DrandProofs/C07Net.lean (`c07_reshare_step_progress`).
-/
import DrandProofs.C07Quiet

namespace Drand.Net.Reshare

/-! ### 2. what every rule of a fair round preserves -/

/-- node level: running or not, the clock, heads only grow; a node without a registered switch keeps its vault -/
def NExt (d d' : Node) : Prop :=
  d'.up = d.up ∧ d'.clock = d.clock ∧ d.head ≤ d'.head ∧ (d.pend = none → d'.vault = d.vault ∧ d'.pend = none)

theorem NExt.refl (d : Node) : NExt d d := ⟨rfl, rfl, Nat.le_refl _, fun h => ⟨rfl, h⟩⟩

theorem NExt.trans {a b c : Node} (h1 : NExt a b) (h2 : NExt b c) : NExt a c :=
  ⟨h2.1.trans h1.1, h2.2.1.trans h1.2.1, Nat.le_trans h1.2.2.1 h2.2.2.1, fun h =>
    ⟨(h2.2.2.2 (h1.2.2.2 h).2).1.trans (h1.2.2.2 h).1, (h2.2.2.2 (h1.2.2.2 h).2).2⟩⟩

theorem next_put (d : Node) (r : Nat) : NExt d (d.put r) := by
  have hf := put_frame d r
  refine ⟨hf.1, hf.2.1, hf.2.2.2.2.2.2.2.1, fun hp => ?_⟩
  rcases put_vault_cases d r with ⟨hv, hpe⟩ | ⟨p, hpp, _⟩
  · exact ⟨hv, hpe.trans hp⟩
  · rw [hp] at hpp; cases hpp

theorem next_foldl_put : ∀ (l : List Nat) (d : Node), NExt d (l.foldl Node.put d) := by
  intro l
  induction l with
  | nil => intro d; exact NExt.refl d
  | cons a t ih => intro d; exact (next_put d a).trans (ih _)

theorem next_appendTo (d : Node) (t : Nat) : NExt d (d.appendTo t) := by
  unfold Node.appendTo
  have h := next_foldl_put (List.range' (d.head + 1) (t - d.head)) d
  exact ⟨h.1, h.2.1, h.2.2.1, h.2.2.2⟩

theorem next_aggregate (B : Nat) (d : Node) (idx ep r : Nat) : NExt d (d.aggregate B idx ep r) := by
  rcases aggregate_cases B d idx ep r with ⟨_, he⟩ | ⟨_, _, he⟩ | ⟨_, _, _, v, he⟩ | ⟨_, _, _, P, he⟩ <;> rw [he]
  · exact NExt.refl d
  · exact ⟨rfl, rfl, Nat.le_refl _, fun h => ⟨rfl, h⟩⟩
  · exact ⟨rfl, rfl, Nat.le_refl _, fun h => ⟨rfl, h⟩⟩
  · have h := next_put (d.setHeld (flush (d.cacheAdd r idx ep) r)) r
    exact ⟨h.1, h.2.1, h.2.2.1, h.2.2.2⟩

theorem next_tickStep (B i : Nat) (d : Node) : NExt d (d.tickStep B i).1 := by
  by_cases hu : d.up = true
  · have h := next_aggregate B (d.setTick d.clock) d.vault.index d.vault.epoch (Gen.bnpRound d.clock d.head)
    rcases tickStep_node B i d hu with he | ⟨v, he⟩ <;> rw [he]
    · exact ⟨h.1, h.2.1, h.2.2.1, h.2.2.2⟩
    · exact ⟨h.1, h.2.1, h.2.2.1, h.2.2.2⟩
  · rw [tickStep_down B i d hu]; exact NExt.refl d

theorem next_fireStep (B i : Nat) (d : Node) : NExt d (d.fireStep B i).1 := by
  rcases fireStep_cases B i d with he | ⟨_, r, rest, _, he⟩ <;> rw [he]
  · exact NExt.refl d
  · have h := next_aggregate B (d.setPending rest) d.vault.index d.vault.epoch (r + 1)
    exact ⟨h.1, h.2.1, h.2.2.1, h.2.2.2⟩

theorem next_recvStep (B self : Nat) (reach : Bool) (d : Node) (m : Msg) : NExt d (d.recvStep B self reach m) := by
  rcases recvStep_cases B self reach d m with ⟨he, _⟩ | ⟨_, _, _, he⟩ <;> rw [he]
  · exact NExt.refl d
  · exact next_aggregate _ _ _ _ _

/-- state level: size, links, `NExt` at every node, and a node that does not run keeps its head -/
structure Ext (s s' : State) : Prop where
  n : s'.n = s.n
  nIdx : s'.nIdx = s.nIdx
  conn : s'.conn = s.conn
  node : ∀ k, NExt (s.node k) (s'.node k)
  down : ∀ k, (s.node k).up = false → (s'.node k).head = (s.node k).head

theorem Ext.refl (s : State) : Ext s s := ⟨rfl, rfl, rfl, fun _ => NExt.refl _, fun _ _ => rfl⟩

theorem Ext.trans {a b c : State} (h1 : Ext a b) (h2 : Ext b c) : Ext a c :=
  ⟨h2.n.trans h1.n, h2.nIdx.trans h1.nIdx, h2.conn.trans h1.conn, fun k => (h1.node k).trans (h2.node k),
   fun k hk => (h2.down k ((h1.node k).1.trans hk)).trans (h1.down k hk)⟩

theorem ext_act (s : State) (i : Nat) (F : Node → Node × List Msg) (h : NExt (s.node i) (F (s.node i)).1)
    (hdn : (s.node i).up = false → (F (s.node i)).1.head = (s.node i).head) : Ext s (s.act i F) := by
  refine ⟨rfl, rfl, rfl, fun k => ?_, fun k hk => ?_⟩
  · rw [act_node]
    by_cases hki : k = i
    · rw [hki]; simp only [if_true]; exact h
    · simp only [hki, if_false]; exact NExt.refl _
  · rw [act_node]
    by_cases hki : k = i
    · rw [hki] at hk ⊢; simp only [if_true]; exact hdn hk
    · simp only [hki, if_false]

theorem ext_setNode (s : State) (i : Nat) (d : Node) (h : NExt (s.node i) d)
    (hdn : (s.node i).up = false → d.head = (s.node i).head) : Ext s (s.setNode i d) := by
  refine ⟨rfl, rfl, rfl, fun k => ?_, fun k hk => ?_⟩
  · rw [setNode_node]
    by_cases hki : k = i
    · rw [hki]; simp only [if_true]; exact h
    · simp only [hki, if_false]; exact NExt.refl _
  · rw [setNode_node]
    by_cases hki : k = i
    · rw [hki] at hk ⊢; simp only [if_true]; exact hdn hk
    · simp only [hki, if_false]

theorem ext_tick (s : State) (i : Nat) : Ext s (s.tick i) :=
  ext_act s i _ (next_tickStep _ _ _) (fun h => by rw [tickStep_down _ _ _ (by rw [h]; simp)])

theorem ext_fire (s : State) (i : Nat) : Ext s (s.fire i) :=
  ext_act s i _ (next_fireStep _ _ _) (fun h => by
    rcases fireStep_cases s.nIdx i (s.node i) with he | ⟨hu, _⟩
    · rw [he]
    · rw [h] at hu; cases hu)

theorem ext_recv (s : State) (m : Msg) : Ext s (s.recv m) :=
  ext_act s m.dst _ (next_recvStep _ _ _ _ _) (fun h => by
    rcases recvStep_cases s.nIdx m.dst (s.conn m.src m.dst) (s.node m.dst) m with ⟨he, _⟩ | ⟨hu, _⟩
    · rw [he]
    · rw [h] at hu; cases hu)

theorem ext_pull (s : State) (i : Nat) : Ext s (s.pull i) := by
  rcases pull_cases s i with he | he | ⟨hu, _, v, he⟩ <;> rw [he]
  · exact Ext.refl s
  · exact ext_setNode s i _ ⟨rfl, rfl, Nat.le_refl _, fun h => ⟨rfl, h⟩⟩ (fun _ => rfl)
  · have h := next_appendTo (s.node i) (min (s.node i).syncTo (s.maxPeerHead i))
    exact ext_setNode s i _ ⟨h.1, h.2.1, h.2.2.1, h.2.2.2⟩ (fun hd => by rw [hd] at hu; cases hu)

theorem foldl_inv {α : Type} (P : State → Prop) (f : State → α → State) (hf : ∀ s a, P s → P (f s a)) :
    ∀ (l : List α) (s : State), P s → P (l.foldl f s) := by
  intro l
  induction l with
  | nil => intro s h; exact h
  | cons a t ih => intro s h; exact ih _ (hf s a h)

theorem ext_foldl {α : Type} (f : State → α → State) (hf : ∀ s a, Ext s (f s a)) (l : List α) (s : State) : Ext s (l.foldl f s) :=
  foldl_inv (fun x => Ext s x) f (fun x a h => h.trans (hf x a)) l s (Ext.refl s)

theorem ext_deliverAll (s : State) : Ext s s.deliverAll :=
  (show Ext s { s with msgs := [] } from ⟨rfl, rfl, rfl, fun _ => NExt.refl _, fun _ _ => rfl⟩).trans (ext_foldl _ ext_recv _ _)

theorem ext_forAll (s : State) (f : State → Nat → State) (hf : ∀ s a, Ext s (f s a)) : Ext s (s.forAll f) := ext_foldl f hf _ _

theorem ext_settle (s : State) : Ext s s.settle :=
  ((ext_forAll _ _ ext_pull).trans (ext_deliverAll _)).trans (ext_forAll _ _ ext_pull)

theorem ext_advance_fairTick (s : State) : Ext s.advance s.fairTick := (ext_forAll _ _ ext_tick).trans (ext_settle _)

/-- every catch-up goroutine of node `i` that sleeps at the start of the sub-round wakes: the same as that many `fire` events -/
theorem act_fireSteps (i : Nat) : ∀ (c : Nat) (s : State),
    s.act i (fun d => Node.fireSteps s.nIdx i c d) = (List.replicate c (Ev.fire i)).foldl State.apply s := by
  intro c
  induction c with
  | zero =>
    intro s
    cases s with
    | mk cfg n nIdx node conn msgs =>
      simp only [State.act, Node.fireSteps, List.append_nil, List.replicate, List.foldl_nil]
      congr
      funext k
      by_cases hk : k = i <;> simp [hk]
  | succ c ih =>
    intro s
    rw [List.replicate_succ, List.foldl_cons]
    have h1 : s.apply (Ev.fire i) = s.fire i := rfl
    rw [h1, ← ih (s.fire i)]
    simp only [State.act, State.fire, Node.fireSteps, if_true]
    congr 1
    · funext k
      by_cases hk : k = i <;> simp [hk]
    · simp [List.append_assoc]

theorem fireNode_eq (s : State) (i : Nat) :
    s.fireNode i = (List.replicate (s.node i).pending.length (Ev.fire i)).foldl State.apply s := by
  rw [← act_fireSteps]
  rfl

theorem fires_inv (P : State → Prop) (i : Nat) (hP : ∀ s, P s → P (s.fire i)) : ∀ (c : Nat) (s : State), P s →
    P ((List.replicate c (Ev.fire i)).foldl State.apply s) := by
  intro c
  induction c with
  | zero => intro s h; exact h
  | succ c ih => intro s h; rw [List.replicate_succ, List.foldl_cons]; exact ih _ (hP s h)

theorem ext_fireNode (s : State) (i : Nat) : Ext s (s.fireNode i) := by
  rw [fireNode_eq]
  exact fires_inv (fun x => Ext s x) i (fun x h => h.trans (ext_fire x i)) _ s (Ext.refl s)

theorem ext_fairCatch (s : State) : Ext s s.fairCatch := (ext_forAll _ _ ext_fireNode).trans (ext_settle _)

/-! ### the invariant of DrandProofs/C07QuietInv.lean through fair sub-rounds -/

/-- every running node has no switch registered and holds a share of an epoch that is not scheduled to end: the resharing
is over for everybody who runs -/
def Final (nxt : Nat → Option Nat) (s : State) : Prop :=
  ∀ k, (s.node k).up = true → (s.node k).pend = none ∧ nxt (s.node k).vault.epoch = none

theorem Final.ext {nxt : Nat → Option Nat} {s s' : State} (h : Final nxt s) (e : Ext s s') : Final nxt s' := by
  intro k hu
  have hn := e.node k
  have hu' : (s.node k).up = true := hn.1 ▸ hu
  obtain ⟨hp, hx⟩ := h k hu'
  obtain ⟨hv, hp'⟩ := hn.2.2.2 hp
  exact ⟨hp', by rw [hv]; exact hx⟩

structure Good (nxt : Nat → Option Nat) (s : State) : Prop where
  sane : Sane nxt s
  fin : Final nxt s

theorem good_tick {nxt : Nat → Option Nat} (s : State) (i : Nat) (h : Good nxt s) : Good nxt (s.tick i) :=
  ⟨sane_apply h.sane (.tick i) (fun hu t ht => by rw [(h.fin i hu).2] at ht; cases ht), h.fin.ext (ext_tick s i)⟩

theorem good_fire {nxt : Nat → Option Nat} (s : State) (i : Nat) (h : Good nxt s) : Good nxt (s.fire i) :=
  ⟨sane_apply h.sane (.fire i) (fun hu _ _ _ t ht => by rw [(h.fin i hu).2] at ht; cases ht), h.fin.ext (ext_fire s i)⟩

theorem good_pull {nxt : Nat → Option Nat} (s : State) (i : Nat) (h : Good nxt s) : Good nxt (s.pull i) :=
  ⟨sane_apply h.sane (.pull i) trivial, h.fin.ext (ext_pull s i)⟩

theorem good_deliverAll {nxt : Nat → Option Nat} (s : State) (h : Good nxt s) : Good nxt s.deliverAll :=
  ⟨sane_apply h.sane .deliverAll trivial, h.fin.ext (ext_deliverAll s)⟩

theorem good_advance {nxt : Nat → Option Nat} (s : State) (h : Good nxt s) : Good nxt s.advance :=
  ⟨sane_apply h.sane .advance trivial, fun k hu => h.fin k hu⟩

theorem good_fireNode {nxt : Nat → Option Nat} (s : State) (i : Nat) (h : Good nxt s) : Good nxt (s.fireNode i) := by
  rw [fireNode_eq]
  exact fires_inv (Good nxt) i (fun x hx => good_fire x i hx) _ s h

theorem good_settle {nxt : Nat → Option Nat} (s : State) (h : Good nxt s) : Good nxt s.settle :=
  foldl_inv (Good nxt) State.pull good_pull _ _ (good_deliverAll _ (foldl_inv (Good nxt) State.pull good_pull _ _ h))

theorem good_fairTick {nxt : Nat → Option Nat} (s : State) (h : Good nxt s) : Good nxt s.fairTick :=
  good_settle _ (foldl_inv (Good nxt) State.tick good_tick _ _ (good_advance s h))

theorem good_fairCatch {nxt : Nat → Option Nat} (s : State) (h : Good nxt s) : Good nxt s.fairCatch :=
  good_settle _ (foldl_inv (Good nxt) State.fireNode good_fireNode _ _ h)

/-! ### 2. levelling by sync -/

theorem foldl_max_ge' (f : Nat → Bool) (g : Nat → Nat) : ∀ (l : List Nat) (acc : Nat),
    acc ≤ l.foldl (fun m j => if f j then max m (g j) else m) acc ∧
    ∀ x ∈ l, f x = true → g x ≤ l.foldl (fun m j => if f j then max m (g j) else m) acc := by
  intro l
  induction l with
  | nil => intro acc; exact ⟨Nat.le_refl _, fun x hx => by cases hx⟩
  | cons a t ih =>
    intro acc
    simp only [List.foldl_cons]
    obtain ⟨h1, h2⟩ := ih (if f a then max acc (g a) else acc)
    have hacc : acc ≤ (if f a then max acc (g a) else acc) := by
      split
      · exact Nat.le_max_left _ _
      · exact Nat.le_refl _
    refine ⟨Nat.le_trans hacc h1, fun x hx hf => ?_⟩
    rcases List.mem_cons.mp hx with he | ht
    · have : g x ≤ (if f a then max acc (g a) else acc) := by
        rw [← he, if_pos hf]; exact Nat.le_max_right _ _
      exact Nat.le_trans this h1
    · exact h2 x ht hf

theorem maxPeerHead_ge (s : State) (i m : Nat) (hm : m ∈ (s.node i).recipients i) (hok : s.peerOk i m = true) :
    (s.node m).head ≤ s.maxPeerHead i := by
  unfold State.maxPeerHead
  exact (foldl_max_ge' (fun j => s.peerOk i j) (fun j => (s.node j).head) _ 0).2 m hm hok

theorem tickStep_sync (B i : Nat) (d : Node) (hu : d.up = true) (hg : d.head + 1 < d.clock) :
    d.clock ≤ (d.tickStep B i).1.syncTo := by
  unfold Node.tickStep
  have : Gen.gapSync d.head d.clock = true := by simp [Gen.gapSync, hg]
  simp only [hu, Bool.not_true, Bool.false_eq_true, if_false, this, if_true]
  exact Nat.le_max_right _ _

/-- a running sync request up to at least `c`, a peer that stores at least `H < c`: after the pull the node stores at least `H` -/
theorem pull_reaches (s : State) (j H c : Nat) (hu : (s.node j).up = true) (hsync : c ≤ (s.node j).syncTo) (hc : H < c)
    (hH : H ≤ s.maxPeerHead j) : H ≤ ((s.pull j).node j).head := by
  unfold State.pull
  have h0 : (s.node j).syncTo ≠ 0 := by omega
  simp only [hu, Bool.not_true, Bool.false_eq_true, if_false, h0]
  by_cases hf : Gen.syncFilled (s.node j).syncTo (s.node j).head = true
  · simp only [hf, if_true, setNode_node]
    have : (s.node j).syncTo ≤ (s.node j).head := by
      simp only [Gen.syncFilled, Bool.and_eq_true, decide_eq_true_eq] at hf; exact hf.2
    show H ≤ ((s.node j).setSync 0).head
    simp only [setSync_head]; omega
  · simp only [hf, Bool.false_eq_true, if_false]
    by_cases hm : s.maxPeerHead j ≤ (s.node j).head
    · simp only [hm, if_true, setNode_node]
      show H ≤ ((s.node j).setSync 0).head
      simp only [setSync_head]; omega
    · simp only [hm, if_false, setNode_node, if_true, setSync_head]
      rw [(appendTo_frame _ _).1]
      omega

theorem foldl_pull_other (j : Nat) : ∀ (l : List Nat) (s : State), j ∉ l → (l.foldl State.pull s).node j = s.node j := by
  intro l
  induction l with
  | nil => intro s _; rfl
  | cons a t ih =>
    intro s hj
    simp only [List.foldl_cons]
    rw [ih (s.pull a) (fun h => hj (by simp [h]))]
    have hja : j ≠ a := fun h => hj (by simp [h])
    rcases pull_cases s a with he | he | ⟨_, _, v, he⟩ <;> rw [he]
    · simp [setNode_node, hja]
    · simp [setNode_node, hja]

theorem recipients_congr {d d' : Node} (i : Nat) (h : d'.vault = d.vault) : d'.recipients i = d.recipients i := by
  unfold Node.recipients; rw [h]

/-- **Levelling (resharing model).** In one fair tick sub-round a running node `j` without a registered switch reaches the
head `H` of any running member `m` of ITS CURRENT group it is connected to both ways (`H` below the round `c` the clocks are
about to show): its tick sees the gap and launches `RunSync`, the sync pulls from the members of the group in its vault.
This is how a joiner started the way core starts it (`Catchup`: it holds the NEW group from the start and receives beacons
only through sync until the transition) follows the chain, and how members of the new group level after the transition. -/
theorem c07_level (s : State) (j m H c : Nat) (hj : j < s.n) (hjm : j ≠ m)
    (huj : (s.node j).up = true) (hum : (s.node m).up = true) (hc1 : s.conn j m = true) (hc2 : s.conn m j = true)
    (hp : (s.node j).pend = none) (hmem : m ∈ (s.node j).recipients j)
    (hclk : (s.node j).clock + 1 = c) (hH : (s.node m).head = H) (hc : H < c) :
    H ≤ (s.fairTick.node j).head := by
  have eAll : Ext s.advance s.fairTick := ext_advance_fairTick s
  by_cases hjh : H ≤ (s.node j).head
  · exact Nat.le_trans hjh (eAll.node j).2.2.1
  · obtain ⟨a1, a2, a3, a4, a5⟩ := foldl_act (fun B i => Node.tickStep B i) (List.range s.advance.n) s.advance List.nodup_range
    have hA : Ext s.advance (s.advance.forAll State.tick) := ext_forAll _ _ ext_tick
    have hjA : (s.advance.forAll State.tick).node j = (Node.tickStep s.nIdx j (s.advance.node j)).1 := by
      have := a4 j
      simp only [List.mem_range, show j < s.advance.n from hj, if_true] at this
      exact this
    have hsync : c ≤ ((s.advance.forAll State.tick).node j).syncTo := by
      rw [hjA]
      have := tickStep_sync s.nIdx j (s.advance.node j) huj (by
        show (s.node j).head + 1 < (s.node j).clock + 1
        omega)
      exact Nat.le_trans (Nat.le_of_eq hclk.symm) this
    obtain ⟨l1, l2, hl⟩ := List.append_of_mem (List.mem_range.mpr (hA.n ▸ hj) : j ∈ List.range (s.advance.forAll State.tick).n)
    have hnd : (l1 ++ j :: l2).Nodup := hl ▸ List.nodup_range
    have hj1 : j ∉ l1 := by
      intro h
      have := (List.nodup_append.mp hnd).2.2 j h j (by simp)
      exact this rfl
    let sA := s.advance.forAll State.tick
    let s1 := l1.foldl State.pull sA
    have hs1 : Ext sA s1 := ext_foldl _ ext_pull _ _
    have hj1n : s1.node j = sA.node j := foldl_pull_other j l1 sA hj1
    have hAj := hA.node j
    have hstep : H ≤ ((s1.pull j).node j).head := by
      apply pull_reaches s1 j H c
      · rw [hj1n]; exact hAj.1.trans huj
      · rw [hj1n]; exact hsync
      · exact hc
      · have hmem1 : m ∈ (s1.node j).recipients j := by
          rw [hj1n, recipients_congr j (hAj.2.2.2 hp).1]; exact hmem
        have hok : s1.peerOk j m = true := by
          have hup : (s1.node m).up = true := ((hs1.node m).1.trans (hA.node m).1).trans hum
          have hcn : s1.conn = s.conn := hs1.conn.trans hA.conn
          have hmj : m ≠ j := fun h => hjm h.symm
          simp [State.peerOk, hmj, hup, hcn, hc1, hc2]
        have h2 : H ≤ (s1.node m).head := by
          have := Nat.le_trans (hA.node m).2.2.1 (hs1.node m).2.2.1
          rw [← hH]; exact this
        exact Nat.le_trans h2 (maxPeerHead_ge s1 j m hmem1 hok)
    have hrest : Ext (s1.pull j) s.fairTick := by
      have h1 : sA.forAll State.pull = l2.foldl State.pull (s1.pull j) := by
        show (List.range sA.n).foldl State.pull sA = _
        rw [hl, List.foldl_append, List.foldl_cons]
      have h2 : s.fairTick = ((sA.forAll State.pull).deliverAll).forAll State.pull := rfl
      rw [h2, h1]
      exact ((ext_foldl _ ext_pull _ _).trans (ext_deliverAll _)).trans (ext_forAll _ _ ext_pull)
    exact Nat.le_trans hstep (hrest.node j).2.2.1

/-! ### 3. the chain continues across the transition -/

/-- `c` catch-up sub-rounds -/
def State.fairCatchN (s : State) : Nat → State
  | 0 => s
  | c + 1 => State.fairCatchN s.fairCatch c

/-- a fair round: the tick sub-round, then `extra` catch-up sub-rounds (each one CatchupPeriod long) -/
def State.fairRound (s : State) (extra : Nat) : State := State.fairCatchN s.fairTick extra

/-- a fair schedule: one fair round per period, `sch` lists the number of catch-up sub-rounds of each -/
def State.fairRounds (s : State) (sch : List Nat) : State := sch.foldl State.fairRound s

theorem ext_fairCatchN : ∀ (c : Nat) (s : State), Ext s (State.fairCatchN s c) := by
  intro c
  induction c with
  | zero => intro s; exact Ext.refl s
  | succ c ih => intro s; exact (ext_fairCatch s).trans (ih _)

theorem good_fairCatchN {nxt : Nat → Option Nat} : ∀ (c : Nat) (s : State), Good nxt s → Good nxt (State.fairCatchN s c) := by
  intro c
  induction c with
  | zero => intro s h; exact h
  | succ c ih => intro s h; exact ih _ (good_fairCatch s h)

/-- the healthy side after the hand-over: the invariant of reachable states (`Sane`), every running node has finished the
resharing (`Final`); `U` = the running nodes = members of the new group `G` (epoch `e`, node `i` with index `ix i`), at
least `G.thr` of them, pairwise connected, holding the new vault; no node that does not run is ahead of all of `U` -/
structure Healthy (nxt : Nat → Option Nat) (s : State) (U : List Nat) (G : Grp) (e : Nat) (ix : Nat → Nat) : Prop where
  good : Good nxt s
  frame : Frame U G ix s.nIdx
  lt : ∀ i ∈ U, i < s.n
  conn : ∀ i ∈ U, ∀ j ∈ U, s.conn i j = true
  up : ∀ i ∈ U, (s.node i).up = true
  only : ∀ k, (s.node k).up = true → k ∈ U
  vault : ∀ i ∈ U, (s.node i).vault = ⟨G, e, ix i⟩
  thr : G.thr ≤ U.length
  top : ∀ k, ∃ m ∈ U, (s.node k).head ≤ (s.node m).head

theorem healthy_advance {nxt : Nat → Option Nat} {s : State} {U : List Nat} {G : Grp} {e : Nat} {ix : Nat → Nat}
    (h : Healthy nxt s U G e ix) : Healthy nxt s.advance U G e ix :=
  ⟨good_advance s h.good, h.frame, h.lt, h.conn, h.up, h.only, h.vault, h.thr, h.top⟩

theorem healthy_ext {nxt : Nat → Option Nat} {s s' : State} {U : List Nat} {G : Grp} {e : Nat} {ix : Nat → Nat}
    (h : Healthy nxt s U G e ix) (x : Ext s s') (g : Good nxt s') : Healthy nxt s' U G e ix := by
  refine ⟨g, x.nIdx ▸ h.frame, fun i hi => x.n ▸ h.lt i hi, fun i hi j hj => by rw [x.conn]; exact h.conn i hi j hj,
    fun i hi => (x.node i).1.trans (h.up i hi), fun k hk => h.only k ((x.node k).1 ▸ hk), fun i hi => ?_, h.thr, fun k => ?_⟩
  · exact ((x.node i).2.2.2 (h.good.fin i (h.up i hi)).1).1.trans (h.vault i hi)
  · cases hu : (s.node k).up with
    | true => exact ⟨k, h.only k hu, Nat.le_refl _⟩
    | false =>
      obtain ⟨m, hm, hle⟩ := h.top k
      exact ⟨m, hm, by rw [x.down k hu]; exact Nat.le_trans hle (x.node m).2.2.1⟩

theorem mem_recipients {d : Node} {G : Grp} {e : Nat} {a j m b : Nat} (hv : d.vault = ⟨G, e, a⟩) (hm : (⟨m, b⟩ : Member) ∈ G.members)
    (hne : m ≠ j) : m ∈ d.recipients j := by
  unfold Node.recipients
  rw [hv]
  apply List.mem_map.mpr
  refine ⟨⟨m, b⟩, ?_, rfl⟩
  apply List.mem_filter.mpr
  exact ⟨hm, by simpa using hne⟩

theorem clk_of_ext {s s' : State} (x : Ext s s') : clk s' = clk s := (x.node 0).2.1

/-- **`Quiet` at every boundary of a fair schedule.** In a healthy state (which every boundary of a fair schedule is:
`c07_chain_continues`) in which the members of `U` are level at `x`, the hypothesis `Quiet` of
`c07_reshare_step_progress` holds — derived, not assumed. -/
theorem c07_quiet_of_healthy {nxt : Nat → Option Nat} {s : State} {U : List Nat} {G : Grp} {e : Nat} {ix : Nat → Nat}
    (h : Healthy nxt s U G e ix) (x : Nat) (hh : ∀ i ∈ U, (s.node i).head = x) : Quiet s U x e :=
  quiet_of_sane h.good.sane U x e
    (fun k => by obtain ⟨m, hm, hkm⟩ := h.top k; rw [hh m hm] at hkm; exact hkm)
    (fun j hj => by rw [h.vault j hj])

/-- **One tick sub-round of the healthy side.** The clocks show `c`, every member of `U` stores `c − 1` or `c` (at most one
round behind: joiners started the way core starts them, `Catchup`, receive beacons only through sync until the
transition and are one round behind at every other tick). After the tick sub-round of the next period (clocks `c + 1`):
the side is healthy again, every member stores at least `c` — AT MOST ONE ROUND BEHIND again, never two — and if all were
level at `c` they are level at `c + 1`: the round of that period is produced in its tick sub-round. -/
theorem c07_fair_tick {nxt : Nat → Option Nat} {s : State} {U : List Nat} {G : Grp} {e : Nat} {ix : Nat → Nat}
    (h : Healthy nxt s U G e ix) (c : Nat) (hc : clk s = c) (hlag : ∀ i ∈ U, c ≤ (s.node i).head + 1) :
    Healthy nxt s.fairTick U G e ix ∧ clk s.fairTick = c + 1 ∧
    (∀ i ∈ U, c ≤ (s.fairTick.node i).head) ∧
    ((∀ i ∈ U, (s.node i).head = c) → ∀ i ∈ U, (s.fairTick.node i).head = c + 1) := by
  have hG := good_fairTick s h.good
  have hE : Ext s.advance s.fairTick := ext_advance_fairTick s
  have hH := healthy_ext (healthy_advance h) hE hG
  have hclk : clk s.fairTick = c + 1 := by rw [clk_of_ext hE]; show (s.node 0).clock + 1 = c + 1; rw [← hc]; rfl
  have hmono : ∀ k, (s.node k).head ≤ (s.fairTick.node k).head := fun k => (hE.node k).2.2.1
  have hck : ∀ i, (s.node i).clock = c := fun i => (h.good.sane.node i).clk.trans hc
  have hle : ∀ i, (s.node i).head ≤ c := fun i => hc ▸ (h.good.sane.node i).headC
  -- a uniform side makes a step
  have step : ∀ x, x < c + 1 → (∀ i ∈ U, (s.node i).head = x) → ∀ j ∈ U, x + 1 ≤ (s.fairTick.node j).head := by
    intro x hx hh
    have side : Side s U G e ix x :=
      ⟨h.frame.nodup, h.lt, h.up, h.conn, h.vault, h.frame.member, h.frame.idxLt, h.frame.idxNodup,
       fun k _ hu _ _ => Nat.le_of_eq (hh k (h.only k hu))⟩
    have hq : Quiet s U x e := c07_quiet_of_healthy h x hh
    exact c07_reshare_step_progress s U G e ix x (c + 1) side h.thr hh (fun i _ => by rw [hck i]) hx hq
  refine ⟨hH, hclk, ?_, ?_⟩
  · intro j hj
    by_cases hex : ∃ m ∈ U, (s.node m).head = c
    · obtain ⟨m, hm, hmc⟩ := hex
      by_cases hjc : c ≤ (s.node j).head
      · exact Nat.le_trans hjc (hmono j)
      · have hjm : j ≠ m := fun hjm => hjc (by rw [hjm, hmc]; exact Nat.le_refl _)
        exact c07_level s j m c (c + 1) (h.lt j hj) hjm (h.up j hj) (h.up m hm) (h.conn j hj m hm) (h.conn m hm j hj)
          (h.good.fin j (h.up j hj)).1 (mem_recipients (h.vault j hj) (h.frame.member m hm) (fun hmj => hjm hmj.symm))
          (by rw [hck j]) hmc (Nat.lt_succ_self c)
    · have hall : ∀ i ∈ U, (s.node i).head + 1 = c := by
        intro i hi
        have h1 := hlag i hi
        have h2 := hle i
        have h3 : (s.node i).head ≠ c := fun h3 => hex ⟨i, hi, h3⟩
        omega
      have := step (s.node j).head (by have := hall j hj; omega)
        (fun i hi => by have h1 := hall i hi; have h2 := hall j hj; omega) j hj
      have h2 := hall j hj
      omega
  · intro hh i hi
    have h1 := step c (Nat.lt_succ_self c) hh i hi
    have h2 : (s.fairTick.node i).head ≤ c + 1 := hclk ▸ (hG.sane.node i).headC
    omega

/-- **One fair round of the healthy side**: the tick sub-round of `c07_fair_tick` followed by any number of catch-up
sub-rounds. Round `c` is stored by every member when the tick sub-round of period `c + 1` ends; at the end of the round the
side is healthy, at most one round behind the clock, and level with it if it was level before. -/
theorem c07_fair_round {nxt : Nat → Option Nat} {s : State} {U : List Nat} {G : Grp} {e : Nat} {ix : Nat → Nat}
    (h : Healthy nxt s U G e ix) (c : Nat) (hc : clk s = c) (hlag : ∀ i ∈ U, c ≤ (s.node i).head + 1) (extra : Nat) :
    Healthy nxt (s.fairRound extra) U G e ix ∧ clk (s.fairRound extra) = c + 1 ∧
    (∀ i ∈ U, c ≤ (s.fairTick.node i).head) ∧
    (∀ i ∈ U, c + 1 ≤ ((s.fairRound extra).node i).head + 1) ∧
    ((∀ i ∈ U, (s.node i).head = c) → ∀ i ∈ U, ((s.fairRound extra).node i).head = c + 1) := by
  obtain ⟨t1, t2, t3, t4⟩ := c07_fair_tick h c hc hlag
  have hE : Ext s.fairTick (s.fairRound extra) := ext_fairCatchN extra s.fairTick
  have hG : Good nxt (s.fairRound extra) := good_fairCatchN extra s.fairTick t1.good
  have hclk : clk (s.fairRound extra) = c + 1 := (clk_of_ext hE).trans t2
  refine ⟨healthy_ext t1 hE hG, hclk, t3, fun i hi => ?_, fun hh i hi => ?_⟩
  · have := Nat.le_trans (t3 i hi) (hE.node i).2.2.1
    omega
  · have h1 := Nat.le_trans (Nat.le_of_eq (t4 hh i hi).symm) (hE.node i).2.2.1
    have h2 : ((s.fairRound extra).node i).head ≤ c + 1 := hclk ▸ (hG.sane.node i).headC
    omega

theorem fireSteps_down (B i : Nat) (d : Node) (hu : ¬ d.up = true) : ∀ c, Node.fireSteps B i c d = (d, []) := by
  have h1 : d.fireStep B i = (d, []) := by unfold Node.fireStep; simp [hu]
  intro c
  induction c with
  | zero => rfl
  | succ c ih => simp only [Node.fireSteps, h1, ih, List.append_nil]

/-- **One catch-up sub-round of the healthy side.** Every member of `U` stores `x`, behind the clock, and has the catch-up
goroutine launched on `x` asleep (it stored `x` through its aggregator while `x` was behind the ticked round). After the
catch-up sub-round — the goroutines wake, each member signs `x + 1` on top of `x` — every member stores `x + 1`: one round
per CatchupPeriod, the way the side closes the one-round gap of `c07_fair_tick` (second example below). -/
theorem c07_catch_progress {nxt : Nat → Option Nat} {s : State} {U : List Nat} {G : Grp} {e : Nat} {ix : Nat → Nat}
    (h : Healthy nxt s U G e ix) (x : Nat) (hx : x < clk s) (hh : ∀ i ∈ U, (s.node i).head = x)
    (hp : ∀ i ∈ U, (s.node i).pending = [x]) : ∀ j ∈ U, x + 1 ≤ (s.fairCatch.node j).head := by
  intro j hj
  have hq := c07_quiet_of_healthy h x hh
  obtain ⟨a1, a2, a3, a4, a5⟩ := foldl_act (fun B i d => Node.fireSteps B i d.pending.length d) (List.range s.n) s List.nodup_range
  have hck : ∀ i, (s.node i).clock = clk s := fun i => (h.good.sane.node i).clk
  have hone : ∀ i ∈ U, Node.fireSteps s.nIdx i (s.node i).pending.length (s.node i) =
      (((s.node i).setPending []).aggregate s.nIdx (ix i) e (x + 1),
       ((s.node i).recipients i).map (fun j => (⟨i, ix i, e, x + 1, j⟩ : Msg))) := by
    intro i hi
    have hv := h.vault i hi
    have hfs : (s.node i).fireStep s.nIdx i = (((s.node i).setPending []).aggregate s.nIdx (ix i) e (x + 1),
        ((s.node i).recipients i).map (fun j => (⟨i, ix i, e, x + 1, j⟩ : Msg))) := by
      unfold Node.fireStep
      simp [h.up i hi, hp i hi, Node.broadcast, Node.recipients, hv]
    rw [hp i hi]
    simp only [List.length_singleton, Node.fireSteps, hfs, List.append_nil]
  have hstep : ∀ i ∈ U, Prog s.nIdx x (clk s) ⟨G, e, ix i⟩ (fun k => k = ix i)
      (Node.fireSteps s.nIdx i (s.node i).pending.length (s.node i)).1 := by
    intro i hi
    rw [hone i hi]
    exact (prog_aggregate' (S := fun _ => False) (d := (s.node i).setPending []) (V := ⟨G, e, ix i⟩) (h.up i hi) (hck i) (hh i hi)
      (h.vault i hi) (hq.2 i hi) (fun _ hk => absurd hk id) (ix i)).weaken (fun k hk => Or.inr hk)
  have hn : (s.forAll State.fireNode).nIdx = s.nIdx := a2
  have hcn : (s.forAll State.fireNode).conn = s.conn := a3
  have hres := settle_progress (s.forAll State.fireNode) U G e ix x (clk s) (by rw [hn]; exact h.frame)
    (fun i hi j hj => by rw [hcn]; exact h.conn i hi j hj) h.thr hx j hj ?_ ?_ ?_
  · exact hres
  · rw [hn]
    have := a4 j
    have hlt : j ∈ List.range s.n := List.mem_range.mpr (h.lt j hj)
    simp only [hlt, if_true] at this
    show Prog s.nIdx x (clk s) ⟨G, e, ix j⟩ (fun k => k = ix j) (((List.range s.n).foldl State.fireNode s).node j)
    rw [show ((List.range s.n).foldl State.fireNode s).node j = _ from this]
    exact hstep j hj
  · intro m hm hdst hconn hep
    rw [hcn] at hconn
    have hm' : m ∈ s.msgs ++ (List.range s.n).flatMap (fun i => (Node.fireSteps s.nIdx i (s.node i).pending.length (s.node i)).2) := by
      rw [← a5]; exact hm
    rcases List.mem_append.mp hm' with h1 | h1
    · exact hq.1 m h1 (hdst ▸ hj) hconn hep
    · obtain ⟨i, _, hmi⟩ := List.mem_flatMap.mp h1
      by_cases hu : (s.node i).up = true
      · rw [hone i (h.only i hu)] at hmi
        obtain ⟨_, _, rfl⟩ := List.mem_map.mp hmi
        exact Nat.le_refl _
      · rw [fireSteps_down s.nIdx i (s.node i) hu] at hmi; cases hmi
  · intro i hi hij
    have : (⟨i, ix i, e, x + 1, j⟩ : Msg) ∈ s.msgs ++ (List.range s.n).flatMap (fun i => (Node.fireSteps s.nIdx i (s.node i).pending.length (s.node i)).2) := by
      apply List.mem_append.mpr; right
      apply List.mem_flatMap.mpr
      refine ⟨i, List.mem_range.mpr (h.lt i hi), ?_⟩
      rw [hone i hi]
      apply List.mem_map.mpr
      exact ⟨j, mem_recipients (h.vault i hi) (h.frame.member j hj) (fun hji => hij hji.symm), rfl⟩
    rw [← a5] at this
    exact this

/-- **The chain continues across the transition.** Start: a reachable (`Sane`) state in the period before the transition
(`c = transition − 1` in the use below; the statement holds for any `c`) in which the resharing is over for every running
node; `U`, at least `G.thr` members of the NEW group, run, are pairwise connected and hold the new vault (told at any time
before: `Told.settled`); each stores `c − 1` or `c`. Then for EVERY fair schedule `sch` (any number of catch-up sub-rounds
in each period): after `k = sch.length` periods the clocks show `c + k`, the side is healthy, and every member of `U` stores
at least `c + k − 1` and at most `c + k`: every round from the transition round on is produced, AT MOST ONE PERIOD LATE
(round `r` is stored by all of `U` when the tick sub-round of period `r + 1` ends); if `U` was level at `c`, every round is
produced in the tick sub-round of its own period. Heads move by `Put`s of `head + 1` only (`c07_no_skip`: no gap); what the
store accepts at `head + 1` is C02 (`c05_no_skip_store`: linked to the previous beacon; one beacon per round, no fork). -/
theorem c07_chain_continues {nxt : Nat → Option Nat} {U : List Nat} {G : Grp} {e : Nat} {ix : Nat → Nat} :
    ∀ (sch : List Nat) (s : State) (c : Nat), Healthy nxt s U G e ix → clk s = c → (∀ i ∈ U, c ≤ (s.node i).head + 1) →
    Healthy nxt (s.fairRounds sch) U G e ix ∧ clk (s.fairRounds sch) = c + sch.length ∧
    (∀ i ∈ U, c + sch.length ≤ ((s.fairRounds sch).node i).head + 1 ∧ ((s.fairRounds sch).node i).head ≤ c + sch.length) ∧
    ((∀ i ∈ U, (s.node i).head = c) → ∀ i ∈ U, ((s.fairRounds sch).node i).head = c + sch.length) := by
  intro sch
  induction sch with
  | nil =>
    intro s c h hc hlag
    simp only [State.fairRounds, List.foldl_nil, List.length_nil, Nat.add_zero]
    exact ⟨h, hc, fun i hi => ⟨hlag i hi, hc ▸ (h.good.sane.node i).headC⟩, fun hh i hi => hh i hi⟩
  | cons x rest ih =>
    intro s c h hc hlag
    obtain ⟨r1, r2, _, r4, r5⟩ := c07_fair_round h c hc hlag x
    obtain ⟨i1, i2, i3, i4⟩ := ih (s.fairRound x) (c + 1) r1 r2 r4
    have hlen : c + (x :: rest).length = c + 1 + rest.length := by simp only [List.length_cons]; omega
    rw [hlen]
    exact ⟨i1, i2, i3, fun hh => i4 (r5 hh)⟩

/-- told + running + `transition − 1` stored: the node holds the new vault and no switch is pending (the form in which
`Healthy.vault` and `Final` are discharged for remainers, whenever they were told) -/
theorem Told.settled {v : Vault} {t : Nat} {d : Node} (h : Told v t d) (hu : d.up = true) (hh : t - 1 ≤ d.head) :
    d.vault = v ∧ d.pend = none := by
  rcases h.2 hu with h1 | h1
  · exact h1
  · have := h1.2; simp only [Gen.transitionTarget] at this; omega

/-- **Told at any time before the transition (the code as repaired today, `Gen.transitionLateSwitch = true`).** Whenever
the hand-over reaches a remainer — before or after it stored `transition − 1` — and whatever happens next (any events that
are not a further hand-over to it), once it runs and stores `transition − 1` it holds the new vault and nothing is pending:
the form required of the members of `U` in `Healthy`. -/
theorem c07_settled_any_time (s : State) (hc : s.cfg.lateSwitch = true) (i : Nat) (v : Vault) (t : Nat) (evs : List Ev)
    (hk : ∀ ev ∈ evs, ev.keeps i) (hu : (((s.apply (.announce i v t)).run evs).node i).up = true)
    (hh : t - 1 ≤ (((s.apply (.announce i v t)).run evs).node i).head) :
    (((s.apply (.announce i v t)).run evs).node i).vault = v ∧ (((s.apply (.announce i v t)).run evs).node i).pend = none :=
  (told_run i evs _ hk (c07_registration_any_time s hc i v t)).settled hu hh

/-- the same for the code before the repair: only when the hand-over arrives before `transition − 1` is stored -/
theorem c07_settled_partial (s : State) (i : Nat) (v : Vault) (t : Nat) (hearly : (s.node i).head < t - 1) (evs : List Ev)
    (hk : ∀ ev ∈ evs, ev.keeps i) (hu : (((s.apply (.announce i v t)).run evs).node i).up = true)
    (hh : t - 1 ≤ (((s.apply (.announce i v t)).run evs).node i).head) :
    (((s.apply (.announce i v t)).run evs).node i).vault = v ∧ (((s.apply (.announce i v t)).run evs).node i).pend = none :=
  (told_run i evs _ hk (c07_registration_partial s i v t hearly)).settled hu hh

/-- **Round by round.** With `c = t − 1` (`t` the transition round, `t ≥ 1`): every round `r ≥ t` is stored by every member
of `U` after `r − t + 2` fair rounds (when the clocks show `r + 1`), and after `r − t + 1` (when they show `r`) if `U` was
level at `t − 1`. -/
theorem c07_round_produced {nxt : Nat → Option Nat} {U : List Nat} {G : Grp} {e : Nat} {ix : Nat → Nat} (s : State) (t : Nat)
    (ht : 1 ≤ t) (h : Healthy nxt s U G e ix) (hc : clk s = t - 1) (hlag : ∀ i ∈ U, t - 1 ≤ (s.node i).head + 1)
    (r : Nat) (hr : t ≤ r) (sch : List Nat) :
    (sch.length = r + 2 - t → ∀ i ∈ U, r ≤ ((s.fairRounds sch).node i).head) ∧
    (sch.length = r + 1 - t → (∀ i ∈ U, (s.node i).head = t - 1) → ∀ i ∈ U, ((s.fairRounds sch).node i).head = r) := by
  obtain ⟨_, _, h3, h4⟩ := c07_chain_continues sch s (t - 1) h hc hlag
  refine ⟨fun hl i hi => ?_, fun hl hh i hi => ?_⟩
  · have := (h3 i hi).1; omega
  · have := h4 hh i hi; omega

/-! ### no gap -/

theorem aggregate_head_step (B : Nat) (d : Node) (idx ep r : Nat) :
    (d.aggregate B idx ep r).head = d.head ∨ ((d.aggregate B idx ep r).head = d.head + 1 ∧ r = d.head + 1) := by
  rcases aggregate_cases B d idx ep r with ⟨_, he⟩ | ⟨_, _, he⟩ | ⟨_, _, _, v, he⟩ | ⟨_, _, hr, P, he⟩ <;> rw [he]
  · exact Or.inl rfl
  · exact Or.inl rfl
  · exact Or.inl rfl
  · right
    refine ⟨?_, hr⟩
    show ((d.setHeld _).put r).head = d.head + 1
    rw [put_next _ r (by simp [hr]), hr]

/-- Every append is `head + 1` in the resharing model as well: `Put` stores `r` only when `r = head + 1` (the transition
callback never touches the head); the aggregator moves the head by at most one, to the round of the partial; a sync is a
run of `Put`s over consecutive rounds. Across the switch of vault nothing else writes the chain. -/
theorem c07_no_skip :
    (∀ (d : Node) (r : Nat), (d.put r).head = d.head ∨ ((d.put r).head = d.head + 1 ∧ r = d.head + 1)) ∧
    (∀ (B : Nat) (d : Node) (idx ep r : Nat),
      (d.aggregate B idx ep r).head = d.head ∨ ((d.aggregate B idx ep r).head = d.head + 1 ∧ r = d.head + 1)) ∧
    (∀ (d : Node) (t : Nat), (d.appendTo t).head = d.head + (t - d.head)) :=
  ⟨fun d r => (put_frame d r).2.2.2.2.2.2.2.2, aggregate_head_step, fun d t => (appendTo_frame d t).1⟩

/-- no event of the model — hand-overs, joins, stops and restarts included — moves a head down -/
theorem c07_heads_monotone (s : State) (ev : Ev) (k : Nat) : (s.node k).head ≤ ((s.apply ev).node k).head := by
  cases ev with
  | advance => exact Nat.le_refl _
  | tick i => exact ((ext_tick s i).node k).2.2.1
  | fire i => exact ((ext_fire s i).node k).2.2.1
  | deliver j =>
    simp only [State.apply]
    cases hm : s.msgs[j]? with
    | none => exact Nat.le_refl _
    | some m => exact ((ext_recv { s with msgs := s.msgs.eraseIdx j } m).node k).2.2.1
  | drop j => exact Nat.le_refl _
  | deliverAll => exact ((ext_deliverAll s).node k).2.2.1
  | pull i => exact ((ext_pull s i).node k).2.2.1
  | stop i =>
    simp only [State.apply, State.stop, setNode_node]
    by_cases hk : k = i <;> simp [hk]
  | restart i =>
    simp only [State.apply, State.restart]
    split
    · exact Nat.le_refl _
    · rw [setNode_node]; by_cases hk : k = i <;> simp [hk]
  | setConn c => exact Nat.le_refl _
  | send m => exact Nat.le_refl _
  | announce i v t =>
    simp only [State.apply, setNode_node]
    by_cases hk : k = i
    · simp only [hk, if_true]; rw [announce_head]; exact Nat.le_refl _
    · simp [hk]
  | join i v =>
    simp only [State.apply, State.join]
    split
    · exact Nat.le_refl _
    · rw [setNode_node]; by_cases hk : k = i <;> simp [hk]

/-! ### non-vacuity: a 4 → 4 resharing with one leaver and one joiner -/

/-- an event that does not start or stop node `k` -/
def Ev.quietFor (k : Nat) : Ev → Prop
  | .stop i => i ≠ k
  | .restart i => i ≠ k
  | .join i _ => i ≠ k
  | _ => True

/-- a node that does not run and is not started stays as it is: down, same head -/
theorem frozen_apply (s : State) (ev : Ev) (k : Nat) (hd : (s.node k).up = false) (hq : ev.quietFor k) :
    ((s.apply ev).node k).up = false ∧ ((s.apply ev).node k).head = (s.node k).head := by
  have ofExt : ∀ s', Ext s s' → (s'.node k).up = false ∧ (s'.node k).head = (s.node k).head :=
    fun s' x => ⟨(x.node k).1.trans hd, x.down k hd⟩
  cases ev with
  | advance => exact ⟨hd, rfl⟩
  | tick i => exact ofExt _ (ext_tick s i)
  | fire i => exact ofExt _ (ext_fire s i)
  | deliver j =>
    simp only [State.apply]
    cases hm : s.msgs[j]? with
    | none => exact ⟨hd, rfl⟩
    | some m =>
      have x := ext_recv { s with msgs := s.msgs.eraseIdx j } m
      exact ⟨(x.node k).1.trans hd, x.down k hd⟩
  | drop j => exact ⟨hd, rfl⟩
  | deliverAll => exact ofExt _ (ext_deliverAll s)
  | pull i => exact ofExt _ (ext_pull s i)
  | stop i =>
    have hki : k ≠ i := fun h => hq h.symm
    simp only [State.apply, State.stop, setNode_node, hki, if_false]
    exact ⟨hd, trivial⟩
  | restart i =>
    have hki : k ≠ i := fun h => hq h.symm
    simp only [State.apply, State.restart]
    split
    · exact ⟨hd, rfl⟩
    · simp only [setNode_node, hki, if_false]; exact ⟨hd, trivial⟩
  | setConn c => exact ⟨hd, rfl⟩
  | send m => exact ⟨hd, rfl⟩
  | announce i v t =>
    simp only [State.apply, setNode_node]
    by_cases hki : k = i
    · simp only [hki, if_true]
      rw [announce_head]
      refine ⟨?_, rfl⟩
      rw [hki] at hd
      unfold Node.announce
      simp [hd]
    · simp only [hki, if_false]; exact ⟨hd, trivial⟩
  | join i v =>
    have hki : k ≠ i := fun h => hq h.symm
    simp only [State.apply, State.join]
    split
    · exact ⟨hd, rfl⟩
    · simp only [setNode_node, hki, if_false]; exact ⟨hd, trivial⟩

theorem frozen_run (k : Nat) : ∀ (evs : List Ev) (s : State), (s.node k).up = false → (∀ ev ∈ evs, ev.quietFor k) →
    ((s.run evs).node k).up = false ∧ ((s.run evs).node k).head = (s.node k).head := by
  intro evs
  induction evs with
  | nil => intro s hd _; exact ⟨hd, rfl⟩
  | cons e t ih =>
    intro s hd hq
    have h1 := frozen_apply s e k hd (hq e (by simp))
    have h2 := ih (s.apply e) h1.1 (fun ev hev => hq ev (by simp [hev]))
    exact ⟨h2.1, h2.2.trans h1.2⟩

/-- the old group: four members, threshold 3 -/
def exO : Grp := ⟨[⟨0, 0⟩, ⟨1, 1⟩, ⟨2, 2⟩, ⟨3, 3⟩], 3⟩

/-- the new group: node 3 leaves, node 4 joins and gets the index the leaver had (positions in the sorted member list) -/
def exN4 (thr : Nat) : Grp := ⟨[⟨0, 0⟩, ⟨1, 1⟩, ⟨2, 2⟩, ⟨4, 3⟩], thr⟩

def exIx4 (i : Nat) : Nat := if i = 4 then 3 else i

/-- transition round 2. The three remainers are told, the joiner is started the way core does it (new group + `Catchup`),
the period of round 1 = transition − 1 passes as a fair tick sub-round written out event by event (the leaver still
signs it), then the leaver stops (`StopAt(transition time − 1)`). -/
def exEvs (thr : Nat) : List Ev :=
  [.announce 0 ⟨exN4 thr, 1, 0⟩ 2, .announce 1 ⟨exN4 thr, 1, 1⟩ 2, .announce 2 ⟨exN4 thr, 1, 2⟩ 2, .join 4 ⟨exN4 thr, 1, 3⟩,
   .advance, .tick 0, .tick 1, .tick 2, .tick 3, .tick 4, .pull 0, .pull 1, .pull 2, .pull 3, .pull 4, .deliverAll,
   .pull 0, .pull 1, .pull 2, .pull 3, .pull 4, .stop 3]

def exI : State := State.init ⟨Gen.transitionLateSwitch, false⟩ 5 4 exO

def exS (thr : Nat) : State := exI.run (exEvs thr)

/-- every event of the example keeps the discipline: the state reached is `Sane` -/
theorem exS_sane : Sane cxNxt (exS 3) := by
  apply sane_run (exEvs 3) exI (sane_init _ _ _ _ _)
  refine ⟨fun _ _ => by decide, fun _ _ => by decide, fun _ _ => by decide, trivial, trivial,
    fun _ => (cx_inlife _ _).mpr (by decide), fun _ => (cx_inlife _ _).mpr (by decide), fun _ => (cx_inlife _ _).mpr (by decide),
    fun _ => (cx_inlife _ _).mpr (by decide), fun _ => (cx_inlife _ _).mpr (by decide),
    trivial, trivial, trivial, trivial, trivial, trivial, trivial, trivial, trivial, trivial, trivial, trivial, trivial⟩

theorem exS_frozen (k : Nat) : ((exS 3).node (k + 5)).up = false ∧ ((exS 3).node (k + 5)).head = 0 := by
  have hq : ∀ ev ∈ exEvs 3, ev.quietFor (k + 5) := by
    intro ev hev
    simp only [exEvs, List.mem_cons, List.not_mem_nil, or_false] at hev
    rcases hev with h | h | h | h | h | h | h | h | h | h | h | h | h | h | h | h | h | h | h | h | h | h <;> subst h <;>
      first | trivial | (show _ ≠ _; omega)
  have h0 : (exI.node (k + 5)).up = false ∧ (exI.node (k + 5)).head = 0 := by
    have : exO.members.find? (fun m => m.node == k + 5) = none := by
      simp [exO]
    simp [exI, State.init, this]
  have := frozen_run (k + 5) (exEvs 3) exI h0.1 hq
  exact ⟨this.1, this.2.trans h0.2⟩

/-- the state before the transition tick: clocks at 1 = transition − 1; the three remainers store round 1 and have switched,
the joiner stores round 0 — one round behind —, the leaver has stopped -/
theorem exS_healthy : Healthy cxNxt (exS 3) [0, 1, 2, 4] (exN4 3) 1 exIx4 := by
  refine ⟨⟨exS_sane, ?_⟩, ⟨by decide, by decide, by decide, by decide⟩, by decide, by decide, by decide, ?_, by decide, by decide, ?_⟩
  · intro k
    match k with
    | 0 => decide
    | 1 => decide
    | 2 => decide
    | 3 => decide
    | 4 => decide
    | k + 5 => intro hu; rw [(exS_frozen k).1] at hu; cases hu
  · intro k
    match k with
    | 0 => intro _; decide
    | 1 => intro _; decide
    | 2 => intro _; decide
    | 3 => intro hu; exact absurd hu (by decide)
    | 4 => intro _; decide
    | k + 5 => intro hu; rw [(exS_frozen k).1] at hu; cases hu
  · intro k
    match k with
    | 0 => exact ⟨0, by decide, by decide⟩
    | 1 => exact ⟨0, by decide, by decide⟩
    | 2 => exact ⟨0, by decide, by decide⟩
    | 3 => exact ⟨0, by decide, by decide⟩
    | 4 => exact ⟨0, by decide, by decide⟩
    | k + 5 => exact ⟨0, by decide, by rw [(exS_frozen k).2]; exact Nat.zero_le _⟩

/-- the same with threshold 4 in the new group: the joiner is needed -/
theorem exS4_sane : Sane cxNxt (exS 4) := by
  apply sane_run (exEvs 4) exI (sane_init _ _ _ _ _)
  refine ⟨fun _ _ => by decide, fun _ _ => by decide, fun _ _ => by decide, trivial, trivial,
    fun _ => (cx_inlife _ _).mpr (by decide), fun _ => (cx_inlife _ _).mpr (by decide), fun _ => (cx_inlife _ _).mpr (by decide),
    fun _ => (cx_inlife _ _).mpr (by decide), fun _ => (cx_inlife _ _).mpr (by decide),
    trivial, trivial, trivial, trivial, trivial, trivial, trivial, trivial, trivial, trivial, trivial, trivial, trivial⟩

theorem exS4_frozen (k : Nat) : ((exS 4).node (k + 5)).up = false ∧ ((exS 4).node (k + 5)).head = 0 := by
  have hq : ∀ ev ∈ exEvs 4, ev.quietFor (k + 5) := by
    intro ev hev
    simp only [exEvs, List.mem_cons, List.not_mem_nil, or_false] at hev
    rcases hev with h | h | h | h | h | h | h | h | h | h | h | h | h | h | h | h | h | h | h | h | h | h <;> subst h <;>
      first | trivial | (show _ ≠ _; omega)
  have h0 : (exI.node (k + 5)).up = false ∧ (exI.node (k + 5)).head = 0 := by
    have : exO.members.find? (fun m => m.node == k + 5) = none := by
      simp [exO]
    simp [exI, State.init, this]
  have := frozen_run (k + 5) (exEvs 4) exI h0.1 hq
  exact ⟨this.1, this.2.trans h0.2⟩

theorem exS4_healthy : Healthy cxNxt (exS 4) [0, 1, 2, 4] (exN4 4) 1 exIx4 := by
  refine ⟨⟨exS4_sane, ?_⟩, ⟨by decide, by decide, by decide, by decide⟩, by decide, by decide, by decide, ?_, by decide, by decide, ?_⟩
  · intro k
    match k with
    | 0 => decide
    | 1 => decide
    | 2 => decide
    | 3 => decide
    | 4 => decide
    | k + 5 => intro hu; rw [(exS4_frozen k).1] at hu; cases hu
  · intro k
    match k with
    | 0 => intro _; decide
    | 1 => intro _; decide
    | 2 => intro _; decide
    | 3 => intro hu; exact absurd hu (by decide)
    | 4 => intro _; decide
    | k + 5 => intro hu; rw [(exS4_frozen k).1] at hu; cases hu
  · intro k
    match k with
    | 0 => exact ⟨0, by decide, by decide⟩
    | 1 => exact ⟨0, by decide, by decide⟩
    | 2 => exact ⟨0, by decide, by decide⟩
    | 3 => exact ⟨0, by decide, by decide⟩
    | 4 => exact ⟨0, by decide, by decide⟩
    | k + 5 => exact ⟨0, by decide, by rw [(exS4_frozen k).2]; exact Nat.zero_le _⟩

/-- `c07_chain_continues` applies: whatever the fair schedule, after `k` periods every member of the new group — the joiner
included — stores at least round `k` and at most round `k + 1`, the clocks showing `k + 1` -/
example (sch : List Nat) : ∀ i ∈ [0, 1, 2, 4], 1 + sch.length ≤ (((exS 3).fairRounds sch).node i).head + 1 ∧
    (((exS 3).fairRounds sch).node i).head ≤ 1 + sch.length :=
  (c07_chain_continues sch (exS 3) 1 exS_healthy (by decide) (by decide)).2.2.1

/-- round 2, the transition round, and the rounds after it: stored by all four when the clocks show 3 and 4 at the latest -/
example (sch : List Nat) (hl : sch.length = 2) : ∀ i ∈ [0, 1, 2, 4], 2 ≤ (((exS 3).fairRounds sch).node i).head :=
  (c07_round_produced (exS 3) 2 (by decide) exS_healthy (by decide) (by decide) 2 (by decide) sch).1 (by rw [hl])

/-- what the model really does there: with threshold 3 the three remainers produce round 2 in its own period and the joiner
is level after one round (it follows by sync) -/
example : ((List.range 5).map fun k => (((exS 3).fairRounds [1]).node k).head) = [2, 2, 2, 1, 2] ∧
    ((List.range 5).map fun k => (((exS 3).fairRounds [1, 1]).node k).head) = [3, 3, 3, 1, 3] := by decide

/-- **the bound is attained**: with threshold 4 the joiner's partial is NEEDED; it is one round behind at the transition
tick, so round 2 is not produced in its period (clock 2: heads 1), it is produced one period late (clock 3: heads 2), and
the catch-up sub-rounds close the gap in the next period (clock 4: heads 4). Without catch-up sub-rounds the side stays
exactly one round behind (clock 5: heads 4) — never two. -/
example : ((List.range 5).map fun k => (((exS 4).fairRounds [1]).node k).head) = [1, 1, 1, 1, 1] ∧
    ((List.range 5).map fun k => (((exS 4).fairRounds [1, 1]).node k).head) = [2, 2, 2, 1, 2] ∧
    ((List.range 5).map fun k => (((exS 4).fairRounds [1, 1, 1]).node k).head) = [4, 4, 4, 1, 4] ∧
    ((List.range 5).map fun k => (((exS 4).fairRounds [0, 0, 0, 0]).node k).head) = [4, 4, 4, 1, 4] := by decide

/-- levelling: the joiner (node 4, head 0, holding the new group) reaches the head of remainer 0 in the next tick sub-round -/
example : 1 ≤ ((exS 3).fairTick.node 4).head :=
  c07_level (exS 3) 4 0 1 2 (by decide) (by decide) (by decide) (by decide) (by decide) (by decide) (by decide) (by decide)
    (by decide) (by decide) (by decide)

/-- the catch-up sub-round: threshold 4, period of round 4 (clocks at 4). After the tick sub-round every member stores
round 3 — one behind — and has the catch-up goroutine launched on 3 asleep; `c07_catch_progress`: after the catch-up
sub-round every member stores round 4. -/
example : ∀ j ∈ [0, 1, 2, 4], 3 + 1 ≤ ((((exS 4).fairRounds [1, 1]).fairTick).fairCatch.node j).head := by
  have h1 := (c07_chain_continues [1, 1] (exS 4) 1 exS4_healthy (by decide) (by decide))
  have h2 := c07_fair_tick h1.1 3 h1.2.1 (fun i hi => by have := (h1.2.2.1 i hi).1; simpa using this)
  exact c07_catch_progress h2.1 3 (by rw [h2.2.1]; decide) (by decide) (by decide)

end Drand.Net.Reshare
