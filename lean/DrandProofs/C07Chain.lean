/-
C07 / C05 across a resharing, continued (model: Drand/Net/Reshare.lean): levelling, the bound across the transition and
the composed statement `c07_chain_continues`. `Quiet` comes from DrandProofs/C07Quiet.lean (`c07_quiet_of_reachable`), progress
from DrandProofs/C07Net.lean (`c07_reshare_step_progress`).
-/
import DrandProofs.C07Quiet

namespace Drand.Net.Reshare

/-! ### 2. what every rule of a fair round preserves -/

/-- node level: running or not, the clock, heads only grow; a node without a registered switch keeps its vault -/
def NExt (d d' : Node) : Prop :=
  d'.up = d.up ∧ d'.clock = d.clock ∧ d.head ≤ d'.head ∧ (d.pend = none → d'.vault = d.vault ∧ d'.pend = none)

theorem NExt.refl (d : Node) : NExt d d := ⟨rfl, rfl, Nat.le_refl _, fun h => ⟨rfl, h⟩⟩

theorem NExt.trans {a b c : Node} (h1 : NExt a b) (h2 : NExt b c) : NExt a c :=
  ⟨h2.1.trans h1.1, h2.2.1.trans h1.2.1, Nat.le_trans h1.2.2.1 h2.2.2.1, fun h =>
    ⟨(h2.2.2.2 (h1.2.2.2 h).2).1.trans (h1.2.2.2 h).1, (h2.2.2.2 (h1.2.2.2 h).2).2⟩⟩

theorem next_put (d : Node) (r : Nat) : NExt d (d.put r) := by
  have hf := put_frame d r
  refine ⟨hf.1, hf.2.1, hf.2.2.2.2.2.2.2.1, fun hp => ?_⟩
  rcases put_vault_cases d r with ⟨hv, hpe⟩ | ⟨p, hpp, _⟩
  · exact ⟨hv, hpe.trans hp⟩
  · rw [hp] at hpp; cases hpp

theorem next_foldl_put : ∀ (l : List Nat) (d : Node), NExt d (l.foldl Node.put d) := by
  intro l
  induction l with
  | nil => intro d; exact NExt.refl d
  | cons a t ih => intro d; exact (next_put d a).trans (ih _)

theorem next_appendTo (d : Node) (t : Nat) : NExt d (d.appendTo t) := by
  unfold Node.appendTo
  have h := next_foldl_put (List.range' (d.head + 1) (t - d.head)) d
  exact ⟨h.1, h.2.1, h.2.2.1, h.2.2.2⟩

theorem next_aggregate (B : Nat) (d : Node) (idx ep r : Nat) : NExt d (d.aggregate B idx ep r) := by
  rcases aggregate_cases B d idx ep r with ⟨_, he⟩ | ⟨_, _, he⟩ | ⟨_, _, _, v, he⟩ | ⟨_, _, _, P, he⟩ <;> rw [he]
  · exact NExt.refl d
  · exact ⟨rfl, rfl, Nat.le_refl _, fun h => ⟨rfl, h⟩⟩
  · exact ⟨rfl, rfl, Nat.le_refl _, fun h => ⟨rfl, h⟩⟩
  · have h := next_put (d.setHeld (flush (addPartial d.held r idx ep) r)) r
    exact ⟨h.1, h.2.1, h.2.2.1, h.2.2.2⟩

theorem next_tickStep (B i : Nat) (d : Node) : NExt d (d.tickStep B i).1 := by
  by_cases hu : d.up = true
  · have h := next_aggregate B (d.setTick d.clock) d.vault.index d.vault.epoch (Gen.bnpRound d.clock d.head)
    rcases tickStep_node B i d hu with he | ⟨v, he⟩ <;> rw [he]
    · exact ⟨h.1, h.2.1, h.2.2.1, h.2.2.2⟩
    · exact ⟨h.1, h.2.1, h.2.2.1, h.2.2.2⟩
  · rw [tickStep_down B i d hu]; exact NExt.refl d

theorem next_fireStep (B i : Nat) (d : Node) : NExt d (d.fireStep B i).1 := by
  rcases fireStep_cases B i d with he | ⟨_, r, rest, _, he⟩ <;> rw [he]
  · exact NExt.refl d
  · have h := next_aggregate B (d.setPending rest) d.vault.index d.vault.epoch (r + 1)
    exact ⟨h.1, h.2.1, h.2.2.1, h.2.2.2⟩

theorem next_recvStep (B self : Nat) (reach : Bool) (d : Node) (m : Msg) : NExt d (d.recvStep B self reach m) := by
  rcases recvStep_cases B self reach d m with ⟨he, _⟩ | ⟨_, _, _, he⟩ <;> rw [he]
  · exact NExt.refl d
  · exact next_aggregate _ _ _ _ _

/-- state level: size, links, and `NExt` at every node -/
structure Ext (s s' : State) : Prop where
  n : s'.n = s.n
  nIdx : s'.nIdx = s.nIdx
  conn : s'.conn = s.conn
  node : ∀ k, NExt (s.node k) (s'.node k)

theorem Ext.refl (s : State) : Ext s s := ⟨rfl, rfl, rfl, fun _ => NExt.refl _⟩

theorem Ext.trans {a b c : State} (h1 : Ext a b) (h2 : Ext b c) : Ext a c :=
  ⟨h2.n.trans h1.n, h2.nIdx.trans h1.nIdx, h2.conn.trans h1.conn, fun k => (h1.node k).trans (h2.node k)⟩

theorem ext_act (s : State) (i : Nat) (F : Node → Node × List Msg) (h : NExt (s.node i) (F (s.node i)).1) : Ext s (s.act i F) := by
  refine ⟨rfl, rfl, rfl, fun k => ?_⟩
  rw [act_node]
  by_cases hk : k = i
  · rw [hk]; simp only [if_true]; exact h
  · simp only [hk, if_false]; exact NExt.refl _

theorem ext_setNode (s : State) (i : Nat) (d : Node) (h : NExt (s.node i) d) : Ext s (s.setNode i d) := by
  refine ⟨rfl, rfl, rfl, fun k => ?_⟩
  rw [setNode_node]
  by_cases hk : k = i
  · rw [hk]; simp only [if_true]; exact h
  · simp only [hk, if_false]; exact NExt.refl _

theorem ext_tick (s : State) (i : Nat) : Ext s (s.tick i) := ext_act s i _ (next_tickStep _ _ _)
theorem ext_fire (s : State) (i : Nat) : Ext s (s.fire i) := ext_act s i _ (next_fireStep _ _ _)
theorem ext_recv (s : State) (m : Msg) : Ext s (s.recv m) := ext_act s m.dst _ (next_recvStep _ _ _ _ _)

theorem ext_pull (s : State) (i : Nat) : Ext s (s.pull i) := by
  rcases pull_cases s i with he | he | ⟨_, _, v, he⟩ <;> rw [he]
  · exact Ext.refl s
  · exact ext_setNode s i _ ⟨rfl, rfl, Nat.le_refl _, fun h => ⟨rfl, h⟩⟩
  · have h := next_appendTo (s.node i) (min (s.node i).syncTo (s.maxPeerHead i))
    exact ext_setNode s i _ ⟨h.1, h.2.1, h.2.2.1, h.2.2.2⟩

theorem foldl_inv {α : Type} (P : State → Prop) (f : State → α → State) (hf : ∀ s a, P s → P (f s a)) :
    ∀ (l : List α) (s : State), P s → P (l.foldl f s) := by
  intro l
  induction l with
  | nil => intro s h; exact h
  | cons a t ih => intro s h; exact ih _ (hf s a h)

theorem ext_foldl {α : Type} (f : State → α → State) (hf : ∀ s a, Ext s (f s a)) (l : List α) (s : State) : Ext s (l.foldl f s) :=
  foldl_inv (fun x => Ext s x) f (fun x a h => h.trans (hf x a)) l s (Ext.refl s)

theorem ext_deliverAll (s : State) : Ext s s.deliverAll :=
  (show Ext s { s with msgs := [] } from ⟨rfl, rfl, rfl, fun _ => NExt.refl _⟩).trans (ext_foldl _ ext_recv _ _)

theorem ext_forAll (s : State) (f : State → Nat → State) (hf : ∀ s a, Ext s (f s a)) : Ext s (s.forAll f) := ext_foldl f hf _ _

theorem ext_settle (s : State) : Ext s s.settle :=
  ((ext_forAll _ _ ext_pull).trans (ext_deliverAll _)).trans (ext_forAll _ _ ext_pull)

theorem ext_advance_fairTick (s : State) : Ext s.advance s.fairTick := (ext_forAll _ _ ext_tick).trans (ext_settle _)

/-- every catch-up goroutine of node `i` that sleeps at the start of the sub-round wakes: the same as that many `fire` events -/
theorem act_fireSteps (i : Nat) : ∀ (c : Nat) (s : State),
    s.act i (fun d => Node.fireSteps s.nIdx i c d) = (List.replicate c (Ev.fire i)).foldl State.apply s := by
  intro c
  induction c with
  | zero =>
    intro s
    cases s with
    | mk cfg n nIdx node conn msgs =>
      simp only [State.act, Node.fireSteps, List.append_nil, List.replicate, List.foldl_nil]
      congr
      funext k
      by_cases hk : k = i <;> simp [hk]
  | succ c ih =>
    intro s
    rw [List.replicate_succ, List.foldl_cons]
    have h1 : s.apply (Ev.fire i) = s.fire i := rfl
    rw [h1, ← ih (s.fire i)]
    simp only [State.act, State.fire, Node.fireSteps, if_true]
    congr 1
    · funext k
      by_cases hk : k = i <;> simp [hk]
    · simp [List.append_assoc]

theorem fireNode_eq (s : State) (i : Nat) :
    s.fireNode i = (List.replicate (s.node i).pending.length (Ev.fire i)).foldl State.apply s := by
  rw [← act_fireSteps]
  rfl

theorem fires_inv (P : State → Prop) (i : Nat) (hP : ∀ s, P s → P (s.fire i)) : ∀ (c : Nat) (s : State), P s →
    P ((List.replicate c (Ev.fire i)).foldl State.apply s) := by
  intro c
  induction c with
  | zero => intro s h; exact h
  | succ c ih => intro s h; rw [List.replicate_succ, List.foldl_cons]; exact ih _ (hP s h)

theorem ext_fireNode (s : State) (i : Nat) : Ext s (s.fireNode i) := by
  rw [fireNode_eq]
  exact fires_inv (fun x => Ext s x) i (fun x h => h.trans (ext_fire x i)) _ s (Ext.refl s)

end Drand.Net.Reshare
