/-
`Quiet` for the resharing model (Drand/Net/Reshare.lean) from reachability — the invariant behind `c07_quiet_of_reachable`
(DrandProofs/C07Quiet.lean).

`nxt : Nat → Option Nat` is the resharing schedule: `nxt x = some t` says that the epoch (polynomial) `x` ENDS at round `t`,
the transition round of the resharing that replaces it; `none`: no resharing of `x` is planned. The invariant `Sane nxt`:

  * lock-step clocks; heads, last ticks, sleeping catch-up goroutines, cached and in-flight partials are not beyond the clock
  * nobody signs beyond a head + 1: a partial in flight or cached is at most one round above every bound on the heads
  * every cached partial is above the node's head, was made with a share of the node's CURRENT epoch, and is for a round
    within that epoch's lifetime (`r < t` when `nxt x = some t`); the same lifetime bound for what is in flight
  * a registered switch (`pend`) fires no earlier than the end of the node's current epoch

It is kept by every event of the model under the discipline `Ev.sched` (see there): the clause that matters is the one on
`tick` / `fire` — a node whose timer fires does not sign a round of the NEXT epoch with a share of its current one.
Without it the invariant (and `Quiet`) is false: `c07_quiet_counterexample`.
-/
import DrandProofs.C07Net

namespace Drand.Net.Reshare

/-! ### more frame facts -/

@[simp] theorem setHead_lastTick (d : Node) (v) : (d.setHead v).lastTick = d.lastTick := rfl
@[simp] theorem setHead_pending (d : Node) (v) : (d.setHead v).pending = d.pending := rfl
@[simp] theorem setTick_lastTick (d : Node) (v) : (d.setTick v).lastTick = v := rfl
@[simp] theorem setTick_pending (d : Node) (v) : (d.setTick v).pending = d.pending := rfl
@[simp] theorem setHeld_lastTick (d : Node) (v) : (d.setHeld v).lastTick = d.lastTick := rfl
@[simp] theorem setHeld_pending (d : Node) (v) : (d.setHeld v).pending = d.pending := rfl
@[simp] theorem setPending_lastTick (d : Node) (v) : (d.setPending v).lastTick = d.lastTick := rfl
@[simp] theorem setPending_pending (d : Node) (v) : (d.setPending v).pending = v := rfl
@[simp] theorem setSync_lastTick (d : Node) (v) : (d.setSync v).lastTick = d.lastTick := rfl
@[simp] theorem setSync_pending (d : Node) (v) : (d.setSync v).pending = d.pending := rfl

theorem addPartial_entry {held : Nat → Nat → Option Nat} {r idx ep r' k x : Nat}
    (h : addPartial held r idx ep r' k = some x) : held r' k = some x ∨ (r' = r ∧ k = idx ∧ x = ep) := by
  by_cases hc : r' = r ∧ k = idx
  · obtain ⟨h1, h2⟩ := hc
    subst h1; subst h2
    cases hy : held r' k with
    | none => rw [addPartial_at_none _ _ _ _ hy] at h; right; exact ⟨rfl, rfl, by injection h with h; exact h.symm⟩
    | some y => rw [addPartial_at_some _ _ _ _ y hy] at h; left; rw [← h]
  · rw [addPartial_other _ _ _ _ _ _ hc] at h; exact Or.inl h

theorem flush_entry {held : Nat → Nat → Option Nat} {r r' k x : Nat} (h : flush held r r' k = some x) :
    r < r' ∧ held r' k = some x := by
  unfold flush at h
  by_cases hc : r < r'
  · simp only [hc, if_true] at h; exact ⟨hc, h⟩
  · simp only [hc, if_false] at h; cases h

/-- what `Put` + the transition callback do to the vault: nothing, or the registered switch fires (the stored round is
`head + 1` and not below the target) -/
theorem put_vault_cases (d : Node) (r : Nat) :
    ((d.put r).vault = d.vault ∧ (d.put r).pend = d.pend) ∨
    (∃ p, d.pend = some p ∧ r = d.head + 1 ∧ p.target ≤ r ∧ (d.put r).vault = p.vault ∧ (d.put r).pend = none) := by
  unfold Node.put
  by_cases hr : r = d.head + 1
  · simp only [hr, if_true]
    unfold Node.onStored
    simp only [setHead_pend]
    cases hp : d.pend with
    | none => left; simp [hp]
    | some p =>
      simp only [Gen.transitionSkip]
      by_cases hs : d.head + 1 < p.target
      · left; simp [hs, hp]
      · right; refine ⟨p, ?_, ?_, ?_, ?_, ?_⟩ <;> first | rfl | trivial | omega | simp [hs]
  · left; simp [hr]

/-- the catch-up goroutines after the aggregator ran once: the old ones, plus the stored round when it is behind the tick -/
theorem aggregate_pending (B : Nat) (d : Node) (idx ep r : Nat) :
    ∀ x ∈ (d.aggregate B idx ep r).pending, x ∈ d.pending ∨ (x = r ∧ r < d.lastTick ∧ r = d.head + 1) := by
  intro x hx
  rcases aggregate_cases B d idx ep r with ⟨_, he⟩ | ⟨_, _, he⟩ | ⟨_, _, _, v, he⟩ | ⟨_, _, hr, _, _⟩
  · rw [he] at hx; exact Or.inl hx
  · rw [he] at hx; exact Or.inl hx
  · rw [he] at hx; exact Or.inl hx
  · unfold Node.aggregate at hx
    by_cases hw : Gen.aggInWindow r d.head = true
    · simp only [hw, Bool.not_true, Bool.false_eq_true, if_false] at hx
      split at hx
      · exact Or.inl hx
      · split at hx
        · exact Or.inl hx
        · have hnr : Gen.tryAppendRefuse d.head r = false := by simp [Gen.tryAppendRefuse, hr]
          simp only [hnr, Bool.false_eq_true, if_false] at hx
          by_cases hl : r < d.lastTick
          · have hcl : Gen.catchupLaunch r d.lastTick = true := by simp [Gen.catchupLaunch, hl]
            simp only [hcl, if_true, setPending_pending, List.mem_append, List.mem_singleton] at hx
            rcases hx with hx | hx
            · exact Or.inl hx
            · exact Or.inr ⟨hx, hl, hr⟩
          · have hcl : Gen.catchupLaunch r d.lastTick = false := by simp [Gen.catchupLaunch, hl]
            simp only [hcl, Bool.false_eq_true, if_false] at hx
            rw [(put_frame _ r).2.2.2.2.2.1] at hx
            exact Or.inl hx
    · simp only [Bool.not_eq_true] at hw
      simp only [hw, Bool.not_false, if_true] at hx
      exact Or.inl hx

theorem aggregate_lastTick (B : Nat) (d : Node) (idx ep r : Nat) : (d.aggregate B idx ep r).lastTick = d.lastTick := by
  rcases aggregate_cases B d idx ep r with ⟨_, he⟩ | ⟨_, _, he⟩ | ⟨_, _, _, v, he⟩ | ⟨_, _, _, P, he⟩ <;> rw [he]
  · rfl
  · rfl
  · show ((d.setHeld _).put r).lastTick = d.lastTick
    rw [(put_frame _ r).2.2.2.2.1]; rfl

/-! ### the invariant, node level -/

/-- `r` is at most one above every bound on the heads listed in `hd` -/
def BR (hd : Nat → Nat) (r : Nat) : Prop := ∀ H, (∀ k, hd k ≤ H) → r ≤ H + 1

theorem BR.mono {hd hd' : Nat → Nat} {r : Nat} (h : BR hd r) (hm : ∀ k, hd k ≤ hd' k) : BR hd' r :=
  fun H hH => h H (fun k => Nat.le_trans (hm k) (hH k))

theorem BR.of_le {hd : Nat → Nat} {r : Nat} (k : Nat) (h : r ≤ hd k + 1) : BR hd r :=
  fun H hH => by have := hH k; omega

/-- a partial of epoch `x` on round `r` is within the lifetime of its epoch -/
def InLife (nxt : Nat → Option Nat) (x r : Nat) : Prop := ∀ t, nxt x = some t → r < t

/-- the entries of a partial cache: what every one of them satisfies (`c` the clock, `hd` the table of heads, `e` the
epoch they must belong to) -/
def HeldP (nxt : Nat → Option Nat) (hd : Nat → Nat) (c : Nat) (held : Nat → Nat → Option Nat) : Prop :=
  ∀ r k x, held r k = some x → r ≤ c ∧ BR hd r ∧ InLife nxt x r

structure SaneN (nxt : Nat → Option Nat) (hd : Nat → Nat) (c : Nat) (d : Node) : Prop where
  clk : d.clock = c
  headC : d.head ≤ c
  tickC : d.lastTick ≤ c
  pendC : ∀ r ∈ d.pending, r < d.lastTick
  pendR : ∀ r ∈ d.pending, r ≤ d.head
  heldP : HeldP nxt hd c d.held
  heldH : ∀ r k x, d.held r k = some x → d.head < r
  /-- only for a node whose cache keeps the FIRST partial of an index: with "newest wins" nothing is required -/
  heldE : d.replace = false → ∀ r k x, d.held r k = some x → x = d.vault.epoch
  pendOk : d.replace = false → ∀ p, d.pend = some p → ∃ t, nxt d.vault.epoch = some t ∧ t ≤ p.target + 1

theorem HeldP.mono {nxt : Nat → Option Nat} {hd hd' : Nat → Nat} {c c' : Nat} {held : Nat → Nat → Option Nat}
    (h : HeldP nxt hd c held) (hm : ∀ k, hd k ≤ hd' k) (hc : c ≤ c') : HeldP nxt hd' c' held :=
  fun r k x hx => ⟨Nat.le_trans (h r k x hx).1 hc, (h r k x hx).2.1.mono hm, (h r k x hx).2.2⟩

theorem HeldP.add {nxt : Nat → Option Nat} {hd : Nat → Nat} {c : Nat} {held : Nat → Nat → Option Nat}
    (h : HeldP nxt hd c held) (r idx ep : Nat) (h1 : r ≤ c) (h2 : BR hd r) (h3 : InLife nxt ep r) :
    HeldP nxt hd c (addPartial held r idx ep) := by
  intro r' k x hx
  rcases addPartial_entry hx with ho | ⟨e1, _, e3⟩
  · exact h r' k x ho
  · subst e1; subst e3; exact ⟨h1, h2, h3⟩

theorem HeldP.cacheAdd {nxt : Nat → Option Nat} {hd : Nat → Nat} {c : Nat} {d : Node}
    (h : HeldP nxt hd c d.held) (r idx ep : Nat) (h1 : r ≤ c) (h2 : BR hd r) (h3 : InLife nxt ep r) :
    HeldP nxt hd c (d.cacheAdd r idx ep) := by
  intro r' k x hx
  rcases cacheAdd_entry hx with ho | ⟨e1, _, e3⟩
  · exact h r' k x ho
  · subst e1; subst e3; exact ⟨h1, h2, h3⟩

theorem HeldP.flush {nxt : Nat → Option Nat} {hd : Nat → Nat} {c : Nat} {held : Nat → Nat → Option Nat}
    (h : HeldP nxt hd c held) (r : Nat) : HeldP nxt hd c (flush held r) :=
  fun r' k x hx => h r' k x (flush_entry hx).2

theorem HeldP.empty (nxt : Nat → Option Nat) (hd : Nat → Nat) (c : Nat) : HeldP nxt hd c (fun _ _ => none) :=
  fun _ _ _ hx => by cases hx

theorem SaneN.mono {nxt : Nat → Option Nat} {hd hd' : Nat → Nat} {c : Nat} {d : Node} (h : SaneN nxt hd c d)
    (hm : ∀ k, hd k ≤ hd' k) : SaneN nxt hd' c d :=
  ⟨h.clk, h.headC, h.tickC, h.pendC, h.pendR, h.heldP.mono hm (Nat.le_refl _), h.heldH, h.heldE, h.pendOk⟩

/-- a node that differs only in fields the invariant does not read (`up`, `syncTo`, `disk`) -/
theorem SaneN.frame {nxt : Nat → Option Nat} {hd : Nat → Nat} {c : Nat} {d d' : Node} (h : SaneN nxt hd c d)
    (h1 : d'.clock = d.clock) (h2 : d'.head = d.head) (h3 : d'.lastTick = d.lastTick) (h4 : d'.pending = d.pending)
    (h5 : d'.held = d.held) (h6 : d'.vault = d.vault) (h7 : d'.pend = d.pend) (h8 : d'.replace = d.replace) : SaneN nxt hd c d' :=
  ⟨h1 ▸ h.clk, h2 ▸ h.headC, h3 ▸ h.tickC, by rw [h4, h3]; exact h.pendC, by rw [h4, h2]; exact h.pendR,
   h5 ▸ h.heldP, by rw [h5, h2]; exact h.heldH, by rw [h8, h5, h6]; exact h.heldE, by rw [h8, h7, h6]; exact h.pendOk⟩

/-- the invariant of a run of `Put`s (a sync stream) before the cache is flushed: the cached partials are of the
current epoch OR not above the head any more -/
structure PutInv (nxt : Nat → Option Nat) (hd : Nat → Nat) (c : Nat) (d : Node) : Prop where
  clk : d.clock = c
  tickC : d.lastTick ≤ c
  pendC : ∀ r ∈ d.pending, r < d.lastTick
  pendR : ∀ r ∈ d.pending, r ≤ d.head
  heldP : HeldP nxt hd c d.held
  heldE : d.replace = false → ∀ r k x, d.held r k = some x → x = d.vault.epoch ∨ r ≤ d.head
  pendOk : d.replace = false → ∀ p, d.pend = some p → ∃ t, nxt d.vault.epoch = some t ∧ t ≤ p.target + 1

theorem SaneN.putInv {nxt : Nat → Option Nat} {hd : Nat → Nat} {c : Nat} {d : Node} (h : SaneN nxt hd c d) :
    PutInv nxt hd c d :=
  ⟨h.clk, h.tickC, h.pendC, h.pendR, h.heldP, fun hr r k x hx => Or.inl (h.heldE hr r k x hx), h.pendOk⟩

theorem putInv_put {nxt : Nat → Option Nat} {hd : Nat → Nat} {c : Nat} {d : Node} (h : PutInv nxt hd c d) (r : Nat) :
    PutInv nxt hd c (d.put r) := by
  have hf := put_frame d r
  obtain ⟨f1, f2, f3, f4, f5, f6, f7, f8, f9⟩ := hf
  have hrp : (d.put r).replace = false → d.replace = false := fun hr => (put_replace d r) ▸ hr
  refine ⟨f2.trans h.clk, by rw [f5]; exact h.tickC, by rw [f6, f5]; exact h.pendC,
    fun x hx => Nat.le_trans (h.pendR x (f6 ▸ hx)) f8, by rw [f3]; exact h.heldP, ?_, ?_⟩
  · intro hr r' k x hx
    have hr' := hrp hr
    rw [f3] at hx
    rcases put_vault_cases d r with ⟨hv, _⟩ | ⟨p, hp, hr1, htg, hv, _⟩
    · rw [hv]
      rcases h.heldE hr' r' k x hx with h1 | h1
      · exact Or.inl h1
      · exact Or.inr (Nat.le_trans h1 f8)
    · right
      rcases h.heldE hr' r' k x hx with h1 | h1
      · obtain ⟨t, ht, htl⟩ := h.pendOk hr' p hp
        have := (h.heldP r' k x hx).2.2 t (h1 ▸ ht)
        have hh : (d.put r).head = r := put_next d r hr1
        omega
      · exact Nat.le_trans h1 f8
  · intro hr p hp
    have hr' := hrp hr
    rcases put_vault_cases d r with ⟨hv, hpe⟩ | ⟨_, _, _, _, _, hpe⟩
    · rw [hv]; exact h.pendOk hr' p (hpe ▸ hp)
    · rw [hpe] at hp; cases hp

theorem putInv_foldl {nxt : Nat → Option Nat} {hd : Nat → Nat} {c : Nat} : ∀ (l : List Nat) (d : Node),
    PutInv nxt hd c d → PutInv nxt hd c (l.foldl Node.put d) := by
  intro l
  induction l with
  | nil => intro d h; exact h
  | cons a t ih => intro d h; exact ih _ (putInv_put h a)

/-- after the flush at the head the full invariant is back -/
theorem PutInv.flushed {nxt : Nat → Option Nat} {hd : Nat → Nat} {c : Nat} {d : Node} (h : PutInv nxt hd c d)
    (hc : d.head ≤ c) : SaneN nxt hd c (d.setHeld (flush d.held d.head)) := by
  refine ⟨h.clk, hc, h.tickC, h.pendC, h.pendR, h.heldP.flush _, ?_, ?_, h.pendOk⟩
  · intro r k x hx; exact (flush_entry hx).1
  · intro hr r k x hx
    obtain ⟨h1, h2⟩ := flush_entry hx
    rcases h.heldE hr r k x h2 with h3 | h3
    · exact h3
    · exact absurd h1 (by omega)

theorem saneN_appendTo {nxt : Nat → Option Nat} {hd : Nat → Nat} {c : Nat} {d : Node} (h : SaneN nxt hd c d) (target : Nat)
    (ht : target ≤ c) : SaneN nxt hd c (d.appendTo target) := by
  unfold Node.appendTo
  have h1 := putInv_foldl (List.range' (d.head + 1) (target - d.head)) d h.putInv
  apply h1.flushed
  have := (appendTo_frame d target).1
  unfold Node.appendTo at this
  simp only [setHeld_head] at this
  rw [this]
  have := h.headC
  omega

/-- the aggregator on a partial (own or admitted): round not beyond the clock, at most one above every head, made with a
share of the node's current epoch, within that epoch's lifetime -/
theorem saneN_aggregate {nxt : Nat → Option Nat} {hd : Nat → Nat} {c B : Nat} {d : Node} (h : SaneN nxt hd c d) (idx ep r : Nat)
    (h1 : r ≤ c) (h2 : BR hd r) (h3 : ep = d.vault.epoch) (h4 : InLife nxt ep r) :
    SaneN nxt hd c (d.aggregate B idx ep r) := by
  have hadd : HeldP nxt hd c (d.cacheAdd r idx ep) := h.heldP.cacheAdd r idx ep h1 h2 h4
  have haddE : d.replace = false → ∀ r' k x, d.cacheAdd r idx ep r' k = some x → x = d.vault.epoch := by
    intro hr r' k x hx
    rcases cacheAdd_entry hx with ho | ⟨_, _, e3⟩
    · exact h.heldE hr r' k x ho
    · rw [e3, h3]
  have haddH : d.head < r → ∀ r' k x, d.cacheAdd r idx ep r' k = some x → d.head < r' := by
    intro hlt r' k x hx
    rcases cacheAdd_entry hx with ho | ⟨e1, _, _⟩
    · exact h.heldH r' k x ho
    · rw [e1]; exact hlt
  have hpend := aggregate_pending B d idx ep r
  rcases aggregate_cases B d idx ep r with ⟨_, he⟩ | ⟨hlt, _, he⟩ | ⟨hlt, _, _, v, he⟩ | ⟨hlt, _, hr, P, he⟩
  · rw [he]; exact h
  · rw [he]
    exact ⟨h.clk, h.headC, h.tickC, h.pendC, h.pendR, hadd, haddH hlt, haddE, h.pendOk⟩
  · rw [he]
    refine ⟨h.clk, h.headC, h.tickC, h.pendC, h.pendR, hadd.flush r, ?_, ?_, h.pendOk⟩
    · intro r' k x hx; exact haddH hlt r' k x (flush_entry hx).2
    · intro hr r' k x hx; exact haddE hr r' k x (flush_entry hx).2
  · -- the round is stored: Put, callback, catch-up goroutine
    have hd1 : PutInv nxt hd c (d.setHeld (flush (d.cacheAdd r idx ep) r)) :=
      ⟨h.clk, h.tickC, h.pendC, h.pendR, hadd.flush r, fun hr r' k x hx => Or.inl (haddE hr r' k x (flush_entry hx).2), h.pendOk⟩
    have hd2 := putInv_put hd1 r
    have hhead : ((d.setHeld (flush (d.cacheAdd r idx ep) r)).put r).head = r := put_next _ r (by simp [hr])
    have hheld : ((d.setHeld (flush (d.cacheAdd r idx ep) r)).put r).held = flush (d.cacheAdd r idx ep) r :=
      (put_frame _ r).2.2.1
    have hlt2 : (d.aggregate B idx ep r).lastTick = d.lastTick := aggregate_lastTick B d idx ep r
    rw [he] at hpend hlt2 ⊢
    refine ⟨hd2.clk, by show ((d.setHeld _).put r).head ≤ c; rw [hhead]; exact h1, hd2.tickC, ?_, ?_, hd2.heldP, ?_, ?_, hd2.pendOk⟩
    · intro x hx
      rw [hlt2]
      rcases hpend x hx with h5 | ⟨h5, h6, _⟩
      · exact h.pendC x h5
      · rw [h5]; exact h6
    · intro x hx
      show x ≤ ((d.setHeld _).put r).head
      rw [hhead]
      rcases hpend x hx with h5 | ⟨h5, _, _⟩
      · have := h.pendR x h5; omega
      · omega
    · intro r' k x hx
      show ((d.setHeld _).put r).head < r'
      rw [hhead]
      have hx' : ((d.setHeld (flush (d.cacheAdd r idx ep) r)).put r).held r' k = some x := hx
      rw [hheld] at hx'
      exact (flush_entry hx').1
    · intro hr r' k x hx
      have hx' : ((d.setHeld (flush (d.cacheAdd r idx ep) r)).put r).held r' k = some x := hx
      rcases hd2.heldE hr r' k x hx' with h5 | h5
      · exact h5
      · rw [hheld] at hx'
        have := (flush_entry hx').1
        rw [hhead] at h5
        omega

/-! ### the node-local steps -/

theorem bnpRound_le_clock {c h : Nat} (hc : h ≤ c) : Gen.bnpRound c h ≤ c := by
  unfold Gen.bnpRound
  split
  · exact Nat.le_refl _
  · rename_i hne
    simp only [decide_eq_true_eq] at hne
    omega

theorem tickStep_node (B i : Nat) (d : Node) (hu : d.up = true) :
    (d.tickStep B i).1 = (d.setTick d.clock).aggregate B d.vault.index d.vault.epoch (Gen.bnpRound d.clock d.head) ∨
    ∃ v, (d.tickStep B i).1 =
      ((d.setTick d.clock).aggregate B d.vault.index d.vault.epoch (Gen.bnpRound d.clock d.head)).setSync v := by
  unfold Node.tickStep
  simp only [hu, Bool.not_true, Bool.false_eq_true, if_false, Node.broadcast]
  split
  · right; exact ⟨_, rfl⟩
  · left; rfl

theorem tickStep_down (B i : Nat) (d : Node) (hu : ¬ d.up = true) : d.tickStep B i = (d, []) := by
  unfold Node.tickStep; simp [hu]

theorem tickStep_msgs_ep {B i : Nat} {d : Node} {m : Msg} (hm : m ∈ (d.tickStep B i).2) :
    d.up = true ∧ m.src = i ∧ m.round = Gen.bnpRound d.clock d.head ∧ m.epoch = d.vault.epoch := by
  unfold Node.tickStep at hm
  by_cases hu : d.up = true
  · simp only [hu, Bool.not_true, Bool.false_eq_true, if_false, Node.broadcast] at hm
    have : m ∈ ((d.setTick d.clock).recipients i).map (fun j => (⟨i, (d.setTick d.clock).vault.index, (d.setTick d.clock).vault.epoch, Gen.bnpRound d.clock d.head, j⟩ : Msg)) := by
      split at hm <;> exact hm
    obtain ⟨j, _, rfl⟩ := List.mem_map.mp this
    exact ⟨hu, rfl, rfl, rfl⟩
  · simp [hu] at hm

theorem tickStep_head_le (B i : Nat) (d : Node) : d.head ≤ (d.tickStep B i).1.head := by
  by_cases hu : d.up = true
  · rcases tickStep_node B i d hu with he | ⟨v, he⟩ <;> rw [he]
    · exact (aggregate_frame B (d.setTick d.clock) _ _ _).2.2
    · exact (aggregate_frame B (d.setTick d.clock) _ _ _).2.2
  · rw [tickStep_down B i d hu]; exact Nat.le_refl _

theorem saneN_tickStep {nxt : Nat → Option Nat} {hd : Nat → Nat} {c B i : Nat} {d : Node} (h : SaneN nxt hd c d)
    (hhd : d.head ≤ hd i) (hp : d.up = true → InLife nxt d.vault.epoch (Gen.bnpRound d.clock d.head)) :
    SaneN nxt hd c (d.tickStep B i).1 := by
  by_cases hu : d.up = true
  · have h0 : SaneN nxt hd c (d.setTick d.clock) :=
      ⟨h.clk, h.headC, Nat.le_of_eq h.clk, fun r hr => by
        have h1 := h.pendC r hr; have h2 := h.tickC; have h3 := h.clk
        show r < d.clock; omega, h.pendR, h.heldP, h.heldH, h.heldE, h.pendOk⟩
    have h1 : SaneN nxt hd c ((d.setTick d.clock).aggregate B d.vault.index d.vault.epoch (Gen.bnpRound d.clock d.head)) := by
      apply saneN_aggregate h0
      · rw [h.clk]; exact bnpRound_le_clock h.headC
      · exact BR.of_le i (Nat.le_trans (bnpRound_le _ _) (Nat.succ_le_succ hhd))
      · rfl
      · exact hp hu
    rcases tickStep_node B i d hu with he | ⟨v, he⟩ <;> rw [he]
    · exact h1
    · exact h1.frame rfl rfl rfl rfl rfl rfl rfl rfl
  · rw [tickStep_down B i d hu]; exact h

theorem fireStep_cases (B i : Nat) (d : Node) :
    d.fireStep B i = (d, []) ∨
    (d.up = true ∧ ∃ r rest, d.pending = r :: rest ∧
      d.fireStep B i = ((d.setPending rest).aggregate B d.vault.index d.vault.epoch (r + 1),
        (d.recipients i).map (fun j => (⟨i, d.vault.index, d.vault.epoch, r + 1, j⟩ : Msg)))) := by
  by_cases hu : d.up = true
  · cases hp : d.pending with
    | nil => left; simp [Node.fireStep, hu, hp]
    | cons r rest =>
      right
      refine ⟨hu, r, rest, rfl, ?_⟩
      simp [Node.fireStep, hu, hp, Node.broadcast, Node.recipients]
  · left; simp [Node.fireStep, hu]

theorem fireStep_head_le (B i : Nat) (d : Node) : d.head ≤ (d.fireStep B i).1.head := by
  rcases fireStep_cases B i d with he | ⟨_, r, rest, _, he⟩ <;> rw [he]
  · exact Nat.le_refl _
  · exact (aggregate_frame B (d.setPending rest) _ _ _).2.2

theorem saneN_fireStep {nxt : Nat → Option Nat} {hd : Nat → Nat} {c B i : Nat} {d : Node} (h : SaneN nxt hd c d)
    (hhd : d.head ≤ hd i)
    (hp : d.up = true → ∀ r rest, d.pending = r :: rest → InLife nxt d.vault.epoch (r + 1)) :
    SaneN nxt hd c (d.fireStep B i).1 := by
  rcases fireStep_cases B i d with he | ⟨hu, r, rest, hpd, he⟩ <;> rw [he]
  · exact h
  · have hr : r ∈ d.pending := by rw [hpd]; simp
    have h0 : SaneN nxt hd c (d.setPending rest) :=
      ⟨h.clk, h.headC, h.tickC, fun x hx => h.pendC x (by rw [hpd]; simp [show x ∈ rest from hx]),
       fun x hx => h.pendR x (by rw [hpd]; simp [show x ∈ rest from hx]), h.heldP, h.heldH, h.heldE, h.pendOk⟩
    apply saneN_aggregate h0
    · have h1 := h.pendC r hr; have h2 := h.tickC; omega
    · have h1 := h.pendR r hr
      exact BR.of_le i (by omega)
    · rfl
    · exact hp hu r rest hpd

theorem recvStep_head_le (B self : Nat) (reach : Bool) (d : Node) (m : Msg) : d.head ≤ (d.recvStep B self reach m).head := by
  rcases recvStep_cases B self reach d m with ⟨he, _⟩ | ⟨_, _, _, he⟩ <;> rw [he]
  · exact Nat.le_refl _
  · exact (aggregate_frame B d _ _ _).2.2

theorem saneN_recvStep {nxt : Nat → Option Nat} {hd : Nat → Nat} {c B self : Nat} {d : Node} (h : SaneN nxt hd c d)
    (reach : Bool) (m : Msg) (h1 : m.round ≤ c) (h2 : BR hd m.round) (h3 : InLife nxt m.epoch m.round) :
    SaneN nxt hd c (d.recvStep B self reach m) := by
  rcases recvStep_cases B self reach d m with ⟨he, _⟩ | ⟨_, _, ha, he⟩ <;> rw [he]
  · exact h
  · exact saneN_aggregate h m.idx m.epoch m.round h1 h2 (c03_admitted_is_member self d m ha).2.1 h3

/-! ### the invariant, state level -/

/-- the table of heads -/
def heads (s : State) : Nat → Nat := fun k => (s.node k).head

/-- the (common) clock -/
def clk (s : State) : Nat := (s.node 0).clock

/-- a partial in flight: not beyond the clock, at most one above every bound on the heads, within the lifetime of its epoch -/
def MsgP (nxt : Nat → Option Nat) (s : State) (m : Msg) : Prop :=
  m.round ≤ clk s ∧ BR (heads s) m.round ∧ InLife nxt m.epoch m.round

structure Sane (nxt : Nat → Option Nat) (s : State) : Prop where
  node : ∀ i, SaneN nxt (heads s) (clk s) (s.node i)
  msgs : ∀ m ∈ s.msgs, MsgP nxt s m

theorem MsgP.mono {nxt : Nat → Option Nat} {s s' : State} {m : Msg} (h : MsgP nxt s m) (hm : ∀ k, heads s k ≤ heads s' k)
    (hc : clk s' = clk s) : MsgP nxt s' m := ⟨hc ▸ h.1, h.2.1.mono hm, h.2.2⟩

/-- one node changes (its head does not go down, its clock stays), packets may be added -/
theorem sane_update {nxt : Nat → Option Nat} {s s' : State} (hs : Sane nxt s) (i : Nat)
    (hother : ∀ k, k ≠ i → s'.node k = s.node k)
    (hd : SaneN nxt (heads s) (clk s) (s'.node i))
    (hh : (s.node i).head ≤ (s'.node i).head)
    (hm : ∀ m ∈ s'.msgs, m ∈ s.msgs ∨ MsgP nxt s m) : Sane nxt s' := by
  have hmono : ∀ k, heads s k ≤ heads s' k := by
    intro k
    by_cases hk : k = i
    · rw [hk]; exact hh
    · show (s.node k).head ≤ (s'.node k).head
      rw [hother k hk]; exact Nat.le_refl _
  have hclk : clk s' = clk s := by
    unfold clk
    by_cases h0 : 0 = i
    · rw [h0]; exact hd.clk.trans (by rw [← h0]; rfl)
    · rw [hother 0 h0]
  refine ⟨fun k => ?_, fun m hmem => ?_⟩
  · rw [hclk]
    by_cases hk : k = i
    · rw [hk]; exact hd.mono hmono
    · rw [hother k hk]; exact (hs.node k).mono hmono
  · rcases hm m hmem with h | h
    · exact (hs.msgs m h).mono hmono hclk
    · exact h.mono hmono hclk

theorem sane_act {nxt : Nat → Option Nat} {s : State} (hs : Sane nxt s) (i : Nat) (F : Node → Node × List Msg)
    (hd : SaneN nxt (heads s) (clk s) (F (s.node i)).1) (hh : (s.node i).head ≤ (F (s.node i)).1.head)
    (hm : ∀ m ∈ (F (s.node i)).2, MsgP nxt s m) : Sane nxt (s.act i F) := by
  apply sane_update hs i
  · intro k hk; simp [act_node, hk]
  · simp only [act_node, if_true]; exact hd
  · simp only [act_node, if_true]; exact hh
  · intro m hmem
    simp only [act_msgs, List.mem_append] at hmem
    rcases hmem with h | h
    · exact Or.inl h
    · exact Or.inr (hm m h)

theorem sane_setNode {nxt : Nat → Option Nat} {s : State} (hs : Sane nxt s) (i : Nat) (d : Node)
    (hd : SaneN nxt (heads s) (clk s) d) (hh : (s.node i).head ≤ d.head) : Sane nxt (s.setNode i d) := by
  apply sane_update hs i
  · intro k hk; simp [setNode_node, hk]
  · simp only [setNode_node, if_true]; exact hd
  · simp only [setNode_node, if_true]; exact hh
  · intro m hmem; exact Or.inl hmem

theorem sane_msgs_sub {nxt : Nat → Option Nat} {s : State} (hs : Sane nxt s) (l : List Msg) (hl : ∀ m ∈ l, m ∈ s.msgs) :
    Sane nxt { s with msgs := l } :=
  ⟨hs.node, fun m hm => hs.msgs m (hl m hm)⟩

theorem sane_recv {nxt : Nat → Option Nat} {s : State} (hs : Sane nxt s) (m : Msg) (hm : MsgP nxt s m) : Sane nxt (s.recv m) := by
  apply sane_act hs m.dst
  · exact saneN_recvStep (hs.node m.dst) _ m hm.1 hm.2.1 hm.2.2
  · exact recvStep_head_le _ _ _ _ _
  · intro m' hm'; cases hm'

theorem recv_mono (s : State) (m : Msg) : (∀ k, heads s k ≤ heads (s.recv m) k) ∧ clk (s.recv m) = clk s := by
  refine ⟨fun k => ?_, ?_⟩
  · show (s.node k).head ≤ ((s.recv m).node k).head
    simp only [State.recv, act_node]
    by_cases hk : k = m.dst
    · simp only [hk, if_true]; exact recvStep_head_le _ _ _ _ _
    · simp only [hk, if_false]; exact Nat.le_refl _
  · unfold clk
    simp only [State.recv, act_node]
    by_cases hk : 0 = m.dst
    · simp only [hk, if_true]
      rcases recvStep_cases s.nIdx m.dst (s.conn m.src m.dst) (s.node m.dst) m with ⟨he, _⟩ | ⟨_, _, _, he⟩ <;> rw [he]
      exact (aggregate_frame _ _ _ _ _).2.1
    · simp only [hk, if_false]

theorem sane_foldl_recv {nxt : Nat → Option Nat} : ∀ (l : List Msg) (s : State), Sane nxt s → (∀ m ∈ l, MsgP nxt s m) →
    Sane nxt (l.foldl State.recv s) := by
  intro l
  induction l with
  | nil => intro s hs _; exact hs
  | cons a t ih =>
    intro s hs hl
    simp only [List.foldl_cons]
    apply ih (s.recv a) (sane_recv hs a (hl a (by simp)))
    intro m hm
    exact (hl m (by simp [hm])).mono (recv_mono s a).1 (recv_mono s a).2

private theorem foldl_max_le' (f : Nat → Bool) (g : Nat → Nat) (B : Nat) : ∀ (l : List Nat) (acc : Nat),
    acc ≤ B → (∀ j, g j ≤ B) → l.foldl (fun m j => if f j then max m (g j) else m) acc ≤ B := by
  intro l
  induction l with
  | nil => intro acc h _; exact h
  | cons a t ih =>
    intro acc h hg
    simp only [List.foldl_cons]
    apply ih _ _ hg
    split
    · exact Nat.max_le.mpr ⟨h, hg a⟩
    · exact h

theorem maxPeerHead_le_clk {nxt : Nat → Option Nat} {s : State} (hs : Sane nxt s) (i : Nat) : s.maxPeerHead i ≤ clk s := by
  unfold State.maxPeerHead
  exact foldl_max_le' _ _ _ _ _ (Nat.zero_le _) (fun j => (hs.node j).headC)

theorem sane_pull {nxt : Nat → Option Nat} {s : State} (hs : Sane nxt s) (i : Nat) : Sane nxt (s.pull i) := by
  rcases pull_cases s i with he | he | ⟨_, _, v, he⟩ <;> rw [he]
  · exact hs
  · exact sane_setNode hs i _ ((hs.node i).frame rfl rfl rfl rfl rfl rfl rfl rfl) (Nat.le_refl _)
  · apply sane_setNode hs i
    · have h1 := saneN_appendTo (hs.node i) (min (s.node i).syncTo (s.maxPeerHead i))
        (Nat.le_trans (Nat.min_le_right _ _) (maxPeerHead_le_clk hs i))
      exact h1.frame rfl rfl rfl rfl rfl rfl rfl rfl
    · show (s.node i).head ≤ ((s.node i).appendTo _).head
      rw [(appendTo_frame _ _).1]; omega

/-! ### the discipline on events, and the run -/

/-- what the invariant needs of an event in state `s`:
  * `tick i` / `fire i`: the round node `i` is about to sign is within the lifetime of the epoch of its current share — a
    node that was told in time has switched by then (`told_signs_in_life`), a leaver has stopped;
  * `send m` (anybody may put a packet on the wire): the packet is a partial that a share holder following the rule above
    could have made (a replay): not beyond the clock, at most one above every head, within its epoch's lifetime;
  * `announce i v t` to a node whose cache keeps the first partial of an index: `t` is the round at which node `i`'s current
    epoch ends (nothing for a node with "newest wins")
Everything else — deliveries in any order, drops, syncs, stops, restarts from the files, joins, partitions — is free. -/
def Ev.sched (nxt : Nat → Option Nat) (s : State) : Ev → Prop
  | .tick i => (s.node i).up = true → InLife nxt (s.node i).vault.epoch (Gen.bnpRound (s.node i).clock (s.node i).head)
  | .fire i => (s.node i).up = true → ∀ r rest, (s.node i).pending = r :: rest → InLife nxt (s.node i).vault.epoch (r + 1)
  | .send m => MsgP nxt s m
  | .announce i _ t => (s.node i).up = true → (s.node i).replace = false → nxt (s.node i).vault.epoch = some t
  | _ => True

def Sched (nxt : Nat → Option Nat) : State → List Ev → Prop
  | _, [] => True
  | s, e :: t => e.sched nxt s ∧ Sched nxt (s.apply e) t

theorem announce_head (c : Cfg) (d : Node) (v : Vault) (t : Nat) : (d.announce c v t).head = d.head := by
  unfold Node.announce
  by_cases hu : d.up = true
  · by_cases hc : (c.lateSwitch && decide (Gen.transitionTarget t ≤ d.head)) = true
    · simp [hu, hc]
    · simp [hu, hc]
  · simp [hu]

theorem saneN_clear {nxt : Nat → Option Nat} {hd : Nat → Nat} {c : Nat} {d d' : Node} (h : SaneN nxt hd c d)
    (h1 : d'.clock = d.clock) (h2 : d'.head = d.head) (h3 : d'.lastTick ≤ d.lastTick) (h4 : d'.pending = [])
    (h5 : d'.held = fun _ _ => none) (h6 : d'.pend = none ∨ (d'.pend = d.pend ∧ d'.vault = d.vault)) (h8 : d'.replace = d.replace) :
    SaneN nxt hd c d' := by
  refine ⟨h1 ▸ h.clk, h2 ▸ h.headC, Nat.le_trans h3 h.tickC, (by rw [h4]; intro r hr; cases hr), (by rw [h4]; intro r hr; cases hr),
    (by rw [h5]; exact HeldP.empty _ _ _), (by rw [h5]; intro r k x hx; cases hx), (by rw [h5]; intro _ r k x hx; cases hx), ?_⟩
  intro hr p hp
  rcases h6 with h6 | ⟨h6, h7⟩
  · rw [h6] at hp; cases hp
  · rw [h7]; exact h.pendOk (h8 ▸ hr) p (h6 ▸ hp)

theorem sane_apply {nxt : Nat → Option Nat} {s : State} (hs : Sane nxt s) (e : Ev) (he : e.sched nxt s) : Sane nxt (s.apply e) := by
  cases e with
  | advance =>
    refine ⟨fun i => ?_, fun m hm => ?_⟩
    · have h := hs.node i
      show SaneN nxt (heads s) (clk s + 1) { (s.node i) with clock := (s.node i).clock + 1 }
      exact ⟨by show (s.node i).clock + 1 = clk s + 1; rw [h.clk], Nat.le_succ_of_le h.headC, Nat.le_succ_of_le h.tickC, h.pendC,
        h.pendR, h.heldP.mono (fun _ => Nat.le_refl _) (Nat.le_succ _), h.heldH, h.heldE, h.pendOk⟩
    · have h := hs.msgs m hm
      exact ⟨Nat.le_succ_of_le h.1, h.2.1, h.2.2⟩
  | tick i =>
    apply sane_act hs i
    · exact saneN_tickStep (hs.node i) (Nat.le_refl _) he
    · exact tickStep_head_le _ _ _
    · intro m hm
      obtain ⟨hu, _, hr, hep⟩ := tickStep_msgs_ep hm
      have h := hs.node i
      refine ⟨?_, ?_, ?_⟩
      · rw [hr, h.clk]; exact bnpRound_le_clock h.headC
      · rw [hr]; exact BR.of_le i (bnpRound_le _ _)
      · rw [hr, hep]; exact he hu
  | fire i =>
    apply sane_act hs i
    · exact saneN_fireStep (hs.node i) (Nat.le_refl _) he
    · exact fireStep_head_le _ _ _
    · intro m hm
      have h := hs.node i
      rcases fireStep_cases s.nIdx i (s.node i) with hc | ⟨hu, r, rest, hpd, hc⟩
      · rw [show (s.node i).fireStep s.nIdx i = ((s.node i), []) from hc] at hm; cases hm
      · rw [show (s.node i).fireStep s.nIdx i = _ from hc] at hm
        obtain ⟨j, _, rfl⟩ := List.mem_map.mp hm
        have hr : r ∈ (s.node i).pending := by rw [hpd]; simp
        refine ⟨?_, ?_, ?_⟩
        · show r + 1 ≤ clk s
          have h1 := h.pendC r hr; have h2 := h.tickC; omega
        · have h1 := h.pendR r hr
          exact BR.of_le i (by show r + 1 ≤ (s.node i).head + 1; omega)
        · exact he hu r rest hpd
  | deliver j =>
    simp only [State.apply]
    cases hm : s.msgs[j]? with
    | none => exact hs
    | some m =>
      have hs' : Sane nxt { s with msgs := s.msgs.eraseIdx j } :=
        sane_msgs_sub hs _ (fun m' hm' => (List.eraseIdx_sublist _ _).subset hm')
      exact sane_recv hs' m (hs.msgs m (List.mem_of_getElem? hm))
  | drop j => exact sane_msgs_sub hs _ (fun m' hm' => (List.eraseIdx_sublist _ _).subset hm')
  | deliverAll =>
    have hs' : Sane nxt { s with msgs := [] } := sane_msgs_sub hs _ (fun m' hm' => by cases hm')
    exact sane_foldl_recv s.msgs _ hs' hs.msgs
  | pull i => exact sane_pull hs i
  | stop i =>
    exact sane_setNode hs i _ (saneN_clear (hs.node i) rfl rfl (Nat.le_refl _) rfl rfl (Or.inr ⟨rfl, rfl⟩) rfl) (Nat.le_refl _)
  | restart i =>
    simp only [State.apply, State.restart]
    split
    · exact hs
    · exact sane_setNode hs i _ (saneN_clear (hs.node i) rfl rfl (Nat.zero_le _) rfl rfl (Or.inl rfl) rfl) (Nat.le_refl _)
  | setConn c => exact ⟨hs.node, hs.msgs⟩
  | send m =>
    refine ⟨hs.node, fun m' hm' => ?_⟩
    have : m' ∈ s.msgs ++ [m] := hm'
    rcases List.mem_append.mp this with h | h
    · exact hs.msgs m' h
    · rw [List.mem_singleton.mp h]; exact he
  | announce i v t =>
    simp only [State.apply]
    apply sane_setNode hs i
    · have h := hs.node i
      unfold Node.announce
      by_cases hu : (s.node i).up = true
      · simp only [hu, Bool.not_true, Bool.false_eq_true, if_false]
        by_cases hc : (s.cfg.lateSwitch && decide (Gen.transitionTarget t ≤ (s.node i).head)) = true
        · -- the switch at once: for a first-wins node nothing of the old epoch is left above the head
          simp only [hc, if_true]
          have hle : Gen.transitionTarget t ≤ (s.node i).head := by
            simp only [Bool.and_eq_true, decide_eq_true_eq] at hc; exact hc.2
          have hempty : (s.node i).replace = false → ∀ r k x, (s.node i).held r k = some x → False := by
            intro hr r k x hx
            have hn := he hu hr
            have h1 := h.heldH r k x hx
            have h2 := (h.heldP r k x hx).2.2 t (by rw [h.heldE hr r k x hx]; exact hn)
            simp only [Gen.transitionTarget] at hle
            omega
          exact ⟨h.clk, h.headC, h.tickC, h.pendC, h.pendR, h.heldP, h.heldH,
            fun hr r k x hx => (hempty hr r k x hx).elim, fun _ p hp => by cases hp⟩
        · simp only [hc]
          refine ⟨h.clk, h.headC, h.tickC, h.pendC, h.pendR, h.heldP, h.heldH, h.heldE, ?_⟩
          intro hr p hp
          have hn := he hu hr
          have : p = ⟨Gen.transitionTarget t, v⟩ := by injection hp with hp; exact hp.symm
          rw [this]
          exact ⟨t, hn, by simp only [Gen.transitionTarget]; omega⟩
      · simp only [hu, Bool.not_false, if_true]
        exact h.frame rfl rfl rfl rfl rfl rfl rfl rfl
    · rw [announce_head]; exact Nat.le_refl _
  | join i v =>
    simp only [State.apply, State.join]
    split
    · exact hs
    · exact sane_setNode hs i _ (saneN_clear (hs.node i) rfl rfl (Nat.zero_le _) rfl rfl (Or.inl rfl) rfl) (Nat.le_refl _)

theorem sane_run {nxt : Nat → Option Nat} : ∀ (evs : List Ev) (s : State), Sane nxt s → Sched nxt s evs → Sane nxt (s.run evs) := by
  intro evs
  induction evs with
  | nil => intro s hs _; exact hs
  | cons e t ih => intro s hs hsc; exact ih (s.apply e) (sane_apply hs e hsc.1) hsc.2

/-- the driver's initial states (`State.init`: the first group, nothing cached, in flight or registered, clocks at 0)
are well-formed, whatever the schedule -/
theorem sane_init (nxt : Nat → Option Nat) (cfg : Cfg) (n nIdx : Nat) (g : Grp) : Sane nxt (State.init cfg n nIdx g) := by
  refine ⟨fun i => ?_, fun m hm => by cases hm⟩
  have hn : ∀ (d : Node), d.clock = 0 → d.head = 0 → d.lastTick = 0 → d.pending = [] → d.held = (fun _ _ => none) → d.pend = none →
      SaneN nxt (heads (State.init cfg n nIdx g)) (clk (State.init cfg n nIdx g)) d := by
    intro d h1 h2 h3 h4 h5 h6
    have hc : clk (State.init cfg n nIdx g) = 0 := by
      unfold clk State.init
      simp only
      split <;> rfl
    rw [hc]
    exact ⟨h1, (by rw [h2]; exact Nat.le_refl _), (by rw [h3]; exact Nat.le_refl _), (by rw [h4]; intro r hr; cases hr),
      (by rw [h4]; intro r hr; cases hr), (by rw [h5]; exact HeldP.empty _ _ _), (by rw [h5]; intro r k x hx; cases hx),
      (by rw [h5]; intro _ r k x hx; cases hx), (by rw [h6]; intro _ p hp; cases hp)⟩
  simp only [State.init]
  split <;> exact hn _ rfl rfl rfl rfl rfl rfl

end Drand.Net.Reshare
