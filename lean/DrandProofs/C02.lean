/-
C02 — one gap-free, append-only chain; honest nodes never disagree or rewrite.
Model: Drand/Chain/Stack.lean (appendStore → schemeStore → base map), base map lemmas from C18.
Interleavings of the aggregation path and the sync path on one node are exactly the sequences of `Put`s
(both paths go through the one mutex-serialised `appendStore.Put`), so "for all interleavings" is
"for all op lists" below.
-/
import Drand.Chain.Stack
import DrandProofs.C18
import Gen.Locks

namespace Drand.Chain
open Drand Drand.Store

/-- the persisted chain: rounds are exactly 0..head, the wrappers' cached `last` is the stored head, and the
stored beacons are linked (chained: prev = signature of the round before; unchained: prev is empty) -/
structure ChainInv (s : Stack) : Prop where
  sorted : BoltInv s.base
  nonempty : s.base ≠ []
  head : s.appendLast = Stack.last s.base ∧ s.schemeLast = Stack.last s.base
  dense : ∀ r, (lookup r s.base).isSome ↔ r ≤ (Stack.last s.base).round
  linked : ∀ r b, lookup (r + 1) s.base = some b →
    if s.chained then ∃ p, lookup r s.base = some p ∧ b.prev = p.sig else b.prev = []

/-! ### helper lemmas on sorted association lists (local copies of private C18 lemmas, plus a few more) -/
section helpers
variable {α : Type}

private theorem sorted_tail {a : Nat × α} {t : List (Nat × α)} (h : Sorted (a :: t)) : Sorted t := by
  obtain ⟨k, v⟩ := a
  cases t with
  | nil => trivial
  | cons b t => obtain ⟨k', v'⟩ := b; exact h.2

private theorem sorted_head_lt {k : Nat} {v : α} {t : List (Nat × α)} (h : Sorted ((k, v) :: t)) :
    ∀ p ∈ t, k < p.1 := by
  induction t generalizing k v with
  | nil => intro p hp; cases hp
  | cons b t ih =>
    obtain ⟨k', v'⟩ := b
    intro p hp
    have h1 : k < k' := h.1
    have h2 := ih h.2
    rcases List.mem_cons.1 hp with rfl | hp
    · exact h1
    · exact Nat.lt_trans h1 (h2 p hp)

private theorem lookup_mem {k : Nat} {v : α} {l : List (Nat × α)} (h : lookup k l = some v) : (k, v) ∈ l := by
  induction l with
  | nil => simp [lookup] at h
  | cons a t ih =>
    obtain ⟨k', v'⟩ := a
    unfold lookup at h
    split at h
    · cases h; subst_vars; exact List.mem_cons_self
    · exact List.mem_cons_of_mem _ (ih h)

private theorem mem_lookup {k : Nat} {v : α} {l : List (Nat × α)} (hs : Sorted l) (h : (k, v) ∈ l) :
    lookup k l = some v := by
  induction l with
  | nil => cases h
  | cons a t ih =>
    obtain ⟨k', v'⟩ := a
    unfold lookup
    rcases List.mem_cons.1 h with h | h
    · cases h; simp
    · have := sorted_head_lt hs _ h
      simp at this
      rw [if_neg (by omega)]
      exact ih (sorted_tail hs) h

/-- inserting a key above every stored key appends -/
private theorem insert_append {k : Nat} {v : α} {l : List (Nat × α)} (h : ∀ p ∈ l, p.1 < k) :
    Store.insert k v l = l ++ [(k, v)] := by
  induction l with
  | nil => rfl
  | cons a t ih =>
    obtain ⟨k', v'⟩ := a
    have h1 : k' < k := h (k', v') List.mem_cons_self
    unfold Store.insert
    rw [if_neg (by omega), if_neg (by omega), ih (fun p hp => h p (List.mem_cons_of_mem _ hp))]
    rfl

/-- re-inserting the stored value is the identity -/
private theorem insert_same {k : Nat} {v : α} {l : List (Nat × α)} (hs : Sorted l) (h : lookup k l = some v) :
    Store.insert k v l = l := by
  induction l with
  | nil => simp [lookup] at h
  | cons a t ih =>
    obtain ⟨k', v'⟩ := a
    unfold lookup at h
    split at h
    · cases h; subst_vars; unfold Store.insert; simp
    · next hne =>
      have := sorted_head_lt hs _ (lookup_mem h)
      simp at this
      unfold Store.insert
      rw [if_neg (by omega), if_neg hne, ih (sorted_tail hs) h]

end helpers

/-- the cached head of a non-empty well-formed base map: it is the last entry, stored under its own round,
and that round is the largest stored one -/
private theorem last_spec {base : BoltState} (hi : BoltInv base) (hn : base ≠ []) :
    base.getLast? = some ((Stack.last base).round, Stack.last base) ∧
    lookup (Stack.last base).round base = some (Stack.last base) ∧
    ∀ p ∈ base, p.1 ≤ (Stack.last base).round := by
  cases hl : base.getLast? with
  | none => exact absurd (List.getLast?_eq_none_iff.1 hl) hn
  | some kv =>
    obtain ⟨k, v⟩ := kv
    have hm : (k, v) ∈ base := List.mem_of_getLast? hl
    have hk : v.round = k := hi.2 _ hm
    have hlast : Stack.last base = v := by unfold Stack.last; rw [hl]
    rw [hlast, hk]
    exact ⟨rfl, mem_lookup hi.1 hm, c18_last_is_max base hi.1 k v hl⟩

/-- writing round head+1 with the right link appends and keeps the invariant -/
private theorem put_ok_spec (s : Stack) (b : Beacon) (h : ChainInv s)
    (hr : b.round = (Stack.last s.base).round + 1)
    (hp : if s.chained then b.prev = (Stack.last s.base).sig else b.prev = []) :
    ChainInv { s with base := Bolt.put s.base b, schemeLast := b, appendLast := b } ∧
    Stack.last (Bolt.put s.base b) = b ∧
    ∀ r, lookup r (Bolt.put s.base b) = if r = b.round then some b else lookup r s.base := by
  have hlast := last_spec h.sorted h.nonempty
  have happ : Bolt.put s.base b = s.base ++ [(b.round, b)] :=
    insert_append (fun p hp => by have := hlast.2.2 p hp; omega)
  have hnl : Stack.last (Bolt.put s.base b) = b := by
    unfold Stack.last; rw [happ]; simp
  have hlk : ∀ r, lookup r (Bolt.put s.base b) = if r = b.round then some b else lookup r s.base :=
    fun r => c18_lookup_insert _ _ _ _
  refine ⟨?_, hnl, hlk⟩
  constructor
  · refine ⟨c18_insert_sorted _ _ _ h.sorted.1, ?_⟩
    intro p hp
    change p ∈ Bolt.put s.base b at hp
    rw [happ] at hp
    rcases List.mem_append.1 hp with hp | hp
    · exact h.sorted.2 p hp
    · simp at hp; subst hp; rfl
  · change Bolt.put s.base b ≠ []
    rw [happ]; simp
  · exact ⟨hnl.symm, hnl.symm⟩
  · intro r
    change (lookup r (Bolt.put s.base b)).isSome ↔ r ≤ (Stack.last (Bolt.put s.base b)).round
    rw [hnl, hlk]
    split
    · subst_vars; simp
    · rw [h.dense r]; omega
  · intro r b0 hb0
    change lookup (r + 1) (Bolt.put s.base b) = some b0 at hb0
    change if s.chained then ∃ p, lookup r (Bolt.put s.base b) = some p ∧ b0.prev = p.sig else b0.prev = []
    rw [hlk] at hb0
    split at hb0
    · next heq =>
      cases hb0
      split
      · next hc =>
        rw [if_pos hc] at hp
        refine ⟨Stack.last s.base, ?_, hp⟩
        rw [hlk, if_neg (by omega)]
        have : r = (Stack.last s.base).round := by omega
        rw [this]; exact hlast.2.1
      · next hc => rw [if_neg hc] at hp; exact hp
    · next hne =>
      have hle : r + 1 ≤ (Stack.last s.base).round := (h.dense (r + 1)).1 (by rw [hb0]; rfl)
      have := h.linked r b0 hb0
      split
      · next hc =>
        rw [if_pos hc] at this
        obtain ⟨p, hp1, hp2⟩ := this
        exact ⟨p, by rw [hlk, if_neg (by omega)]; exact hp1, hp2⟩
      · next hc => rw [if_neg hc] at this; exact this

/-- the two outcomes of a `Put`: refused (state untouched) or an append of round head+1 with the right link -/
private theorem put_cases (s : Stack) (b : Beacon) (h : ChainInv s) :
    ((s.put b).2 ≠ .ok ∧ (s.put b).1 = s) ∨
    ((s.put b).2 = .ok ∧ b.round = (Stack.last s.base).round + 1 ∧
      ∃ b' : Beacon, b'.round = b.round ∧
        (if s.chained then b'.prev = (Stack.last s.base).sig else b'.prev = []) ∧
        (s.put b).1 = { s with base := Bolt.put s.base b', schemeLast := b', appendLast := b' }) := by
  have ha := h.head.1
  have hs := h.head.2
  unfold Stack.put
  split
  · left
    split
    · split <;> simp
    · simp
  · split
    · left; simp
    · next h1 h2 =>
      have hr : b.round = (Stack.last s.base).round + 1 := by rw [← ha]; omega
      unfold Stack.schemePut
      split
      · next hc =>
        split
        · left; simp
        · next hp =>
          right
          refine ⟨rfl, hr, b, rfl, ?_, rfl⟩
          rw [← hs]
          exact (Decidable.not_not.1 hp).symm
      · next hc =>
        right
        exact ⟨rfl, hr, { b with prev := [] }, rfl, rfl, rfl⟩

theorem c02_init_inv (chained : Bool) (seed : Bytes) : ChainInv (Stack.init chained seed) := by
  have hb : (Stack.init chained seed).base = [(0, genesis seed)] := rfl
  have hl : Stack.last [(0, genesis seed)] = genesis seed := rfl
  constructor
  · rw [hb]; exact ⟨trivial, fun p hp => by simp at hp; subst hp; rfl⟩
  · rw [hb]; simp
  · exact ⟨rfl, rfl⟩
  · intro r
    rw [hb, hl]
    simp only [lookup, genesis]
    split
    · subst_vars; simp
    · simp; omega
  · intro r b hb'
    rw [hb] at hb'
    simp [lookup] at hb'

/-- one `Put` (whatever its outcome) preserves the invariant -/
theorem c02_put_inv (s : Stack) (b : Beacon) (h : ChainInv s) : ChainInv (s.put b).1 := by
  rcases put_cases s b h with ⟨_, hst⟩ | ⟨_, hr, b', hb', hp, hst⟩
  · rw [hst]; exact h
  · rw [hst]; exact (put_ok_spec s b' h (by rw [hb']; exact hr) hp).1

theorem c02_restart (s : Stack) (h : ChainInv s) : ChainInv s.restart := by
  exact ⟨h.sorted, h.nonempty, ⟨rfl, rfl⟩, h.dense, h.linked⟩

private theorem chain_inv_foldl (ops : List Op) (s : Stack) (h : ChainInv s) :
    ChainInv (ops.foldl Stack.apply s) := by
  induction ops generalizing s with
  | nil => exact h
  | cons op ops ih =>
    refine ih _ ?_
    cases op with
    | put b => exact c02_put_inv s b h
    | restart => exact c02_restart s h

/-- for every sequence of puts (from the aggregator and from sync, in any interleaving) and restarts -/
theorem c02_chain_inv (chained : Bool) (seed : Bytes) (ops : List Op) : ChainInv (Stack.run chained seed ops) := by
  exact chain_inv_foldl ops _ (c02_init_inv chained seed)

/-- append-only: a successful `Put` writes exactly round head+1 and leaves every stored round as it was;
an unsuccessful one changes nothing -/
theorem c02_append_only (s : Stack) (b : Beacon) (h : ChainInv s) :
    ((s.put b).2 = .ok →
        b.round = (Stack.last s.base).round + 1 ∧
        (Stack.last (s.put b).1.base).round = b.round ∧
        ∀ r, r ≤ (Stack.last s.base).round → lookup r (s.put b).1.base = lookup r s.base) ∧
    ((s.put b).2 ≠ .ok → (s.put b).1 = s) := by
  rcases put_cases s b h with ⟨hno, hst⟩ | ⟨hok, hr, b', hb', hp, hst⟩
  · exact ⟨fun hok => absurd hok hno, fun _ => hst⟩
  · refine ⟨fun _ => ?_, fun hno => absurd hok hno⟩
    have hspec := put_ok_spec s b' h (by rw [hb']; exact hr) hp
    have hbase : (s.put b).1.base = Bolt.put s.base b' := by rw [hst]
    rw [hbase, hspec.2.1]
    refine ⟨hr, hb', ?_⟩
    intro r hle
    rw [hspec.2.2 r, if_neg (by omega)]

/-- re-putting the head: `already` exactly when it is the stored value, an error naming the difference otherwise -/
theorem c02_reput_head (s : Stack) (b : Beacon) (h : ChainInv s) (hr : b.round = (Stack.last s.base).round) :
    ((s.put b).2 = .already ↔ (b.sig = (Stack.last s.base).sig ∧ b.prev = (Stack.last s.base).prev)) ∧
    (s.put b).2 ≠ .ok := by
  have ha := h.head.1
  unfold Stack.put
  rw [if_pos (by rw [ha]; exact hr), ha]
  by_cases h1 : (Stack.last s.base).sig = b.sig
  · by_cases h2 : (Stack.last s.base).prev = b.prev
    · simp [h1, h2]
    · rw [if_pos h1, if_neg h2]
      refine ⟨⟨fun hh => (by cases hh), fun hh => absurd hh.2.symm h2⟩, by simp⟩
  · rw [if_neg h1]
    refine ⟨⟨fun hh => (by cases hh), fun hh => absurd hh.1.symm h1⟩, by simp⟩

/-- anything but head or head+1 is refused -/
theorem c02_gap_refused (s : Stack) (b : Beacon) (h : ChainInv s)
    (hr : b.round ≠ (Stack.last s.base).round) (hr' : b.round ≠ (Stack.last s.base).round + 1) :
    (s.put b).2 = .badRound := by
  have ha := h.head.1
  unfold Stack.put
  rw [ha, if_neg hr, if_pos hr']

/-! ### agreement between honest nodes -/

/-- every stored beacon of round ≥ 1 verifies under the chain key (that is C01) -/
def Valid (verify : Beacon → Bool) (s : Stack) : Prop :=
  ∀ r b, 1 ≤ r → lookup r s.base = some b → verify b = true

/-- BLS signatures are unique: a (round, previous signature) pair — only the round on unchained schemes — has at
most one signature that verifies under a given key -/
def SigUnique (chained : Bool) (verify : Beacon → Bool) : Prop :=
  ∀ b b', verify b = true → verify b' = true → b.round = b'.round → (chained = true → b.prev = b'.prev) → b.sig = b'.sig

private theorem beacon_ext {b b' : Beacon} (h1 : b.round = b'.round) (h2 : b.sig = b'.sig)
    (h3 : b.prev = b'.prev) : b = b' := by
  cases b; cases b'; simp_all

/-- two honest nodes of the same chain hold identical beacons for every round they both have -/
theorem c02_agree (verify : Beacon → Bool) (s₁ s₂ : Stack) (hc : s₁.chained = s₂.chained)
    (hu : SigUnique s₁.chained verify)
    (h₁ : ChainInv s₁) (h₂ : ChainInv s₂) (v₁ : Valid verify s₁) (v₂ : Valid verify s₂)
    (hg : lookup 0 s₁.base = lookup 0 s₂.base) :
    ∀ r, r ≤ (Stack.last s₁.base).round → r ≤ (Stack.last s₂.base).round → lookup r s₁.base = lookup r s₂.base := by
  intro r
  induction r with
  | zero => intro _ _; exact hg
  | succ r ih =>
    intro hr1 hr2
    have ih := ih (by omega) (by omega)
    obtain ⟨b1, hb1⟩ := Option.isSome_iff_exists.1 ((h₁.dense (r + 1)).2 hr1)
    obtain ⟨b2, hb2⟩ := Option.isSome_iff_exists.1 ((h₂.dense (r + 1)).2 hr2)
    rw [hb1, hb2]
    have r1 : b1.round = r + 1 := h₁.sorted.2 _ (lookup_mem hb1)
    have r2 : b2.round = r + 1 := h₂.sorted.2 _ (lookup_mem hb2)
    have l1 := h₁.linked r b1 hb1
    have l2 := h₂.linked r b2 hb2
    rw [← hc] at l2
    have hprev : b1.prev = b2.prev := by
      cases hch : s₁.chained with
      | true =>
        rw [hch] at l1 l2
        simp only [if_true] at l1 l2
        obtain ⟨p1, hp1, q1⟩ := l1
        obtain ⟨p2, hp2, q2⟩ := l2
        rw [ih, hp2] at hp1
        cases hp1
        rw [q1, q2]
      | false =>
        rw [hch] at l1 l2
        simp at l1 l2
        rw [l1, l2]
    have hsig := hu b1 b2 (v₁ _ _ (by omega) hb1) (v₂ _ _ (by omega) hb2) (by omega) (fun _ => hprev)
    rw [beacon_ext (by omega) hsig hprev]

/-- the repair path cannot replace a valid stored beacon by a different valid one -/
theorem c02_resync_sound (verify : Beacon → Bool) (s : Stack) (b old : Beacon)
    (hu : SigUnique s.chained verify) (h : ChainInv s) (v : Valid verify s)
    (hr : 1 ≤ b.round) (hold : lookup b.round s.base = some old) (hv : verify b = true)
    (hprev : s.chained = true → b.prev = old.prev) (hprev' : s.chained = false → b.prev = []) :
    (s.rawPut b).base = s.base := by
  have hro : old.round = b.round := h.sorted.2 _ (lookup_mem hold)
  have hvo := v _ _ hr hold
  have hp : b.prev = old.prev := by
    cases hch : s.chained with
    | true => exact hprev hch
    | false =>
      rw [hprev' hch]
      obtain ⟨r, hr'⟩ : ∃ r, b.round = r + 1 := ⟨b.round - 1, by omega⟩
      have hold' := hold
      rw [hr'] at hold'
      have := h.linked r old hold'
      rw [hch] at this
      simpa using this.symm
  have hsig := hu b old hv hvo hro.symm (fun _ => hp)
  have heq : b = old := beacon_ext hro.symm hsig hp
  subst heq
  exact insert_same h.sorted.1 hold


/-- every start re-puts the genesis beacon (`NewHandler`); on a store that already holds it this changes nothing, so a
restart is exactly the rebuild of the wrappers and preserves the invariant. A failing write leaves everything as it was. -/
theorem c02_restart_genesis (s : Stack) (seed : Bytes) (h : ChainInv s) (hg : lookup 0 s.base = some (genesis seed)) :
    s.restartG seed = s.restart ∧ ChainInv (s.restartG seed) := by
  have hb : Bolt.put s.base (genesis seed) = s.base := by
    unfold Bolt.put
    exact insert_same h.sorted.1 (by simpa [genesis] using hg)
  have : s.restartG seed = s.restart := by unfold Stack.restartG Stack.restart; rw [hb]
  exact ⟨this, this ▸ c02_restart s h⟩

theorem c02_failed_write_no_effect (s : Stack) (b : Beacon) : (s.putFailing b).1 = s := by
  unfold Stack.putFailing; split <;> rfl

/-- regenerated lock fact: `appendStore.Put` and `schemeStore.Put` hold their mutex for the whole body, which is what
makes a concurrent execution of the aggregation and sync paths a *sequence* of `Stack.put`s -/
theorem tie_appendStore_locked : Gen.appendStorePutLocked = true ∧ Gen.schemeStorePutLocked = true := by decide

/-! ### non-vacuity -/
example : (Stack.run true [0xaa] [.put ⟨1, [0xbb], [0xaa]⟩, .put ⟨2, [0xcc], [0xbb]⟩, .restart, .put ⟨2, [0xcc], [0xbb]⟩]).base
    = [(0, ⟨0, [0xaa], []⟩), (1, ⟨1, [0xbb], [0xaa]⟩), (2, ⟨2, [0xcc], [0xbb]⟩)] := by decide

end Drand.Chain
