/-
C02 — one gap-free, append-only chain; honest nodes never disagree or rewrite.
Model: Drand/Chain/Stack.lean (appendStore → schemeStore → base map), base map lemmas from C18.
Interleavings of the aggregation path and the sync path on one node are exactly the sequences of `Put`s
(both paths go through the one mutex-serialised `appendStore.Put`), so "for all interleavings" is
"for all op lists" below.
-/
import Drand.Chain.Stack
import Drand.Chain.Generic
import DrandProofs.C18
import Gen.Locks

namespace Drand.Chain
open Drand Drand.Store

/-- the persisted chain: rounds are exactly 0..head, the wrappers' cached `last` is the stored head, and the
stored beacons are linked (chained: prev = signature of the round before; unchained: prev is empty) -/
structure ChainInv (s : Stack) : Prop where
  sorted : BoltInv s.base
  nonempty : s.base ≠ []
  head : s.appendLast = Stack.last s.base ∧ s.schemeLast = Stack.last s.base
  dense : ∀ r, (lookup r s.base).isSome ↔ r ≤ (Stack.last s.base).round
  linked : ∀ r b, lookup (r + 1) s.base = some b →
    if s.chained then ∃ p, lookup r s.base = some p ∧ b.prev = p.sig else b.prev = []

/-! ### helper lemmas on sorted association lists (local copies of private C18 lemmas, plus a few more) -/
section helpers
variable {α : Type}

private theorem sorted_tail {a : Nat × α} {t : List (Nat × α)} (h : Sorted (a :: t)) : Sorted t := by
  obtain ⟨k, v⟩ := a
  cases t with
  | nil => trivial
  | cons b t => obtain ⟨k', v'⟩ := b; exact h.2

private theorem sorted_head_lt {k : Nat} {v : α} {t : List (Nat × α)} (h : Sorted ((k, v) :: t)) :
    ∀ p ∈ t, k < p.1 := by
  induction t generalizing k v with
  | nil => intro p hp; cases hp
  | cons b t ih =>
    obtain ⟨k', v'⟩ := b
    intro p hp
    have h1 : k < k' := h.1
    have h2 := ih h.2
    rcases List.mem_cons.1 hp with rfl | hp
    · exact h1
    · exact Nat.lt_trans h1 (h2 p hp)

private theorem lookup_mem {k : Nat} {v : α} {l : List (Nat × α)} (h : lookup k l = some v) : (k, v) ∈ l := by
  induction l with
  | nil => simp [lookup] at h
  | cons a t ih =>
    obtain ⟨k', v'⟩ := a
    unfold lookup at h
    split at h
    · cases h; subst_vars; exact List.mem_cons_self
    · exact List.mem_cons_of_mem _ (ih h)

private theorem mem_lookup {k : Nat} {v : α} {l : List (Nat × α)} (hs : Sorted l) (h : (k, v) ∈ l) :
    lookup k l = some v := by
  induction l with
  | nil => cases h
  | cons a t ih =>
    obtain ⟨k', v'⟩ := a
    unfold lookup
    rcases List.mem_cons.1 h with h | h
    · cases h; simp
    · have := sorted_head_lt hs _ h
      simp at this
      rw [if_neg (by omega)]
      exact ih (sorted_tail hs) h

/-- inserting a key above every stored key appends -/
private theorem insert_append {k : Nat} {v : α} {l : List (Nat × α)} (h : ∀ p ∈ l, p.1 < k) :
    Store.insert k v l = l ++ [(k, v)] := by
  induction l with
  | nil => rfl
  | cons a t ih =>
    obtain ⟨k', v'⟩ := a
    have h1 : k' < k := h (k', v') List.mem_cons_self
    unfold Store.insert
    rw [if_neg (by omega), if_neg (by omega), ih (fun p hp => h p (List.mem_cons_of_mem _ hp))]
    rfl

/-- re-inserting the stored value is the identity -/
private theorem insert_same {k : Nat} {v : α} {l : List (Nat × α)} (hs : Sorted l) (h : lookup k l = some v) :
    Store.insert k v l = l := by
  induction l with
  | nil => simp [lookup] at h
  | cons a t ih =>
    obtain ⟨k', v'⟩ := a
    unfold lookup at h
    split at h
    · cases h; subst_vars; unfold Store.insert; simp
    · next hne =>
      have := sorted_head_lt hs _ (lookup_mem h)
      simp at this
      unfold Store.insert
      rw [if_neg (by omega), if_neg hne, ih (sorted_tail hs) h]

end helpers

/-- the cached head of a non-empty well-formed base map: it is the last entry, stored under its own round,
and that round is the largest stored one -/
private theorem last_spec {base : BoltState} (hi : BoltInv base) (hn : base ≠ []) :
    base.getLast? = some ((Stack.last base).round, Stack.last base) ∧
    lookup (Stack.last base).round base = some (Stack.last base) ∧
    ∀ p ∈ base, p.1 ≤ (Stack.last base).round := by
  cases hl : base.getLast? with
  | none => exact absurd (List.getLast?_eq_none_iff.1 hl) hn
  | some kv =>
    obtain ⟨k, v⟩ := kv
    have hm : (k, v) ∈ base := List.mem_of_getLast? hl
    have hk : v.round = k := hi.2 _ hm
    have hlast : Stack.last base = v := by unfold Stack.last; rw [hl]
    rw [hlast, hk]
    exact ⟨rfl, mem_lookup hi.1 hm, c18_last_is_max base hi.1 k v hl⟩

/-- writing round head+1 with the right link appends and keeps the invariant -/
private theorem put_ok_spec (s : Stack) (b : Beacon) (h : ChainInv s)
    (hr : b.round = (Stack.last s.base).round + 1)
    (hp : if s.chained then b.prev = (Stack.last s.base).sig else b.prev = []) :
    ChainInv { s with base := Bolt.put s.base b, schemeLast := b, appendLast := b } ∧
    Stack.last (Bolt.put s.base b) = b ∧
    ∀ r, lookup r (Bolt.put s.base b) = if r = b.round then some b else lookup r s.base := by
  have hlast := last_spec h.sorted h.nonempty
  have happ : Bolt.put s.base b = s.base ++ [(b.round, b)] :=
    insert_append (fun p hp => by have := hlast.2.2 p hp; omega)
  have hnl : Stack.last (Bolt.put s.base b) = b := by
    unfold Stack.last; rw [happ]; simp
  have hlk : ∀ r, lookup r (Bolt.put s.base b) = if r = b.round then some b else lookup r s.base :=
    fun r => c18_lookup_insert _ _ _ _
  refine ⟨?_, hnl, hlk⟩
  constructor
  · refine ⟨c18_insert_sorted _ _ _ h.sorted.1, ?_⟩
    intro p hp
    change p ∈ Bolt.put s.base b at hp
    rw [happ] at hp
    rcases List.mem_append.1 hp with hp | hp
    · exact h.sorted.2 p hp
    · simp at hp; subst hp; rfl
  · change Bolt.put s.base b ≠ []
    rw [happ]; simp
  · exact ⟨hnl.symm, hnl.symm⟩
  · intro r
    change (lookup r (Bolt.put s.base b)).isSome ↔ r ≤ (Stack.last (Bolt.put s.base b)).round
    rw [hnl, hlk]
    split
    · subst_vars; simp
    · rw [h.dense r]; omega
  · intro r b0 hb0
    change lookup (r + 1) (Bolt.put s.base b) = some b0 at hb0
    change if s.chained then ∃ p, lookup r (Bolt.put s.base b) = some p ∧ b0.prev = p.sig else b0.prev = []
    rw [hlk] at hb0
    split at hb0
    · next heq =>
      cases hb0
      split
      · next hc =>
        rw [if_pos hc] at hp
        refine ⟨Stack.last s.base, ?_, hp⟩
        rw [hlk, if_neg (by omega)]
        have : r = (Stack.last s.base).round := by omega
        rw [this]; exact hlast.2.1
      · next hc => rw [if_neg hc] at hp; exact hp
    · next hne =>
      have hle : r + 1 ≤ (Stack.last s.base).round := (h.dense (r + 1)).1 (by rw [hb0]; rfl)
      have := h.linked r b0 hb0
      split
      · next hc =>
        rw [if_pos hc] at this
        obtain ⟨p, hp1, hp2⟩ := this
        exact ⟨p, by rw [hlk, if_neg (by omega)]; exact hp1, hp2⟩
      · next hc => rw [if_neg hc] at this; exact this

/-- the two outcomes of a `Put`: refused (state untouched) or an append of round head+1 with the right link -/
private theorem put_cases (s : Stack) (b : Beacon) (h : ChainInv s) :
    ((s.put b).2 ≠ .ok ∧ (s.put b).1 = s) ∨
    ((s.put b).2 = .ok ∧ b.round = (Stack.last s.base).round + 1 ∧
      ∃ b' : Beacon, b'.round = b.round ∧
        (if s.chained then b'.prev = (Stack.last s.base).sig else b'.prev = []) ∧
        (s.put b).1 = { s with base := Bolt.put s.base b', schemeLast := b', appendLast := b' }) := by
  have ha := h.head.1
  have hs := h.head.2
  unfold Stack.put
  split
  · left
    split
    · split <;> simp
    · simp
  · split
    · left; simp
    · next h1 h2 =>
      have hr : b.round = (Stack.last s.base).round + 1 := by rw [← ha]; omega
      unfold Stack.schemePut
      split
      · next hc =>
        split
        · left; simp
        · next hp =>
          right
          refine ⟨rfl, hr, b, rfl, ?_, rfl⟩
          rw [← hs]
          exact (Decidable.not_not.1 hp).symm
      · next hc =>
        right
        exact ⟨rfl, hr, { b with prev := [] }, rfl, rfl, rfl⟩

theorem c02_init_inv (chained : Bool) (seed : Bytes) : ChainInv (Stack.init chained seed) := by
  have hb : (Stack.init chained seed).base = [(0, genesis seed)] := rfl
  have hl : Stack.last [(0, genesis seed)] = genesis seed := rfl
  constructor
  · rw [hb]; exact ⟨trivial, fun p hp => by simp at hp; subst hp; rfl⟩
  · rw [hb]; simp
  · exact ⟨rfl, rfl⟩
  · intro r
    rw [hb, hl]
    simp only [lookup, genesis]
    split
    · subst_vars; simp
    · simp; omega
  · intro r b hb'
    rw [hb] at hb'
    simp [lookup] at hb'

/-- one `Put` (whatever its outcome) preserves the invariant -/
theorem c02_put_inv (s : Stack) (b : Beacon) (h : ChainInv s) : ChainInv (s.put b).1 := by
  rcases put_cases s b h with ⟨_, hst⟩ | ⟨_, hr, b', hb', hp, hst⟩
  · rw [hst]; exact h
  · rw [hst]; exact (put_ok_spec s b' h (by rw [hb']; exact hr) hp).1

theorem c02_restart (s : Stack) (h : ChainInv s) : ChainInv s.restart := by
  exact ⟨h.sorted, h.nonempty, ⟨rfl, rfl⟩, h.dense, h.linked⟩

private theorem chain_inv_foldl (ops : List Op) (s : Stack) (h : ChainInv s) :
    ChainInv (ops.foldl Stack.apply s) := by
  induction ops generalizing s with
  | nil => exact h
  | cons op ops ih =>
    refine ih _ ?_
    cases op with
    | put b => exact c02_put_inv s b h
    | restart => exact c02_restart s h

/-- for every sequence of puts (from the aggregator and from sync, in any interleaving) and restarts -/
theorem c02_chain_inv (chained : Bool) (seed : Bytes) (ops : List Op) : ChainInv (Stack.run chained seed ops) := by
  exact chain_inv_foldl ops _ (c02_init_inv chained seed)

/-- append-only: a successful `Put` writes exactly round head+1 and leaves every stored round as it was;
an unsuccessful one changes nothing -/
theorem c02_append_only (s : Stack) (b : Beacon) (h : ChainInv s) :
    ((s.put b).2 = .ok →
        b.round = (Stack.last s.base).round + 1 ∧
        (Stack.last (s.put b).1.base).round = b.round ∧
        ∀ r, r ≤ (Stack.last s.base).round → lookup r (s.put b).1.base = lookup r s.base) ∧
    ((s.put b).2 ≠ .ok → (s.put b).1 = s) := by
  rcases put_cases s b h with ⟨hno, hst⟩ | ⟨hok, hr, b', hb', hp, hst⟩
  · exact ⟨fun hok => absurd hok hno, fun _ => hst⟩
  · refine ⟨fun _ => ?_, fun hno => absurd hok hno⟩
    have hspec := put_ok_spec s b' h (by rw [hb']; exact hr) hp
    have hbase : (s.put b).1.base = Bolt.put s.base b' := by rw [hst]
    rw [hbase, hspec.2.1]
    refine ⟨hr, hb', ?_⟩
    intro r hle
    rw [hspec.2.2 r, if_neg (by omega)]

/-- re-putting the head: `already` exactly when it is the stored value, an error naming the difference otherwise -/
theorem c02_reput_head (s : Stack) (b : Beacon) (h : ChainInv s) (hr : b.round = (Stack.last s.base).round) :
    ((s.put b).2 = .already ↔ (b.sig = (Stack.last s.base).sig ∧ b.prev = (Stack.last s.base).prev)) ∧
    (s.put b).2 ≠ .ok := by
  have ha := h.head.1
  unfold Stack.put
  rw [if_pos (by rw [ha]; exact hr), ha]
  by_cases h1 : (Stack.last s.base).sig = b.sig
  · by_cases h2 : (Stack.last s.base).prev = b.prev
    · simp [h1, h2]
    · rw [if_pos h1, if_neg h2]
      refine ⟨⟨fun hh => (by cases hh), fun hh => absurd hh.2.symm h2⟩, by simp⟩
  · rw [if_neg h1]
    refine ⟨⟨fun hh => (by cases hh), fun hh => absurd hh.1.symm h1⟩, by simp⟩

/-- anything but head or head+1 is refused -/
theorem c02_gap_refused (s : Stack) (b : Beacon) (h : ChainInv s)
    (hr : b.round ≠ (Stack.last s.base).round) (hr' : b.round ≠ (Stack.last s.base).round + 1) :
    (s.put b).2 = .badRound := by
  have ha := h.head.1
  unfold Stack.put
  rw [ha, if_neg hr, if_pos hr']

/-! ### agreement between honest nodes -/

/-- every stored beacon of round ≥ 1 verifies under the chain key (that is C01) -/
def Valid (verify : Beacon → Bool) (s : Stack) : Prop :=
  ∀ r b, 1 ≤ r → lookup r s.base = some b → verify b = true

/-- BLS signatures are unique: a (round, previous signature) pair — only the round on unchained schemes — has at
most one signature that verifies under a given key -/
def SigUnique (chained : Bool) (verify : Beacon → Bool) : Prop :=
  ∀ b b', verify b = true → verify b' = true → b.round = b'.round → (chained = true → b.prev = b'.prev) → b.sig = b'.sig

private theorem beacon_ext {b b' : Beacon} (h1 : b.round = b'.round) (h2 : b.sig = b'.sig)
    (h3 : b.prev = b'.prev) : b = b' := by
  cases b; cases b'; simp_all

/-- two honest nodes of the same chain hold identical beacons for every round they both have -/
theorem c02_agree (verify : Beacon → Bool) (s₁ s₂ : Stack) (hc : s₁.chained = s₂.chained)
    (hu : SigUnique s₁.chained verify)
    (h₁ : ChainInv s₁) (h₂ : ChainInv s₂) (v₁ : Valid verify s₁) (v₂ : Valid verify s₂)
    (hg : lookup 0 s₁.base = lookup 0 s₂.base) :
    ∀ r, r ≤ (Stack.last s₁.base).round → r ≤ (Stack.last s₂.base).round → lookup r s₁.base = lookup r s₂.base := by
  intro r
  induction r with
  | zero => intro _ _; exact hg
  | succ r ih =>
    intro hr1 hr2
    have ih := ih (by omega) (by omega)
    obtain ⟨b1, hb1⟩ := Option.isSome_iff_exists.1 ((h₁.dense (r + 1)).2 hr1)
    obtain ⟨b2, hb2⟩ := Option.isSome_iff_exists.1 ((h₂.dense (r + 1)).2 hr2)
    rw [hb1, hb2]
    have r1 : b1.round = r + 1 := h₁.sorted.2 _ (lookup_mem hb1)
    have r2 : b2.round = r + 1 := h₂.sorted.2 _ (lookup_mem hb2)
    have l1 := h₁.linked r b1 hb1
    have l2 := h₂.linked r b2 hb2
    rw [← hc] at l2
    have hprev : b1.prev = b2.prev := by
      cases hch : s₁.chained with
      | true =>
        rw [hch] at l1 l2
        simp only [if_true] at l1 l2
        obtain ⟨p1, hp1, q1⟩ := l1
        obtain ⟨p2, hp2, q2⟩ := l2
        rw [ih, hp2] at hp1
        cases hp1
        rw [q1, q2]
      | false =>
        rw [hch] at l1 l2
        simp at l1 l2
        rw [l1, l2]
    have hsig := hu b1 b2 (v₁ _ _ (by omega) hb1) (v₂ _ _ (by omega) hb2) (by omega) (fun _ => hprev)
    rw [beacon_ext (by omega) hsig hprev]

/-- the repair path cannot replace a valid stored beacon by a different valid one -/
theorem c02_resync_sound (verify : Beacon → Bool) (s : Stack) (b old : Beacon)
    (hu : SigUnique s.chained verify) (h : ChainInv s) (v : Valid verify s)
    (hr : 1 ≤ b.round) (hold : lookup b.round s.base = some old) (hv : verify b = true)
    (hprev : s.chained = true → b.prev = old.prev) (hprev' : s.chained = false → b.prev = []) :
    (s.rawPut b).base = s.base := by
  have hro : old.round = b.round := h.sorted.2 _ (lookup_mem hold)
  have hvo := v _ _ hr hold
  have hp : b.prev = old.prev := by
    cases hch : s.chained with
    | true => exact hprev hch
    | false =>
      rw [hprev' hch]
      obtain ⟨r, hr'⟩ : ∃ r, b.round = r + 1 := ⟨b.round - 1, by omega⟩
      have hold' := hold
      rw [hr'] at hold'
      have := h.linked r old hold'
      rw [hch] at this
      simpa using this.symm
  have hsig := hu b old hv hvo hro.symm (fun _ => hp)
  have heq : b = old := beacon_ext hro.symm hsig hp
  subst heq
  exact insert_same h.sorted.1 hold


/-- every start re-puts the genesis beacon (`NewHandler`); on a store that already holds it this changes nothing, so a
restart is exactly the rebuild of the wrappers and preserves the invariant. A failing write leaves everything as it was. -/
theorem c02_restart_genesis (s : Stack) (seed : Bytes) (h : ChainInv s) (hg : lookup 0 s.base = some (genesis seed)) :
    s.restartG seed = s.restart ∧ ChainInv (s.restartG seed) := by
  have hb : Bolt.put s.base (genesis seed) = s.base := by
    unfold Bolt.put
    exact insert_same h.sorted.1 (by simpa [genesis] using hg)
  have : s.restartG seed = s.restart := by unfold Stack.restartG Stack.restart; rw [hb]
  exact ⟨this, this ▸ c02_restart s h⟩

theorem c02_failed_write_no_effect (s : Stack) (b : Beacon) : (s.putFailing b).1 = s := by
  unfold Stack.putFailing; split <;> rfl

/-- regenerated lock fact: `appendStore.Put` and `schemeStore.Put` hold their mutex for the whole body, which is what
makes a concurrent execution of the aggregation and sync paths a *sequence* of `Stack.put`s -/
theorem tie_appendStore_locked : Gen.appendStorePutLocked = true ∧ Gen.schemeStorePutLocked = true := by decide

/-! ### the stack over an abstract base store: answered ok ⇒ stored -/

private theorem schemePut_eq {σ : Type} (B : Base σ) (s : GStack σ) (b : Beacon) :
    s.schemePut B b =
      if s.chained = true ∧ s.schemeLast.sig ≠ b.prev then (s, .done .badPrev)
      else if (B.put s.base (stored s.chained b)).2 = true then
        ({ s with base := (B.put s.base (stored s.chained b)).1, schemeLast := stored s.chained b, appendLast := stored s.chained b }, .done .ok)
      else ({ s with base := (B.put s.base (stored s.chained b)).1 }, .writeErr) := by
  unfold GStack.schemePut stored
  cases hc : s.chained
  · simp
  · by_cases hp : s.schemeLast.sig = b.prev <;> simp [hp]

private theorem gput_eq {σ : Type} (B : Base σ) (s : GStack σ) (b : Beacon) :
    s.put B b = s.schemePut B b ∨ ((s.put B b).1 = s ∧ ∃ r, (s.put B b).2 = .done r ∧ r ≠ .ok) := by
  unfold GStack.put
  split
  · right
    split
    · split
      · exact ⟨rfl, _, rfl, by simp⟩
      · exact ⟨rfl, _, rfl, by simp⟩
    · exact ⟨rfl, _, rfl, by simp⟩
  · split
    · right; exact ⟨rfl, _, rfl, by simp⟩
    · left; rfl

/-- **c02_put_ok_stored.** For the stack over *any* base store that meets the map specification: whenever the stack's `Put`
answers ok, the beacon (with the previous signature stripped on unchained schemes) is readable from the base store under
its round, both wrappers' cached head is that beacon, and no other round changed. -/
theorem c02_put_ok_stored {σ : Type} (B : Base σ) (hB : MapSpec B) (s : GStack σ) (b : Beacon)
    (hok : (s.put B b).2 = .done .ok) :
    B.get (s.put B b).1.base b.round = some (stored s.chained b) ∧
    (s.put B b).1.appendLast = stored s.chained b ∧ (s.put B b).1.schemeLast = stored s.chained b ∧
    ∀ r, r ≠ b.round → B.get (s.put B b).1.base r = B.get s.base r := by
  have hround : (stored s.chained b).round = b.round := by unfold stored; split <;> rfl
  rcases gput_eq B s b with he | ⟨_, r, hr, hne⟩
  · rw [he] at hok ⊢
    rw [schemePut_eq] at hok ⊢
    split at hok
    · cases hok
    · next h1 =>
      rw [if_neg h1]
      split at hok
      · next hw =>
        rw [if_pos hw]
        refine ⟨?_, rfl, rfl, ?_⟩
        · have := hB.put_ok_get s.base (stored s.chained b) hw
          rw [hround] at this
          exact this
        · intro r hr
          exact hB.put_ok_other s.base (stored s.chained b) r (by rw [hround]; exact hr)
      · cases hok
  · rw [hr] at hok
    cases hok
    exact absurd rfl hne

/-- **c02_put_err_no_effect.** … and whenever it answers anything else (a refusal of the wrappers, or the error of the
store below — a cancelled context, a failed write), every round reads as before and neither wrapper moved its head. -/
theorem c02_put_err_no_effect {σ : Type} (B : Base σ) (hB : MapSpec B) (s : GStack σ) (b : Beacon)
    (hno : (s.put B b).2 ≠ .done .ok) :
    (∀ r, B.get (s.put B b).1.base r = B.get s.base r) ∧
    (s.put B b).1.appendLast = s.appendLast ∧ (s.put B b).1.schemeLast = s.schemeLast := by
  rcases gput_eq B s b with he | ⟨hs, _⟩
  · rw [he] at hno ⊢
    rw [schemePut_eq] at hno ⊢
    split
    · exact ⟨fun _ => rfl, rfl, rfl⟩
    · next h1 =>
      rw [if_neg h1] at hno
      split
      · next hw => rw [if_pos hw] at hno; exact absurd rfl hno
      · next hw =>
        have hw' : (B.put s.base (stored s.chained b)).2 = false := by simpa using hw
        exact ⟨fun r => hB.put_err _ _ r hw', rfl, rfl⟩
  · rw [hs]; exact ⟨fun _ => rfl, rfl, rfl⟩

/-- the sorted map of C18 meets the specification (every `Put` succeeds) … -/
theorem boltBase_spec : MapSpec boltBase where
  put_ok_get := fun s b _ => by simp [boltBase, Bolt.put, c18_lookup_insert]
  put_ok_other := fun s b r hr => by simp [boltBase, Bolt.put, c18_lookup_insert, hr]
  put_err := fun s b r h => by simp [boltBase] at h

/-- **c02_stack_is_generic.** … and the stack model the other C02 theorems are about is the generic stack over it. -/
theorem c02_stack_is_generic (s : Stack) (b : Beacon) :
    s.toG.put boltBase b = ((s.put b).1.toG, .done (s.put b).2) ∧ MapSpec boltBase := by
  refine ⟨?_, boltBase_spec⟩
  unfold GStack.put Stack.put Stack.toG
  simp only
  split
  · split
    · split <;> rfl
    · rfl
  · split
    · rfl
    · unfold GStack.schemePut Stack.schemePut boltBase
      simp only
      split
      · split <;> rfl
      · rfl

/-- **c02_put_ok_stored_counterexample.** The map specification is needed: over a base store that answers nil to a `Put` it
did not perform (`lyingBase`, told to drop the next write — what `BoltStore.Put` does when it returns nil out of a write
transaction it abandoned because its context was cancelled), the stack answers ok for round 1 and for round 2, and the
persisted chain is 0, 2: round 1 is missing for good, the invariant of `c02_chain_inv` is broken. -/
theorem c02_put_ok_stored_counterexample :
    let s0 : GStack (BoltState × Bool) := ⟨false, (Bolt.put [] (genesis [0xaa]), true), genesis [0xaa], genesis [0xaa]⟩
    let r1 := s0.put lyingBase ⟨1, [0xb1], []⟩
    let r2 := r1.1.put lyingBase ⟨2, [0xb2], []⟩
    r1.2 = .done .ok ∧ r2.2 = .done .ok ∧
    lyingBase.get r2.1.base 1 = none ∧ (lyingBase.get r2.1.base 2).isSome = true ∧ r2.1.base.1.map (·.1) = [0, 2] ∧
    ¬ ChainInv ⟨false, r2.1.base.1, r2.1.appendLast, r2.1.schemeLast⟩ := by
  refine ⟨by decide, by decide, by decide, by decide, by decide, ?_⟩
  intro h
  have h1 := (h.dense 1).2
  revert h1
  decide

/-! ### concurrent writers of the same round -/

private theorem same_round_refused (s : Stack) (b : Beacon) (h : b.round = s.appendLast.round) :
    (s.put b).1 = s ∧ (s.put b).2 ≠ .ok := by
  unfold Stack.put
  rw [if_pos h]
  split
  · split <;> exact ⟨rfl, by simp⟩
  · exact ⟨rfl, by simp⟩

private theorem putAll_same_round (s : Stack) (bs : List Beacon) (h : ∀ b ∈ bs, b.round = s.appendLast.round) :
    (s.putAll bs).1 = s ∧ ∀ r ∈ (s.putAll bs).2, r ≠ .ok := by
  induction bs with
  | nil => exact ⟨rfl, fun _ hr => by cases hr⟩
  | cons b rest ih =>
    obtain ⟨h1, h2⟩ := same_round_refused s b (h b List.mem_cons_self)
    have ih := ih (fun x hx => h x (List.mem_cons_of_mem _ hx))
    unfold Stack.putAll
    simp only [h1]
    refine ⟨ih.1, ?_⟩
    intro r hr
    rcases List.mem_cons.1 hr with rfl | hr
    · exact h2
    · exact ih.2 r hr

private theorem count_ok_zero {l : List PutRes} (h : ∀ r ∈ l, r ≠ .ok) : l.count .ok = 0 :=
  List.count_eq_zero.2 (fun hm => h _ hm rfl)

/-- **c02_concurrent_same_round_one_winner.** `k` writers (the aggregator, the sync manager, …) Put beacons of the next round
`head+1` at the same time. `appendStore.Put` holds its mutex for its whole body (`tie_appendStore_locked`), so the execution
is the `k` Puts in *some* order — any list `bs`. Then at most one Put answers ok; one does exactly when some beacon of the
list is acceptable to the state before the race; the store afterwards is the store after the *first* acceptable beacon of
the list alone; every other Put is told `already` / `dup-diff-…` / a refusal and changes nothing. (As `callbackStore.Put`
dispatches once per Put that answered nil, the callbacks fire once for the round — `c11_dispatch_once`.) -/
theorem c02_concurrent_same_round_one_winner (s : Stack) (h : ChainInv s) (bs : List Beacon)
    (hr : ∀ b ∈ bs, b.round = (Stack.last s.base).round + 1) :
    (s.putAll bs).2.count .ok = (if ∃ b ∈ bs, (s.put b).2 = .ok then 1 else 0) ∧
    (s.putAll bs).1 = (match bs.find? (fun b => decide ((s.put b).2 = .ok)) with
                       | some b => (s.put b).1
                       | none => s) ∧
    (s.putAll bs).2.length = bs.length := by
  induction bs with
  | nil => simp [Stack.putAll]
  | cons b rest ih =>
    have hrest : ∀ x ∈ rest, x.round = (Stack.last s.base).round + 1 := fun x hx => hr x (List.mem_cons_of_mem _ hx)
    have ih := ih hrest
    by_cases hb : (s.put b).2 = .ok
    · -- b wins; everybody after it is refused
      have hs' : ∀ x ∈ rest, x.round = (s.put b).1.appendLast.round := by
        intro x hx
        rcases put_cases s b h with ⟨hno, _⟩ | ⟨_, hbr, b', hb', _, hst⟩
        · exact absurd hb hno
        · rw [hst]
          simp only
          rw [hb', hbr]
          exact hrest x hx
      obtain ⟨q1, q2⟩ := putAll_same_round (s.put b).1 rest hs'
      unfold Stack.putAll
      simp only
      refine ⟨?_, ?_, ?_⟩
      · have hex : ∃ x ∈ b :: rest, (s.put x).2 = .ok := ⟨b, List.mem_cons_self, hb⟩
        rw [if_pos hex, List.count_cons, count_ok_zero q2]
        simp [hb]
      · rw [q1, List.find?_cons]
        simp [hb]
      · simp only [List.length_cons]
        have := ih.2.2
        -- the answers are one per Put whatever the state
        have hl : ∀ (t : Stack) (l : List Beacon), (t.putAll l).2.length = l.length := by
          intro t l
          induction l generalizing t with
          | nil => rfl
          | cons y l ihl => unfold Stack.putAll; simp [ihl]
        rw [hl]
    · -- b is refused: nothing changed, the race goes on among the rest
      have hst : (s.put b).1 = s := by
        rcases put_cases s b h with ⟨_, hst⟩ | ⟨hok, _⟩
        · exact hst
        · exact absurd hok hb
      unfold Stack.putAll
      simp only [hst]
      refine ⟨?_, ?_, ?_⟩
      · rw [List.count_cons, ih.1]
        have hne : ((s.put b).2 == PutRes.ok) = false := by simpa using hb
        simp only [hne, Bool.false_eq_true, if_false, Nat.add_zero]
        congr 1
        apply propext
        constructor
        · rintro ⟨x, hx, hxo⟩; exact ⟨x, List.mem_cons_of_mem _ hx, hxo⟩
        · rintro ⟨x, hx, hxo⟩
          rcases List.mem_cons.1 hx with rfl | hx
          · exact absurd hxo hb
          · exact ⟨x, hx, hxo⟩
      · rw [ih.2.1, List.find?_cons]
        simp [hb]
      · simp [ih.2.2]

/-- **c02_concurrent_unchained_first_wins.** On an unchained scheme every beacon of round `head+1` is acceptable (the scheme
store checks nothing), so for any non-empty list of concurrent Puts of that round — the same beacon `k` times, or `k`
different signatures — exactly one answers ok: the first of the order; what is stored is that beacon (previous signature
stripped), and the answers are `ok` followed by refusals only. -/
theorem c02_concurrent_unchained_first_wins (s : Stack) (h : ChainInv s) (hc : s.chained = false) (b : Beacon) (rest : List Beacon)
    (hr : ∀ x ∈ b :: rest, x.round = (Stack.last s.base).round + 1) :
    (s.putAll (b :: rest)).2.count .ok = 1 ∧
    (s.putAll (b :: rest)).2.head? = some .ok ∧
    (s.putAll (b :: rest)).1.base = Bolt.put s.base { b with prev := [] } ∧
    lookup b.round (s.putAll (b :: rest)).1.base = some { b with prev := [] } := by
  have hb : (s.put b).2 = .ok ∧ (s.put b).1.base = Bolt.put s.base { b with prev := [] } := by
    have hbr := hr b List.mem_cons_self
    have ha := h.head.1
    unfold Stack.put
    rw [if_neg (by rw [ha]; omega), if_neg (by rw [ha]; omega)]
    unfold Stack.schemePut
    simp [hc]
  obtain ⟨c1, c2, _⟩ := c02_concurrent_same_round_one_winner s h (b :: rest) hr
  refine ⟨?_, ?_, ?_, ?_⟩
  · rw [c1, if_pos ⟨b, List.mem_cons_self, hb.1⟩]
  · unfold Stack.putAll; simp [hb.1]
  · rw [c2, List.find?_cons]; simp [hb.1, hb.2]
  · rw [c2, List.find?_cons]
    simp only [hb.1, decide_true]
    rw [hb.2]
    simp [Bolt.put, c18_lookup_insert]

/-! ### non-vacuity -/
example : (Stack.run true [0xaa] [.put ⟨1, [0xbb], [0xaa]⟩, .put ⟨2, [0xcc], [0xbb]⟩, .restart, .put ⟨2, [0xcc], [0xbb]⟩]).base
    = [(0, ⟨0, [0xaa], []⟩), (1, ⟨1, [0xbb], [0xaa]⟩), (2, ⟨2, [0xcc], [0xbb]⟩)] := by decide

/-- a Put that is accepted over an honest base store is stored; the same Puts over the lying one are not -/
example : ((Stack.init false [0xaa]).toG.put boltBase ⟨1, [0xb1], [0x77]⟩).2 = .done .ok ∧
    boltBase.get ((Stack.init false [0xaa]).toG.put boltBase ⟨1, [0xb1], [0x77]⟩).1.base 1 = some ⟨1, [0xb1], []⟩ := by decide
/-- three writers race for round 1 with three different signatures, in the order 2, 0, 1: writer 2 wins -/
example : ((Stack.init false [0xaa]).putAll [⟨1, [0xc2], []⟩, ⟨1, [0xc0], []⟩, ⟨1, [0xc1], []⟩]).2 = [.ok, .dupDiffSig, .dupDiffSig] ∧
    ((Stack.init false [0xaa]).putAll [⟨1, [0xc2], []⟩, ⟨1, [0xc0], []⟩, ⟨1, [0xc1], []⟩]).1.base.map (·.2.sig) = [[0xaa], [0xc2]] := by decide
/-- chained: the writer with the wrong previous signature is refused, the next one wins, the third is told `already` -/
example : ((Stack.init true [0xaa]).putAll [⟨1, [0xc2], [0x00]⟩, ⟨1, [0xc0], [0xaa]⟩, ⟨1, [0xc0], [0xaa]⟩]).2 = [.badPrev, .ok, .already] := by decide

end Drand.Chain
