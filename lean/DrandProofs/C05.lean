/-
C05 — liveness: a threshold of connected honest nodes produces every due round.   (PARTIAL, DESIGN.md §6)
Model: Drand/Net/Protocol.lean. What is proved here is progress in the fair-round abstraction of the protocol at
message level; real timers, goroutine scheduling, the 2-period sync-restart rule and gRPC are exercised by the
differential runs of engine `net`, not proved.
-/
import Drand.Net.Protocol
import DrandProofs.C02
import DrandProofs.C07Net
import DrandProofs.C07Chain
import DrandProofs.C07Repaired

namespace Drand.Net

/-! ### basic facts about the rule functions -/

@[simp] theorem setHead_up (d : Node) (v) : (d.setHead v).up = d.up := rfl
@[simp] theorem setHead_head (d : Node) (v) : (d.setHead v).head = v := rfl
@[simp] theorem setHead_clock (d : Node) (v) : (d.setHead v).clock = d.clock := rfl
@[simp] theorem setHead_lastTick (d : Node) (v) : (d.setHead v).lastTick = d.lastTick := rfl
@[simp] theorem setHead_held (d : Node) (v) : (d.setHead v).held = d.held := rfl
@[simp] theorem setHead_pending (d : Node) (v) : (d.setHead v).pending = d.pending := rfl
@[simp] theorem setHead_syncTo (d : Node) (v) : (d.setHead v).syncTo = d.syncTo := rfl
@[simp] theorem setTick_up (d : Node) (v) : (d.setTick v).up = d.up := rfl
@[simp] theorem setTick_head (d : Node) (v) : (d.setTick v).head = d.head := rfl
@[simp] theorem setTick_clock (d : Node) (v) : (d.setTick v).clock = d.clock := rfl
@[simp] theorem setTick_lastTick (d : Node) (v) : (d.setTick v).lastTick = v := rfl
@[simp] theorem setTick_held (d : Node) (v) : (d.setTick v).held = d.held := rfl
@[simp] theorem setTick_pending (d : Node) (v) : (d.setTick v).pending = d.pending := rfl
@[simp] theorem setTick_syncTo (d : Node) (v) : (d.setTick v).syncTo = d.syncTo := rfl
@[simp] theorem setHeld_up (d : Node) (v) : (d.setHeld v).up = d.up := rfl
@[simp] theorem setHeld_head (d : Node) (v) : (d.setHeld v).head = d.head := rfl
@[simp] theorem setHeld_clock (d : Node) (v) : (d.setHeld v).clock = d.clock := rfl
@[simp] theorem setHeld_lastTick (d : Node) (v) : (d.setHeld v).lastTick = d.lastTick := rfl
@[simp] theorem setHeld_held (d : Node) (v) : (d.setHeld v).held = v := rfl
@[simp] theorem setHeld_pending (d : Node) (v) : (d.setHeld v).pending = d.pending := rfl
@[simp] theorem setHeld_syncTo (d : Node) (v) : (d.setHeld v).syncTo = d.syncTo := rfl
@[simp] theorem setPending_up (d : Node) (v) : (d.setPending v).up = d.up := rfl
@[simp] theorem setPending_head (d : Node) (v) : (d.setPending v).head = d.head := rfl
@[simp] theorem setPending_clock (d : Node) (v) : (d.setPending v).clock = d.clock := rfl
@[simp] theorem setPending_lastTick (d : Node) (v) : (d.setPending v).lastTick = d.lastTick := rfl
@[simp] theorem setPending_held (d : Node) (v) : (d.setPending v).held = d.held := rfl
@[simp] theorem setPending_pending (d : Node) (v) : (d.setPending v).pending = v := rfl
@[simp] theorem setPending_syncTo (d : Node) (v) : (d.setPending v).syncTo = d.syncTo := rfl
@[simp] theorem setSync_up (d : Node) (v) : (d.setSync v).up = d.up := rfl
@[simp] theorem setSync_head (d : Node) (v) : (d.setSync v).head = d.head := rfl
@[simp] theorem setSync_clock (d : Node) (v) : (d.setSync v).clock = d.clock := rfl
@[simp] theorem setSync_lastTick (d : Node) (v) : (d.setSync v).lastTick = d.lastTick := rfl
@[simp] theorem setSync_held (d : Node) (v) : (d.setSync v).held = d.held := rfl
@[simp] theorem setSync_pending (d : Node) (v) : (d.setSync v).pending = d.pending := rfl
@[simp] theorem setSync_syncTo (d : Node) (v) : (d.setSync v).syncTo = v := rfl

@[simp] theorem setNode_same (s : State) (i : Nat) (d : Node) : (s.setNode i d).node i = d := by
  simp [State.setNode]

theorem setNode_other (s : State) (i k : Nat) (d : Node) (h : k ≠ i) : (s.setNode i d).node k = s.node k := by
  simp [State.setNode, h]

theorem setNode_node (s : State) (i k : Nat) (d : Node) : (s.setNode i d).node k = if k = i then d else s.node k := rfl

@[simp] theorem setNode_n (s : State) (i : Nat) (d : Node) : (s.setNode i d).n = s.n := rfl
@[simp] theorem setNode_thr (s : State) (i : Nat) (d : Node) : (s.setNode i d).thr = s.thr := rfl
@[simp] theorem setNode_conn (s : State) (i : Nat) (d : Node) : (s.setNode i d).conn = s.conn := rfl
@[simp] theorem setNode_msgs (s : State) (i : Nat) (d : Node) : (s.setNode i d).msgs = s.msgs := rfl

theorem put_head (d : Node) (r : Nat) : (d.put r).head = d.head ∨ ((d.put r).head = d.head + 1 ∧ r = d.head + 1) := by
  unfold Node.put
  split
  · right; simp_all
  · left; rfl

theorem put_head_le (d : Node) (r : Nat) : d.head ≤ (d.put r).head := by
  rcases put_head d r with h | h <;> omega

@[simp] theorem put_up (d : Node) (r : Nat) : (d.put r).up = d.up := by unfold Node.put; split <;> rfl
@[simp] theorem put_clock (d : Node) (r : Nat) : (d.put r).clock = d.clock := by unfold Node.put; split <;> rfl
@[simp] theorem put_lastTick (d : Node) (r : Nat) : (d.put r).lastTick = d.lastTick := by unfold Node.put; split <;> rfl
@[simp] theorem put_pending (d : Node) (r : Nat) : (d.put r).pending = d.pending := by unfold Node.put; split <;> rfl
@[simp] theorem put_held (d : Node) (r : Nat) : (d.put r).held = d.held := by unfold Node.put; split <;> rfl
@[simp] theorem put_syncTo (d : Node) (r : Nat) : (d.put r).syncTo = d.syncTo := by unfold Node.put; split <;> rfl
theorem put_next (d : Node) : (d.put (d.head + 1)).head = d.head + 1 := by simp [Node.put]

private theorem foldPut_head : ∀ (len : Nat) (d : Node),
    ((List.range' (d.head + 1) len).foldl Node.put d).head = d.head + len := by
  intro len
  induction len with
  | zero => intro d; simp
  | succ k ih =>
    intro d
    rw [List.range'_succ, List.foldl_cons]
    have h1 : (d.put (d.head + 1)).head = d.head + 1 := put_next d
    have := ih (d.put (d.head + 1))
    rw [h1] at this
    rw [this]; omega

private theorem foldPut_fields : ∀ (l : List Nat) (d : Node),
    (l.foldl Node.put d).up = d.up ∧ (l.foldl Node.put d).clock = d.clock ∧
    (l.foldl Node.put d).lastTick = d.lastTick ∧ (l.foldl Node.put d).pending = d.pending ∧
    (l.foldl Node.put d).held = d.held ∧ (l.foldl Node.put d).syncTo = d.syncTo := by
  intro l
  induction l with
  | nil => intro d; simp
  | cons a t ih => intro d; simp only [List.foldl_cons]; have := ih (d.put a); simp_all

theorem appendTo_head (d : Node) (t : Nat) : (d.appendTo t).head = d.head + (t - d.head) := by
  simp [Node.appendTo, foldPut_head]

@[simp] theorem appendTo_up (d : Node) (t : Nat) : (d.appendTo t).up = d.up := by
  simp [Node.appendTo, (foldPut_fields _ d).1]
@[simp] theorem appendTo_clock (d : Node) (t : Nat) : (d.appendTo t).clock = d.clock := by
  simp [Node.appendTo, (foldPut_fields _ d).2.1]
@[simp] theorem appendTo_lastTick (d : Node) (t : Nat) : (d.appendTo t).lastTick = d.lastTick := by
  simp [Node.appendTo, (foldPut_fields _ d).2.2.1]
@[simp] theorem appendTo_pending (d : Node) (t : Nat) : (d.appendTo t).pending = d.pending := by
  simp [Node.appendTo, (foldPut_fields _ d).2.2.2.1]
@[simp] theorem appendTo_syncTo (d : Node) (t : Nat) : (d.appendTo t).syncTo = d.syncTo := by
  simp [Node.appendTo, (foldPut_fields _ d).2.2.2.2.2]
theorem appendTo_held (d : Node) (t : Nat) (r k : Nat) :
    (d.appendTo t).held r k = (decide (d.head + (t - d.head) < r) && d.held r k) := by
  simp [Node.appendTo, (foldPut_fields _ d).2.2.2.2.1, flush, foldPut_head]

/-- `runAggregator` on one partial, as four cases -/
theorem aggregate_cases (n thr : Nat) (d : Node) (src r : Nat) :
    (¬ (d.head < r ∧ r ≤ d.head + Gen.partialCacheStoreLimit + 1) ∧ d.aggregate n thr src r = d) ∨
    ((d.head < r ∧ r ≤ d.head + Gen.partialCacheStoreLimit + 1) ∧ count n (addPartial d.held r src) r < thr ∧
      d.aggregate n thr src r = d.setHeld (addPartial d.held r src)) ∨
    ((d.head < r ∧ r ≤ d.head + Gen.partialCacheStoreLimit + 1) ∧ thr ≤ count n (addPartial d.held r src) r ∧ d.head + 1 < r ∧
      d.aggregate n thr src r = (d.setHeld (flush (addPartial d.held r src) r)).setSync (max d.syncTo r)) ∨
    (thr ≤ count n (addPartial d.held r src) r ∧ r = d.head + 1 ∧
      d.aggregate n thr src r =
        if r < d.lastTick then (((d.setHeld (flush (addPartial d.held r src) r)).setHead r).setPending (d.pending ++ [r]))
        else ((d.setHeld (flush (addPartial d.held r src) r)).setHead r)) := by
  unfold Node.aggregate
  simp only [Gen.aggInWindow, Gen.aggNotEnough, Gen.tryAppendRefuse, Gen.shouldSync, Gen.catchupLaunch]
  by_cases hw : d.head < r ∧ r ≤ d.head + Gen.partialCacheStoreLimit + 1
  · by_cases hc : count n (addPartial d.held r src) r < thr
    · right; left; simp [hw, hc]
    · by_cases hr : r = d.head + 1
      · right; right; right
        subst hr
        refine ⟨by omega, rfl, ?_⟩
        by_cases hl : d.head + 1 < d.lastTick <;> simp [hw, hc, hl, Node.put]
      · right; right; left
        have h2 : d.head + 1 < r := by omega
        refine ⟨hw, by omega, h2, ?_⟩
        have h3 : d.head + 1 ≠ r := by omega
        simp [hw, hc, h2, h3]
  · left
    refine ⟨hw, ?_⟩
    have : (decide (d.head < r) && decide (r ≤ d.head + Gen.partialCacheStoreLimit + 1)) = false := by
      by_cases h1 : d.head < r <;> by_cases h2 : r ≤ d.head + Gen.partialCacheStoreLimit + 1 <;> simp_all
    simp [this]

/-- what one valid partial does to a node, field by field -/
theorem aggregate_frame (n thr : Nat) (d : Node) (src r : Nat) :
    (d.aggregate n thr src r).up = d.up ∧ (d.aggregate n thr src r).clock = d.clock ∧
    (d.aggregate n thr src r).lastTick = d.lastTick ∧
    ((d.aggregate n thr src r).head = d.head ∨ ((d.aggregate n thr src r).head = d.head + 1 ∧ r = d.head + 1)) ∧
    ((d.aggregate n thr src r).pending = d.pending ∨
      ((d.aggregate n thr src r).pending = d.pending ++ [r] ∧ (d.aggregate n thr src r).head = d.head + 1)) := by
  rcases aggregate_cases n thr d src r with ⟨_, h⟩ | ⟨_, _, h⟩ | ⟨_, _, _, h⟩ | ⟨_, hr, h⟩ <;> rw [h]
  · simp
  · simp
  · simp
  · subst hr
    by_cases hl : d.head + 1 < d.lastTick <;> simp [hl]

theorem aggregate_head_le (n thr : Nat) (d : Node) (src r : Nat) : d.head ≤ (d.aggregate n thr src r).head := by
  rcases (aggregate_frame n thr d src r).2.2.2.1 with h | h <;> omega


/-! ### what every protocol rule preserves -/

/-- node level: same process, same clock, head not smaller -/
def NExt (d d' : Node) : Prop := d'.up = d.up ∧ d'.clock = d.clock ∧ d.head ≤ d'.head

theorem NExt.refl (d : Node) : NExt d d := ⟨rfl, rfl, Nat.le_refl _⟩
theorem NExt.trans {a b c : Node} (h1 : NExt a b) (h2 : NExt b c) : NExt a c :=
  ⟨h2.1.trans h1.1, h2.2.1.trans h1.2.1, Nat.le_trans h1.2.2 h2.2.2⟩

theorem next_aggregate (n thr : Nat) (d : Node) (src r : Nat) : NExt d (d.aggregate n thr src r) :=
  ⟨(aggregate_frame n thr d src r).1, (aggregate_frame n thr d src r).2.1, aggregate_head_le n thr d src r⟩

theorem next_tickStep (n thr i : Nat) (d : Node) : NExt d (d.tickStep n thr i).1 := by
  unfold Node.tickStep
  by_cases hu : d.up = true
  · simp only [hu, Bool.not_true, Bool.false_eq_true, if_false, Node.broadcast]
    have h1 : NExt d (d.setTick d.clock) := ⟨rfl, rfl, Nat.le_refl _⟩
    have h2 := NExt.trans h1 (next_aggregate n thr (d.setTick d.clock) i (Gen.bnpRound d.clock d.head))
    split
    · exact NExt.trans h2 ⟨rfl, rfl, Nat.le_refl _⟩
    · exact h2
  · simp [hu]; exact NExt.refl d

theorem next_fireStep (n thr i : Nat) (d : Node) : NExt d (d.fireStep n thr i).1 := by
  unfold Node.fireStep
  by_cases hu : d.up = true
  · simp only [hu, Bool.not_true, Bool.false_eq_true, if_false]
    split
    · exact NExt.refl d
    · rename_i r rest _
      have h1 : NExt d (d.setPending rest) := ⟨rfl, rfl, Nat.le_refl _⟩
      exact NExt.trans h1 (next_aggregate n thr _ i (r + 1))
  · simp [hu]; exact NExt.refl d

theorem next_fireSteps (n thr i : Nat) : ∀ (c : Nat) (d : Node), NExt d (Node.fireSteps n thr i c d).1 := by
  intro c
  induction c with
  | zero => intro d; exact NExt.refl d
  | succ k ih => intro d; simp only [Node.fireSteps]; exact NExt.trans (next_fireStep n thr i d) (ih _)

theorem next_recvStep (n thr : Nat) (reach : Bool) (d : Node) (m : Msg) : NExt d (d.recvStep n thr reach m) := by
  unfold Node.recvStep
  repeat' split
  all_goals first
    | exact NExt.refl d
    | exact next_aggregate n thr d m.src m.round

structure Ext (s s' : State) : Prop where
  n : s'.n = s.n
  thr : s'.thr = s.thr
  conn : s'.conn = s.conn
  up : ∀ k, (s'.node k).up = (s.node k).up
  clock : ∀ k, (s'.node k).clock = (s.node k).clock
  head : ∀ k, (s.node k).head ≤ (s'.node k).head

theorem Ext.refl (s : State) : Ext s s := ⟨rfl, rfl, rfl, fun _ => rfl, fun _ => rfl, fun _ => Nat.le_refl _⟩

theorem Ext.trans {a b c : State} (h1 : Ext a b) (h2 : Ext b c) : Ext a c :=
  ⟨h2.n.trans h1.n, h2.thr.trans h1.thr, h2.conn.trans h1.conn, fun k => (h2.up k).trans (h1.up k),
   fun k => (h2.clock k).trans (h1.clock k), fun k => Nat.le_trans (h1.head k) (h2.head k)⟩

/-- replacing node i by a node with the same up/clock and a head at least as large -/
theorem ext_setNode (s : State) (i : Nat) (d : Node) (h : NExt (s.node i) d) : Ext s (s.setNode i d) := by
  obtain ⟨hu, hc, hh⟩ := h
  refine ⟨rfl, rfl, rfl, ?_, ?_, ?_⟩ <;> intro k <;> by_cases hk : k = i <;> simp [State.setNode, hk, hu, hc, hh]

theorem ext_msgs (s : State) (l : List Msg) : Ext s { s with msgs := l } :=
  ⟨rfl, rfl, rfl, fun _ => rfl, fun _ => rfl, fun _ => Nat.le_refl _⟩

theorem act_node (s : State) (i k : Nat) (F : Node → Node × List Msg) :
    (s.act i F).node k = if k = i then (F (s.node i)).1 else s.node k := rfl
@[simp] theorem act_n (s : State) (i : Nat) (F : Node → Node × List Msg) : (s.act i F).n = s.n := rfl
@[simp] theorem act_thr (s : State) (i : Nat) (F : Node → Node × List Msg) : (s.act i F).thr = s.thr := rfl
@[simp] theorem act_conn (s : State) (i : Nat) (F : Node → Node × List Msg) : (s.act i F).conn = s.conn := rfl
@[simp] theorem act_msgs (s : State) (i : Nat) (F : Node → Node × List Msg) :
    (s.act i F).msgs = s.msgs ++ (F (s.node i)).2 := rfl

theorem ext_act (s : State) (i : Nat) (F : Node → Node × List Msg) (h : NExt (s.node i) (F (s.node i)).1) :
    Ext s (s.act i F) := by
  obtain ⟨hu, hc, hh⟩ := h
  refine ⟨rfl, rfl, rfl, ?_, ?_, ?_⟩ <;> intro k <;> by_cases hk : k = i <;> simp [act_node, hk, hu, hc, hh]

theorem ext_tick (s : State) (i : Nat) : Ext s (s.tick i) := ext_act s i _ (next_tickStep _ _ _ _)
theorem ext_fire (s : State) (i : Nat) : Ext s (s.fire i) := ext_act s i _ (next_fireStep _ _ _ _)
theorem ext_fireNode (s : State) (i : Nat) : Ext s (s.fireNode i) := ext_act s i _ (next_fireSteps _ _ _ _ _)
theorem ext_recv (s : State) (m : Msg) : Ext s (s.recv m) := ext_act s m.dst _ (next_recvStep _ _ _ _ _)

theorem ext_pull (s : State) (i : Nat) : Ext s (s.pull i) := by
  unfold State.pull
  repeat' split
  all_goals first
    | exact Ext.refl s
    | exact ext_setNode s i _ ⟨rfl, rfl, Nat.le_refl _⟩
    | (refine ext_setNode s i _ ⟨?_, ?_, ?_⟩ <;> simp [appendTo_head])

theorem ext_foldl {α : Type} (f : State → α → State) (hf : ∀ s a, Ext s (f s a)) :
    ∀ (l : List α) (s : State), Ext s (l.foldl f s) := by
  intro l
  induction l with
  | nil => intro s; exact Ext.refl s
  | cons a t ih => intro s; exact Ext.trans (hf s a) (ih (f s a))

theorem ext_deliverAll (s : State) : Ext s s.deliverAll :=
  Ext.trans (ext_msgs s []) (ext_foldl State.recv ext_recv _ _)

theorem ext_forAll (s : State) (f : State → Nat → State) (hf : ∀ s a, Ext s (f s a)) : Ext s (s.forAll f) :=
  ext_foldl f hf _ _

theorem ext_settle (s : State) : Ext s s.settle :=
  Ext.trans (Ext.trans (ext_forAll s _ ext_pull) (ext_deliverAll _)) (ext_forAll _ _ ext_pull)

theorem ext_fairCatch (s : State) : Ext s s.fairCatch :=
  Ext.trans (ext_forAll s _ ext_fireNode) (ext_settle _)

/-! ### c05_no_skip, heads only grow -/

theorem tickStep_head (n thr i : Nat) (d : Node) :
    (d.tickStep n thr i).1.head = d.head ∨ (d.tickStep n thr i).1.head = d.head + 1 := by
  unfold Node.tickStep
  by_cases hu : d.up = true
  · simp only [hu, Bool.not_true, Bool.false_eq_true, if_false, Node.broadcast]
    have := (aggregate_frame n thr (d.setTick d.clock) i (Gen.bnpRound d.clock d.head)).2.2.2.1
    split <;> simp at this ⊢ <;> omega
  · simp [hu]

theorem fireStep_head (n thr i : Nat) (d : Node) :
    (d.fireStep n thr i).1.head = d.head ∨ (d.fireStep n thr i).1.head = d.head + 1 := by
  unfold Node.fireStep
  by_cases hu : d.up = true
  · simp only [hu, Bool.not_true, Bool.false_eq_true, if_false]
    split
    · left; rfl
    · rename_i r rest _
      have := (aggregate_frame n thr (d.setPending rest) i (r + 1)).2.2.2.1
      simp [Node.broadcast] at this ⊢; omega
  · simp [hu]

theorem recvStep_head (n thr : Nat) (reach : Bool) (d : Node) (m : Msg) :
    (d.recvStep n thr reach m).head = d.head ∨ (d.recvStep n thr reach m).head = d.head + 1 := by
  unfold Node.recvStep
  have := (aggregate_frame n thr d m.src m.round).2.2.2.1
  repeat' split
  all_goals first
    | (left; rfl)
    | omega

/-- the events of the step relation that stand for one rule firing once (the other two, `deliverAll` and `pull`,
are finite compositions: `deliverAll` of `recv`, `pull` of `Node.put`) -/
def Ev.micro : Ev → Bool
  | .deliverAll => false
  | .pull _ => false
  | _ => true

/-- every event leaves every head where it is or moves it up -/
theorem c05_heads_monotone (s : State) (e : Ev) (k : Nat) : (s.node k).head ≤ ((s.apply e).node k).head := by
  cases e with
  | advance => simp [State.apply, State.advance]
  | tick i => exact (ext_tick s i).head k
  | fire i => exact (ext_fire s i).head k
  | deliver j =>
    simp only [State.apply]
    split
    · exact ((ext_msgs s _).trans (ext_recv _ _)).head k
    · exact Nat.le_refl _
  | drop j => simp [State.apply]
  | deliverAll => exact (ext_deliverAll s).head k
  | pull i => exact (ext_pull s i).head k
  | stop i => by_cases hk : k = i <;> simp [State.apply, State.stop, setNode_node, hk]
  | restart i =>
    simp only [State.apply, State.restart]
    split
    · exact Nat.le_refl _
    · by_cases hk : k = i <;> simp [setNode_node, hk]
  | setConn c => simp [State.apply]

theorem c05_heads_monotone_run (evs : List Ev) : ∀ (s : State) (k : Nat), (s.node k).head ≤ ((s.run evs).node k).head := by
  induction evs with
  | nil => intro s k; exact Nat.le_refl _
  | cons e t ih => intro s k; exact Nat.le_trans (c05_heads_monotone s e k) (ih (s.apply e) k)

private theorem act_head_step (s : State) (i k : Nat) (F : Node → Node × List Msg)
    (h : (F (s.node i)).1.head = (s.node i).head ∨ (F (s.node i)).1.head = (s.node i).head + 1) :
    ((s.act i F).node k).head = (s.node k).head ∨ ((s.act i F).node k).head = (s.node k).head + 1 := by
  by_cases hk : k = i
  · subst hk; simpa [act_node] using h
  · left; simp [act_node, hk]

/-- Every append is head+1 (C02 seen from the protocol): the only operation that moves a head is `Node.put`, which
stores `r` only when `r = head + 1`; one firing of a rule moves a head by at most one; a sync (`pull`) is a run of
`put`s over consecutive rounds. -/
theorem c05_no_skip :
    (∀ (d : Node) (r : Nat), (d.put r).head = d.head ∨ ((d.put r).head = d.head + 1 ∧ r = d.head + 1)) ∧
    (∀ (s : State) (e : Ev) (k : Nat), e.micro = true →
      ((s.apply e).node k).head = (s.node k).head ∨ ((s.apply e).node k).head = (s.node k).head + 1) ∧
    (∀ (d : Node) (t : Nat), d.appendTo t = ((List.range' (d.head + 1) (t - d.head)).foldl Node.put d).setHeld
        (flush ((List.range' (d.head + 1) (t - d.head)).foldl Node.put d).held
               ((List.range' (d.head + 1) (t - d.head)).foldl Node.put d).head) ∧
      (d.appendTo t).head = d.head + (t - d.head)) := by
  refine ⟨put_head, ?_, fun d t => ⟨rfl, appendTo_head d t⟩⟩
  intro s e k hm
  cases e with
  | advance => left; simp [State.apply, State.advance]
  | tick i => exact act_head_step s i k _ (tickStep_head _ _ _ _)
  | fire i => exact act_head_step s i k _ (fireStep_head _ _ _ _)
  | deliver j =>
    simp only [State.apply]
    split
    · rename_i m _
      exact act_head_step { s with msgs := s.msgs.eraseIdx j } m.dst k _ (recvStep_head _ _ _ _ _)
    · left; rfl
  | drop j => left; simp [State.apply]
  | deliverAll => simp [Ev.micro] at hm
  | pull i => simp [Ev.micro] at hm
  | stop i => left; by_cases hk : k = i <;> simp [State.apply, State.stop, setNode_node, hk]
  | restart i =>
    left
    simp only [State.apply, State.restart]
    split
    · rfl
    · by_cases hk : k = i <;> simp [setNode_node, hk]
  | setConn c => left; simp [State.apply]

/-- the same fact on the store model of C02: a `Put` that is accepted writes exactly `head + 1`, any other leaves the
store as it was -/
theorem c05_no_skip_store (st : Drand.Chain.Stack) (b : Drand.Beacon) (h : Drand.Chain.ChainInv st) :
    ((st.put b).2 = .ok → b.round = (Drand.Chain.Stack.last st.base).round + 1 ∧
        (Drand.Chain.Stack.last (st.put b).1.base).round = (Drand.Chain.Stack.last st.base).round + 1) ∧
    ((st.put b).2 ≠ .ok → (st.put b).1 = st) := by
  have := Drand.Chain.c02_append_only st b h
  refine ⟨fun hok => ?_, this.2⟩
  have h1 := this.1 hok
  exact ⟨h1.1, by rw [h1.2.1, h1.1]⟩


/-! ### counting signers -/

private theorem nodup_subset_length : ∀ (l₁ l₂ : List Nat), l₁.Nodup → (∀ x ∈ l₁, x ∈ l₂) → l₁.length ≤ l₂.length := by
  intro l₁
  induction l₁ with
  | nil => intro l₂ _ _; simp
  | cons a t ih =>
    intro l₂ hn hs
    have ha : a ∈ l₂ := hs a (by simp)
    have hn' := List.nodup_cons.mp hn
    have hsub : ∀ x ∈ t, x ∈ l₂.erase a := by
      intro x hx
      have hne : x ≠ a := fun h => hn'.1 (h ▸ hx)
      exact (List.mem_erase_of_ne hne).mpr (hs x (by simp [hx]))
    have h1 := ih (l₂.erase a) hn'.2 hsub
    have h2 := List.length_erase_of_mem ha
    have h3 : 0 < l₂.length := List.length_pos_of_mem ha
    simp only [List.length_cons]
    omega

/-- if every member of a duplicate-free `U` (of node indices) has its partial on `r` in the cache, the cache counts ≥ |U| -/
theorem count_ge (n : Nat) (held : Nat → Nat → Bool) (r : Nat) (U : List Nat) (hn : U.Nodup)
    (h : ∀ i ∈ U, i < n ∧ held r i = true) : U.length ≤ count n held r := by
  unfold count
  apply nodup_subset_length U _ hn
  intro x hx
  simp [List.mem_filter, h x hx]

/-- if every signer counted for `r` belongs to `D`, the cache counts ≤ |D| -/
theorem count_le (n : Nat) (held : Nat → Nat → Bool) (r : Nat) (D : List Nat)
    (h : ∀ k, k < n → held r k = true → k ∈ D) : count n held r ≤ D.length := by
  unfold count
  apply nodup_subset_length _ D (List.Nodup.sublist List.filter_sublist List.nodup_range)
  intro x hx
  simp [List.mem_filter] at hx
  exact h x hx.1 hx.2

/-! ### folds of node-local steps -/

private theorem flatMap_congr' {α β : Type} (f g : α → List β) : ∀ (l : List α), (∀ i ∈ l, f i = g i) → l.flatMap f = l.flatMap g := by
  intro l
  induction l with
  | nil => intro _; rfl
  | cons a t ih =>
    intro h
    simp only [List.flatMap_cons]
    rw [h a (by simp), ih (fun i hi => h i (by simp [hi]))]

theorem foldl_act (G : Nat → Nat → Nat → Node → Node × List Msg) :
    ∀ (l : List Nat) (s : State), l.Nodup →
      (l.foldl (fun s i => s.act i (G s.n s.thr i)) s).n = s.n ∧
      (l.foldl (fun s i => s.act i (G s.n s.thr i)) s).thr = s.thr ∧
      (l.foldl (fun s i => s.act i (G s.n s.thr i)) s).conn = s.conn ∧
      (∀ k, (l.foldl (fun s i => s.act i (G s.n s.thr i)) s).node k =
        if k ∈ l then (G s.n s.thr k (s.node k)).1 else s.node k) ∧
      (l.foldl (fun s i => s.act i (G s.n s.thr i)) s).msgs = s.msgs ++ l.flatMap (fun i => (G s.n s.thr i (s.node i)).2) := by
  intro l
  induction l with
  | nil => intro s _; simp
  | cons a t ih =>
    intro s hn
    have hn' := List.nodup_cons.mp hn
    obtain ⟨h1, h2, h3, h4, h5⟩ := ih (s.act a (G s.n s.thr a)) hn'.2
    simp only [List.foldl_cons]
    refine ⟨by rw [h1]; rfl, by rw [h2]; rfl, by rw [h3]; rfl, ?_, ?_⟩
    · intro k
      rw [h4 k]
      simp only [act_n, act_thr, act_node]
      by_cases hk : k = a
      · subst hk; simp [hn'.1]
      · simp [hk]
    · rw [h5]
      simp only [act_n, act_thr, act_msgs, List.flatMap_cons, List.append_assoc]
      congr 2
      apply flatMap_congr'
      intro i hi
      have : i ≠ a := fun h => hn'.1 (h ▸ hi)
      simp [act_node, this]

/-- node j's view of a batch of deliveries: only the messages addressed to it matter -/
theorem foldl_recv (j : Nat) : ∀ (l : List Msg) (s : State),
    (l.foldl State.recv s).n = s.n ∧ (l.foldl State.recv s).thr = s.thr ∧ (l.foldl State.recv s).conn = s.conn ∧
    (l.foldl State.recv s).node j =
      l.foldl (fun d m => if m.dst = j then d.recvStep s.n s.thr (s.conn m.src m.dst) m else d) (s.node j) := by
  intro l
  induction l with
  | nil => intro s; simp
  | cons m t ih =>
    intro s
    obtain ⟨h1, h2, h3, h4⟩ := ih (s.recv m)
    simp only [List.foldl_cons]
    refine ⟨by rw [h1]; rfl, by rw [h2]; rfl, by rw [h3]; rfl, ?_⟩
    rw [h4]
    have e1 : (s.recv m).n = s.n := rfl
    have e2 : (s.recv m).thr = s.thr := rfl
    have e3 : (s.recv m).conn = s.conn := rfl
    rw [e1, e2, e3]
    congr 1
    by_cases hj : m.dst = j
    · subst hj; simp [State.recv, act_node]
    · have : j ≠ m.dst := fun h => hj h.symm
      simp [State.recv, act_node, this, hj]


/-! ### the healthy side of the network -/

/-- `U` is one side of the network: running nodes, pairwise connected, and closed (every running node that has a link
to or from a member is a member) -/
structure Side (s : State) (U : List Nat) : Prop where
  nodup : U.Nodup
  lt : ∀ i ∈ U, i < s.n
  up : ∀ i ∈ U, (s.node i).up = true
  conn : ∀ i ∈ U, ∀ j ∈ U, s.conn i j = true
  closed : ∀ i ∈ U, ∀ k, k < s.n → (s.node k).up = true → (s.conn k i = true ∨ s.conn i k = true) → k ∈ U

theorem Side.ext {s s' : State} {U : List Nat} (h : Side s U) (e : Ext s s') : Side s' U :=
  ⟨h.nodup, fun i hi => e.n ▸ h.lt i hi, fun i hi => (e.up i).trans (h.up i hi),
   fun i hi j hj => by rw [e.conn]; exact h.conn i hi j hj,
   fun i hi k hk hu hc => h.closed i hi k (e.n ▸ hk) ((e.up k).symm.trans hu) (by rw [← e.conn]; exact hc)⟩

/-- no partial for a round above `h + 1` is in flight towards `U` or cached in `U` -/
def Quiet (s : State) (U : List Nat) (h : Nat) : Prop :=
  (∀ m ∈ s.msgs, m.dst ∈ U → s.conn m.src m.dst = true → m.round ≤ h + 1) ∧
  (∀ j ∈ U, ∀ r k, (s.node j).held r k = true → r ≤ h + 1)

/-- progress invariant of one node of the healthy side during a sub-round in which round `h + 1` is being signed:
either it already stores `h + 1`, or it sits at `h`, has not reached the threshold yet, caches nothing above `h + 1`
and holds the partial of every signer in `S` -/
def Prog (n thr h c : Nat) (S : Nat → Prop) (d : Node) : Prop :=
  d.up = true ∧ d.clock = c ∧
  (h + 1 ≤ d.head ∨
    (d.head = h ∧ count n d.held (h + 1) < thr ∧ (∀ r k, d.held r k = true → r ≤ h + 1) ∧ ∀ k, S k → d.held (h + 1) k = true))

theorem Prog.weaken {n thr h c : Nat} {S S' : Nat → Prop} {d : Node} (hp : Prog n thr h c S d) (hs : ∀ k, S' k → S k) :
    Prog n thr h c S' d := by
  obtain ⟨hu, hc, hd⟩ := hp
  refine ⟨hu, hc, ?_⟩
  rcases hd with hd | ⟨h1, h2, h3, h4⟩
  · exact Or.inl hd
  · exact Or.inr ⟨h1, h2, h3, fun k hk => h4 k (hs k hk)⟩

theorem Prog.head_ge {n thr h c : Nat} {S : Nat → Prop} {d : Node} (hp : Prog n thr h c S d) : h ≤ d.head := by
  rcases hp.2.2 with hd | ⟨h1, _⟩ <;> omega

/-- a partial on `h + 1` enters the aggregator of a node that satisfies the invariant -/
theorem prog_aggregate {n thr h c : Nat} {S : Nat → Prop} {d : Node} (hp : Prog n thr h c S d) (src : Nat) :
    Prog n thr h c (fun k => S k ∨ k = src) (d.aggregate n thr src (h + 1)) := by
  obtain ⟨hu, hc, hd⟩ := hp
  have hf := aggregate_frame n thr d src (h + 1)
  refine ⟨hf.1.trans hu, hf.2.1.trans hc, ?_⟩
  rcases hd with hd | ⟨h1, h2, h3, h4⟩
  · left; have := aggregate_head_le n thr d src (h + 1); omega
  · rcases aggregate_cases n thr d src (h + 1) with ⟨hw, _⟩ | ⟨_, hcnt, he⟩ | ⟨_, _, hlt, _⟩ | ⟨_, _, he⟩
    · exfalso; apply hw; have := Gen.partialCacheStoreLimit; omega
    · right
      rw [he]
      refine ⟨h1, hcnt, ?_, ?_⟩
      · intro r k hk
        simp only [setHeld_held, addPartial, Bool.or_eq_true, Bool.and_eq_true, decide_eq_true_eq] at hk
        rcases hk with hk | hk
        · omega
        · exact h3 r k hk
      · intro k hk
        simp only [setHeld_held, addPartial, Bool.or_eq_true, Bool.and_eq_true, decide_eq_true_eq]
        rcases hk with hk | hk
        · right; exact h4 k hk
        · left; exact ⟨trivial, hk⟩
    · omega
    · left
      rw [he]
      split <;> simp

/-- `ProcessPartialBeacon`: the packet is ignored, or it passes every filter and reaches the aggregator -/
theorem recvStep_cases (n thr : Nat) (reach : Bool) (d : Node) (m : Msg) :
    (d.recvStep n thr reach m = d ∧
      ¬ (d.up = true ∧ reach = true ∧ m.round ≤ d.clock + 1 ∧ d.head < m.round ∧ m.src ≠ m.dst)) ∨
    (d.up = true ∧ reach = true ∧ m.round ≤ d.clock + 1 ∧ d.head < m.round ∧ m.src ≠ m.dst ∧
      d.recvStep n thr reach m = d.aggregate n thr m.src m.round) := by
  unfold Node.recvStep
  simp only [Gen.ppbFuture, Gen.ppbPast]
  by_cases hu : d.up = true
  · by_cases hr : reach = true
    · by_cases hfut : d.clock + 1 < m.round
      · left; simp [hu, hr, hfut]; omega
      · by_cases hpast : m.round ≤ d.head
        · left; simp [hu, hr, hfut, hpast]; omega
        · by_cases hown : m.src = m.dst
          · left; simp [hu, hr, hfut, hpast, hown]
          · right; simp [hu, hr, hfut, hpast, hown]; omega
    · left; simp [hu, hr]
  · left; simp [hu]

/-- `ProcessPartialBeacon` on a message that is not above `h + 1` -/
theorem prog_recvStep {n thr h c : Nat} {S : Nat → Prop} {d : Node} (hc : h < c) (hp : Prog n thr h c S d)
    (reach : Bool) (m : Msg) (hm : reach = true → m.round ≤ h + 1) :
    Prog n thr h c (fun k => S k ∨ (reach = true ∧ m.round = h + 1 ∧ k = m.src ∧ m.src ≠ m.dst))
      (d.recvStep n thr reach m) := by
  rcases recvStep_cases n thr reach d m with ⟨he, hne⟩ | ⟨hu, hr, hfut, hpast, hown, he⟩
  · rw [he]
    obtain ⟨hu, hcl, hd⟩ := hp
    refine ⟨hu, hcl, ?_⟩
    rcases hd with hd | ⟨h1, h2, h3, h4⟩
    · exact Or.inl hd
    · right
      refine ⟨h1, h2, h3, ?_⟩
      intro k hk
      rcases hk with hk | ⟨hr, hround, _, hsd⟩
      · exact h4 k hk
      · exfalso; apply hne; refine ⟨hu, hr, ?_, ?_, hsd⟩ <;> omega
  · rw [he]
    have hge := hp.head_ge
    have hrd : m.round = h + 1 := by have := hm hr; omega
    rw [hrd]
    exact (prog_aggregate hp m.src).weaken (fun k hk => by
      rcases hk with hk | ⟨_, _, hk, _⟩
      · exact Or.inl hk
      · exact Or.inr hk)


/-- once the partial of every member of `U` is in, the threshold test cannot still be failing -/
theorem Prog.done {n thr h c : Nat} {S : Nat → Prop} {d : Node} (hp : Prog n thr h c S d) (U : List Nat)
    (hn : U.Nodup) (hlt : ∀ i ∈ U, i < n) (hthr : thr ≤ U.length) (hS : ∀ i ∈ U, S i) : h + 1 ≤ d.head := by
  rcases hp.2.2 with hd | ⟨_, h2, _, h4⟩
  · exact hd
  · exfalso
    have := count_ge n d.held (h + 1) U hn (fun i hi => ⟨hlt i hi, h4 i (hS i hi)⟩)
    omega

/-- node j's view of a batch of deliveries in which nothing deliverable is above `h + 1` -/
theorem prog_deliver {n thr h c : Nat} (conn : Nat → Nat → Bool) (j : Nat) (hc : h < c) :
    ∀ (L : List Msg) (d : Node) (S : Nat → Prop), Prog n thr h c S d →
      (∀ m ∈ L, m.dst = j → conn m.src m.dst = true → m.round ≤ h + 1) →
      Prog n thr h c (fun k => S k ∨ ∃ m ∈ L, m.dst = j ∧ conn m.src j = true ∧ m.round = h + 1 ∧ m.src = k ∧ k ≠ j)
        (L.foldl (fun d m => if m.dst = j then d.recvStep n thr (conn m.src m.dst) m else d) d) := by
  intro L
  induction L with
  | nil => intro d S hp _; exact hp.weaken (fun k hk => by rcases hk with hk | ⟨m, hm, _⟩; exact hk; cases hm)
  | cons m t ih =>
    intro d S hp hq
    simp only [List.foldl_cons]
    have hq' : ∀ m' ∈ t, m'.dst = j → conn m'.src m'.dst = true → m'.round ≤ h + 1 :=
      fun m' hm' => hq m' (by simp [hm'])
    by_cases hj : m.dst = j
    · simp only [hj, if_true]
      have h1 := prog_recvStep hc hp (conn m.src j) m (fun hr => hq m (by simp) hj (by rw [hj]; exact hr))
      refine (ih _ _ h1 hq').weaken ?_
      intro k hk
      rcases hk with hk | ⟨m', hm', h1, h2, h3, h4, h5⟩
      · exact Or.inl (Or.inl hk)
      · rcases List.mem_cons.mp hm' with he | hm''
        · subst he
          left; right
          exact ⟨h2, h3, h4.symm, by rw [h4, hj]; exact h5⟩
        · right; exact ⟨m', hm'', h1, h2, h3, h4, h5⟩
    · simp only [hj, if_false]
      refine (ih _ _ hp hq').weaken ?_
      intro k hk
      rcases hk with hk | ⟨m', hm', h1, h2, h3, h4, h5⟩
      · exact Or.inl hk
      · rcases List.mem_cons.mp hm' with he | hm''
        · subst he; exact absurd h1 hj
        · right; exact ⟨m', hm'', h1, h2, h3, h4, h5⟩

/-- a sync step: nothing, the request ends, or beacons are pulled up to `min syncTo (best peer)` which is above the head -/
theorem pull_cases (s : State) (i : Nat) :
    s.pull i = s ∨ s.pull i = s.setNode i ((s.node i).setSync 0) ∨
    ((s.node i).up = true ∧ (s.node i).head < min (s.node i).syncTo (s.maxPeerHead i) ∧
      ∃ v, s.pull i = s.setNode i (((s.node i).appendTo (min (s.node i).syncTo (s.maxPeerHead i))).setSync v)) := by
  unfold State.pull
  simp only [Gen.syncFilled]
  by_cases hu : (s.node i).up = true
  · by_cases h0 : (s.node i).syncTo = 0
    · left; simp [hu, h0]
    · by_cases hf : (s.node i).syncTo ≤ (s.node i).head
      · right; left
        have : 0 < (s.node i).syncTo := by omega
        simp [hu, h0, hf, this]
      · by_cases hm : s.maxPeerHead i ≤ (s.node i).head
        · right; left
          simp [hu, h0, hf, hm]
        · right; right
          refine ⟨hu, by omega, (if ((s.node i).appendTo (min (s.node i).syncTo (s.maxPeerHead i))).head < (s.node i).syncTo then (s.node i).syncTo else 0), ?_⟩
          simp [hu, h0, hf, hm]
  · left; simp [hu]

/-- a sync step of any node keeps the invariant of node j -/
theorem prog_pull {n thr h c : Nat} {S : Nat → Prop} (s : State) (i j : Nat) (hp : Prog n thr h c S (s.node j)) :
    Prog n thr h c S ((s.pull i).node j) := by
  rcases pull_cases s i with he | he | ⟨_, hlt, v, he⟩ <;> rw [he]
  · exact hp
  · by_cases hj : j = i
    · subst hj; simp only [setNode_same]; exact ⟨hp.1, hp.2.1, hp.2.2⟩
    · rw [setNode_other _ _ _ _ hj]; exact hp
  · by_cases hj : j = i
    · subst hj
      simp only [setNode_same]
      refine ⟨by simpa using hp.1, by simpa using hp.2.1, Or.inl ?_⟩
      have := hp.head_ge
      simp only [setSync_head, appendTo_head]
      omega
    · rw [setNode_other _ _ _ _ hj]; exact hp

theorem prog_foldl_pull {n thr h c : Nat} {S : Nat → Prop} (j : Nat) : ∀ (l : List Nat) (s : State),
    Prog n thr h c S (s.node j) → Prog n thr h c S ((l.foldl State.pull s).node j) := by
  intro l
  induction l with
  | nil => intro s hp; exact hp
  | cons a t ih => intro s hp; exact ih _ (prog_pull s a j hp)


theorem prog_setSync {n thr h c : Nat} {S : Nat → Prop} {d : Node} (v : Nat) (hp : Prog n thr h c S d) :
    Prog n thr h c S (d.setSync v) := hp

/-- the node's own partial on `h + 1` enters its aggregator (tick, or wake-up of a catch-up goroutine) -/
theorem prog_first {n thr h c : Nat} {d : Node} (hu : d.up = true) (hcl : d.clock = c) (hh : d.head = h)
    (hq : ∀ r k, d.held r k = true → r ≤ h + 1) (i : Nat) :
    Prog n thr h c (fun k => k = i) (d.aggregate n thr i (h + 1)) := by
  have hf := aggregate_frame n thr d i (h + 1)
  refine ⟨hf.1.trans hu, hf.2.1.trans hcl, ?_⟩
  rcases aggregate_cases n thr d i (h + 1) with ⟨hw, _⟩ | ⟨_, hcnt, he⟩ | ⟨_, _, hlt, _⟩ | ⟨_, _, he⟩
  · exfalso; apply hw; have := Gen.partialCacheStoreLimit; omega
  · right
    rw [he]
    refine ⟨hh, hcnt, ?_, ?_⟩
    · intro r k hk
      simp only [setHeld_held, addPartial, Bool.or_eq_true, Bool.and_eq_true, decide_eq_true_eq] at hk
      rcases hk with hk | hk
      · omega
      · exact hq r k hk
    · intro k hk
      simp [setHeld_held, addPartial, hk]
  · omega
  · left
    rw [he]
    split <;> simp

theorem bnpRound_behind {c h : Nat} (hc : h < c) : Gen.bnpRound c h = h + 1 := by
  have : c ≠ h := by omega
  simp [Gen.bnpRound, this]

/-- the tick of a node of the healthy side that sits at `h < c` -/
theorem prog_tickStep {n thr h c : Nat} {d : Node} (hu : d.up = true) (hcl : d.clock = c) (hh : d.head = h) (hc : h < c)
    (hq : ∀ r k, d.held r k = true → r ≤ h + 1) (i : Nat) :
    Prog n thr h c (fun k => k = i) (d.tickStep n thr i).1 ∧ (d.tickStep n thr i).2 = others n i (h + 1) := by
  unfold Node.tickStep
  simp only [hu, Bool.not_true, Bool.false_eq_true, if_false, Node.broadcast, hcl, hh, bnpRound_behind hc]
  have h1 : Prog n thr h c (fun k => k = i) ((d.setTick c).aggregate n thr i (h + 1)) :=
    prog_first (d := d.setTick c) hu hcl hh hq i
  split
  · exact ⟨prog_setSync _ h1, rfl⟩
  · exact ⟨h1, rfl⟩

theorem mem_others {n i r : Nat} {m : Msg} : m ∈ others n i r ↔ m.src = i ∧ m.round = r ∧ m.dst < n ∧ m.dst ≠ i := by
  unfold others
  simp only [List.mem_map, List.mem_filter, List.mem_range, bne_iff_ne, ne_eq]
  constructor
  · rintro ⟨j, ⟨hj, hne⟩, rfl⟩; exact ⟨rfl, rfl, hj, hne⟩
  · rintro ⟨h1, h2, h3, h4⟩
    exact ⟨m.dst, ⟨h3, h4⟩, by cases m; simp_all⟩

theorem tickStep_msgs {n thr i : Nat} {d : Node} {m : Msg} (hm : m ∈ (d.tickStep n thr i).2) :
    d.up = true ∧ m.src = i ∧ m.round = Gen.bnpRound d.clock d.head := by
  unfold Node.tickStep at hm
  by_cases hu : d.up = true
  · simp only [hu, Bool.not_true, Bool.false_eq_true, if_false, Node.broadcast] at hm
    have : m ∈ others n i (Gen.bnpRound d.clock d.head) := by split at hm <;> exact hm
    exact ⟨hu, (mem_others.mp this).1, (mem_others.mp this).2.1⟩
  · simp [hu] at hm


theorem pull_frame (s : State) (i : Nat) :
    (s.pull i).n = s.n ∧ (s.pull i).thr = s.thr ∧ (s.pull i).conn = s.conn ∧ (s.pull i).msgs = s.msgs := by
  rcases pull_cases s i with he | he | ⟨_, _, v, he⟩ <;> rw [he] <;> simp

theorem foldl_pull_frame : ∀ (l : List Nat) (s : State),
    (l.foldl State.pull s).n = s.n ∧ (l.foldl State.pull s).thr = s.thr ∧ (l.foldl State.pull s).conn = s.conn ∧
    (l.foldl State.pull s).msgs = s.msgs := by
  intro l
  induction l with
  | nil => intro s; simp
  | cons a t ih =>
    intro s
    obtain ⟨h1, h2, h3, h4⟩ := ih (s.pull a)
    obtain ⟨g1, g2, g3, g4⟩ := pull_frame s a
    simp only [List.foldl_cons]
    exact ⟨h1.trans g1, h2.trans g2, h3.trans g3, h4.trans g4⟩

/-- the settle phase of a sub-round in which every member of the healthy side has just broadcast its partial on `h + 1` -/
theorem settle_progress (s : State) (U : List Nat) (h c : Nat) (hU : Side s U) (hthr : s.thr ≤ U.length) (hc : h < c)
    (j : Nat) (hj : j ∈ U)
    (hp : Prog s.n s.thr h c (fun k => k = j) (s.node j))
    (hq : ∀ m ∈ s.msgs, m.dst = j → s.conn m.src m.dst = true → m.round ≤ h + 1)
    (hm : ∀ i ∈ U, i ≠ j → (⟨i, j, h + 1⟩ : Msg) ∈ s.msgs) :
    h + 1 ≤ (s.settle.node j).head := by
  -- syncs pull
  have hB := prog_foldl_pull j (List.range s.n) s hp
  obtain ⟨b1, b2, b3, b4⟩ := foldl_pull_frame (List.range s.n) s
  -- every message is delivered
  have hC0 := foldl_recv j ((List.range s.n).foldl State.pull s).msgs { ((List.range s.n).foldl State.pull s) with msgs := [] }
  obtain ⟨c1, c2, c3, c4⟩ := hC0
  have hC : h + 1 ≤ (((List.range s.n).foldl State.pull s).deliverAll.node j).head := by
    unfold State.deliverAll
    rw [c4]
    simp only [b1, b2, b3, b4]
    have hD := prog_deliver (n := s.n) (thr := s.thr) s.conn j hc s.msgs _ _ hB hq
    refine hD.done U hU.nodup hU.lt hthr ?_
    intro i hi
    by_cases hij : i = j
    · exact Or.inl hij
    · right
      exact ⟨⟨i, j, h + 1⟩, hm i hi hij, rfl, hU.conn i hi j hj, rfl, rfl, hij⟩
  -- syncs pull again
  exact Nat.le_trans hC ((ext_forAll _ _ ext_pull).head j)

/-- **Step progress.** In a fair round with a healthy side `U` (running, pairwise connected, closed) of at least `thr`
nodes whose heads all equal `h`, below the round `c` their clocks are about to show, every member of `U` stores round
`h + 1`.  `Quiet`: no partial for a round above `h + 1` is in flight towards `U` or cached in `U` (true whenever no node
is ahead of `U`, `c05_quiet_of_heads`). -/
theorem c05_step_progress (s : State) (U : List Nat) (h c : Nat)
    (hU : Side s U) (hthr : s.thr ≤ U.length)
    (hhead : ∀ i ∈ U, (s.node i).head = h) (hclk : ∀ i ∈ U, (s.node i).clock + 1 = c) (hc : h < c)
    (hq : Quiet s U h) :
    ∀ j ∈ U, h + 1 ≤ (s.fairTick.node j).head := by
  intro j hj
  obtain ⟨a1, a2, a3, a4, a5⟩ := foldl_act (fun n thr i => Node.tickStep n thr i) (List.range s.advance.n) s.advance List.nodup_range
  have e0 : ∀ k, (s.advance.node k).up = (s.node k).up ∧ (s.advance.node k).head = (s.node k).head ∧
      (s.advance.node k).clock = (s.node k).clock + 1 ∧ (s.advance.node k).held = (s.node k).held := fun k => ⟨rfl, rfl, rfl, rfl⟩
  have hstep : ∀ i ∈ U, Prog s.n s.thr h c (fun k => k = i) (Node.tickStep s.n s.thr i (s.advance.node i)).1 ∧
      (Node.tickStep s.n s.thr i (s.advance.node i)).2 = others s.n i (h + 1) := by
    intro i hi
    exact prog_tickStep ((e0 i).1.trans (hU.up i hi)) ((e0 i).2.2.1.trans (hclk i hi)) ((e0 i).2.1.trans (hhead i hi)) hc
      (fun r k hk => hq.2 i hi r k (by rw [← (e0 i).2.2.2]; exact hk)) i
  have hside : Side (s.advance.forAll State.tick) U := by
    have : Ext s.advance (s.advance.forAll State.tick) := ext_forAll _ _ ext_tick
    refine Side.ext ?_ this
    exact ⟨hU.nodup, hU.lt, hU.up, hU.conn, hU.closed⟩
  have hn : (s.advance.forAll State.tick).n = s.n := a1
  have ht : (s.advance.forAll State.tick).thr = s.thr := a2
  have hcn : (s.advance.forAll State.tick).conn = s.conn := a3
  have hres := settle_progress (s.advance.forAll State.tick) U h c hside (by rw [ht]; exact hthr) hc j hj ?_ ?_ ?_
  · exact hres
  · -- node j after its tick
    rw [hn, ht]
    have := a4 j
    simp only [List.mem_range] at this
    have hlt : j < s.advance.n := hU.lt j hj
    simp only [hlt, if_true] at this
    show Prog s.n s.thr h c (fun k => k = j) (((List.range s.advance.n).foldl State.tick s.advance).node j)
    rw [show ((List.range s.advance.n).foldl State.tick s.advance).node j = _ from this]
    exact (hstep j hj).1
  · -- nothing deliverable to j is above h + 1
    intro m hm hdst hconn
    rw [hcn] at hconn
    have hm' : m ∈ s.advance.msgs ++ (List.range s.advance.n).flatMap (fun i => (Node.tickStep s.advance.n s.advance.thr i (s.advance.node i)).2) := by
      rw [← a5]; exact hm
    rcases List.mem_append.mp hm' with h1 | h1
    · exact hq.1 m h1 (hdst ▸ hj) hconn
    · obtain ⟨i, hi, hmi⟩ := List.mem_flatMap.mp h1
      have hts := tickStep_msgs hmi
      have hiU : i ∈ U := hU.closed j hj i (List.mem_range.mp hi) ((e0 i).1.symm.trans hts.1)
        (Or.inl (by rw [← hts.2.1, ← hdst]; exact hconn))
      rw [hts.2.2, (e0 i).2.1, (e0 i).2.2.1, hclk i hiU, hhead i hiU, bnpRound_behind hc]
      exact Nat.le_refl _
  · -- every other member's partial on h + 1 is in flight towards j
    intro i hi hij
    have : (⟨i, j, h + 1⟩ : Msg) ∈ s.advance.msgs ++ (List.range s.advance.n).flatMap (fun i => (Node.tickStep s.advance.n s.advance.thr i (s.advance.node i)).2) := by
      apply List.mem_append.mpr; right
      apply List.mem_flatMap.mpr
      refine ⟨i, List.mem_range.mpr (hU.lt i hi), ?_⟩
      have := (hstep i hi).2
      show (⟨i, j, h + 1⟩ : Msg) ∈ (Node.tickStep s.n s.thr i (s.advance.node i)).2
      rw [this]
      exact mem_others.mpr ⟨rfl, rfl, hU.lt j hj, fun e => hij e.symm⟩
    rw [← a5] at this
    exact this


/-! ### levelling by sync -/

private theorem foldl_max_ge (f : Nat → Bool) (g : Nat → Nat) : ∀ (l : List Nat) (acc : Nat),
    acc ≤ l.foldl (fun m j => if f j then max m (g j) else m) acc ∧
    ∀ x ∈ l, f x = true → g x ≤ l.foldl (fun m j => if f j then max m (g j) else m) acc := by
  intro l
  induction l with
  | nil => intro acc; simp
  | cons a t ih =>
    intro acc
    simp only [List.foldl_cons]
    have h1 := ih (if f a then max acc (g a) else acc)
    refine ⟨?_, ?_⟩
    · refine Nat.le_trans ?_ h1.1
      split <;> omega
    · intro x hx hfx
      rcases List.mem_cons.mp hx with he | hx'
      · subst he
        refine Nat.le_trans ?_ h1.1
        simp [hfx]; omega
      · exact h1.2 x hx' hfx

theorem maxPeerHead_ge (s : State) (i m : Nat) (hm : m < s.n) (hok : s.peerOk i m = true) :
    (s.node m).head ≤ s.maxPeerHead i := by
  unfold State.maxPeerHead
  exact (foldl_max_ge (fun j => s.peerOk i j) (fun j => (s.node j).head) (List.range s.n) 0).2 m (List.mem_range.mpr hm) hok

theorem foldl_pull_other (j : Nat) : ∀ (l : List Nat) (s : State), j ∉ l → (l.foldl State.pull s).node j = s.node j := by
  intro l
  induction l with
  | nil => intro s _; rfl
  | cons a t ih =>
    intro s hj
    simp only [List.foldl_cons]
    have hja : j ≠ a := fun h => hj (by simp [h])
    rw [ih (s.pull a) (fun h => hj (by simp [h]))]
    rcases pull_cases s a with he | he | ⟨_, _, v, he⟩ <;> rw [he]
    · exact setNode_other _ _ _ _ hja
    · exact setNode_other _ _ _ _ hja

theorem tickStep_sync (n thr i : Nat) (d : Node) (hu : d.up = true) (hg : d.head + 1 < d.clock) :
    d.clock ≤ (d.tickStep n thr i).1.syncTo := by
  unfold Node.tickStep
  have : Gen.gapSync d.head d.clock = true := by simp [Gen.gapSync, hg]
  simp only [hu, Bool.not_true, Bool.false_eq_true, if_false, this, if_true, setSync_syncTo]
  omega

/-- **Levelling.** Within one fair round after the network healed, every member of the healthy side `U` reaches the
largest head `H` found in `U` (by the sync rule: the tick sees a gap and launches `RunSync`), provided `H` is below the
round `c` the clocks are about to show. -/
theorem c05_level (s : State) (U : List Nat) (H c : Nat) (hU : Side s U)
    (hclk : ∀ i ∈ U, (s.node i).clock + 1 = c)
    (hmax : ∃ m ∈ U, (s.node m).head = H) (hc : H < c) :
    ∀ j ∈ U, H ≤ (s.fairTick.node j).head := by
  intro j hj
  obtain ⟨m, hmU, hmH⟩ := hmax
  have eAll : Ext s.advance s.fairTick := Ext.trans (ext_forAll _ _ ext_tick) (ext_settle _)
  have e0 : ∀ k, (s.advance.node k).up = (s.node k).up ∧ (s.advance.node k).head = (s.node k).head ∧
      (s.advance.node k).clock = (s.node k).clock + 1 := fun k => ⟨rfl, rfl, rfl⟩
  by_cases hjh : H ≤ (s.node j).head
  · exact Nat.le_trans hjh (Nat.le_trans (Nat.le_of_eq (e0 j).2.1.symm) (eAll.head j))
  · have hmj : m ≠ j := fun h => hjh (by rw [← h, hmH]; exact Nat.le_refl _)
    -- after the ticks: node j has a sync request up to c
    obtain ⟨a1, a2, a3, a4, a5⟩ := foldl_act (fun n thr i => Node.tickStep n thr i) (List.range s.advance.n) s.advance List.nodup_range
    have hA : Ext s.advance (s.advance.forAll State.tick) := ext_forAll _ _ ext_tick
    have hjA : ((s.advance.forAll State.tick).node j) = (Node.tickStep s.n s.thr j (s.advance.node j)).1 := by
      have := a4 j
      simp only [List.mem_range, show j < s.advance.n from hU.lt j hj, if_true] at this
      exact this
    have hsync : c ≤ ((s.advance.forAll State.tick).node j).syncTo := by
      rw [hjA]
      have := tickStep_sync s.n s.thr j (s.advance.node j) ((e0 j).1.trans (hU.up j hj))
        (by rw [(e0 j).2.1, (e0 j).2.2, hclk j hj]; omega)
      rw [(e0 j).2.2, hclk j hj] at this
      exact this
    -- the pulls: split the range at j
    obtain ⟨l1, l2, hl⟩ := List.append_of_mem (List.mem_range.mpr (hA.n ▸ hU.lt j hj) : j ∈ List.range (s.advance.forAll State.tick).n)
    have hnd : (l1 ++ j :: l2).Nodup := hl ▸ List.nodup_range
    have hj1 : j ∉ l1 := by
      intro h
      have := (List.nodup_append.mp hnd).2.2 j h j (by simp)
      exact this rfl
    let sA := s.advance.forAll State.tick
    let s1 := l1.foldl State.pull sA
    have hs1 : Ext sA s1 := ext_foldl _ ext_pull _ _
    have hj1n : s1.node j = sA.node j := foldl_pull_other j l1 sA hj1
    have hstep : H ≤ ((s1.pull j).node j).head := by
      have hmph : H ≤ s1.maxPeerHead j := by
        have hok : s1.peerOk j m = true := by
          have hup : (s1.node m).up = true := by
            rw [hs1.up m, hA.up m, (e0 m).1]; exact hU.up m hmU
          have hcn : s1.conn = s.conn := hs1.conn.trans hA.conn
          simp [State.peerOk, hmj, hup, hcn, hU.conn j hj m hmU, hU.conn m hmU j hj]
        have := maxPeerHead_ge s1 j m (by rw [hs1.n, hA.n]; exact hU.lt m hmU) hok
        have h2 : H ≤ (s1.node m).head := by
          have := Nat.le_trans (hA.head m) (hs1.head m)
          rw [(e0 m).2.1, hmH] at this; exact this
        omega
      rcases pull_cases s1 j with he | he | ⟨_, hlt, v, he⟩
      · -- nothing happened: impossible unless the head is already there
        by_cases hdone : H ≤ (s1.node j).head
        · rw [he]; exact hdone
        · exfalso
          have hup : (s1.node j).up = true := by rw [hs1.up j, hA.up j, (e0 j).1]; exact hU.up j hj
          have hsy : c ≤ (s1.node j).syncTo := by rw [hj1n]; exact hsync
          have : s1.pull j ≠ s1 := by
            intro hcontra
            have h3 := congrArg (fun x => (x.node j).head) hcontra
            unfold State.pull at hcontra
            have hf : Gen.syncFilled (s1.node j).syncTo (s1.node j).head = false := by
              simp [Gen.syncFilled]; omega
            have hne : (s1.node j).syncTo ≠ 0 := by omega
            have hm2 : ¬ s1.maxPeerHead j ≤ (s1.node j).head := by omega
            simp only [hup, Bool.not_true, Bool.false_eq_true, if_false, hne, hf, hm2] at hcontra
            have h4 := congrArg (fun x => (x.node j).head) hcontra
            simp only [setNode_same, setSync_head, appendTo_head] at h4
            omega
          exact this he
      · by_cases hdone : H ≤ (s1.node j).head
        · rw [he]; simpa using hdone
        · exfalso
          have hup : (s1.node j).up = true := by rw [hs1.up j, hA.up j, (e0 j).1]; exact hU.up j hj
          have hsy : c ≤ (s1.node j).syncTo := by rw [hj1n]; exact hsync
          unfold State.pull at he
          have hf : Gen.syncFilled (s1.node j).syncTo (s1.node j).head = false := by
            simp [Gen.syncFilled]; omega
          have hne : (s1.node j).syncTo ≠ 0 := by omega
          have hm2 : ¬ s1.maxPeerHead j ≤ (s1.node j).head := by omega
          simp only [hup, Bool.not_true, Bool.false_eq_true, if_false, hne, hf, hm2] at he
          have h4 := congrArg (fun x => (x.node j).head) he
          simp only [setNode_same, setSync_head, appendTo_head] at h4
          omega
      · rw [he]
        simp only [setNode_same, setSync_head, appendTo_head]
        have hsy : c ≤ (s1.node j).syncTo := by rw [hj1n]; exact hsync
        omega
    -- the rest of the sub-round only moves heads up
    have hrest : Ext (s1.pull j) s.fairTick := by
      have h1 : sA.forAll State.pull = l2.foldl State.pull (s1.pull j) := by
        show (List.range sA.n).foldl State.pull sA = _
        rw [hl, List.foldl_append, List.foldl_cons]
      have h2 : s.fairTick = ((sA.forAll State.pull).deliverAll).forAll State.pull := rfl
      rw [h2, h1]
      exact Ext.trans (Ext.trans (ext_foldl _ ext_pull _ _) (ext_deliverAll _)) (ext_forAll _ _ ext_pull)
    exact Nat.le_trans hstep (hrest.head j)


/-! ### below the threshold nothing new is produced -/

/-- node level: the head is at most `H` and every cached partial on a round above `H` was signed by a member of `D` -/
def BelowN (n H : Nat) (D : List Nat) (d : Node) : Prop :=
  d.head ≤ H ∧ ∀ r k, d.held r k = true → H < r → k < n → k ∈ D

/-- `D` lists the nodes that may still sign (the running ones), `H` bounds every head, and every partial in play for a
round above `H` comes from `D` -/
structure Below (s : State) (D : List Nat) (H : Nat) : Prop where
  node : ∀ i, BelowN s.n H D (s.node i)
  ups : ∀ i, i < s.n → (s.node i).up = true → i ∈ D
  msgs : ∀ m ∈ s.msgs, H < m.round → m.src < s.n → m.src ∈ D

theorem below_aggregate {n thr H : Nat} {D : List Nat} {d : Node} (hD : D.length < thr) (hb : BelowN n H D d)
    (src r : Nat) (hs : H < r → src < n → src ∈ D) : BelowN n H D (d.aggregate n thr src r) := by
  obtain ⟨hh, hheld⟩ := hb
  have hadd : ∀ r' k, addPartial d.held r src r' k = true → H < r' → k < n → k ∈ D := by
    intro r' k hk hr hkn
    simp only [addPartial, Bool.or_eq_true, Bool.and_eq_true, decide_eq_true_eq] at hk
    rcases hk with ⟨h1, h2⟩ | hk
    · subst h1; subst h2; exact hs hr hkn
    · exact hheld r' k hk hr hkn
  have hfl : ∀ r' k, flush (addPartial d.held r src) r r' k = true → H < r' → k < n → k ∈ D := by
    intro r' k hk
    simp only [flush, Bool.and_eq_true] at hk
    exact hadd r' k hk.2
  rcases aggregate_cases n thr d src r with ⟨_, he⟩ | ⟨_, _, he⟩ | ⟨_, _, _, he⟩ | ⟨hcnt, hr, he⟩ <;> rw [he]
  · exact ⟨hh, hheld⟩
  · exact ⟨hh, hadd⟩
  · exact ⟨hh, hfl⟩
  · have hrH : r ≤ H := by
      by_cases hle : r ≤ H
      · exact hle
      · exfalso
        have := count_le n (addPartial d.held r src) r D (fun k hk hkh => hadd r k hkh (by omega) hk)
        omega
    split
    · exact ⟨by simpa using hrH, by simpa using hfl⟩
    · exact ⟨by simpa using hrH, by simpa using hfl⟩

theorem below_tickStep {n thr H i : Nat} {D : List Nat} {d : Node} (hD : D.length < thr) (hb : BelowN n H D d)
    (hi : i < n → d.up = true → i ∈ D) :
    BelowN n H D (d.tickStep n thr i).1 ∧ ∀ m ∈ (d.tickStep n thr i).2, H < m.round → m.src < n → m.src ∈ D := by
  unfold Node.tickStep
  by_cases hu : d.up = true
  · simp only [hu, Bool.not_true, Bool.false_eq_true, if_false, Node.broadcast]
    have h1 : BelowN n H D ((d.setTick d.clock).aggregate n thr i (Gen.bnpRound d.clock d.head)) :=
      below_aggregate hD (d := d.setTick d.clock) hb i _ (fun _ hin => hi hin hu)
    have h2 : ∀ m ∈ others n i (Gen.bnpRound d.clock d.head), H < m.round → m.src < n → m.src ∈ D := by
      intro m hm _ hsn
      have := (mem_others.mp hm).1
      rw [this] at hsn ⊢
      exact hi hsn hu
    split
    · exact ⟨h1, h2⟩
    · exact ⟨h1, h2⟩
  · simp [hu]; exact hb

theorem below_fireStep {n thr H i : Nat} {D : List Nat} {d : Node} (hD : D.length < thr) (hb : BelowN n H D d)
    (hi : i < n → d.up = true → i ∈ D) :
    BelowN n H D (d.fireStep n thr i).1 ∧ ∀ m ∈ (d.fireStep n thr i).2, H < m.round → m.src < n → m.src ∈ D := by
  unfold Node.fireStep
  by_cases hu : d.up = true
  · simp only [hu, Bool.not_true, Bool.false_eq_true, if_false]
    split
    · exact ⟨hb, by simp⟩
    · rename_i r rest _
      simp only [Node.broadcast]
      refine ⟨below_aggregate hD (d := d.setPending rest) hb i _ (fun _ hin => hi hin hu), ?_⟩
      intro m hm _ hsn
      have := (mem_others.mp hm).1
      rw [this] at hsn ⊢
      exact hi hsn hu
  · simp [hu]; exact hb

theorem below_recvStep {n thr H : Nat} {D : List Nat} {d : Node} (hD : D.length < thr) (hb : BelowN n H D d)
    (reach : Bool) (m : Msg) (hm : H < m.round → m.src < n → m.src ∈ D) : BelowN n H D (d.recvStep n thr reach m) := by
  rcases recvStep_cases n thr reach d m with ⟨he, _⟩ | ⟨_, _, _, _, _, he⟩ <;> rw [he]
  · exact hb
  · exact below_aggregate hD hb m.src m.round hm

theorem below_act {s : State} {D : List Nat} {H : Nat} (hb : Below s D H) (i : Nat) (F : Node → Node × List Msg)
    (hu : (F (s.node i)).1.up = (s.node i).up)
    (h1 : BelowN s.n H D (F (s.node i)).1) (h2 : ∀ m ∈ (F (s.node i)).2, H < m.round → m.src < s.n → m.src ∈ D) :
    Below (s.act i F) D H := by
  refine ⟨?_, ?_, ?_⟩
  · intro k
    by_cases hk : k = i
    · subst hk; simpa [act_node] using h1
    · simpa [act_node, hk] using hb.node k
  · intro k hkn hku
    by_cases hk : k = i
    · subst hk; simp only [act_node, if_true] at hku; exact hb.ups k hkn (hu ▸ hku)
    · simp only [act_node, hk, if_false] at hku; exact hb.ups k hkn hku
  · intro m hm
    simp only [act_msgs, List.mem_append] at hm
    rcases hm with hm | hm
    · exact hb.msgs m hm
    · exact h2 m hm

theorem below_recv {s : State} {D : List Nat} {H : Nat} (hD : D.length < s.thr) (hb : Below s D H) (m : Msg)
    (hm : H < m.round → m.src < s.n → m.src ∈ D) : Below (s.recv m) D H :=
  below_act hb m.dst _ (next_recvStep _ _ _ _ _).1 (below_recvStep hD (hb.node m.dst) _ m hm) (by simp)

theorem below_foldl_recv {D : List Nat} {H : Nat} : ∀ (l : List Msg) (s : State), D.length < s.thr → Below s D H →
    (∀ m ∈ l, H < m.round → m.src < s.n → m.src ∈ D) → Below (l.foldl State.recv s) D H := by
  intro l
  induction l with
  | nil => intro s _ hb _; exact hb
  | cons a t ih =>
    intro s hD hb hl
    simp only [List.foldl_cons]
    exact ih (s.recv a) hD (below_recv hD hb a (hl a (by simp))) (fun m hm => hl m (by simp [hm]))

private theorem foldl_max_le (f : Nat → Bool) (g : Nat → Nat) (B : Nat) : ∀ (l : List Nat) (acc : Nat),
    (∀ x ∈ l, f x = true → g x ≤ B) → acc ≤ B → l.foldl (fun m j => if f j then max m (g j) else m) acc ≤ B := by
  intro l
  induction l with
  | nil => intro acc _ h; exact h
  | cons a t ih =>
    intro acc hg h
    simp only [List.foldl_cons]
    apply ih _ (fun x hx => hg x (by simp [hx]))
    by_cases hfa : f a = true
    · have := hg a (by simp) hfa
      simp [hfa]; omega
    · simp [hfa]; exact h

theorem maxPeerHead_le (s : State) (i B : Nat) (h : ∀ m, m < s.n → s.peerOk i m = true → (s.node m).head ≤ B) :
    s.maxPeerHead i ≤ B := by
  unfold State.maxPeerHead
  exact foldl_max_le _ _ B _ _ (fun x hx hf => h x (List.mem_range.mp hx) hf) (Nat.zero_le _)

theorem below_pull {s : State} {D : List Nat} {H : Nat} (hb : Below s D H) (i : Nat) : Below (s.pull i) D H := by
  have hmph : s.maxPeerHead i ≤ H := maxPeerHead_le s i H (fun m _ _ => (hb.node m).1)
  have key : ∀ d : Node, d.up = (s.node i).up → BelowN s.n H D d → Below (s.setNode i d) D H := by
    intro d hu hd
    refine ⟨?_, ?_, hb.msgs⟩
    · intro k
      by_cases hk : k = i
      · subst hk; simpa using hd
      · rw [setNode_other _ _ _ _ hk]; exact hb.node k
    · intro k hkn hku
      by_cases hk : k = i
      · subst hk; simp only [setNode_same] at hku; exact hb.ups k hkn (hu ▸ hku)
      · rw [setNode_other _ _ _ _ hk] at hku; exact hb.ups k hkn hku
  rcases pull_cases s i with he | he | ⟨_, hlt, v, he⟩ <;> rw [he]
  · exact hb
  · exact key _ rfl (hb.node i)
  · apply key _ (by simp)
    refine ⟨?_, ?_⟩
    · simp only [setSync_head, appendTo_head]; omega
    · intro r k hk
      simp only [setSync_held, appendTo_held, Bool.and_eq_true] at hk
      exact (hb.node i).2 r k hk.2

/-- **Below the threshold no new beacon appears.** If fewer than `thr` nodes (the list `D`) can still sign — the
running ones — and every partial in play for a round above the highest head `H` comes from them, then whatever the
schedule (any finite list of events without a restart: ticks, catch-up wake-ups, deliveries, losses, syncs, stops,
partitions, clock advances), no head ever exceeds `H`. This is the safety side needed by C03. -/
theorem c05_below_threshold_no_progress (D : List Nat) (H : Nat) (evs : List Ev) :
    ∀ (s : State), D.length < s.thr → Below s D H → (∀ e ∈ evs, ∀ i, e ≠ .restart i) →
      Below (s.run evs) D H ∧ ∀ i, ((s.run evs).node i).head ≤ H := by
  induction evs with
  | nil => intro s _ hb _; exact ⟨hb, fun i => (hb.node i).1⟩
  | cons e t ih =>
    intro s hD hb hne
    have hstep : Below (s.apply e) D H ∧ (s.apply e).thr = s.thr := by
      cases e with
      | advance =>
        refine ⟨⟨fun i => hb.node i, fun i hi hu => hb.ups i hi hu, hb.msgs⟩, rfl⟩
      | tick i =>
        have := below_tickStep (n := s.n) (thr := s.thr) (i := i) hD (hb.node i) (fun hin hu => hb.ups i hin hu)
        exact ⟨below_act hb i _ (next_tickStep _ _ _ _).1 this.1 this.2, rfl⟩
      | fire i =>
        have := below_fireStep (n := s.n) (thr := s.thr) (i := i) hD (hb.node i) (fun hin hu => hb.ups i hin hu)
        exact ⟨below_act hb i _ (next_fireStep _ _ _ _).1 this.1 this.2, rfl⟩
      | deliver k =>
        simp only [State.apply]
        split
        · rename_i m hm
          have hmem : m ∈ s.msgs := List.mem_of_getElem? hm
          have hb' : Below { s with msgs := s.msgs.eraseIdx k } D H :=
            ⟨hb.node, hb.ups, fun m' hm' => hb.msgs m' ((List.eraseIdx_sublist _ _).subset hm')⟩
          exact ⟨below_recv (s := { s with msgs := s.msgs.eraseIdx k }) hD hb' m (hb.msgs m hmem), rfl⟩
        · exact ⟨hb, rfl⟩
      | drop k =>
        exact ⟨⟨hb.node, hb.ups, fun m' hm' => hb.msgs m' ((List.eraseIdx_sublist _ _).subset hm')⟩, rfl⟩
      | deliverAll =>
        have hb' : Below { s with msgs := [] } D H := ⟨hb.node, hb.ups, by simp⟩
        refine ⟨below_foldl_recv s.msgs { s with msgs := [] } hD hb' hb.msgs, ?_⟩
        exact (ext_deliverAll s).thr
      | pull i => exact ⟨below_pull hb i, (ext_pull s i).thr⟩
      | stop i =>
        refine ⟨⟨?_, ?_, hb.msgs⟩, rfl⟩
        · intro k
          by_cases hk : k = i
          · subst hk
            simp only [State.apply, State.stop, setNode_same]
            exact ⟨(hb.node k).1, by simp⟩
          · simp only [State.apply, State.stop]; rw [setNode_other _ _ _ _ hk]; exact hb.node k
        · intro k hkn hku
          by_cases hk : k = i
          · subst hk; simp [State.apply, State.stop] at hku
          · simp only [State.apply, State.stop] at hku; rw [setNode_other _ _ _ _ hk] at hku; exact hb.ups k hkn hku
      | restart i => exact absurd rfl (hne _ (by simp) i)
      | setConn c => exact ⟨⟨hb.node, hb.ups, hb.msgs⟩, rfl⟩
    exact ih (s.apply e) (by rw [hstep.2]; exact hD) hstep.1 (fun e' he' => hne e' (by simp [he']))


/-! ### the catch-up chain, exactly -/

/-- a node of the healthy side between two sub-rounds: stores exactly `h`, clock and last tick at `c`, the catch-up
goroutines listed in `P` asleep, nothing in the partial cache -/
structure Lvl (h c : Nat) (P : List Nat) (d : Node) : Prop where
  up : d.up = true
  head : d.head = h
  clock : d.clock = c
  tick : d.lastTick = c
  pend : d.pending = P
  clean : ∀ r k, d.held r k = false

/-- the catch-up goroutine launched when `h + 1` is appended while the ticked round is `c` -/
def nextPend (h c : Nat) : List Nat := if h + 1 < c then [h + 1] else []

/-- exact invariant of one node of the healthy side during a sub-round in which `h + 1` is being signed -/
def Exact (n thr h c : Nat) (S : Nat → Prop) (d : Node) : Prop :=
  Lvl (h + 1) c (nextPend h c) d ∨
  (d.up = true ∧ d.head = h ∧ d.clock = c ∧ d.lastTick = c ∧ d.pending = [] ∧ count n d.held (h + 1) < thr ∧
    (∀ r k, d.held r k = true → r = h + 1) ∧ ∀ k, S k → d.held (h + 1) k = true)

theorem Exact.weaken {n thr h c : Nat} {S S' : Nat → Prop} {d : Node} (hp : Exact n thr h c S d) (hs : ∀ k, S' k → S k) :
    Exact n thr h c S' d := by
  rcases hp with hp | ⟨h1, h2, h3, h4, h5, h6, h7, h8⟩
  · exact Or.inl hp
  · exact Or.inr ⟨h1, h2, h3, h4, h5, h6, h7, fun k hk => h8 k (hs k hk)⟩

theorem Exact.setSync {n thr h c : Nat} {S : Nat → Prop} {d : Node} (v : Nat) (hp : Exact n thr h c S d) :
    Exact n thr h c S (d.setSync v) := by
  rcases hp with hp | hp
  · exact Or.inl ⟨hp.up, hp.head, hp.clock, hp.tick, hp.pend, hp.clean⟩
  · exact Or.inr hp

theorem Exact.head {n thr h c : Nat} {S : Nat → Prop} {d : Node} (hp : Exact n thr h c S d) : d.head = h ∨ d.head = h + 1 := by
  rcases hp with hp | hp
  · exact Or.inr hp.head
  · exact Or.inl hp.2.1

/-- a partial on `h + 1` enters the aggregator of a node that sits at `h` and caches nothing but round `h + 1` -/
theorem exact_aggregate_core {n thr h c : Nat} {S : Nat → Prop} {d : Node}
    (h1 : d.up = true) (h2 : d.head = h) (h3 : d.clock = c) (h4 : d.lastTick = c) (h5 : d.pending = [])
    (h7 : ∀ r k, d.held r k = true → r = h + 1) (h8 : ∀ k, S k → d.held (h + 1) k = true) (src : Nat) :
    Exact n thr h c (fun k => S k ∨ k = src) (d.aggregate n thr src (h + 1)) := by
  rcases aggregate_cases n thr d src (h + 1) with ⟨hw, _⟩ | ⟨_, hcnt, he⟩ | ⟨_, _, hlt, _⟩ | ⟨_, _, he⟩
  · exfalso; apply hw; have := Gen.partialCacheStoreLimit; omega
  · right
    rw [he]
    refine ⟨h1, h2, h3, h4, h5, hcnt, ?_, ?_⟩
    · intro r k hk
      simp only [setHeld_held, addPartial, Bool.or_eq_true, Bool.and_eq_true, decide_eq_true_eq] at hk
      rcases hk with hk | hk
      · exact hk.1
      · exact h7 r k hk
    · intro k hk
      simp only [setHeld_held, addPartial, Bool.or_eq_true, Bool.and_eq_true, decide_eq_true_eq]
      rcases hk with hk | hk
      · right; exact h8 k hk
      · left; exact ⟨trivial, hk⟩
  · omega
  · left
    rw [he, h4, h5]
    have hcl : ∀ r k, flush (addPartial d.held (h + 1) src) (h + 1) r k = false := by
      intro r k
      by_cases hr : h + 1 < r
      · have : addPartial d.held (h + 1) src r k = false := by
          by_cases hx : addPartial d.held (h + 1) src r k = true
          · exfalso
            simp only [addPartial, Bool.or_eq_true, Bool.and_eq_true, decide_eq_true_eq] at hx
            rcases hx with hx | hx
            · omega
            · have := h7 r k hx; omega
          · simpa using hx
        simp [flush, this]
      · simp [flush, hr]
    unfold nextPend
    by_cases hl : h + 1 < c
    · simp only [hl, if_true]
      exact ⟨by simpa using h1, by simp, by simpa using h3, by simpa using h4, by simp, by simpa using hcl⟩
    · simp only [hl, if_false]
      exact ⟨by simpa using h1, by simp, by simpa using h3, by simpa using h4, by simpa using h5, by simpa using hcl⟩

theorem exact_first {n thr h c : Nat} {d : Node} (h1 : d.up = true) (h2 : d.head = h) (h3 : d.clock = c)
    (h4 : d.lastTick = c) (h5 : d.pending = []) (h7 : ∀ r k, d.held r k = true → r = h + 1) (i : Nat) :
    Exact n thr h c (fun k => k = i) (d.aggregate n thr i (h + 1)) := by
  have := exact_aggregate_core (n := n) (thr := thr) (S := fun _ => False) h1 h2 h3 h4 h5 h7 (fun k hk => hk.elim) i
  exact this.weaken (fun k hk => Or.inr hk)

theorem Lvl.stale {h c : Nat} {P : List Nat} {d : Node} (hl : Lvl h c P d) : ∀ r k, d.held r k = true → r = h + 1 := by
  intro r k hk; rw [hl.clean r k] at hk; cases hk

theorem exact_recvStep {n thr h c : Nat} {S : Nat → Prop} {d : Node} (hc : h < c) (hp : Exact n thr h c S d)
    (reach : Bool) (m : Msg) (hm : reach = true → m.round ≤ h + 1) :
    Exact n thr h c (fun k => S k ∨ (reach = true ∧ m.round = h + 1 ∧ k = m.src ∧ m.src ≠ m.dst))
      (d.recvStep n thr reach m) := by
  rcases recvStep_cases n thr reach d m with ⟨he, hne⟩ | ⟨hu, hr, hfut, hpast, hown, he⟩
  · rw [he]
    rcases hp with hp | ⟨h1, h2, h3, h4, h5, h6, h7, h8⟩
    · exact Or.inl hp
    · right
      refine ⟨h1, h2, h3, h4, h5, h6, h7, ?_⟩
      intro k hk
      rcases hk with hk | ⟨hr, hround, _, hsd⟩
      · exact h8 k hk
      · exfalso; apply hne; refine ⟨h1, hr, ?_, ?_, hsd⟩ <;> omega
  · rw [he]
    have hround := hm hr
    rcases hp with hp | ⟨h1, h2, h3, h4, h5, h6, h7, h8⟩
    · exfalso; have := hp.head; omega
    · have hrd : m.round = h + 1 := by omega
      rw [hrd]
      exact (exact_aggregate_core h1 h2 h3 h4 h5 h7 h8 m.src).weaken (fun k hk => by
        rcases hk with hk | ⟨_, _, hk, _⟩
        · exact Or.inl hk
        · exact Or.inr hk)

theorem exact_deliver {n thr h c : Nat} (conn : Nat → Nat → Bool) (j : Nat) (hc : h < c) :
    ∀ (L : List Msg) (d : Node) (S : Nat → Prop), Exact n thr h c S d →
      (∀ m ∈ L, m.dst = j → conn m.src m.dst = true → m.round ≤ h + 1) →
      Exact n thr h c (fun k => S k ∨ ∃ m ∈ L, m.dst = j ∧ conn m.src j = true ∧ m.round = h + 1 ∧ m.src = k ∧ k ≠ j)
        (L.foldl (fun d m => if m.dst = j then d.recvStep n thr (conn m.src m.dst) m else d) d) := by
  intro L
  induction L with
  | nil => intro d S hp _; exact hp.weaken (fun k hk => by rcases hk with hk | ⟨m, hm, _⟩; exact hk; cases hm)
  | cons m t ih =>
    intro d S hp hq
    simp only [List.foldl_cons]
    have hq' : ∀ m' ∈ t, m'.dst = j → conn m'.src m'.dst = true → m'.round ≤ h + 1 :=
      fun m' hm' => hq m' (by simp [hm'])
    by_cases hj : m.dst = j
    · simp only [hj, if_true]
      have h1 := exact_recvStep hc hp (conn m.src j) m (fun hr => hq m (by simp) hj (by rw [hj]; exact hr))
      refine (ih _ _ h1 hq').weaken ?_
      intro k hk
      rcases hk with hk | ⟨m', hm', h1, h2, h3, h4, h5⟩
      · exact Or.inl (Or.inl hk)
      · rcases List.mem_cons.mp hm' with he | hm''
        · subst he
          left; right
          exact ⟨h2, h3, h4.symm, by rw [h4, hj]; exact h5⟩
        · right; exact ⟨m', hm'', h1, h2, h3, h4, h5⟩
    · simp only [hj, if_false]
      refine (ih _ _ hp hq').weaken ?_
      intro k hk
      rcases hk with hk | ⟨m', hm', h1, h2, h3, h4, h5⟩
      · exact Or.inl hk
      · rcases List.mem_cons.mp hm' with he | hm''
        · subst he; exact absurd h1 hj
        · right; exact ⟨m', hm'', h1, h2, h3, h4, h5⟩

theorem Exact.done {n thr h c : Nat} {S : Nat → Prop} {d : Node} (hp : Exact n thr h c S d) (U : List Nat)
    (hn : U.Nodup) (hlt : ∀ i ∈ U, i < n) (hthr : thr ≤ U.length) (hS : ∀ i ∈ U, S i) :
    Lvl (h + 1) c (nextPend h c) d := by
  rcases hp with hp | ⟨_, _, _, _, _, h6, _, h8⟩
  · exact hp
  · exfalso
    have := count_ge n d.held (h + 1) U hn (fun i hi => ⟨hlt i hi, h8 i (hS i hi)⟩)
    omega


/-- with all heads of the healthy side equal, a sync step of any node leaves its members alone (a request ends at most) -/
theorem pull_uniform (s : State) (U : List Nat) (x : Nat) (hU : Side s U) (hx : ∀ j ∈ U, (s.node j).head = x)
    (i j : Nat) (hj : j ∈ U) : (s.pull i).node j = s.node j ∨ (s.pull i).node j = (s.node j).setSync 0 := by
  rcases pull_cases s i with he | he | ⟨_, hlt, v, he⟩ <;> rw [he]
  · exact Or.inl rfl
  · by_cases hji : j = i
    · subst hji; right; simp
    · left; exact setNode_other _ _ _ _ hji
  · by_cases hji : j = i
    · subst hji
      exfalso
      have : s.maxPeerHead j ≤ x := by
        apply maxPeerHead_le
        intro m hm hok
        simp only [State.peerOk, Bool.and_eq_true] at hok
        have hmU : m ∈ U := hU.closed j hj m hm hok.1.1.2 (Or.inr hok.1.2)
        exact Nat.le_of_eq (hx m hmU)
      have := hx j hj
      omega
    · left; exact setNode_other _ _ _ _ hji

theorem foldl_pull_uniform (P : Nat → Node → Prop) (hP : ∀ j d v, P j d → P j (d.setSync v)) (U : List Nat) (x : Nat) :
    ∀ (l : List Nat) (s : State), Side s U → (∀ j ∈ U, (s.node j).head = x) → (∀ j ∈ U, P j (s.node j)) →
      Side (l.foldl State.pull s) U ∧ (∀ j ∈ U, ((l.foldl State.pull s).node j).head = x) ∧
      ∀ j ∈ U, P j ((l.foldl State.pull s).node j) := by
  intro l
  induction l with
  | nil => intro s h1 h2 h3; exact ⟨h1, h2, h3⟩
  | cons a t ih =>
    intro s h1 h2 h3
    simp only [List.foldl_cons]
    apply ih (s.pull a) (h1.ext (ext_pull s a))
    · intro j hj
      rcases pull_uniform s U x h1 h2 a j hj with he | he <;> rw [he]
      · exact h2 j hj
      · exact h2 j hj
    · intro j hj
      rcases pull_uniform s U x h1 h2 a j hj with he | he <;> rw [he]
      · exact h3 j hj
      · exact hP j _ 0 (h3 j hj)

theorem foldl_recv_msgs : ∀ (l : List Msg) (s : State), (l.foldl State.recv s).msgs = s.msgs := by
  intro l
  induction l with
  | nil => intro s; rfl
  | cons a t ih => intro s; simp only [List.foldl_cons]; rw [ih]; simp [State.recv]

/-- the invariant of the catch-up chain between two sub-rounds -/
structure Chain (s : State) (U : List Nat) (h c : Nat) (P : List Nat) : Prop where
  side : Side s U
  lvl : ∀ j ∈ U, Lvl h c P (s.node j)
  msgs : s.msgs = []

/-- the settle phase, exactly: every member of the healthy side ends the sub-round storing `h + 1`, with the catch-up
goroutine for `h + 2` asleep iff `h + 1` is still behind the ticked round, an empty cache and nothing in flight -/
theorem settle_exact (s : State) (U : List Nat) (h c x : Nat) (hU : Side s U) (hthr : s.thr ≤ U.length) (hc : h < c)
    (hx : ∀ j ∈ U, (s.node j).head = x)
    (hE : ∀ j ∈ U, Exact s.n s.thr h c (fun k => k = j) (s.node j))
    (hq : ∀ m ∈ s.msgs, m.dst ∈ U → s.conn m.src m.dst = true → m.round ≤ h + 1)
    (hm : ∀ i ∈ U, ∀ j ∈ U, i ≠ j → (⟨i, j, h + 1⟩ : Msg) ∈ s.msgs) :
    Chain s.settle U (h + 1) c (nextPend h c) := by
  -- syncs pull: nothing moves
  obtain ⟨b1, b2, b3, b4⟩ := foldl_pull_frame (List.range s.n) s
  obtain ⟨hB1, _, hB3⟩ := foldl_pull_uniform (fun j d => Exact s.n s.thr h c (fun k => k = j) d)
    (fun j d v hp => hp.setSync v) U x (List.range s.n) s hU hx hE
  -- deliveries
  have hC : ∀ j ∈ U, Lvl (h + 1) c (nextPend h c) (((List.range s.n).foldl State.pull s).deliverAll.node j) := by
    intro j hj
    obtain ⟨c1, c2, c3, c4⟩ := foldl_recv j ((List.range s.n).foldl State.pull s).msgs { ((List.range s.n).foldl State.pull s) with msgs := [] }
    unfold State.deliverAll
    rw [c4]
    simp only [b1, b2, b3, b4]
    have hD := exact_deliver (n := s.n) (thr := s.thr) s.conn j hc s.msgs _ _ (hB3 j hj)
      (fun m hm hd hcn => hq m hm (hd ▸ hj) hcn)
    refine hD.done U hU.nodup hU.lt hthr ?_
    intro i hi
    by_cases hij : i = j
    · exact Or.inl hij
    · right
      exact ⟨⟨i, j, h + 1⟩, hm i hi j hj hij, rfl, hU.conn i hi j hj, rfl, rfl, hij⟩
  have hCside : Side ((List.range s.n).foldl State.pull s).deliverAll U := hB1.ext (ext_deliverAll _)
  have hCmsgs : ((List.range s.n).foldl State.pull s).deliverAll.msgs = [] := by
    unfold State.deliverAll; rw [foldl_recv_msgs]
  -- syncs pull again: nothing moves
  obtain ⟨hD1, _, hD3⟩ := foldl_pull_uniform (fun _ d => Lvl (h + 1) c (nextPend h c) d)
    (fun j d v hp => ⟨hp.up, hp.head, hp.clock, hp.tick, hp.pend, hp.clean⟩) U (h + 1)
    (List.range ((List.range s.n).foldl State.pull s).deliverAll.n) _ hCside (fun j hj => (hC j hj).head) hC
  exact ⟨hD1, hD3, by
    have := (foldl_pull_frame (List.range ((List.range s.n).foldl State.pull s).deliverAll.n) ((List.range s.n).foldl State.pull s).deliverAll).2.2.2
    exact this.trans hCmsgs⟩


private theorem filter_eq_range (j : Nat) : ∀ n, ((List.range n).filter (fun k => decide (k = j))).length = if j < n then 1 else 0 := by
  intro n
  induction n with
  | zero => simp
  | succ m ih =>
    rw [List.range_succ, List.filter_append, List.length_append, ih]
    by_cases h1 : j < m
    · have : ¬ m = j := by omega
      simp [h1, this]; omega
    · by_cases h2 : m = j
      · subst h2; simp
      · have : ¬ j < m + 1 := by omega
        simp [h1, h2, this]

theorem count_single (n r j : Nat) (held : Nat → Nat → Bool) (hcl : ∀ r k, held r k = false) (hj : j < n) :
    count n (addPartial held r j) r = 1 := by
  unfold count
  have : (fun k => addPartial held r j r k) = (fun k => decide (k = j)) := by
    funext k; simp [addPartial, hcl]
  rw [this, filter_eq_range j n]; simp [hj]

/-- the own partial of a levelled node: it stays at `h` when more signers are needed, else it stores `h + 1` at once -/
theorem agg_first_head {n thr h c : Nat} {d : Node} (hl : Lvl h c [] d) (j : Nat) (hj : j < n) :
    (d.aggregate n thr j (h + 1)).head = if 1 < thr then h else h + 1 := by
  have hcnt := count_single n (h + 1) j d.held hl.clean hj
  rcases aggregate_cases n thr d j (h + 1) with ⟨hw, _⟩ | ⟨_, hc2, he⟩ | ⟨_, _, hlt, _⟩ | ⟨hc4, _, he⟩
  · exfalso; apply hw; have := hl.head; have := Gen.partialCacheStoreLimit; omega
  · rw [he, hcnt] at *; simp [hc2, hl.head]
  · have := hl.head; omega
  · rw [hcnt] at hc4
    have : ¬ 1 < thr := by omega
    rw [he]; simp only [this, if_false]
    split <;> simp

theorem fireStep_msgs {n thr i : Nat} {d : Node} {m : Msg} (hm : m ∈ (d.fireStep n thr i).2) : d.up = true ∧ m.src = i := by
  unfold Node.fireStep at hm
  by_cases hu : d.up = true
  · simp only [hu, Bool.not_true, Bool.false_eq_true, if_false] at hm
    split at hm
    · cases hm
    · exact ⟨hu, (mem_others.mp hm).1⟩
  · simp [hu] at hm

theorem fireSteps_msgs {n thr i : Nat} : ∀ (c : Nat) (d : Node) (m : Msg), m ∈ (Node.fireSteps n thr i c d).2 → d.up = true ∧ m.src = i := by
  intro c
  induction c with
  | zero => intro d m hm; simp [Node.fireSteps] at hm
  | succ k ih =>
    intro d m hm
    simp only [Node.fireSteps, List.mem_append] at hm
    rcases hm with hm | hm
    · exact fireStep_msgs hm
    · have := ih _ m hm
      exact ⟨(next_fireStep n thr i d).1 ▸ this.1, this.2⟩

/-- the wake-up of the one catch-up goroutine of a node of the chain -/
theorem fireNode_lvl {n thr h c : Nat} {d : Node} (hl : Lvl h c [h] d) (j : Nat) :
    (Node.fireSteps n thr j d.pending.length d).1 = (d.setPending []).aggregate n thr j (h + 1) ∧
    (Node.fireSteps n thr j d.pending.length d).2 = others n j (h + 1) := by
  have hp := hl.pend
  have hu := hl.up
  rw [hp]
  simp [Node.fireSteps, Node.fireStep, hu, hp, Node.broadcast]

/-- **one catch-up sub-round**: the chain advances by exactly one round -/
theorem catch_sub (s : State) (U : List Nat) (h c : Nat) (hthr : s.thr ≤ U.length) (hc : h < c)
    (hch : Chain s U h c [h]) : Chain s.fairCatch U (h + 1) c (nextPend h c) := by
  obtain ⟨a1, a2, a3, a4, a5⟩ := foldl_act (fun n thr i d => Node.fireSteps n thr i d.pending.length d) (List.range s.n) s List.nodup_range
  have hU := hch.side
  have hA : Ext s (s.forAll State.fireNode) := ext_forAll _ _ ext_fireNode
  have hnode : ∀ j ∈ U, (s.forAll State.fireNode).node j = ((s.node j).setPending []).aggregate s.n s.thr j (h + 1) := by
    intro j hj
    have := a4 j
    simp only [List.mem_range, hU.lt j hj, if_true] at this
    exact this.trans (fireNode_lvl (hch.lvl j hj) j).1
  have hl0 : ∀ j ∈ U, Lvl h c [] ((s.node j).setPending []) := fun j hj =>
    ⟨(hch.lvl j hj).up, (hch.lvl j hj).head, (hch.lvl j hj).clock, (hch.lvl j hj).tick, rfl, (hch.lvl j hj).clean⟩
  have hmsgs : (s.forAll State.fireNode).msgs = s.msgs ++ (List.range s.n).flatMap (fun i => (Node.fireSteps s.n s.thr i (s.node i).pending.length (s.node i)).2) := a5
  refine settle_exact (s.forAll State.fireNode) U h c (if 1 < s.thr then h else h + 1) (hU.ext hA) (by rw [hA.thr]; exact hthr) hc ?_ ?_ ?_ ?_
  · intro j hj; rw [hnode j hj]; exact agg_first_head (hl0 j hj) j (hU.lt j hj)
  · intro j hj; rw [hnode j hj, hA.n, hA.thr]
    exact exact_first (hl0 j hj).up (hl0 j hj).head (hl0 j hj).clock (hl0 j hj).tick (hl0 j hj).pend (hl0 j hj).stale j
  · intro m hm hd hcn
    rw [hmsgs, hch.msgs, List.nil_append] at hm
    obtain ⟨i, hi, hmi⟩ := List.mem_flatMap.mp hm
    have hf := fireSteps_msgs _ _ m hmi
    rw [hA.conn] at hcn
    have hiU : i ∈ U := hU.closed m.dst hd i (List.mem_range.mp hi) hf.1 (Or.inl (hf.2 ▸ hcn))
    rw [(fireNode_lvl (hch.lvl i hiU) i).2] at hmi
    rw [(mem_others.mp hmi).2.1]; exact Nat.le_refl _
  · intro i hi j hj hij
    rw [hmsgs]
    apply List.mem_append.mpr; right
    apply List.mem_flatMap.mpr
    refine ⟨i, List.mem_range.mpr (hU.lt i hi), ?_⟩
    rw [(fireNode_lvl (hch.lvl i hi) i).2]
    exact mem_others.mpr ⟨rfl, rfl, hU.lt j hj, fun e => hij e.symm⟩

/-- a levelled, quiet healthy side just before a tick: all heads `h`, clocks about to show `c`, no catch-up goroutine
asleep, nothing in flight; the partial caches are empty, or hold only partials of the stalled round `h + 1` (what the
members re-broadcast at every tick of an outage) without any member being one own partial short of the threshold -/
structure Start (s : State) (U : List Nat) (h c : Nat) : Prop where
  side : Side s U
  head : ∀ j ∈ U, (s.node j).head = h
  clock : ∀ j ∈ U, (s.node j).clock + 1 = c
  pend : ∀ j ∈ U, (s.node j).pending = []
  stale : ∀ j ∈ U, ∀ r k, (s.node j).held r k = true → r = h + 1
  low : (∀ j ∈ U, ∀ r k, (s.node j).held r k = false) ∨
        (∀ j ∈ U, count s.n (addPartial (s.node j).held (h + 1) j) (h + 1) < s.thr)
  msgs : s.msgs = []

/-- a stale cache that the own partial does not complete: the node stays at `h` -/
theorem agg_low_head {n thr h : Nat} {d : Node} (hh : d.head = h) (j : Nat)
    (hlow : count n (addPartial d.held (h + 1) j) (h + 1) < thr) : (d.aggregate n thr j (h + 1)).head = h := by
  rcases aggregate_cases n thr d j (h + 1) with ⟨_, he⟩ | ⟨_, _, he⟩ | ⟨_, _, hlt, _⟩ | ⟨hc4, _, _⟩
  · rw [he]; exact hh
  · rw [he]; exact hh
  · omega
  · omega

theorem tickStep_lvl {n thr h c : Nat} {d : Node} (hu : d.up = true) (hcl : d.clock = c) (hh : d.head = h) (hc : h < c)
    (j : Nat) :
    ((d.tickStep n thr j).1 = (d.setTick c).aggregate n thr j (h + 1) ∨
      ∃ v, (d.tickStep n thr j).1 = ((d.setTick c).aggregate n thr j (h + 1)).setSync v) ∧
    (d.tickStep n thr j).2 = others n j (h + 1) := by
  unfold Node.tickStep
  simp only [hu, Bool.not_true, Bool.false_eq_true, if_false, Node.broadcast, hcl, hh, bnpRound_behind hc]
  split
  · exact ⟨Or.inr ⟨_, rfl⟩, rfl⟩
  · exact ⟨Or.inl rfl, rfl⟩

/-- **the tick sub-round** from a levelled quiet state: every member stores `h + 1` and the chain is set up -/
theorem tick_sub (s : State) (U : List Nat) (h c : Nat) (hthr : s.thr ≤ U.length) (hc : h < c)
    (hst : Start s U h c) : Chain s.fairTick U (h + 1) c (nextPend h c) := by
  obtain ⟨a1, a2, a3, a4, a5⟩ := foldl_act (fun n thr i => Node.tickStep n thr i) (List.range s.advance.n) s.advance List.nodup_range
  have hU := hst.side
  have hU0 : Side s.advance U := ⟨hU.nodup, hU.lt, hU.up, hU.conn, hU.closed⟩
  have hA : Ext s.advance (s.advance.forAll State.tick) := ext_forAll _ _ ext_tick
  have hts : ∀ j ∈ U, _ := fun j hj => tickStep_lvl (n := s.n) (thr := s.thr) (d := s.advance.node j) (hU.up j hj)
    (hst.clock j hj) (hst.head j hj) hc j
  have hnode : ∀ j ∈ U, (s.advance.forAll State.tick).node j = (Node.tickStep s.n s.thr j (s.advance.node j)).1 := by
    intro j hj
    have := a4 j
    simp only [List.mem_range, show j < s.advance.n from hU.lt j hj, if_true] at this
    exact this
  have hmsgs : (s.advance.forAll State.tick).msgs = s.msgs ++ (List.range s.n).flatMap (fun i => (Node.tickStep s.n s.thr i (s.advance.node i)).2) := a5
  have hx : ∃ x, ∀ j ∈ U, (((s.advance.node j).setTick c).aggregate s.n s.thr j (h + 1)).head = x := by
    rcases hst.low with hcl | hlow
    · exact ⟨if 1 < s.thr then h else h + 1, fun j hj =>
        agg_first_head (d := (s.advance.node j).setTick c)
          ⟨hU.up j hj, hst.head j hj, hst.clock j hj, rfl, hst.pend j hj, hcl j hj⟩ j (hU.lt j hj)⟩
    · exact ⟨h, fun j hj => agg_low_head (d := (s.advance.node j).setTick c) (hst.head j hj) j (hlow j hj)⟩
  obtain ⟨x, hx⟩ := hx
  have hres := settle_exact (s.advance.forAll State.tick) U h c x (hU0.ext hA)
    (by rw [hA.thr]; exact hthr) hc ?_ ?_ ?_ ?_
  · exact hres
  · intro j hj
    rw [hnode j hj]
    rcases (hts j hj).1 with he | ⟨v, he⟩ <;> rw [he]
    · exact hx j hj
    · exact hx j hj
  · intro j hj
    rw [hnode j hj, hA.n, hA.thr]
    have hef := exact_first (n := s.n) (thr := s.thr) (d := (s.advance.node j).setTick c) (hU.up j hj) (hst.head j hj)
      (hst.clock j hj) rfl (hst.pend j hj) (hst.stale j hj) j
    rcases (hts j hj).1 with he | ⟨v, he⟩ <;> rw [he]
    · exact hef
    · exact hef.setSync v
  · intro m hm hd hcn
    rw [hmsgs, hst.msgs, List.nil_append] at hm
    obtain ⟨i, hi, hmi⟩ := List.mem_flatMap.mp hm
    have hf := tickStep_msgs hmi
    rw [hA.conn] at hcn
    have hiU : i ∈ U := hU.closed m.dst hd i (List.mem_range.mp hi) hf.1 (Or.inl (hf.2.1 ▸ hcn))
    rw [(hts i hiU).2] at hmi
    rw [(mem_others.mp hmi).2.1]; exact Nat.le_refl _
  · intro i hi j hj hij
    rw [hmsgs]
    apply List.mem_append.mpr; right
    apply List.mem_flatMap.mpr
    refine ⟨i, List.mem_range.mpr (hU.lt i hi), ?_⟩
    rw [(hts i hi).2]
    exact mem_others.mpr ⟨rfl, rfl, hU.lt j hj, fun e => hij e.symm⟩

theorem chain_catchN (U : List Nat) (c : Nat) : ∀ (k : Nat) (s : State) (h : Nat), s.thr ≤ U.length →
    Chain s U h c (if h < c then [h] else []) → h + k = c → ∀ j ∈ U, ((s.fairCatchN k).node j).head = c := by
  intro k
  induction k with
  | zero => intro s h _ hch hk j hj; simp only [State.fairCatchN]; rw [(hch.lvl j hj).head]; omega
  | succ m ih =>
    intro s h hthr hch hk j hj
    have hc : h < c := by omega
    simp only [hc, if_true] at hch
    have := catch_sub s U h c hthr hc hch
    simp only [State.fairCatchN]
    exact ih s.fairCatch (h + 1) (by rw [(ext_fairCatch s).thr]; exact hthr) this (by omega) j hj

/-- **Catch-up.** From a levelled quiet healthy side `U` (|U| ≥ thr, all heads `h`, nothing cached or in flight) that is
`c − h` rounds behind the round `c` its clocks are about to show, one fair round — the tick sub-round followed by
`c − h − 1` catch-up sub-rounds, each one CatchupPeriod long — brings every member to exactly `c`: one round per
sub-round, none skipped. -/
theorem c05_catchup (s : State) (U : List Nat) (h c : Nat) (hthr : s.thr ≤ U.length) (hc : h < c)
    (hst : Start s U h c) : ∀ j ∈ U, ((s.fairRound (c - h - 1)).node j).head = c := by
  have h1 := tick_sub s U h c hthr hc hst
  have hthr' : s.fairTick.thr ≤ U.length := by
    have : Ext s.advance s.fairTick := Ext.trans (ext_forAll _ _ ext_tick) (ext_settle _)
    rw [this.thr]; exact hthr
  exact chain_catchN U c (c - h - 1) s.fairTick (h + 1) hthr' h1 (by omega)


/-! ### rejoin -/

/-- **Rejoin.** Node `i` of `U` was down and is restarted (a new Handler on the same store, then `Catchup`); the other
members of the healthy side all store `H`, node `i` stores at most `H`, and `H` is below the round `c` the clocks are
about to show. Then the sync launched by `Catchup` brings `i` to exactly `H`, and in the next fair round every member
of `U` — whose size ≥ thr counts `i` — stores `H + 1`: the partial of the rejoined node is counted (with |U| = thr it
is needed: `c05_rejoin_needed`). -/
theorem c05_rejoin (s : State) (U : List Nat) (i H c : Nat)
    (hi : i ∈ U) (hdown : (s.node i).up = false)
    (hU : Side (s.restart i) U) (hthr : s.thr ≤ U.length)
    (hpeer : ∃ j ∈ U, j ≠ i)
    (hothers : ∀ j ∈ U, j ≠ i → (s.node j).head = H) (hile : (s.node i).head ≤ H)
    (hclk : ∀ j ∈ U, (s.node j).clock + 1 = c) (hc : H < c)
    (hq : Quiet (s.restart i) U H) :
    (((s.restart i).pull i).node i).head = H ∧
    ∀ j ∈ U, H + 1 ≤ ((((s.restart i).pull i).fairTick).node j).head := by
  have hri : ((s.restart i).node i).head = (s.node i).head ∧ ((s.restart i).node i).clock = (s.node i).clock ∧
      ((s.restart i).node i).syncTo = (s.node i).clock + 1 ∧ ((s.restart i).node i).up = true := by
    simp [State.restart, hdown, Gen.catchupSyncAhead]
  have hrj : ∀ j, j ≠ i → (s.restart i).node j = s.node j := by
    intro j hj; simp [State.restart, hdown, setNode_node, hj]
  have hrthr : (s.restart i).thr = s.thr := by simp [State.restart, hdown]
  -- the best peer of i holds exactly H
  have hmph : (s.restart i).maxPeerHead i = H := by
    apply Nat.le_antisymm
    · apply maxPeerHead_le
      intro m hm hok
      simp only [State.peerOk, Bool.and_eq_true, bne_iff_ne, ne_eq] at hok
      have hmU : m ∈ U := hU.closed i hi m hm hok.1.1.2 (Or.inr hok.1.2)
      rw [hrj m hok.1.1.1, hothers m hmU hok.1.1.1]
      exact Nat.le_refl _
    · obtain ⟨j, hj, hji⟩ := hpeer
      have hok : (s.restart i).peerOk i j = true := by
        simp [State.peerOk, hji, hU.up j hj, hU.conn i hi j hj, hU.conn j hj i hi]
      have := maxPeerHead_ge (s.restart i) i j (hU.lt j hj) hok
      rw [hrj j hji, hothers j hj hji] at this
      exact this
  have hci := hclk i hi
  have ha : (((s.restart i).pull i).node i).head = H := by
    unfold State.pull
    have hne : (s.node i).clock + 1 ≠ 0 := by omega
    have hf : Gen.syncFilled ((s.node i).clock + 1) (s.node i).head = false := by
      simp [Gen.syncFilled]; omega
    simp only [hri.2.2.2, hri.2.2.1, hri.1, Bool.not_true, Bool.false_eq_true, if_false, hne, hf, hmph]
    by_cases hle : H ≤ (s.node i).head
    · simp only [hle, if_true, setNode_same, setSync_head, hri.1]; omega
    · simp only [hle, if_false, setNode_same, setSync_head, appendTo_head, hri.1]
      omega
  refine ⟨ha, ?_⟩
  -- the next fair round: step progress with i among the signers
  have hE : Ext (s.restart i) ((s.restart i).pull i) := ext_pull _ _
  have hpj : ∀ j, j ≠ i → ((s.restart i).pull i).node j = s.node j := by
    intro j hj
    rw [← hrj j hj]
    rcases pull_cases (s.restart i) i with he | he | ⟨_, _, v, he⟩ <;> rw [he]
    · exact setNode_other _ _ _ _ hj
    · exact setNode_other _ _ _ _ hj
  apply c05_step_progress ((s.restart i).pull i) U H c (hU.ext hE) (by rw [hE.thr, hrthr]; exact hthr)
  · intro j hj
    by_cases hji : j = i
    · subst hji; exact ha
    · rw [hpj j hji]; exact hothers j hj hji
  · intro j hj
    rw [hE.clock j]
    by_cases hji : j = i
    · subst hji; rw [hri.2.1]; exact hci
    · rw [hrj j hji]; exact hclk j hj
  · exact hc
  · refine ⟨?_, ?_⟩
    · intro m hm hd hcn
      rw [(pull_frame _ _).2.2.2] at hm
      rw [hE.conn] at hcn
      exact hq.1 m hm hd hcn
    · intro j hj r k hk
      by_cases hji : j = i
      · subst hji
        rcases pull_cases (s.restart j) j with he | he | ⟨_, _, v, he⟩ <;> rw [he] at hk
        · exact hq.2 j hj r k hk
        · simp only [setNode_same, setSync_held] at hk; exact hq.2 j hj r k hk
        · simp only [setNode_same, setSync_held, appendTo_held, Bool.and_eq_true] at hk
          exact hq.2 j hj r k hk.2
      · rw [hpj j hji, ← hrj j hji] at hk; exact hq.2 j hj r k hk


/-! ### `Quiet` holds in every reachable state in which no node is ahead -/

/-- nobody signs beyond its own head + 1: every partial in flight or cached, of signer `k` on round `r`, has
`r ≤ head k + 1`, and every sleeping catch-up goroutine was launched on a stored round -/
structure Sane (s : State) : Prop where
  msgs : ∀ m ∈ s.msgs, m.round ≤ (s.node m.src).head + 1
  held : ∀ i r k, (s.node i).held r k = true → r ≤ (s.node k).head + 1
  pend : ∀ i, ∀ r ∈ (s.node i).pending, r ≤ (s.node i).head

/-- node level, against a fixed table `hd` of heads -/
def SaneN (hd : Nat → Nat) (d : Node) : Prop :=
  (∀ r k, d.held r k = true → r ≤ hd k + 1) ∧ (∀ r ∈ d.pending, r ≤ d.head)

theorem sane_aggregate {hd : Nat → Nat} {n thr : Nat} {d : Node} (hs : SaneN hd d) (src r : Nat) (hr : r ≤ hd src + 1) :
    SaneN hd (d.aggregate n thr src r) := by
  obtain ⟨h1, h2⟩ := hs
  have hadd : ∀ r' k, addPartial d.held r src r' k = true → r' ≤ hd k + 1 := by
    intro r' k hk
    simp only [addPartial, Bool.or_eq_true, Bool.and_eq_true, decide_eq_true_eq] at hk
    rcases hk with ⟨e1, e2⟩ | hk
    · subst e1; subst e2; exact hr
    · exact h1 r' k hk
  have hfl : ∀ r' k, flush (addPartial d.held r src) r r' k = true → r' ≤ hd k + 1 := by
    intro r' k hk
    simp only [flush, Bool.and_eq_true] at hk
    exact hadd r' k hk.2
  rcases aggregate_cases n thr d src r with ⟨_, he⟩ | ⟨_, _, he⟩ | ⟨_, _, _, he⟩ | ⟨_, hrr, he⟩ <;> rw [he]
  · exact ⟨h1, h2⟩
  · exact ⟨hadd, h2⟩
  · exact ⟨hfl, h2⟩
  · split
    · refine ⟨by simpa using hfl, ?_⟩
      intro r' hr'
      simp only [setPending_pending, List.mem_append, List.mem_singleton] at hr'
      simp only [setPending_head, setHead_head]
      rcases hr' with hr' | hr'
      · have := h2 r' hr'; omega
      · omega
    · refine ⟨by simpa using hfl, ?_⟩
      intro r' hr'
      simp only [setHead_pending, setHeld_pending] at hr'
      simp only [setHead_head]
      have := h2 r' hr'; omega

theorem bnpRound_le (c h : Nat) : Gen.bnpRound c h ≤ h + 1 := by
  unfold Gen.bnpRound; split <;> simp_all

theorem sane_act {s : State} (hs : Sane s) (i : Nat) (F : Node → Node × List Msg)
    (hN : NExt (s.node i) (F (s.node i)).1)
    (hd : SaneN (fun k => (s.node k).head) (F (s.node i)).1)
    (hm : ∀ m ∈ (F (s.node i)).2, m.src = i ∧ m.round ≤ (s.node i).head + 1) : Sane (s.act i F) := by
  have hmono : ∀ k, (s.node k).head ≤ ((s.act i F).node k).head := (ext_act s i F hN).head
  refine ⟨?_, ?_, ?_⟩
  · intro m hmem
    simp only [act_msgs, List.mem_append] at hmem
    rcases hmem with hmem | hmem
    · exact Nat.le_trans (hs.msgs m hmem) (Nat.succ_le_succ (hmono m.src))
    · have := hm m hmem
      rw [this.1]
      exact Nat.le_trans this.2 (Nat.succ_le_succ (hmono i))
  · intro j r k hk
    by_cases hj : j = i
    · subst hj
      simp only [act_node, if_true] at hk
      exact Nat.le_trans (hd.1 r k hk) (Nat.succ_le_succ (hmono k))
    · simp only [act_node, hj, if_false] at hk
      exact Nat.le_trans (hs.held j r k hk) (Nat.succ_le_succ (hmono k))
  · intro j r hr
    by_cases hj : j = i
    · subst hj
      simp only [act_node, if_true] at hr ⊢
      exact hd.2 r hr
    · simp only [act_node, hj, if_false] at hr ⊢
      exact hs.pend j r hr

theorem Sane.node {s : State} (hs : Sane s) (i : Nat) : SaneN (fun k => (s.node k).head) (s.node i) :=
  ⟨fun r k hk => hs.held i r k hk, fun r hr => hs.pend i r hr⟩

theorem sane_tick {s : State} (hs : Sane s) (i : Nat) : Sane (s.tick i) := by
  apply sane_act hs i _ (next_tickStep _ _ _ _)
  · unfold Node.tickStep
    by_cases hu : (s.node i).up = true
    · simp only [hu, Bool.not_true, Bool.false_eq_true, if_false, Node.broadcast]
      have h1 : SaneN (fun k => (s.node k).head) (((s.node i).setTick (s.node i).clock).aggregate s.n s.thr i
          (Gen.bnpRound (s.node i).clock (s.node i).head)) :=
        sane_aggregate (d := (s.node i).setTick (s.node i).clock) (hs.node i) i _ (bnpRound_le _ _)
      split
      · exact h1
      · exact h1
    · simp [hu]; exact hs.node i
  · intro m hm
    have := tickStep_msgs hm
    exact ⟨this.2.1, by rw [this.2.2]; exact bnpRound_le _ _⟩

theorem sane_fire {s : State} (hs : Sane s) (i : Nat) : Sane (s.fire i) := by
  apply sane_act hs i _ (next_fireStep _ _ _ _)
  · unfold Node.fireStep
    by_cases hu : (s.node i).up = true
    · simp only [hu, Bool.not_true, Bool.false_eq_true, if_false]
      split
      · exact hs.node i
      · rename_i r rest hp
        simp only [Node.broadcast]
        have hr : r ≤ (s.node i).head := hs.pend i r (by rw [hp]; simp)
        apply sane_aggregate (d := (s.node i).setPending rest) _ i (r + 1) (by simp; omega)
        exact ⟨fun r' k hk => hs.held i r' k hk, fun r' hr' => hs.pend i r' (by rw [hp]; simp [show r' ∈ rest from hr'])⟩
    · simp [hu]; exact hs.node i
  · intro m hm
    unfold Node.fireStep at hm
    by_cases hu : (s.node i).up = true
    · simp only [hu, Bool.not_true, Bool.false_eq_true, if_false] at hm
      split at hm
      · cases hm
      · rename_i r rest hp
        have hr : r ≤ (s.node i).head := hs.pend i r (by rw [hp]; simp)
        have := mem_others.mp hm
        exact ⟨this.1, by rw [this.2.1]; omega⟩
    · simp [hu] at hm

theorem sane_recv {s : State} (hs : Sane s) (m : Msg) (hm : m.round ≤ (s.node m.src).head + 1) : Sane (s.recv m) := by
  apply sane_act hs m.dst _ (next_recvStep _ _ _ _ _)
  · rcases recvStep_cases s.n s.thr (s.conn m.src m.dst) (s.node m.dst) m with ⟨he, _⟩ | ⟨_, _, _, _, _, he⟩ <;> rw [he]
    · exact hs.node m.dst
    · exact sane_aggregate (hs.node m.dst) m.src m.round hm
  · intro m' hm'; cases hm'

theorem sane_foldl_recv : ∀ (l : List Msg) (s : State), Sane s → (∀ m ∈ l, m.round ≤ (s.node m.src).head + 1) →
    Sane (l.foldl State.recv s) := by
  intro l
  induction l with
  | nil => intro s hs _; exact hs
  | cons a t ih =>
    intro s hs hl
    simp only [List.foldl_cons]
    apply ih (s.recv a) (sane_recv hs a (hl a (by simp)))
    intro m hm
    exact Nat.le_trans (hl m (by simp [hm])) (Nat.succ_le_succ ((ext_recv s a).head m.src))

theorem sane_setNode {s : State} (hs : Sane s) (i : Nat) (d : Node) (hh : (s.node i).head ≤ d.head)
    (hheld : ∀ r k, d.held r k = true → (s.node i).held r k = true) (hp : ∀ r ∈ d.pending, r ∈ (s.node i).pending) :
    Sane (s.setNode i d) := by
  have hmono : ∀ k, (s.node k).head ≤ ((s.setNode i d).node k).head := by
    intro k; by_cases hk : k = i
    · subst hk; simpa using hh
    · rw [setNode_other _ _ _ _ hk]; exact Nat.le_refl _
  refine ⟨?_, ?_, ?_⟩
  · intro m hm
    exact Nat.le_trans (hs.msgs m hm) (Nat.succ_le_succ (hmono m.src))
  · intro j r k hk
    refine Nat.le_trans ?_ (Nat.succ_le_succ (hmono k))
    by_cases hj : j = i
    · subst hj; simp only [setNode_same] at hk; exact hs.held j r k (hheld r k hk)
    · rw [setNode_other _ _ _ _ hj] at hk; exact hs.held j r k hk
  · intro j r hr
    by_cases hj : j = i
    · subst hj; simp only [setNode_same] at hr ⊢; exact Nat.le_trans (hs.pend j r (hp r hr)) hh
    · rw [setNode_other _ _ _ _ hj] at hr ⊢; exact hs.pend j r hr

theorem sane_pull {s : State} (hs : Sane s) (i : Nat) : Sane (s.pull i) := by
  rcases pull_cases s i with he | he | ⟨_, hlt, v, he⟩ <;> rw [he]
  · exact hs
  · exact sane_setNode hs i _ (Nat.le_refl _) (fun _ _ h => h) (fun _ h => h)
  · apply sane_setNode hs i
    · simp only [setSync_head, appendTo_head]; omega
    · intro r k hk
      simp only [setSync_held, appendTo_held, Bool.and_eq_true] at hk
      exact hk.2
    · intro r hr; simpa using hr

theorem sane_init (n thr : Nat) : Sane (State.init n thr) :=
  ⟨fun m hm => (by cases hm), fun _ r k hk => (by cases hk), fun _ r hr => (by cases hr)⟩

/-- every event of the step relation keeps `Sane` -/
theorem sane_apply {s : State} (hs : Sane s) (e : Ev) : Sane (s.apply e) := by
  cases e with
  | advance => exact ⟨hs.msgs, hs.held, hs.pend⟩
  | tick i => exact sane_tick hs i
  | fire i => exact sane_fire hs i
  | deliver k =>
    simp only [State.apply]
    split
    · rename_i m hm
      have hs' : Sane { s with msgs := s.msgs.eraseIdx k } :=
        ⟨fun m' hm' => hs.msgs m' ((List.eraseIdx_sublist _ _).subset hm'), hs.held, hs.pend⟩
      exact sane_recv hs' m (hs.msgs m (List.mem_of_getElem? hm))
    · exact hs
  | drop k => exact ⟨fun m' hm' => hs.msgs m' ((List.eraseIdx_sublist _ _).subset hm'), hs.held, hs.pend⟩
  | deliverAll =>
    have hs' : Sane { s with msgs := [] } := ⟨fun m hm => (by cases hm), hs.held, hs.pend⟩
    exact sane_foldl_recv s.msgs _ hs' hs.msgs
  | pull i => exact sane_pull hs i
  | stop i =>
    apply sane_setNode hs i
    · exact Nat.le_refl _
    · intro r k hk; cases hk
    · intro r hr; cases hr
  | restart i =>
    simp only [State.apply, State.restart]
    split
    · exact hs
    · apply sane_setNode hs i
      · exact Nat.le_refl _
      · intro r k hk; cases hk
      · intro r hr; cases hr
  | setConn c => exact ⟨hs.msgs, hs.held, hs.pend⟩

theorem sane_run (evs : List Ev) : ∀ (s : State), Sane s → Sane (s.run evs) := by
  induction evs with
  | nil => intro s hs; exact hs
  | cons e t ih => intro s hs; exact ih (s.apply e) (sane_apply hs e)

/-- **`Quiet` from reachability.** After any finite fault script (any list of events from the initial state), if no
node of the network is ahead of `h`, then no partial for a round above `h + 1` is in flight or cached anywhere: the
hypothesis `Quiet` of `c05_step_progress` / `c05_rejoin` holds for every `U`. -/
theorem c05_quiet_of_heads (n thr : Nat) (evs : List Ev) (U : List Nat) (h : Nat)
    (hh : ∀ k, (((State.init n thr).run evs).node k).head ≤ h) : Quiet ((State.init n thr).run evs) U h := by
  have hs := sane_run evs _ (sane_init n thr)
  refine ⟨fun m hm _ _ => ?_, fun j _ r k hk => ?_⟩
  · have := hs.msgs m hm; have := hh m.src; omega
  · have := hs.held j r k hk; have := hh k; omega

/-! ### the regenerated rules (go2lean `netrules`) are the ones the statements above were proved for -/

/-- The round arithmetic and guards extracted from the Go source, against what the protocol description says: sign
`head + 1` (re-sign the current round when it is already stored); a tick with `head + 1 < round` launches a sync up to
the ticked round; an appended beacon behind the ticked round launches the catch-up goroutine; `Catchup` syncs up to the
next round; partials above the next round or at/below the stored head are dropped; the cache keeps rounds
`head < r ≤ head + limit + 1`; fewer than `thr` partials do not aggregate; only `head + 1` is appendable and a beacon
further ahead triggers a sync; a sync request for a stored round is dropped. -/
theorem tie_net_rules :
    (∀ c h, Gen.bnpRound c h = if c = h then c else h + 1) ∧
    (∀ l c, Gen.gapSync l c = decide (l + 1 < c)) ∧
    (∀ b c, Gen.catchupLaunch b c = decide (b < c)) ∧
    Gen.catchupSyncAhead = 1 ∧
    (∀ p nx, Gen.ppbFuture p nx = decide (nx < p)) ∧
    (∀ p l, Gen.ppbPast p l = decide (p ≤ l)) ∧
    (∀ p l, Gen.aggInWindow p l = (decide (l < p) && decide (p ≤ l + Gen.partialCacheStoreLimit + 1))) ∧
    (∀ len thr, Gen.aggNotEnough len thr = decide (len < thr)) ∧
    (∀ l r, Gen.tryAppendRefuse l r = decide (l + 1 ≠ r)) ∧
    (∀ l r, Gen.shouldSync l r = decide (l + 1 < r)) ∧
    (∀ u l, Gen.syncFilled u l = (decide (0 < u) && decide (u ≤ l))) ∧
    Gen.partialCacheStoreLimit = 3 ∧
    Gen.aggOrder = ["cache.Append(partial.p)", "c.crypto.ThresholdScheme.Recover(", "c.crypto.ThresholdScheme.VerifyRecovered(",
      "cache.FlushRounds(partial.p.GetRound())", "c.tryAppend(ctx,lastBeacon,newBeacon)", "c.shouldSync(lastBeacon,newBeacon)",
      "c.syncm.SendSyncRequest(ctx,newBeacon.Round,peers)"] ∧
    Gen.syncFromNext = true := by
  refine ⟨?_, ?_, ?_, rfl, ?_, ?_, ?_, ?_, ?_, ?_, ?_, rfl, rfl, rfl⟩
  · intro c h; simp [Gen.bnpRound]
  · intro l c; rfl
  · intro b c; rfl
  · intro p nx; rfl
  · intro p l; rfl
  · intro p l; rfl
  · intro len thr; rfl
  · intro l r; rfl
  · intro l r; rfl
  · intro u l; rfl

/-! ### non-vacuity: concrete small networks -/

/-- three nodes, threshold two, before genesis -/
def ex3 : State := State.init 3 2

/-- three nodes at round 0 whose clocks show round 3 (the chain halted for three rounds) -/
def exBehind : State :=
  { n := 3, thr := 2, node := fun _ => { head := 0, clock := 3 }, conn := fun _ _ => true, msgs := [] }

/-- node 0 is two rounds ahead of nodes 1 and 2 (it was on the majority side of a partition) -/
def exUneven : State :=
  { n := 3, thr := 2, node := fun k => if k = 0 then { head := 2, clock := 3 } else { head := 0, clock := 3 },
    conn := fun _ _ => true, msgs := [] }

/-- node 2 is down for good, node 1 is down and one round behind node 0 -/
def exRejoin : State :=
  { n := 3, thr := 2,
    node := fun k => if k = 0 then { head := 2, clock := 3 } else if k = 1 then { up := false, head := 1, clock := 3 }
                     else { up := false, head := 0, clock := 3 },
    conn := fun _ _ => true, msgs := [] }

private theorem mem3 {k : Nat} (h : k < 3) : k ∈ [0, 1, 2] := by
  have : k = 0 ∨ k = 1 ∨ k = 2 := by omega
  rcases this with h | h | h <;> simp [h]

private theorem side_all (s : State) (hn : s.n = 3) (hu : ∀ k, (s.node k).up = true) (hc : ∀ i j, s.conn i j = true) :
    Side s [0, 1, 2] :=
  ⟨by decide, fun i hi => by rw [hn]; simp at hi; omega, fun i _ => hu i, fun i _ j _ => hc i j,
   fun _ _ k hk _ _ => mem3 (hn ▸ hk)⟩

private theorem quiet_clean (s : State) (U : List Nat) (h : Nat) (hm : s.msgs = []) (hc : ∀ j r k, (s.node j).held r k = false) :
    Quiet s U h := by
  unfold Quiet
  refine ⟨fun m hmem _ _ => ?_, fun j _ r k hk => ?_⟩
  · rw [hm] at hmem; cases hmem
  · rw [hc j r k] at hk; cases hk

example : ∀ j ∈ [0, 1, 2], 0 + 1 ≤ (ex3.fairTick.node j).head :=
  c05_step_progress ex3 [0, 1, 2] 0 1 (side_all ex3 rfl (fun _ => rfl) (fun _ _ => rfl)) (by decide)
    (fun _ _ => rfl) (fun _ _ => rfl) (by decide) (quiet_clean ex3 _ 0 rfl (fun _ _ _ => rfl))

example : (ex3.fairTick.node 0).head = 1 ∧ (ex3.fairTick.node 1).head = 1 ∧ (ex3.fairTick.node 2).head = 1 := by decide

private theorem exUneven_node (k : Nat) : (exUneven.node k).up = true ∧ (exUneven.node k).clock = 3 := by
  by_cases h : k = 0 <;> simp [exUneven, h]

example : ∀ j ∈ [0, 1, 2], 2 ≤ (exUneven.fairTick.node j).head :=
  c05_level exUneven [0, 1, 2] 2 4 (side_all exUneven rfl (fun k => (exUneven_node k).1) (fun _ _ => rfl))
    (fun i _ => by rw [(exUneven_node i).2]) ⟨0, by simp, rfl⟩ (by decide)

/-- levelling is not vacuous: nodes 1 and 2 really move, by the sync rule, in that fair round -/
example : (exUneven.node 1).head = 0 ∧ 2 ≤ (exUneven.fairTick.node 1).head := by decide

example : ∀ j ∈ [0, 1, 2], ((exBehind.fairRound (4 - 0 - 1)).node j).head = 4 :=
  c05_catchup exBehind [0, 1, 2] 0 4 (by decide) (by decide)
    { side := side_all exBehind rfl (fun _ => rfl) (fun _ _ => rfl)
      head := fun _ _ => rfl
      clock := fun _ _ => rfl
      pend := fun _ _ => rfl
      stale := fun j _ r k hk => by exact absurd hk (by simp [exBehind])
      low := Or.inl (fun _ _ _ _ => rfl)
      msgs := rfl }

/-- one round per sub-round, none skipped: 1 after the tick sub-round, then 2, 3, 4 -/
example : (exBehind.fairTick.node 0).head = 1 ∧ ((exBehind.fairRound 1).node 0).head = 2 ∧
    ((exBehind.fairRound 2).node 0).head = 3 ∧ ((exBehind.fairRound 3).node 0).head = 4 ∧
    ((exBehind.fairRound 4).node 0).head = 4 := by decide

private theorem side_rejoin : Side (exRejoin.restart 1) [0, 1] := by
  refine ⟨by decide, ?_, ?_, fun _ _ _ _ => rfl, ?_⟩
  · intro i hi; simp at hi; show i < 3; omega
  · intro i hi; simp at hi; rcases hi with h | h <;> subst h <;> decide
  · intro _ _ k hk hu _
    have hk3 : k < 3 := hk
    have : k = 0 ∨ k = 1 ∨ k = 2 := by omega
    rcases this with h | h | h
    · simp [h]
    · simp [h]
    · subst h; exact absurd hu (by decide)

example : (((exRejoin.restart 1).pull 1).node 1).head = 2 ∧
    ∀ j ∈ [0, 1], 2 + 1 ≤ ((((exRejoin.restart 1).pull 1).fairTick).node j).head := by
  apply c05_rejoin exRejoin [0, 1] 1 2 4 (by simp) (by decide) side_rejoin (by decide) ⟨0, by simp, by decide⟩
  · intro j hj hne
    simp at hj
    rcases hj with h | h
    · subst h; rfl
    · exact absurd h hne
  · decide
  · intro j hj
    simp at hj
    rcases hj with h | h <;> subst h <;> rfl
  · decide
  · unfold Quiet
    refine ⟨fun m hm _ _ => (by cases hm), ?_⟩
    intro j hj r k hk
    simp at hj
    rcases hj with h | h <;> subst h
    · exact absurd hk (by simp [State.restart, exRejoin, setNode_node])
    · exact absurd hk (by simp [State.restart, exRejoin])

/-- the partial of the rejoined node is needed: as long as node 1 stays down, node 0 alone (fewer than thr = 2 nodes)
never produces round 3, whatever the schedule; with node 1 back, round 3 is produced in the next fair round -/
theorem c05_rejoin_needed (evs : List Ev) (h : ∀ e ∈ evs, ∀ i, e ≠ .restart i) :
    (∀ i, ((exRejoin.run evs).node i).head ≤ 2) ∧
    ((((exRejoin.restart 1).pull 1).fairTick).node 0).head = 3 := by
  refine ⟨(c05_below_threshold_no_progress [0] 2 evs exRejoin (by decide) ?_ h).2, by decide⟩
  refine ⟨?_, ?_, fun m hm => by cases hm⟩
  · intro i
    refine ⟨?_, fun r k hk => ?_⟩
    · by_cases h0 : i = 0
      · simp [exRejoin, h0]
      · by_cases h1 : i = 1 <;> simp [exRejoin, h0, h1]
    · exfalso
      by_cases h0 : i = 0
      · simp [exRejoin, h0] at hk
      · by_cases h1 : i = 1 <;> simp [exRejoin, h0, h1] at hk
  · intro i hi hu
    have hi3 : i < 3 := hi
    have : i = 0 ∨ i = 1 ∨ i = 2 := by omega
    rcases this with h | h | h
    · simp [h]
    · subst h; exact absurd hu (by decide)
    · subst h; exact absurd hu (by decide)

/-- c05_no_skip and c05_heads_monotone are not vacuous: a delivery that completes the threshold moves a head by one -/
example : ((ex3.advance.tick 0).tick 1).msgs[2]? = some ⟨1, 0, 1⟩ ∧
    ((((ex3.advance.tick 0).tick 1).apply (.deliver 2)).node 0).head = (((ex3.advance.tick 0).tick 1).node 0).head + 1 := by decide

/-! ### a failing write below the wrappers -/

/-- `schemeStore.Put` advances its cached head only after the store below accepted the beacon -/
theorem tie_scheme_put_order :
    Gen.schemePutOrder = ["check-prev", "a.Store.Put", "return-on-error", "a.last = b", "return nil"] := rfl

open Drand.Chain in
/-- **A failed Put can be retried.** When the base store refuses the write (transient error, cancelled context) the
whole stack is exactly what it was — no cached head moved, nothing stored — so the same beacon (from the aggregator at
the next tick, or from any sync) is accepted as if the failure had not happened; and with a base store that accepts,
`putB` is `put`. -/
theorem c05_failed_put_retry (s : Stack) (b : Drand.Beacon) :
    (s.putB b false).1 = s ∧
    s.putB b true = ((s.put b).1, some (s.put b).2) ∧
    ((s.put b).2 = .ok → ((s.putB b false).1.putB b true).2 = some .ok ∧ ((s.putB b false).1.putB b true).1 = (s.put b).1) := by
  have h1 : (s.putB b false).1 = s := by
    unfold Stack.putB Stack.schemePutB
    split
    · split
      · split <;> rfl
      · rfl
    · split
      · rfl
      · split
        · split <;> rfl
        · rfl
  have h2 : s.putB b true = ((s.put b).1, some (s.put b).2) := by
    unfold Stack.putB Stack.put Stack.schemePutB Stack.schemePut
    split
    · split
      · split <;> rfl
      · rfl
    · split
      · rfl
      · split
        · split <;> rfl
        · rfl
  refine ⟨h1, h2, fun hok => ?_⟩
  rw [h1, h2]
  exact ⟨by rw [hok], rfl⟩

open Drand.Chain in
/-- the order matters: with `a.last = b` before the underlying Put, one refused write of round 1 wedges the chained
stack — the retry of the very same beacon is refused for its previous signature, for ever -/
theorem c05_last_first_counterexample :
    let s0 := Stack.init true [1]
    let b : Drand.Beacon := ⟨1, [7], [1]⟩
    (s0.put b).2 = .ok ∧
    ((s0.putB b false).1.putB b true).2 = some .ok ∧
    (let s1 := (s0.schemePutLastFirst b false).1
     (s1.schemePutLastFirst b true).2 = some .badPrev ∧ (s1.put b).2 = .badPrev) := by
  decide

end Drand.Net
