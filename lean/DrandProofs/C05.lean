/-
C05 — liveness: a threshold of connected honest nodes produces every due round.   (PARTIAL, DESIGN.md §6)
Model: Drand/Net/Protocol.lean. What is proved here is progress in the fair-round abstraction of the protocol at
message level; real timers, goroutine scheduling, the 2-period sync-restart rule and gRPC are exercised by the
differential runs of engine `net`, not proved.
-/
import Drand.Net.Protocol
import DrandProofs.C02

namespace Drand.Net

/-! ### basic facts about the rule functions -/

@[simp] theorem setHead_up (d : Node) (v) : (d.setHead v).up = d.up := rfl
@[simp] theorem setHead_head (d : Node) (v) : (d.setHead v).head = v := rfl
@[simp] theorem setHead_clock (d : Node) (v) : (d.setHead v).clock = d.clock := rfl
@[simp] theorem setHead_lastTick (d : Node) (v) : (d.setHead v).lastTick = d.lastTick := rfl
@[simp] theorem setHead_held (d : Node) (v) : (d.setHead v).held = d.held := rfl
@[simp] theorem setHead_pending (d : Node) (v) : (d.setHead v).pending = d.pending := rfl
@[simp] theorem setHead_syncTo (d : Node) (v) : (d.setHead v).syncTo = d.syncTo := rfl
@[simp] theorem setTick_up (d : Node) (v) : (d.setTick v).up = d.up := rfl
@[simp] theorem setTick_head (d : Node) (v) : (d.setTick v).head = d.head := rfl
@[simp] theorem setTick_clock (d : Node) (v) : (d.setTick v).clock = d.clock := rfl
@[simp] theorem setTick_lastTick (d : Node) (v) : (d.setTick v).lastTick = v := rfl
@[simp] theorem setTick_held (d : Node) (v) : (d.setTick v).held = d.held := rfl
@[simp] theorem setTick_pending (d : Node) (v) : (d.setTick v).pending = d.pending := rfl
@[simp] theorem setTick_syncTo (d : Node) (v) : (d.setTick v).syncTo = d.syncTo := rfl
@[simp] theorem setHeld_up (d : Node) (v) : (d.setHeld v).up = d.up := rfl
@[simp] theorem setHeld_head (d : Node) (v) : (d.setHeld v).head = d.head := rfl
@[simp] theorem setHeld_clock (d : Node) (v) : (d.setHeld v).clock = d.clock := rfl
@[simp] theorem setHeld_lastTick (d : Node) (v) : (d.setHeld v).lastTick = d.lastTick := rfl
@[simp] theorem setHeld_held (d : Node) (v) : (d.setHeld v).held = v := rfl
@[simp] theorem setHeld_pending (d : Node) (v) : (d.setHeld v).pending = d.pending := rfl
@[simp] theorem setHeld_syncTo (d : Node) (v) : (d.setHeld v).syncTo = d.syncTo := rfl
@[simp] theorem setPending_up (d : Node) (v) : (d.setPending v).up = d.up := rfl
@[simp] theorem setPending_head (d : Node) (v) : (d.setPending v).head = d.head := rfl
@[simp] theorem setPending_clock (d : Node) (v) : (d.setPending v).clock = d.clock := rfl
@[simp] theorem setPending_lastTick (d : Node) (v) : (d.setPending v).lastTick = d.lastTick := rfl
@[simp] theorem setPending_held (d : Node) (v) : (d.setPending v).held = d.held := rfl
@[simp] theorem setPending_pending (d : Node) (v) : (d.setPending v).pending = v := rfl
@[simp] theorem setPending_syncTo (d : Node) (v) : (d.setPending v).syncTo = d.syncTo := rfl
@[simp] theorem setSync_up (d : Node) (v) : (d.setSync v).up = d.up := rfl
@[simp] theorem setSync_head (d : Node) (v) : (d.setSync v).head = d.head := rfl
@[simp] theorem setSync_clock (d : Node) (v) : (d.setSync v).clock = d.clock := rfl
@[simp] theorem setSync_lastTick (d : Node) (v) : (d.setSync v).lastTick = d.lastTick := rfl
@[simp] theorem setSync_held (d : Node) (v) : (d.setSync v).held = d.held := rfl
@[simp] theorem setSync_pending (d : Node) (v) : (d.setSync v).pending = d.pending := rfl
@[simp] theorem setSync_syncTo (d : Node) (v) : (d.setSync v).syncTo = v := rfl

@[simp] theorem setNode_same (s : State) (i : Nat) (d : Node) : (s.setNode i d).node i = d := by
  simp [State.setNode]

theorem setNode_other (s : State) (i k : Nat) (d : Node) (h : k ≠ i) : (s.setNode i d).node k = s.node k := by
  simp [State.setNode, h]

theorem setNode_node (s : State) (i k : Nat) (d : Node) : (s.setNode i d).node k = if k = i then d else s.node k := rfl

@[simp] theorem setNode_n (s : State) (i : Nat) (d : Node) : (s.setNode i d).n = s.n := rfl
@[simp] theorem setNode_thr (s : State) (i : Nat) (d : Node) : (s.setNode i d).thr = s.thr := rfl
@[simp] theorem setNode_conn (s : State) (i : Nat) (d : Node) : (s.setNode i d).conn = s.conn := rfl
@[simp] theorem setNode_msgs (s : State) (i : Nat) (d : Node) : (s.setNode i d).msgs = s.msgs := rfl

theorem put_head (d : Node) (r : Nat) : (d.put r).head = d.head ∨ ((d.put r).head = d.head + 1 ∧ r = d.head + 1) := by
  unfold Node.put
  split
  · right; simp_all
  · left; rfl

theorem put_head_le (d : Node) (r : Nat) : d.head ≤ (d.put r).head := by
  rcases put_head d r with h | h <;> omega

@[simp] theorem put_up (d : Node) (r : Nat) : (d.put r).up = d.up := by unfold Node.put; split <;> rfl
@[simp] theorem put_clock (d : Node) (r : Nat) : (d.put r).clock = d.clock := by unfold Node.put; split <;> rfl
@[simp] theorem put_lastTick (d : Node) (r : Nat) : (d.put r).lastTick = d.lastTick := by unfold Node.put; split <;> rfl
@[simp] theorem put_pending (d : Node) (r : Nat) : (d.put r).pending = d.pending := by unfold Node.put; split <;> rfl
@[simp] theorem put_held (d : Node) (r : Nat) : (d.put r).held = d.held := by unfold Node.put; split <;> rfl
@[simp] theorem put_syncTo (d : Node) (r : Nat) : (d.put r).syncTo = d.syncTo := by unfold Node.put; split <;> rfl
theorem put_next (d : Node) : (d.put (d.head + 1)).head = d.head + 1 := by simp [Node.put]

private theorem foldPut_head : ∀ (len : Nat) (d : Node),
    ((List.range' (d.head + 1) len).foldl Node.put d).head = d.head + len := by
  intro len
  induction len with
  | zero => intro d; simp
  | succ k ih =>
    intro d
    rw [List.range'_succ, List.foldl_cons]
    have h1 : (d.put (d.head + 1)).head = d.head + 1 := put_next d
    have := ih (d.put (d.head + 1))
    rw [h1] at this
    rw [this]; omega

private theorem foldPut_fields : ∀ (l : List Nat) (d : Node),
    (l.foldl Node.put d).up = d.up ∧ (l.foldl Node.put d).clock = d.clock ∧
    (l.foldl Node.put d).lastTick = d.lastTick ∧ (l.foldl Node.put d).pending = d.pending ∧
    (l.foldl Node.put d).held = d.held ∧ (l.foldl Node.put d).syncTo = d.syncTo := by
  intro l
  induction l with
  | nil => intro d; simp
  | cons a t ih => intro d; simp only [List.foldl_cons]; have := ih (d.put a); simp_all

theorem appendTo_head (d : Node) (t : Nat) : (d.appendTo t).head = d.head + (t - d.head) := by
  simp [Node.appendTo, foldPut_head]

@[simp] theorem appendTo_up (d : Node) (t : Nat) : (d.appendTo t).up = d.up := by
  simp [Node.appendTo, (foldPut_fields _ d).1]
@[simp] theorem appendTo_clock (d : Node) (t : Nat) : (d.appendTo t).clock = d.clock := by
  simp [Node.appendTo, (foldPut_fields _ d).2.1]
@[simp] theorem appendTo_lastTick (d : Node) (t : Nat) : (d.appendTo t).lastTick = d.lastTick := by
  simp [Node.appendTo, (foldPut_fields _ d).2.2.1]
@[simp] theorem appendTo_pending (d : Node) (t : Nat) : (d.appendTo t).pending = d.pending := by
  simp [Node.appendTo, (foldPut_fields _ d).2.2.2.1]
@[simp] theorem appendTo_syncTo (d : Node) (t : Nat) : (d.appendTo t).syncTo = d.syncTo := by
  simp [Node.appendTo, (foldPut_fields _ d).2.2.2.2.2]
theorem appendTo_held (d : Node) (t : Nat) (r k : Nat) :
    (d.appendTo t).held r k = (decide (d.head + (t - d.head) < r) && d.held r k) := by
  simp [Node.appendTo, (foldPut_fields _ d).2.2.2.2.1, flush, foldPut_head]

/-- `runAggregator` on one partial, as four cases -/
theorem aggregate_cases (n thr : Nat) (d : Node) (src r : Nat) :
    (¬ (d.head < r ∧ r ≤ d.head + Gen.partialCacheStoreLimit + 1) ∧ d.aggregate n thr src r = d) ∨
    ((d.head < r ∧ r ≤ d.head + Gen.partialCacheStoreLimit + 1) ∧ count n (addPartial d.held r src) r < thr ∧
      d.aggregate n thr src r = d.setHeld (addPartial d.held r src)) ∨
    ((d.head < r ∧ r ≤ d.head + Gen.partialCacheStoreLimit + 1) ∧ thr ≤ count n (addPartial d.held r src) r ∧ d.head + 1 < r ∧
      d.aggregate n thr src r = (d.setHeld (flush (addPartial d.held r src) r)).setSync (max d.syncTo r)) ∨
    (thr ≤ count n (addPartial d.held r src) r ∧ r = d.head + 1 ∧
      d.aggregate n thr src r =
        if r < d.lastTick then (((d.setHeld (flush (addPartial d.held r src) r)).setHead r).setPending (d.pending ++ [r]))
        else ((d.setHeld (flush (addPartial d.held r src) r)).setHead r)) := by
  unfold Node.aggregate
  simp only [Gen.aggInWindow, Gen.aggNotEnough, Gen.tryAppendRefuse, Gen.shouldSync, Gen.catchupLaunch]
  by_cases hw : d.head < r ∧ r ≤ d.head + Gen.partialCacheStoreLimit + 1
  · by_cases hc : count n (addPartial d.held r src) r < thr
    · right; left; simp [hw, hc]
    · by_cases hr : r = d.head + 1
      · right; right; right
        subst hr
        refine ⟨by omega, rfl, ?_⟩
        by_cases hl : d.head + 1 < d.lastTick <;> simp [hw, hc, hl, Node.put]
      · right; right; left
        have h2 : d.head + 1 < r := by omega
        refine ⟨hw, by omega, h2, ?_⟩
        have h3 : d.head + 1 ≠ r := by omega
        simp [hw, hc, h2, h3]
  · left
    refine ⟨hw, ?_⟩
    have : (decide (d.head < r) && decide (r ≤ d.head + Gen.partialCacheStoreLimit + 1)) = false := by
      by_cases h1 : d.head < r <;> by_cases h2 : r ≤ d.head + Gen.partialCacheStoreLimit + 1 <;> simp_all
    simp [this]

/-- what one valid partial does to a node, field by field -/
theorem aggregate_frame (n thr : Nat) (d : Node) (src r : Nat) :
    (d.aggregate n thr src r).up = d.up ∧ (d.aggregate n thr src r).clock = d.clock ∧
    (d.aggregate n thr src r).lastTick = d.lastTick ∧
    ((d.aggregate n thr src r).head = d.head ∨ ((d.aggregate n thr src r).head = d.head + 1 ∧ r = d.head + 1)) ∧
    ((d.aggregate n thr src r).pending = d.pending ∨
      ((d.aggregate n thr src r).pending = d.pending ++ [r] ∧ (d.aggregate n thr src r).head = d.head + 1)) := by
  rcases aggregate_cases n thr d src r with ⟨_, h⟩ | ⟨_, _, h⟩ | ⟨_, _, _, h⟩ | ⟨_, hr, h⟩ <;> rw [h]
  · simp
  · simp
  · simp
  · subst hr
    by_cases hl : d.head + 1 < d.lastTick <;> simp [hl]

theorem aggregate_head_le (n thr : Nat) (d : Node) (src r : Nat) : d.head ≤ (d.aggregate n thr src r).head := by
  rcases (aggregate_frame n thr d src r).2.2.2.1 with h | h <;> omega


/-! ### what every protocol rule preserves -/

structure Ext (s s' : State) : Prop where
  n : s'.n = s.n
  thr : s'.thr = s.thr
  conn : s'.conn = s.conn
  up : ∀ k, (s'.node k).up = (s.node k).up
  clock : ∀ k, (s'.node k).clock = (s.node k).clock
  head : ∀ k, (s.node k).head ≤ (s'.node k).head

theorem Ext.refl (s : State) : Ext s s := ⟨rfl, rfl, rfl, fun _ => rfl, fun _ => rfl, fun _ => Nat.le_refl _⟩

theorem Ext.trans {a b c : State} (h1 : Ext a b) (h2 : Ext b c) : Ext a c :=
  ⟨h2.n.trans h1.n, h2.thr.trans h1.thr, h2.conn.trans h1.conn, fun k => (h2.up k).trans (h1.up k),
   fun k => (h2.clock k).trans (h1.clock k), fun k => Nat.le_trans (h1.head k) (h2.head k)⟩

/-- replacing node i by a node with the same up/clock and a head at least as large -/
theorem ext_setNode (s : State) (i : Nat) (d : Node) (hu : d.up = (s.node i).up) (hc : d.clock = (s.node i).clock)
    (hh : (s.node i).head ≤ d.head) : Ext s (s.setNode i d) := by
  refine ⟨rfl, rfl, rfl, ?_, ?_, ?_⟩ <;> intro k <;> by_cases hk : k = i <;> simp [State.setNode, hk, hu, hc, hh]

theorem ext_msgs (s : State) (l : List Msg) : Ext s { s with msgs := l } :=
  ⟨rfl, rfl, rfl, fun _ => rfl, fun _ => rfl, fun _ => Nat.le_refl _⟩

theorem broadcast_node (s : State) (i r k : Nat) :
    (s.broadcast i r).node k = if k = i then (s.node i).aggregate s.n s.thr i r else s.node k := by
  simp [State.broadcast, State.setNode]

@[simp] theorem broadcast_n (s : State) (i r : Nat) : (s.broadcast i r).n = s.n := rfl
@[simp] theorem broadcast_thr (s : State) (i r : Nat) : (s.broadcast i r).thr = s.thr := rfl
@[simp] theorem broadcast_conn (s : State) (i r : Nat) : (s.broadcast i r).conn = s.conn := rfl
@[simp] theorem broadcast_msgs (s : State) (i r : Nat) : (s.broadcast i r).msgs = s.msgs ++ s.others i r := rfl

theorem ext_broadcast (s : State) (i r : Nat) : Ext s (s.broadcast i r) := by
  have hf := aggregate_frame s.n s.thr (s.node i) i r
  refine Ext.trans (ext_setNode s i ((s.node i).aggregate s.n s.thr i r) hf.1 hf.2.1 (aggregate_head_le _ _ _ _ _)) ?_
  exact ext_msgs _ _

theorem ext_tick (s : State) (i : Nat) : Ext s (s.tick i) := by
  unfold State.tick
  by_cases hu : (s.node i).up = true
  · simp only [hu, Bool.not_true, Bool.false_eq_true, if_false]
    have h1 : Ext s (s.setNode i ((s.node i).setTick (s.node i).clock)) := ext_setNode s i _ rfl rfl (Nat.le_refl _)
    have h2 := Ext.trans h1 (ext_broadcast (s.setNode i ((s.node i).setTick (s.node i).clock)) i
      (Gen.bnpRound (s.node i).clock (s.node i).head))
    split
    · exact Ext.trans h2 (ext_setNode _ i _ rfl rfl (Nat.le_refl _))
    · exact h2
  · simp [hu]; exact Ext.refl s

theorem ext_fire (s : State) (i : Nat) : Ext s (s.fire i) := by
  unfold State.fire
  by_cases hu : (s.node i).up = true
  · simp only [hu, Bool.not_true, Bool.false_eq_true, if_false]
    split
    · exact Ext.refl s
    · rename_i r rest _
      exact Ext.trans (ext_setNode s i ((s.node i).setPending rest) rfl rfl (Nat.le_refl _)) (ext_broadcast _ i _)
  · simp [hu]; exact Ext.refl s

theorem ext_recv (s : State) (m : Msg) : Ext s (s.recv m) := by
  unfold State.recv
  have hf := aggregate_frame s.n s.thr (s.node m.dst) m.src m.round
  repeat' split
  all_goals first
    | exact Ext.refl s
    | exact ext_setNode s m.dst _ hf.1 hf.2.1 (aggregate_head_le _ _ _ _ _)

theorem ext_pull (s : State) (i : Nat) : Ext s (s.pull i) := by
  unfold State.pull
  repeat' split
  all_goals first
    | exact Ext.refl s
    | exact ext_setNode s i _ rfl rfl (Nat.le_refl _)
    | (refine ext_setNode s i _ ?_ ?_ ?_ <;> simp [appendTo_head])

theorem ext_foldl {α : Type} (f : State → α → State) (hf : ∀ s a, Ext s (f s a)) :
    ∀ (l : List α) (s : State), Ext s (l.foldl f s) := by
  intro l
  induction l with
  | nil => intro s; exact Ext.refl s
  | cons a t ih => intro s; exact Ext.trans (hf s a) (ih (f s a))

theorem ext_deliverAll (s : State) : Ext s s.deliverAll :=
  Ext.trans (ext_msgs s []) (ext_foldl State.recv ext_recv _ _)

theorem ext_forAll (s : State) (f : State → Nat → State) (hf : ∀ s a, Ext s (f s a)) : Ext s (s.forAll f) :=
  ext_foldl f hf _ _

theorem ext_fireN (i : Nat) : ∀ (c : Nat) (s : State), Ext s (s.fireN i c) := by
  intro c
  induction c with
  | zero => intro s; exact Ext.refl s
  | succ k ih => intro s; exact Ext.trans (ext_fire s i) (ih (s.fire i))

theorem ext_fireNode (s : State) (i : Nat) : Ext s (s.fireNode i) := ext_fireN i _ s

theorem ext_settle (s : State) : Ext s s.settle :=
  Ext.trans (Ext.trans (ext_forAll s _ ext_pull) (ext_deliverAll _)) (ext_forAll _ _ ext_pull)

theorem ext_fairCatch (s : State) : Ext s s.fairCatch :=
  Ext.trans (ext_forAll s _ ext_fireNode) (ext_settle _)


/-! ### c05_no_skip, heads only grow -/

theorem tick_head (s : State) (i k : Nat) :
    ((s.tick i).node k).head =
      if k = i ∧ (s.node i).up = true then
        (((s.node i).setTick (s.node i).clock).aggregate s.n s.thr i (Gen.bnpRound (s.node i).clock (s.node i).head)).head
      else (s.node k).head := by
  unfold State.tick
  by_cases hu : (s.node i).up = true <;> by_cases hk : k = i
  · subst hk; simp only [hu, Bool.not_true, Bool.false_eq_true, if_false]
    split <;> simp [broadcast_node]
  · simp only [hu, Bool.not_true, Bool.false_eq_true, if_false]
    split <;> simp [broadcast_node, setNode_node, hk]
  · subst hk; simp [hu]
  · simp [hu, hk]

theorem fire_head (s : State) (i k : Nat) :
    ((s.fire i).node k).head = (s.node k).head ∨
    (k = i ∧ ∃ r rest, (s.node i).pending = r :: rest ∧
      ((s.fire i).node k).head = (((s.node i).setPending rest).aggregate s.n s.thr i (r + 1)).head) := by
  unfold State.fire
  by_cases hu : (s.node i).up = true
  · simp only [hu, Bool.not_true, Bool.false_eq_true, if_false]
    split
    · left; rfl
    · rename_i r rest hp
      by_cases hk : k = i
      · right; subst hk; exact ⟨rfl, r, rest, hp, by simp [broadcast_node]⟩
      · left; simp [broadcast_node, setNode_node, hk]
  · left; simp [hu]

theorem recv_head (s : State) (m : Msg) (k : Nat) :
    ((s.recv m).node k).head = (s.node k).head ∨
    (k = m.dst ∧ ((s.recv m).node k).head = ((s.node m.dst).aggregate s.n s.thr m.src m.round).head) := by
  unfold State.recv
  repeat' split
  all_goals first
    | (left; rfl)
    | (by_cases hk : k = m.dst
       · right; subst hk; exact ⟨rfl, by simp⟩
       · left; simp [setNode_node, hk])

/-- the events of the step relation that stand for one rule firing once (the other two, `deliverAll` and `pull`,
are finite compositions: `deliverAll` of `recv`, `pull` of `Node.put`) -/
def Ev.micro : Ev → Bool
  | .deliverAll => false
  | .pull _ => false
  | _ => true

/-- every event leaves every head where it is or moves it up -/
theorem c05_heads_monotone (s : State) (e : Ev) (k : Nat) : (s.node k).head ≤ ((s.apply e).node k).head := by
  cases e with
  | advance => simp [State.apply, State.advance]
  | tick i => exact (ext_tick s i).head k
  | fire i => exact (ext_fire s i).head k
  | deliver j =>
    simp only [State.apply]
    split
    · exact ((ext_msgs s _).trans (ext_recv _ _)).head k
    · exact Nat.le_refl _
  | drop j => simp [State.apply]
  | deliverAll => exact (ext_deliverAll s).head k
  | pull i => exact (ext_pull s i).head k
  | stop i => by_cases hk : k = i <;> simp [State.apply, State.stop, setNode_node, hk]
  | restart i =>
    simp only [State.apply, State.restart]
    split
    · exact Nat.le_refl _
    · by_cases hk : k = i <;> simp [setNode_node, hk]
  | setConn c => simp [State.apply]

theorem c05_heads_monotone_run (evs : List Ev) : ∀ (s : State) (k : Nat), (s.node k).head ≤ ((s.run evs).node k).head := by
  induction evs with
  | nil => intro s k; exact Nat.le_refl _
  | cons e t ih => intro s k; exact Nat.le_trans (c05_heads_monotone s e k) (ih (s.apply e) k)

/-- Every append is head+1 (C02 seen from the protocol): the only operation that moves a head is `Node.put`, which
stores `r` only when `r = head + 1`; one firing of a rule moves a head by at most one; a sync (`pull`) is a run of
`put`s over consecutive rounds. -/
theorem c05_no_skip :
    (∀ (d : Node) (r : Nat), (d.put r).head = d.head ∨ ((d.put r).head = d.head + 1 ∧ r = d.head + 1)) ∧
    (∀ (s : State) (e : Ev) (k : Nat), e.micro = true →
      ((s.apply e).node k).head = (s.node k).head ∨ ((s.apply e).node k).head = (s.node k).head + 1) ∧
    (∀ (d : Node) (t : Nat), d.appendTo t = ((List.range' (d.head + 1) (t - d.head)).foldl Node.put d).setHeld
        (flush ((List.range' (d.head + 1) (t - d.head)).foldl Node.put d).held
               ((List.range' (d.head + 1) (t - d.head)).foldl Node.put d).head) ∧
      (d.appendTo t).head = d.head + (t - d.head)) := by
  refine ⟨put_head, ?_, fun d t => ⟨rfl, appendTo_head d t⟩⟩
  intro s e k hm
  cases e with
  | advance => left; simp [State.apply, State.advance]
  | tick i =>
    simp only [State.apply, tick_head]
    split
    · rename_i h
      rcases (aggregate_frame s.n s.thr ((s.node i).setTick (s.node i).clock) i (Gen.bnpRound (s.node i).clock (s.node i).head)).2.2.2.1 with h1 | h1
      · left; rw [h1, h.1]; rfl
      · right; rw [h1.1, h.1]; rfl
    · left; rfl
  | fire i =>
    simp only [State.apply]
    rcases fire_head s i k with h | ⟨hk, r, rest, _, h⟩
    · left; exact h
    · rw [h, hk]
      rcases (aggregate_frame s.n s.thr ((s.node i).setPending rest) i (r + 1)).2.2.2.1 with h1 | h1
      · left; rw [h1]; rfl
      · right; rw [h1.1]; rfl
  | deliver j =>
    simp only [State.apply]
    split
    · rename_i m _
      rcases recv_head { s with msgs := s.msgs.eraseIdx j } m k with h | ⟨hk, h⟩
      · left; exact h
      · rw [h, hk]
        rcases (aggregate_frame s.n s.thr (s.node m.dst) m.src m.round).2.2.2.1 with h1 | h1
        · left; exact h1
        · right; exact h1.1
    · left; rfl
  | drop j => left; simp [State.apply]
  | deliverAll => simp [Ev.micro] at hm
  | pull i => simp [Ev.micro] at hm
  | stop i => left; by_cases hk : k = i <;> simp [State.apply, State.stop, setNode_node, hk]
  | restart i =>
    left
    simp only [State.apply, State.restart]
    split
    · rfl
    · by_cases hk : k = i <;> simp [setNode_node, hk]
  | setConn c => left; simp [State.apply]

/-- the same fact on the store model of C02: a `Put` that is accepted writes exactly `head + 1`, any other leaves the
store as it was -/
theorem c05_no_skip_store (st : Drand.Chain.Stack) (b : Drand.Beacon) (h : Drand.Chain.ChainInv st) :
    ((st.put b).2 = .ok → b.round = (Drand.Chain.Stack.last st.base).round + 1 ∧
        (Drand.Chain.Stack.last (st.put b).1.base).round = (Drand.Chain.Stack.last st.base).round + 1) ∧
    ((st.put b).2 ≠ .ok → (st.put b).1 = st) := by
  have := Drand.Chain.c02_append_only st b h
  refine ⟨fun hok => ?_, this.2⟩
  have h1 := this.1 hok
  exact ⟨h1.1, by rw [h1.2.1, h1.1]⟩

end Drand.Net
