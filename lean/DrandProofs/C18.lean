/-
C18 — every storage back-end behaves as one sorted round-to-beacon map.
Property theorems (names listed in vlib/props/C18.py). Models: Drand/Store/{Assoc,Bolt,Mem}.lean.
-/
import Drand.Store.Mem
import Drand.Store.Hold
import Gen.Locks

namespace Drand.Store
open Drand

/-- every operation of the in-memory back-end is one step of the model: in the code each of `Put`, `Del` (write lock)
and `Get`, `Last`, `Len`, the four cursor moves (read lock) is, for its whole body, a critical section of the store's
mutex; `Cursor` itself takes nothing (the cursor is a position into the live slice, each move locks for itself). -/
theorem tie_memdb_ops_atomic :
    Gen.memdbLockTable = [("Store.Close", "-"), ("Store.Cursor", "-"), ("Store.Del", "W"), ("Store.Get", "R"), ("Store.Last", "R"),
      ("Store.Len", "R"), ("Store.Put", "W"), ("Store.SaveTo", "-"), ("memDBCursor.First", "R"), ("memDBCursor.Last", "R"),
      ("memDBCursor.Next", "R"), ("memDBCursor.Seek", "R")] := by decide

variable {α : Type}

/-! ### the sorted association list is a map -/

private theorem sorted_tail {a : Nat × α} {t : List (Nat × α)} (h : Sorted (a :: t)) : Sorted t := by
  obtain ⟨k, v⟩ := a
  cases t with
  | nil => trivial
  | cons b t => obtain ⟨k', v'⟩ := b; exact h.2

private theorem sorted_head_lt {k : Nat} {v : α} {t : List (Nat × α)} (h : Sorted ((k, v) :: t)) :
    ∀ p ∈ t, k < p.1 := by
  induction t generalizing k v with
  | nil => intro p hp; cases hp
  | cons b t ih =>
    obtain ⟨k', v'⟩ := b
    intro p hp
    have h1 : k < k' := h.1
    have h2 := ih h.2
    rcases List.mem_cons.1 hp with rfl | hp
    · exact h1
    · exact Nat.lt_trans h1 (h2 p hp)

private theorem sorted_cons {k : Nat} {v : α} {t : List (Nat × α)} (ht : Sorted t)
    (h : ∀ p ∈ t, k < p.1) : Sorted ((k, v) :: t) := by
  cases t with
  | nil => trivial
  | cons b t => obtain ⟨k', v'⟩ := b; exact ⟨h _ List.mem_cons_self, ht⟩

private theorem mem_insert {k : Nat} {v : α} {l : List (Nat × α)} {p : Nat × α}
    (hp : p ∈ insert k v l) : p = (k, v) ∨ p ∈ l := by
  induction l with
  | nil => simp [insert] at hp; exact Or.inl hp
  | cons a t ih =>
    obtain ⟨k', v'⟩ := a
    unfold insert at hp
    split at hp
    · simpa using hp
    · split at hp
      · rcases List.mem_cons.1 hp with h | h
        · exact Or.inl h
        · exact Or.inr (List.mem_cons_of_mem _ h)
      · rcases List.mem_cons.1 hp with h | h
        · exact Or.inr (h ▸ List.mem_cons_self)
        · rcases ih h with h | h
          · exact Or.inl h
          · exact Or.inr (List.mem_cons_of_mem _ h)

private theorem mem_erase {k : Nat} {l : List (Nat × α)} {p : Nat × α}
    (hp : p ∈ erase k l) : p ∈ l := by
  induction l with
  | nil => simp [erase] at hp
  | cons a t ih =>
    obtain ⟨k', v'⟩ := a
    unfold erase at hp
    split at hp
    · exact List.mem_cons_of_mem _ hp
    · rcases List.mem_cons.1 hp with h | h
      · exact h ▸ List.mem_cons_self
      · exact List.mem_cons_of_mem _ (ih h)

private theorem lookup_mem {k : Nat} {v : α} {l : List (Nat × α)} (h : lookup k l = some v) : (k, v) ∈ l := by
  induction l with
  | nil => simp [lookup] at h
  | cons a t ih =>
    obtain ⟨k', v'⟩ := a
    unfold lookup at h
    split at h
    · cases h; subst_vars; exact List.mem_cons_self
    · exact List.mem_cons_of_mem _ (ih h)

private theorem lookup_none_of_lt {k : Nat} {l : List (Nat × α)} (h : ∀ p ∈ l, k < p.1) : lookup k l = none := by
  cases hl : lookup k l with
  | none => rfl
  | some v => have := h _ (lookup_mem hl); simp at this

theorem c18_insert_sorted (k : Nat) (v : α) (l : List (Nat × α)) (h : Sorted l) : Sorted (insert k v l) := by
  induction l with
  | nil => trivial
  | cons a t ih =>
    obtain ⟨k', v'⟩ := a
    unfold insert
    split
    · exact ⟨by assumption, h⟩
    · split
      · subst_vars; exact sorted_cons (sorted_tail h) (sorted_head_lt h)
      · refine sorted_cons (ih (sorted_tail h)) ?_
        intro p hp
        rcases mem_insert hp with rfl | hp
        · simp; omega
        · exact sorted_head_lt h p hp

theorem c18_erase_sorted (k : Nat) (l : List (Nat × α)) (h : Sorted l) : Sorted (erase k l) := by
  induction l with
  | nil => trivial
  | cons a t ih =>
    obtain ⟨k', v'⟩ := a
    unfold erase
    split
    · exact sorted_tail h
    · exact sorted_cons (ih (sorted_tail h)) (fun p hp => sorted_head_lt h p (mem_erase hp))

theorem c18_lookup_insert (k k' : Nat) (v : α) (l : List (Nat × α)) :
    lookup k' (insert k v l) = if k' = k then some v else lookup k' l := by
  induction l with
  | nil => simp [insert, lookup]
  | cons a t ih =>
    obtain ⟨k1, v1⟩ := a
    unfold insert
    split
    · simp [lookup]
    · split
      · subst_vars; simp only [lookup]; split <;> rfl
      · simp only [lookup, ih]
        split
        · subst_vars; rw [if_neg (by omega)]
        · rfl

theorem c18_lookup_erase (k k' : Nat) (l : List (Nat × α)) (h : Sorted l) :
    lookup k' (erase k l) = if k' = k then none else lookup k' l := by
  induction l with
  | nil => simp [erase, lookup]
  | cons a t ih =>
    obtain ⟨k1, v1⟩ := a
    unfold erase
    split
    · subst_vars
      simp only [lookup]
      split
      · subst_vars; exact lookup_none_of_lt (sorted_head_lt h)
      · rfl
    · simp only [lookup, ih (sorted_tail h)]
      split
      · subst_vars; rw [if_neg (by omega)]
      · rfl

/- corrected form of `c18_len_insert` (needs `Sorted l`; see the note at `c18_len_insert`) -/
private theorem len_insert_of_sorted (k : Nat) (v : α) (l : List (Nat × α)) (h : Sorted l) :
    (insert k v l).length = if (lookup k l).isSome then l.length else l.length + 1 := by
  induction l with
  | nil => simp [insert, lookup]
  | cons a t ih =>
    obtain ⟨k', v'⟩ := a
    unfold insert
    split
    · next hlt =>
      have hnone : lookup k t = none :=
        lookup_none_of_lt (fun p hp => Nat.lt_trans hlt (sorted_head_lt h p hp))
      simp only [lookup, if_neg (show ¬ k = k' by omega), hnone]
      simp
    · split
      · subst_vars; simp [lookup]
      · next hne =>
        simp only [lookup, if_neg hne, List.length_cons, ih (sorted_tail h)]
        split <;> rfl

/-- `Len`: inserting into a sorted list adds an entry exactly when the round was absent (the hypothesis
`Sorted l` is needed: on an unsorted list `insert` may prepend a key that occurs further down) -/
theorem c18_len_insert (k : Nat) (v : α) (l : List (Nat × α)) (h : Sorted l) :
    (insert k v l).length = if (lookup k l).isSome then l.length else l.length + 1 :=
  len_insert_of_sorted k v l h

/-- `Last` is the entry with the largest round -/
theorem c18_last_is_max (l : List (Nat × α)) (h : Sorted l) (k : Nat) (v : α)
    (hl : l.getLast? = some (k, v)) : ∀ p ∈ l, p.1 ≤ k := by
  induction l with
  | nil => intro p hp; cases hp
  | cons a t ih =>
    obtain ⟨k', v'⟩ := a
    cases t with
    | nil =>
      simp at hl
      intro p hp
      simp at hp
      subst hp
      simp [hl.1]
    | cons b t =>
      rw [List.getLast?_cons_cons] at hl
      have h2 := ih (sorted_tail h) hl
      intro p hp
      rcases List.mem_cons.1 hp with rfl | hp
      · have := h2 b List.mem_cons_self
        obtain ⟨kb, vb⟩ := b
        have : k' < kb := h.1
        simp at *; omega
      · exact h2 p hp

/-! ### untrimmed bolt: any op sequence -/

inductive Op where
  | put (b : Beacon)
  | del (r : Nat)

def Bolt.apply (s : BoltState) : Op → BoltState
  | .put b => Bolt.put s b
  | .del r => Bolt.del s r

def Bolt.run (ops : List Op) : BoltState := ops.foldl Bolt.apply []

/-- the specification: a plain function from round to the beacon last put and not deleted since -/
def Spec.apply (m : Nat → Option Beacon) : Op → (Nat → Option Beacon)
  | .put b => fun r => if r = b.round then some b else m r
  | .del r' => fun r => if r = r' then none else m r

def Spec.run (ops : List Op) : Nat → Option Beacon := ops.foldl Spec.apply (fun _ => none)

def BoltInv (s : BoltState) : Prop := Sorted s ∧ ∀ p ∈ s, p.2.round = p.1

private theorem bolt_inv_step (s : BoltState) (op : Op) (h : BoltInv s) : BoltInv (Bolt.apply s op) := by
  cases op with
  | put b =>
    refine ⟨c18_insert_sorted _ _ _ h.1, ?_⟩
    intro p hp
    rcases mem_insert hp with rfl | hp
    · rfl
    · exact h.2 p hp
  | del r =>
    exact ⟨c18_erase_sorted _ _ h.1, fun p hp => h.2 p (mem_erase hp)⟩

private theorem bolt_inv_foldl (ops : List Op) (s : BoltState) (h : BoltInv s) :
    BoltInv (ops.foldl Bolt.apply s) := by
  induction ops generalizing s with
  | nil => exact h
  | cons op ops ih => exact ih _ (bolt_inv_step s op h)

theorem c18_bolt_inv (ops : List Op) : BoltInv (Bolt.run ops) := by
  exact bolt_inv_foldl ops [] ⟨trivial, fun p hp => by cases hp⟩

/-- a read never returns a beacon labelled with another round than the one asked for -/
theorem c18_bolt_get_label (ops : List Op) (r : Nat) (b : Beacon)
    (h : Bolt.get (Bolt.run ops) r = .ok b) : b.round = r := by
  unfold Bolt.get at h
  split at h
  · next b' hb =>
    cases h
    exact (c18_bolt_inv ops).2 _ (lookup_mem hb)
  · cases h

private theorem bolt_refines_foldl (ops : List Op) (s : BoltState) (m : Nat → Option Beacon)
    (hs : BoltInv s) (hm : ∀ r, lookup r s = m r) :
    ∀ r, lookup r (ops.foldl Bolt.apply s) = ops.foldl Spec.apply m r := by
  induction ops generalizing s m with
  | nil => exact hm
  | cons op ops ih =>
    refine ih _ _ (bolt_inv_step s op hs) ?_
    intro r
    cases op with
    | put b => simp only [Bolt.apply, Bolt.put, Spec.apply, c18_lookup_insert, hm]
    | del r' => simp only [Bolt.apply, Bolt.del, Spec.apply, c18_lookup_erase _ _ _ hs.1, hm]

/-- refinement: for every op sequence and every round, `Get` answers exactly as the map does -/
theorem c18_bolt_refines_map (ops : List Op) (r : Nat) :
    Bolt.get (Bolt.run ops) r = (match Spec.run ops r with | some b => .ok b | none => .noBeacon) := by
  unfold Bolt.get Bolt.run Spec.run
  rw [bolt_refines_foldl ops [] (fun _ => none) ⟨trivial, fun p hp => by cases hp⟩ (fun _ => rfl) r]
  rfl

/-! ### cursor over a snapshot -/

/-- seeking a stored round lands on that round -/
theorem c18_seek_present (l : List (Nat × α)) (h : Sorted l) (k : Nat) (v : α) (hk : lookup k l = some v) :
    l[seekIdx k l]? = some (k, v) := by
  induction l with
  | nil => simp [lookup] at hk
  | cons a t ih =>
    obtain ⟨k', v'⟩ := a
    unfold lookup at hk
    unfold seekIdx
    split at hk
    · cases hk; subst_vars; simp
    · have hlt := sorted_head_lt h _ (lookup_mem hk)
      simp at hlt
      rw [if_neg (by omega)]
      simpa using ih (sorted_tail h) hk

/-- `Seek k` lands on the least stored round ≥ k -/
theorem c18_seek_least (l : List (Nat × α)) (h : Sorted l) (k : Nat) :
    (∀ j, j < seekIdx k l → ∀ p, l[j]? = some p → p.1 < k) ∧
    (∀ p, l[seekIdx k l]? = some p → k ≤ p.1) := by
  induction l with
  | nil => simp [seekIdx]
  | cons a t ih =>
    obtain ⟨k', v'⟩ := a
    have ih := ih (sorted_tail h)
    unfold seekIdx
    split
    · refine ⟨fun j hj => by omega, ?_⟩
      intro p hp
      simp at hp
      subst hp
      assumption
    · refine ⟨?_, ?_⟩
      · intro j hj p hp
        cases j with
        | zero => simp at hp; subst hp; simp; omega
        | succ j => exact ih.1 j (by omega) p (by simpa using hp)
      · intro p hp
        exact ih.2 p (by simpa using hp)

/-- whatever a cursor move returns is an entry of the snapshot (label and data belong together) -/
theorem c18_cursor_read_sound (c : Cursor α) (op : CurOp) (k : Nat) (v : α)
    (h : (c.move op).2 = some (k, v)) : (k, v) ∈ c.snap := by
  have key : ∀ (p : Option Nat),
      (match p with | some i => c.snap[i]? | none => none) = some (k, v) → (k, v) ∈ c.snap := by
    intro p hp
    cases p with
    | none => cases hp
    | some i => exact List.mem_of_getElem? hp
  exact key _ h

/-- position `i` of a sorted snapshot has a strictly smaller round than position `j > i` -/
theorem c18_iter_ascending (l : List (Nat × α)) (h : Sorted l) (i j : Nat) (hij : i < j) (p q : Nat × α)
    (hp : l[i]? = some p) (hq : l[j]? = some q) : p.1 < q.1 := by
  induction l generalizing i j with
  | nil => simp at hp
  | cons a t ih =>
    obtain ⟨k', v'⟩ := a
    cases j with
    | zero => omega
    | succ j =>
      simp at hq
      cases i with
      | zero =>
        simp at hp
        subst hp
        exact sorted_head_lt h q (List.mem_of_getElem? hq)
      | succ i =>
        simp at hp
        exact ih (sorted_tail h) i j (by omega) hp hq

/-- `First` followed by `n` `Next`s returns the n-th entry, and `none` from the end on: the session
enumerates exactly the snapshot, in order, each entry once. -/
def iterate (c : Cursor α) : Nat → Cursor α × Option (Nat × α)
  | 0 => c.move .first
  | n + 1 => (iterate c n).1.move .next

private theorem iterate_state (c : Cursor α) (n : Nat) :
    (iterate c n).1.snap = c.snap ∧
    (iterate c n).1.pos = if n < c.snap.length then some n else none := by
  induction n with
  | zero =>
    refine ⟨rfl, ?_⟩
    simp only [iterate, Cursor.move]
    cases hs : c.snap <;> simp
  | succ n ih =>
    refine ⟨ih.1, ?_⟩
    simp only [iterate, Cursor.move, ih.1, ih.2]
    split
    · next i hi =>
      split at hi
      · cases hi
        rfl
      · cases hi
    · next hi =>
      split at hi
      · cases hi
      · rw [if_neg (by omega)]

theorem c18_iter_all (c : Cursor α) (n : Nat) : (iterate c n).2 = c.snap[n]? := by
  cases n with
  | zero =>
    simp only [iterate, Cursor.move]
    cases hs : c.snap <;> simp
  | succ n =>
    have ih := iterate_state c n
    simp only [iterate, Cursor.move, ih.1, ih.2]
    by_cases h1 : n < c.snap.length
    · by_cases h2 : n + 1 < c.snap.length
      · simp [h1, h2]
      · simp [h1, h2]
    · simp [h1]; omega

/-! ### trimmed bolt -/

theorem c18_trimmed_read_sound (s : TrimmedState) (r : Nat) (b : Beacon) (h : Trimmed.get s r = .ok b) :
    b.round = r ∧ lookup r s.kv = some b.sig ∧
    (if s.requiresPrevious && decide (r > 0) then lookup (r - 1) s.kv = some b.prev else b.prev = []) := by
  unfold Trimmed.get Trimmed.getBeacon at h
  split at h
  · cases h
  · next sig hsig =>
    simp only [Bool.true_and] at h
    split at h
    · next hc =>
      split at h
      · cases h
      · next p hp =>
        cases h
        rw [if_pos hc]
        exact ⟨rfl, hsig, hp⟩
    · next hc =>
      cases h
      rw [if_neg hc]
      exact ⟨rfl, hsig, rfl⟩

theorem c18_trimmed_get_exact (s : TrimmedState) (r : Nat) :
    Trimmed.get s r = .noBeacon ↔
      (lookup r s.kv = none ∨ ((s.requiresPrevious && decide (r > 0)) = true ∧ lookup (r - 1) s.kv = none)) := by
  unfold Trimmed.get Trimmed.getBeacon
  cases h1 : lookup r s.kv with
  | none => simp
  | some sig =>
    simp only [Bool.true_and]
    by_cases hc : (s.requiresPrevious && decide (r > 0)) = true
    · rw [if_pos hc]
      cases h2 : lookup (r - 1) s.kv <;> simp [hc]
    · rw [if_neg hc]; simp [hc]

/-- every cursor read of the trimmed store (First/Next/Seek/Last) is labelled with the key whose signature it
carries, and the reconstructed previous signature is the stored signature of the preceding round -/
theorem c18_trimmed_cursor_read_sound (rp : Bool) (c : Cursor Bytes) (op : CurOp) (b : Beacon)
    (h : (Trimmed.cursorStep rp c op).2 = .ok b) :
    (b.round, b.sig) ∈ c.snap ∧
    (if rp && decide (b.round > 0) then lookup (b.round - 1) c.snap = some b.prev else b.prev = []) := by
  have h' : Trimmed.ofKV rp c.snap (c.move op).2 = .ok b := h
  cases hkv : (c.move op).2 with
  | none => rw [hkv] at h'; cases h'
  | some kv =>
    obtain ⟨k, sig⟩ := kv
    have hmem := c18_cursor_read_sound c op k sig hkv
    rw [hkv] at h'
    unfold Trimmed.ofKV at h'
    simp only at h'
    split at h'
    · next hc =>
      unfold Trimmed.getBeacon at h'
      cases hl : lookup (k - 1) c.snap with
      | none => simp [hl] at h'
      | some p =>
        simp [hl] at h'
        subst h'
        simp only [if_pos hc]
        exact ⟨hmem, hl⟩
    · next hc =>
      cases h'
      simp only [if_neg hc]
      exact ⟨hmem, trivial⟩

/-! ### in-memory ring -/

def MemSorted : List Beacon → Prop
  | [] => True
  | [_] => True
  | a :: b :: t => a.round < b.round ∧ MemSorted (b :: t)

inductive MOp where
  | put (b : Beacon)
  | del (r : Nat)

def Mem.apply (s : MemState) : MOp → MemState
  | .put b => Mem.put s b
  | .del r => Mem.del s r

def Mem.run (cap : Nat) (ops : List MOp) : MemState := ops.foldl Mem.apply ⟨cap, []⟩

private theorem msorted_tail {a : Beacon} {t : List Beacon} (h : MemSorted (a :: t)) : MemSorted t := by
  cases t with
  | nil => trivial
  | cons b t => exact h.2

private theorem msorted_head_lt {a : Beacon} {t : List Beacon} (h : MemSorted (a :: t)) :
    ∀ x ∈ t, a.round < x.round := by
  induction t generalizing a with
  | nil => intro x hx; cases hx
  | cons b t ih =>
    intro x hx
    rcases List.mem_cons.1 hx with rfl | hx
    · exact h.1
    · exact Nat.lt_trans h.1 (ih h.2 x hx)

private theorem msorted_cons {a : Beacon} {t : List Beacon} (ht : MemSorted t)
    (h : ∀ x ∈ t, a.round < x.round) : MemSorted (a :: t) := by
  cases t with
  | nil => trivial
  | cons b t => exact ⟨h _ List.mem_cons_self, ht⟩

private theorem mem_ins {b x : Beacon} {l : List Beacon} (hx : x ∈ Mem.ins b l) : x = b ∨ x ∈ l := by
  induction l with
  | nil => simpa [Mem.ins] using hx
  | cons a t ih =>
    unfold Mem.ins at hx
    split at hx
    · simpa using hx
    · rcases List.mem_cons.1 hx with h | h
      · exact Or.inr (h ▸ List.mem_cons_self)
      · rcases ih h with h | h
        · exact Or.inl h
        · exact Or.inr (List.mem_cons_of_mem _ h)

private theorem ins_length (b : Beacon) (l : List Beacon) : (Mem.ins b l).length = l.length + 1 := by
  induction l with
  | nil => rfl
  | cons a t ih =>
    unfold Mem.ins
    split
    · rfl
    · simp [ih]

private theorem ins_sorted {b : Beacon} {l : List Beacon} (hl : MemSorted l)
    (hne : ∀ x ∈ l, x.round ≠ b.round) : MemSorted (Mem.ins b l) := by
  induction l with
  | nil => trivial
  | cons a t ih =>
    unfold Mem.ins
    split
    · exact ⟨by assumption, hl⟩
    · refine msorted_cons (ih (msorted_tail hl) (fun x hx => hne x (List.mem_cons_of_mem _ hx))) ?_
      intro x hx
      rcases mem_ins hx with rfl | hx
      · have := hne a List.mem_cons_self; omega
      · exact msorted_head_lt hl x hx

private theorem drop_sorted {l : List Beacon} (n : Nat) (hl : MemSorted l) : MemSorted (l.drop n) := by
  induction n generalizing l with
  | zero => simpa using hl
  | succ n ih =>
    cases l with
    | nil => trivial
    | cons a t => simpa using ih (msorted_tail hl)

private theorem eraseIdx_sorted {l : List Beacon} (i : Nat) (hl : MemSorted l) : MemSorted (l.eraseIdx i) := by
  induction l generalizing i with
  | nil => trivial
  | cons a t ih =>
    cases i with
    | zero => simpa using msorted_tail hl
    | succ i =>
      simp only [List.eraseIdx_cons_succ]
      exact msorted_cons (ih i (msorted_tail hl))
        (fun x hx => msorted_head_lt hl x (List.mem_of_mem_eraseIdx hx))

private theorem not_any_round {l : List Beacon} {b : Beacon} (h : ¬ (l.any (·.round == b.round)) = true) :
    ∀ x ∈ l, x.round ≠ b.round := by
  intro x hx heq
  apply h
  simp only [List.any_eq_true]
  exact ⟨x, hx, by simp [heq]⟩

private theorem mem_inv_step (s : MemState) (op : MOp) (h : MemSorted s.store) :
    MemSorted (Mem.apply s op).store := by
  cases op with
  | put b =>
    simp only [Mem.apply, Mem.put]
    split
    · exact h
    · next hany =>
      have := ins_sorted h (not_any_round hany)
      simp only
      split
      · exact drop_sorted _ this
      · exact this
  | del r =>
    simp only [Mem.apply, Mem.del]
    split
    · exact eraseIdx_sorted _ h
    · exact h

private theorem mem_inv_foldl (ops : List MOp) (s : MemState) (h : MemSorted s.store) :
    MemSorted (ops.foldl Mem.apply s).store := by
  induction ops generalizing s with
  | nil => exact h
  | cons op ops ih => exact ih _ (mem_inv_step s op h)

theorem c18_mem_inv (cap : Nat) (ops : List MOp) : MemSorted (Mem.run cap ops).store := by
  exact mem_inv_foldl ops ⟨cap, []⟩ trivial

private theorem mem_cap_step (s : MemState) (op : MOp) (h : s.store.length ≤ s.cap) :
    (Mem.apply s op).store.length ≤ s.cap ∧ (Mem.apply s op).cap = s.cap := by
  cases op with
  | put b =>
    simp only [Mem.apply, Mem.put]
    split
    · exact ⟨h, rfl⟩
    · simp only
      split
      · refine ⟨?_, trivial⟩
        rw [List.length_drop]; omega
      · refine ⟨by omega, trivial⟩
  | del r =>
    simp only [Mem.apply, Mem.del]
    split
    · refine ⟨?_, rfl⟩
      simp only [List.length_eraseIdx]
      split <;> omega
    · exact ⟨h, rfl⟩

private theorem mem_cap_foldl (ops : List MOp) (s : MemState) (h : s.store.length ≤ s.cap) :
    (ops.foldl Mem.apply s).store.length ≤ s.cap ∧ (ops.foldl Mem.apply s).cap = s.cap := by
  induction ops generalizing s with
  | nil => exact ⟨h, rfl⟩
  | cons op ops ih =>
    have hs := mem_cap_step s op h
    have := ih (Mem.apply s op) (by rw [hs.2]; exact hs.1)
    rw [hs.2] at this
    exact this

theorem c18_mem_cap (cap : Nat) (ops : List MOp) : (Mem.run cap ops).store.length ≤ cap ∧ (Mem.run cap ops).cap = cap := by
  exact mem_cap_foldl ops ⟨cap, []⟩ (Nat.zero_le _)

/-- re-putting a stored round keeps the old value -/
theorem c18_mem_put_keeps (s : MemState) (b : Beacon) (h : ∃ x ∈ s.store, x.round = b.round) : Mem.put s b = s := by
  unfold Mem.put
  rw [if_pos]
  obtain ⟨x, hx, he⟩ := h
  simp only [List.any_eq_true]
  exact ⟨x, hx, by simp [he]⟩

theorem c18_mem_get_sound (s : MemState) (r : Nat) (b : Beacon) (h : Mem.get s r = .ok b) :
    b ∈ s.store ∧ b.round = r := by
  unfold Mem.get at h
  split at h
  · next x hx =>
    cases h
    exact ⟨List.mem_of_find?_eq_some hx, by simpa using List.find?_some hx⟩
  · cases h

/-- putting a new round yields a suffix of the sorted insert: only the smallest rounds are forgotten -/
theorem c18_mem_window (s : MemState) (b : Beacon) (h : ¬ ∃ x ∈ s.store, x.round = b.round) :
    (Mem.put s b).store <:+ Mem.ins b s.store ∧
    (Mem.put s b).store.length = min s.cap (s.store.length + 1) := by
  have hany : ¬ (s.store.any (·.round == b.round)) = true := by
    intro ha
    apply h
    simp only [List.any_eq_true] at ha
    obtain ⟨x, hx, he⟩ := ha
    exact ⟨x, hx, by simpa using he⟩
  unfold Mem.put
  rw [if_neg hany]
  simp only
  have hlen := ins_length b s.store
  split
  · refine ⟨List.drop_suffix _ _, ?_⟩
    rw [List.length_drop]; omega
  · refine ⟨List.suffix_refl _, ?_⟩
    omega

private theorem read_of_opt_mem {o : Option Beacon} {l : List Beacon} {b : Beacon}
    (ho : ∀ x, o = some x → x ∈ l)
    (h : (match o with | some b => Read.ok b | none => Read.noBeacon) = .ok b) : b ∈ l := by
  cases o with
  | none => cases h
  | some x => cases h; exact ho _ rfl

/-- whatever the positional cursor returns is an element of the live store (even when mutations interleave) -/
theorem c18_mem_cursor_sound (s : MemState) (pos : Nat) (op : CurOp) (b : Beacon)
    (h : (Mem.cursorStep s pos op).2 = .ok b) : b ∈ s.store := by
  cases op with
  | first =>
    simp only [Mem.cursorStep] at h
    split at h
    · cases h
    · exact read_of_opt_mem (fun x hx => List.mem_of_getElem? hx) h
  | next =>
    simp only [Mem.cursorStep] at h
    split at h
    · cases h
    · split at h
      · cases h
      · exact read_of_opt_mem (fun x hx => List.mem_of_getElem? hx) h
  | last =>
    simp only [Mem.cursorStep] at h
    split at h
    · cases h
    · exact read_of_opt_mem (fun x hx => List.mem_of_getLast? hx) h
  | seek r =>
    simp only [Mem.cursorStep] at h
    split at h
    · exact read_of_opt_mem (fun x hx => List.mem_of_getElem? hx) h
    · cases h

/-! ### reads return values: what a caller holds does not change under later writes

The aliasing that the `hold`/`cmp` ops of engine `store` look for (a returned `[]byte` that is a window into bbolt's
mmap'ed page, or memdb handing out a pointer it later writes through) cannot be expressed in the model — a `Read` is a
value. The theorem states the obligation the implementation has to meet; only the correspondence run can exhibit a
violation of it, because the violation is behaviour of the Go runtime (shared backing arrays), not of the map. -/

private theorem slot_run_other {σ : Type} (B : Backend σ) (k : Nat) (later : List HOp)
    (hno : ∀ rq', HOp.hold k rq' ∉ later) (h : Held σ) :
    (Held.run B h later).slot k = h.slot k := by
  induction later generalizing h with
  | nil => rfl
  | cons op later ih =>
    have hno' : ∀ rq', HOp.hold k rq' ∉ later := fun rq' hm => hno rq' (List.mem_cons_of_mem _ hm)
    unfold Held.run
    rw [List.foldl_cons]
    have := ih hno' (Held.step B h op)
    unfold Held.run at this
    rw [this]
    cases op with
    | put b => rfl
    | del r => rfl
    | hold k' rq =>
      have hk : k' ≠ k := by
        intro e
        subst e
        exact hno rq List.mem_cons_self
      simp only [Held.step, Held.slot, List.lookup_cons]
      have : (k == k') = false := by simpa using fun e => hk e.symm
      rw [this]

/-- **c18_read_is_snapshot.** For every back-end, every state, every read path (`Get`, `Last`, any read-only cursor
session) and every later sequence of writes, deletions and other callers' reads: the value a read returned and its caller
still holds equals the value that read computed from the store *as it was at the time of the read*. -/
theorem c18_read_is_snapshot {σ : Type} (B : Backend σ) (h : Held σ) (k : Nat) (rq : ReadReq) (later : List HOp)
    (hno : ∀ rq', HOp.hold k rq' ∉ later) :
    (Held.run B (Held.step B h (.hold k rq)) later).slot k = some (B.read h.store rq) := by
  rw [slot_run_other B k later hno]
  simp [Held.step, Held.slot]

/-- … and, for the untrimmed bolt store reached by any op sequence, that value is what the sorted-map specification
holds for the round at that time (the beacon last put and not deleted since), whatever is put or deleted afterwards. -/
theorem c18_bolt_held_get (ops : List Op) (slots : List (Nat × Read)) (k r : Nat) (later : List HOp)
    (hno : ∀ rq', HOp.hold k rq' ∉ later) :
    (Held.run boltBackend (Held.step boltBackend ⟨Bolt.run ops, slots⟩ (.hold k (.get r))) later).slot k =
      some (match Spec.run ops r with | some b => .ok b | none => .noBeacon) := by
  rw [c18_read_is_snapshot boltBackend ⟨Bolt.run ops, slots⟩ k (.get r) later hno]
  exact congrArg some (c18_bolt_refines_map ops r)

/-! ### `Put` under a context: answered ok ⇒ readable, answered with an error ⇒ no effect -/

/-- **c18_put_ok_readable.** After a `Put` that answered ok the round is readable with the value put: untrimmed bolt
returns the beacon; trimmed bolt returns its round and signature (and the previous signature it reconstructs) unless
the context requires previous signatures and round−1 is missing; memdb returns it when the round was not stored before
and the ring has room. -/
theorem c18_put_ok_readable :
    (∀ (s : BoltState) (b : Beacon), Bolt.get (boltBackend.putCtx s b true) b.round = .ok b) ∧
    (∀ (s : TrimmedState) (b : Beacon),
        lookup b.round (trimmedBackend.putCtx s b true).kv = some b.sig ∧
        ((s.requiresPrevious && decide (b.round > 0)) = false →
          Trimmed.get (trimmedBackend.putCtx s b true) b.round = .ok ⟨b.round, b.sig, []⟩) ∧
        (∀ p, (s.requiresPrevious && decide (b.round > 0)) = true → lookup (b.round - 1) s.kv = some p →
          Trimmed.get (trimmedBackend.putCtx s b true) b.round = .ok ⟨b.round, b.sig, p⟩)) ∧
    (∀ (s : MemState) (b : Beacon), (∀ x ∈ s.store, x.round ≠ b.round) → s.store.length < s.cap →
        Mem.get (memBackend.putCtx s b true) b.round = .ok b) := by
  refine ⟨?_, ?_, ?_⟩
  · intro s b
    simp [Backend.putCtx, boltBackend, Bolt.get, Bolt.put, c18_lookup_insert]
  · intro s b
    have hk : lookup b.round (Trimmed.put s b).kv = some b.sig := by
      simp [Trimmed.put, c18_lookup_insert]
    refine ⟨by simpa [Backend.putCtx, trimmedBackend] using hk, ?_, ?_⟩
    · intro hc
      have hrp : (Trimmed.put s b).requiresPrevious = s.requiresPrevious := rfl
      simp only [Backend.putCtx, trimmedBackend, if_true, Trimmed.get, Trimmed.getBeacon, hk, hrp, Bool.true_and]
      rw [if_neg (by simp [hc])]
    · intro p hc hp
      have hrp : (Trimmed.put s b).requiresPrevious = s.requiresPrevious := rfl
      have hne : b.round - 1 ≠ b.round := by
        have : b.round > 0 := by
          simp only [Bool.and_eq_true, decide_eq_true_eq] at hc
          exact hc.2
        omega
      have hp' : lookup (b.round - 1) (Trimmed.put s b).kv = some p := by
        simp only [Trimmed.put, c18_lookup_insert, if_neg hne, hp]
      simp only [Backend.putCtx, trimmedBackend, if_true, Trimmed.get, Trimmed.getBeacon, hk, hrp, Bool.true_and]
      rw [if_pos hc, hp']
  · intro s b hnew hroom
    have hany : ¬ (s.store.any (·.round == b.round)) = true := by
      simp only [List.any_eq_true, not_exists, not_and]
      intro x hx he
      exact hnew x hx (by simpa using he)
    have hlen := ins_length b s.store
    have hput : (Mem.put s b).store = Mem.ins b s.store := by
      unfold Mem.put
      rw [if_neg hany]
      simp only
      rw [if_neg (by omega)]
    have hfind : ∀ l : List Beacon, (∀ x ∈ l, x.round ≠ b.round) →
        (Mem.ins b l).find? (·.round == b.round) = some b := by
      intro l
      induction l with
      | nil => intro _; simp [Mem.ins]
      | cons x t ih =>
        intro hl
        unfold Mem.ins
        split
        · simp
        · have hx : (x.round == b.round) = false := by simpa using hl x List.mem_cons_self
          rw [List.find?_cons, hx]
          exact ih (fun y hy => hl y (List.mem_cons_of_mem _ hy))
    simp only [Backend.putCtx, memBackend, if_true, Mem.get, hput, hfind s.store hnew]

/-- **c18_put_failed_no_effect.** A `Put` that answered with an error (its context was cancelled before the write) leaves
every read as it was. -/
theorem c18_put_failed_no_effect {σ : Type} (B : Backend σ) (s : σ) (b : Beacon) (rq : ReadReq) :
    B.read (B.putCtx s b false) rq = B.read s rq := by
  simp [Backend.putCtx]

/-- **c18_saveto_is_content.** `SaveTo` runs inside one read transaction (`db.View` … `tx.WriteTo`): the copy is the
content of the bucket at that moment, so a store opened on the copy answers every `Get` as the original did. Stated for
the model: reading the dumped association list back is the identity on `lookup`, for any op sequence. -/
theorem c18_saveto_is_content (ops : List Op) (r : Nat) :
    lookup r ((Bolt.run ops).map fun p => (p.1, p.2)) = lookup r (Bolt.run ops) ∧
    BoltInv ((Bolt.run ops).map fun p => (p.1, p.2)) := by
  have : ((Bolt.run ops).map fun p => (p.1, p.2)) = Bolt.run ops := by
    simp
  rw [this]
  exact ⟨rfl, c18_bolt_inv ops⟩

/-! non-vacuity -/
example : (Held.run boltBackend (Held.step boltBackend ⟨Bolt.run [.put ⟨1, [0xaa], []⟩, .put ⟨2, [0xbb], [0xaa]⟩], []⟩ (.hold 7 (.get 2)))
    [.put ⟨3, [0xcc], [0xbb]⟩, .put ⟨2, [0xdd], [0xaa]⟩, .del 2, .hold 8 (.get 2)]).slot 7 = some (.ok ⟨2, [0xbb], [0xaa]⟩) := by decide
example : (Held.run trimmedBackend (Held.step trimmedBackend ⟨⟨true, [(1, [0xaa]), (2, [0xbb])]⟩, []⟩ (.hold 0 (.cursor [.seek 2])))
    [.put ⟨3, [0xcc], []⟩, .del 1]).slot 0 = some (.ok ⟨2, [0xbb], [0xaa]⟩) := by decide
example : (Held.run memBackend (Held.step memBackend ⟨⟨2, [⟨1, [0xaa], []⟩, ⟨2, [0xbb], []⟩]⟩, []⟩ (.hold 0 .last))
    [.put ⟨3, [0xcc], []⟩, .put ⟨4, [0xdd], []⟩]).slot 0 = some (.ok ⟨2, [0xbb], []⟩) := by decide
example : Bolt.get (boltBackend.putCtx [(1, ⟨1, [0xaa], []⟩)] ⟨2, [0xbb], [0xaa]⟩ true) 2 = .ok ⟨2, [0xbb], [0xaa]⟩ ∧
    Bolt.get (boltBackend.putCtx [(1, ⟨1, [0xaa], []⟩)] ⟨2, [0xbb], [0xaa]⟩ false) 2 = .noBeacon := by decide
example : Trimmed.get (trimmedBackend.putCtx ⟨true, [(1, [0xaa])]⟩ ⟨2, [0xbb], [0x99]⟩ true) 2 = .ok ⟨2, [0xbb], [0xaa]⟩ := by decide
example : Mem.get (memBackend.putCtx ⟨3, [⟨1, [0xaa], []⟩]⟩ ⟨2, [0xbb], []⟩ true) 2 = .ok ⟨2, [0xbb], []⟩ := by decide

end Drand.Store
