/-
C06 — a completed DKG leaves all nodes with one group and matching key shares.   (PARTIAL, DESIGN.md §3 C06, §6)

Models: Drand/DKG/Order.lean (ordering, index assignment, asGroup, transition time); the share algebra is
DrandProofs/Lemmas/Pedersen.lean (`c06_share_on_poly`, `c06_threshold_signs`, … over a field and a module).

What is NOT proved here and is a stated hypothesis (`PedersenSpec`): that kyber's protocol ends on every completing
node with the same QUAL and the same public coefficients — in the theorems below this is the fact that two nodes
call `asGroup` with the same `qual` and `coeffs`. The differential runs (`dkgrun`) sample it.

FULL STATEMENT (not provable for the code as it is; kept visible):
    every two nodes that complete the same DKG epoch build equal groups
      ∀ d coeffs qual epoch now₁ now₂,  finishDKG H d epoch now₁ coeffs qual = finishDKG H d epoch now₂ coeffs qual
The proof forces the hypothesis "both nodes read their clocks in the same beacon round" for epochs > 1, because the
transition time is computed from each node's own `time.Now()`: `c06_one_group_partial` + `c06_one_group_counterexample`.
-/
import Drand.DKG.Order
import DrandProofs.C06Bcast
import DrandProofs.C16
import DrandProofs.C17
import DrandProofs.Lemmas.Pedersen

namespace Drand.DKG
open Drand Drand.Codec

/-! ### ties: the hand-written model reads the code the way go2lean regenerated it -/

theorem tie_sort_comparator : Gen.sortComparator = "string(out[i].Key) < string(out[j].Key)" := rfl

theorem tie_index_assignment :
    Gen.setupSortedParticipants = "util.SortedByPublicKey(append(current.Remaining, current.Joining...))" ∧
    Gen.initialDKGConfigToNode = "util.ToNode(index, participant, sch)" ∧
    Gen.reshareDKGConfigToNode = "util.ToNode(index, participant, keypair.Scheme())" ∧
    Gen.toNodeFields = [("Public", "public"), ("Index", "uint32(index)")] ∧
    Gen.finalGroupAppend = "append(finalGroup, config.NewNodes[v.Index])" ∧
    Gen.initialDKGConfigConfig.lookup "NewNodes" = some "newNodes" ∧
    Gen.reshareDKGConfigConfig.lookup "NewNodes" = some "newNodes" := by
  refine ⟨rfl, rfl, rfl, rfl, rfl, rfl, rfl⟩

theorem tie_asgroup_fields : Gen.asGroupFields = asGroupFieldMap := rfl

theorem tie_asgroup_seed_rule :
    Gen.asGroupSeedCond = "len(group.GenesisSeed) == 0" ∧ Gen.asGroupSeedRhs = "group.Hash()" ∧
    Gen.asGroupSorted = "util.SortedByPublicKey(append(details.Remaining, details.Joining...))" ∧
    Gen.asGroupToKeyNode = "util.ToKeyNode(int(v.Index), allSortedParticipants[v.Index], keyShare.Scheme)" ∧
    Gen.asGroupScheme = "crypto.GetSchemeByID(details.SchemeID)" ∧
    Gen.toKeyNodeIdentity = [("Key", "public"), ("Addr", "participant.Address"), ("Signature", "participant.Signature"), ("Scheme", "sch")] ∧
    Gen.toKeyNodeNode = [("Index", "uint32(index)")] := by
  refine ⟨rfl, rfl, rfl, rfl, rfl, rfl, rfl⟩

theorem tie_transition_tail :
    Gen.transitionCond = "current.Epoch == 1" ∧ Gen.transitionThen = "current.GenesisTime.Unix()" ∧
    Gen.transitionElse = ["roundsUntilTransition := 10",
      "currentRound := common.CurrentRound(time.Now().Unix(), current.BeaconPeriod, current.GenesisTime.Unix())",
      "transitionTime = common.TimeOfRound(current.BeaconPeriod, current.GenesisTime.Unix(), currentRound+uint64(roundsUntilTransition))"] ∧
    Gen.roundsUntilTransition = 10 := by
  refine ⟨rfl, rfl, rfl, rfl⟩

/-! ### (a) ordering by public key -/

private theorem u8_lt_irrefl (a : UInt8) : ¬ a < a := by
  rw [UInt8.lt_iff_toNat_lt]; omega

private theorem keyLt_irrefl (a : Bytes) : keyLt a a = false := by
  induction a with
  | nil => rfl
  | cons x t ih => simp [keyLt, ih]

private theorem keyLt_trans (a b c : Bytes) (h1 : keyLt a b = true) (h2 : keyLt b c = true) : keyLt a c = true := by
  induction a generalizing b c with
  | nil =>
    cases b with
    | nil => simp [keyLt] at h1
    | cons y bt =>
      cases c with
      | nil => simp [keyLt] at h2
      | cons z ct => simp [keyLt]
  | cons x at' ih =>
    cases b with
    | nil => simp [keyLt] at h1
    | cons y bt =>
      cases c with
      | nil => simp [keyLt] at h2
      | cons z ct =>
        simp only [keyLt, Bool.or_eq_true, decide_eq_true_eq, Bool.and_eq_true, beq_iff_eq] at h1 h2 ⊢
        rcases h1 with h1 | ⟨rfl, h1⟩
        · rcases h2 with h2 | ⟨rfl, _⟩
          · left; rw [UInt8.lt_iff_toNat_lt] at *; omega
          · left; exact h1
        · rcases h2 with h2 | ⟨rfl, h2⟩
          · left; exact h2
          · right; exact ⟨rfl, ih bt ct h1 h2⟩

private theorem keyLt_total (a b : Bytes) (hne : a ≠ b) : keyLt a b = true ∨ keyLt b a = true := by
  induction a generalizing b with
  | nil =>
    cases b with
    | nil => exact absurd rfl hne
    | cons y bt => left; simp [keyLt]
  | cons x at' ih =>
    cases b with
    | nil => right; simp [keyLt]
    | cons y bt =>
      simp only [keyLt, Bool.or_eq_true, decide_eq_true_eq, Bool.and_eq_true, beq_iff_eq]
      by_cases hxy : x = y
      · subst hxy
        have hne' : at' ≠ bt := fun h => hne (by rw [h])
        rcases ih bt hne' with h | h
        · left; right; exact ⟨rfl, h⟩
        · right; right; exact ⟨rfl, h⟩
      · have : x.toNat ≠ y.toNat := fun h => hxy (UInt8.toNat_inj.1 h)
        by_cases hlt : x.toNat < y.toNat
        · left; left; rw [UInt8.lt_iff_toNat_lt]; exact hlt
        · right; left; rw [UInt8.lt_iff_toNat_lt]; omega

private theorem keyLt_asymm (a b : Bytes) (h : keyLt a b = true) : keyLt b a = false := by
  cases hba : keyLt b a with
  | false => rfl
  | true => have := keyLt_trans a b a h hba; rw [keyLt_irrefl] at this; exact absurd this (by simp)

/-- pairwise distinct public keys -/
def DistinctKeys (l : List Participant) : Prop := (l.map (·.key)).Nodup
instance (l : List Participant) : Decidable (DistinctKeys l) := by unfold DistinctKeys; infer_instance

private theorem insertPart_perm (p : Participant) (l : List Participant) : (insertPart p l).Perm (p :: l) := by
  induction l with
  | nil => exact List.Perm.refl _
  | cons x t ih =>
    unfold insertPart
    split
    · exact List.Perm.refl _
    · exact (List.Perm.cons x ih).trans (List.Perm.swap p x t)

/-- sorting only reorders: nobody is dropped, nobody is invented -/
theorem c06_sorted_perm (l : List Participant) : (sortedByPublicKey l).Perm l := by
  induction l with
  | nil => exact List.Perm.refl _
  | cons x t ih => exact (insertPart_perm x _).trans (List.Perm.cons x ih)

private theorem insertPart_sorted (p : Participant) (l : List Participant)
    (h : l.Pairwise (fun a b => keyLt b.key a.key = false)) :
    (insertPart p l).Pairwise (fun a b => keyLt b.key a.key = false) := by
  induction l with
  | nil => simp [insertPart]
  | cons x t ih =>
    rw [List.pairwise_cons] at h
    unfold insertPart
    split
    · rename_i hlt
      refine List.pairwise_cons.2 ⟨?_, List.pairwise_cons.2 h⟩
      intro y hy
      rcases List.mem_cons.1 hy with rfl | hy
      · exact keyLt_asymm _ _ hlt
      · cases hyp : keyLt y.key p.key with
        | false => rfl
        | true =>
          have := keyLt_trans _ _ _ hyp hlt
          rw [h.1 y hy] at this; exact absurd this (by simp)
    · rename_i hge
      refine List.pairwise_cons.2 ⟨?_, ih h.2⟩
      intro y hy
      rcases List.mem_cons.1 ((insertPart_perm p t).mem_iff.1 hy) with rfl | hy
      · simpa using hge
      · exact h.1 y hy

private theorem sorted_sorted (l : List Participant) :
    (sortedByPublicKey l).Pairwise (fun a b => keyLt b.key a.key = false) := by
  induction l with
  | nil => simp [sortedByPublicKey]
  | cons x t ih => exact insertPart_sorted x _ ih

/-- with pairwise distinct keys the sorted list is strictly increasing in the byte order of the keys -/
theorem c06_sorted_strict (l : List Participant) (hd : DistinctKeys l) :
    (sortedByPublicKey l).Pairwise (fun a b => keyLt a.key b.key = true) := by
  have h1 := sorted_sorted l
  have h2 : (sortedByPublicKey l).Pairwise (fun a b => a.key ≠ b.key) := by
    have : ((sortedByPublicKey l).map (·.key)).Nodup := (((c06_sorted_perm l).map _).nodup_iff).2 hd
    exact List.pairwise_map.1 this
  refine (h1.and h2).imp ?_
  intro a b ⟨h, h'⟩
  rcases keyLt_total a.key b.key h' with hab | hba
  · exact hab
  · rw [h] at hba; exact absurd hba (by simp)

private theorem strict_sorted_unique (l1 l2 : List Participant) (hp : l1.Perm l2)
    (h1 : l1.Pairwise (fun a b => keyLt a.key b.key = true)) (h2 : l2.Pairwise (fun a b => keyLt a.key b.key = true)) :
    l1 = l2 := by
  induction l1 generalizing l2 with
  | nil => exact hp.nil_eq
  | cons a t1 ih =>
    cases l2 with
    | nil => exact absurd hp.symm.nil_eq (by simp)
    | cons b t2 =>
      rw [List.pairwise_cons] at h1 h2
      have hab : a = b := by
        have ha : a ∈ b :: t2 := hp.mem_iff.1 (List.mem_cons_self)
        have hb : b ∈ a :: t1 := hp.mem_iff.2 (List.mem_cons_self)
        rcases List.mem_cons.1 ha with h | ha
        · exact h
        · rcases List.mem_cons.1 hb with h | hb
          · exact h.symm
          · have e1 := h1.1 b hb
            have e2 := h2.1 a ha
            rw [keyLt_asymm _ _ e1] at e2; exact absurd e2 (by simp)
      subst hab
      rw [ih t2 hp.cons_inv h1.2 h2.2]

/-- **order independence**: two listings of the same participants (pairwise distinct keys) sort to the same
list — whatever order the leader's command, the proposal packet or the local store listed them in. -/
theorem c06_order_independent (l1 l2 : List Participant) (hp : l1.Perm l2) (hd : DistinctKeys l1) :
    sortedByPublicKey l1 = sortedByPublicKey l2 := by
  have hd2 : DistinctKeys l2 := ((hp.map _).nodup_iff).1 hd
  exact strict_sorted_unique _ _ (((c06_sorted_perm l1).trans hp).trans (c06_sorted_perm l2).symm)
    (c06_sorted_strict _ hd) (c06_sorted_strict _ hd2)

/-- hence the same DKG index for every key and the same `NewNodes` on every node, also when one node lists a
participant under `Remaining` that another lists under `Joining` in a different position -/
theorem c06_index_independent (r1 j1 r2 j2 : List Participant) (hp : (r1 ++ j1).Perm (r2 ++ j2))
    (hd : DistinctKeys (r1 ++ j1)) :
    newNodes r1 j1 = newNodes r2 j2 ∧ ∀ k, indexOfKey r1 j1 k = indexOfKey r2 j2 k := by
  have h := c06_order_independent _ _ hp hd
  constructor
  · simp only [newNodes, h]
  · intro k; simp only [indexOfKey, h]

/-! ### (a) group assembly -/

/-- `asGroup` does not depend on the order in which the participants are stored -/
theorem c06_asgroup_order_independent (H : Bytes → Bytes) (d d' : Details) (coeffs : List Bytes) (qual : List Nat) (tt : Int)
    (hsame : d'.beaconID = d.beaconID ∧ d'.threshold = d.threshold ∧ d'.periodSec = d.periodSec ∧ d'.schemeID = d.schemeID ∧
      d'.catchupSec = d.catchupSec ∧ d'.genesisTime = d.genesisTime ∧ d'.genesisSeed = d.genesisSeed)
    (hp : (d.remaining ++ d.joining).Perm (d'.remaining ++ d'.joining)) (hd : DistinctKeys (d.remaining ++ d.joining)) :
    asGroup H d coeffs qual tt = asGroup H d' coeffs qual tt := by
  obtain ⟨h1, h2, h3, h4, h5, h6, h7⟩ := hsame
  unfold asGroup asGroupS
  rw [h1, h2, h3, h4, h5, h6, h7, c06_order_independent _ _ hp hd]

/-- **the final group is a function of (terms, QUAL indices, public coefficients, transition time)**: two nodes
that stored the same terms (in any order of the participant lists), saw the same QUAL and the same public
coefficients and use the same transition time build the same group — all ten fields. -/
theorem c06_group_function (H : Bytes → Bytes) (d₁ d₂ : Details) (coeffs₁ coeffs₂ : List Bytes) (qual₁ qual₂ : List Nat)
    (tt₁ tt₂ : Int)
    (hterms : d₂.beaconID = d₁.beaconID ∧ d₂.threshold = d₁.threshold ∧ d₂.periodSec = d₁.periodSec ∧ d₂.schemeID = d₁.schemeID ∧
      d₂.catchupSec = d₁.catchupSec ∧ d₂.genesisTime = d₁.genesisTime ∧ d₂.genesisSeed = d₁.genesisSeed)
    (hp : (d₁.remaining ++ d₁.joining).Perm (d₂.remaining ++ d₂.joining)) (hd : DistinctKeys (d₁.remaining ++ d₁.joining))
    (hq : qual₁ = qual₂) (hc : coeffs₁ = coeffs₂) (ht : tt₁ = tt₂) :
    asGroup H d₁ coeffs₁ qual₁ tt₁ = asGroup H d₂ coeffs₂ qual₂ tt₂ := by
  subst hq hc ht
  exact c06_asgroup_order_independent H d₁ d₂ _ _ _ hterms hp hd

private theorem keyNodes_spec (all : List Participant) (qual : List Nat) (ns : List GNode)
    (h : keyNodes all qual = .ok ns) :
    ns.map (·.index) = qual ∧
    ∀ n ∈ ns, ∃ p, all[n.index]? = some p ∧ n.addr = p.addr ∧ n.key = p.key ∧ n.sig = p.sig := by
  induction qual generalizing ns with
  | nil => simp [keyNodes] at h; subst h; simp
  | cons i t ih =>
    unfold keyNodes at h
    cases hp : all[i]? with
    | none => simp [hp] at h
    | some p =>
      simp only [hp] at h
      by_cases hk : p.keyOK
      · simp only [hk, Bool.not_true, Bool.false_eq_true, if_false] at h
        cases hr : keyNodes all t with
        | error e => simp [hr] at h
        | ok r =>
          simp only [hr, Except.ok.injEq] at h
          subst h
          obtain ⟨i1, i2⟩ := ih r hr
          refine ⟨by simp [i1], ?_⟩
          intro n hn
          rcases List.mem_cons.1 hn with rfl | hn
          · exact ⟨p, hp, rfl, rfl, rfl⟩
          · exact i2 n hn
      · simp [hk] at h

private theorem insertGNode_perm (n : GNode) (l : List GNode) : (insertGNode n l).Perm (n :: l) := by
  induction l with
  | nil => exact List.Perm.refl _
  | cons x t ih =>
    unfold insertGNode
    split
    · exact List.Perm.refl _
    · exact (List.Perm.cons x ih).trans (List.Perm.swap n x t)

private theorem sortGNodes_perm (l : List GNode) : (sortGNodes l).Perm l := by
  induction l with
  | nil => exact List.Perm.refl _
  | cons x t ih => exact (insertGNode_perm x _).trans (List.Perm.cons x ih)

/-- field by field: what the successful `asGroup` puts into the group -/
theorem c06_group_fields (H : Bytes → Bytes) (d : Details) (coeffs : List Bytes) (qual : List Nat) (tt : Int) (g : Group Bytes)
    (h : asGroup H d coeffs qual tt = .ok g) :
    g.id = d.beaconID ∧ g.threshold = d.threshold ∧ g.periodSec = d.periodSec ∧ schemeByID d.schemeID = some g.scheme ∧
    g.catchupSec = d.catchupSec ∧ g.genesisTime = d.genesisTime ∧ g.transitionTime = tt ∧ g.coeffs = coeffs ∧
    (g.nodes.map (·.index)).Perm qual := by
  unfold asGroup asGroupS at h
  cases hs : schemeByID d.schemeID with
  | none => simp [hs, Except.map] at h
  | some sch =>
    simp only [hs] at h
    cases hk : keyNodes (sortedByPublicKey (d.remaining ++ d.joining)) qual with
    | error e => simp [hk, Except.map] at h
    | ok nodes =>
      have hq := (keyNodes_spec _ _ _ hk).1
      simp only [hk] at h
      by_cases hseed : d.genesisSeed.length == 0
      · simp only [hseed, if_true, Except.map, Except.ok.injEq] at h
        subst h
        refine ⟨rfl, rfl, rfl, rfl, rfl, rfl, rfl, rfl, ?_⟩
        simp only [Group.eval]
        rw [← hq]
        exact (sortGNodes_perm nodes).map _
      · have hs' : (d.genesisSeed.length == 0) = false := by simpa using hseed
        simp only [hs', Bool.false_eq_true, if_false, Except.map, Except.ok.injEq] at h
        subst h
        refine ⟨rfl, rfl, rfl, rfl, rfl, rfl, rfl, rfl, ?_⟩
        simp only [Group.eval]
        rw [hq]

/-- the members: each node of the final group is the participant at its index in the list sorted by public key
(address, key and self-signature copied), and the indices are exactly QUAL -/
theorem c06_nodes_from_qual (H : Bytes → Bytes) (d : Details) (coeffs : List Bytes) (qual : List Nat) (tt : Int) (g : Group Bytes)
    (h : asGroup H d coeffs qual tt = .ok g) :
    ∀ n ∈ g.nodes, n.index ∈ qual ∧
      ∃ p, (sortedByPublicKey (d.remaining ++ d.joining))[n.index]? = some p ∧ n.addr = p.addr ∧ n.key = p.key ∧ n.sig = p.sig := by
  unfold asGroup asGroupS at h
  cases hs : schemeByID d.schemeID with
  | none => simp [hs, Except.map] at h
  | some sch =>
    simp only [hs] at h
    cases hk : keyNodes (sortedByPublicKey (d.remaining ++ d.joining)) qual with
    | error e => simp [hk, Except.map] at h
    | ok nodes =>
      obtain ⟨hq, hn⟩ := keyNodes_spec _ _ _ hk
      simp only [hk] at h
      have key : ∀ n ∈ nodes, n.index ∈ qual ∧ ∃ p, (sortedByPublicKey (d.remaining ++ d.joining))[n.index]? = some p ∧
          n.addr = p.addr ∧ n.key = p.key ∧ n.sig = p.sig := by
        intro n hmem
        refine ⟨?_, hn n hmem⟩
        rw [← hq]; exact List.mem_map.2 ⟨n, hmem, rfl⟩
      by_cases hseed : d.genesisSeed.length == 0
      · simp only [hseed, if_true, Except.map, Except.ok.injEq] at h
        subst h
        intro n hmem
        exact key n ((sortGNodes_perm nodes).mem_iff.1 hmem)
      · have hs' : (d.genesisSeed.length == 0) = false := by simpa using hseed
        simp only [hs', Bool.false_eq_true, if_false, Except.map, Except.ok.injEq] at h
        subst h
        intro n hmem
        exact key n hmem

/-- epoch 1 (no seed in the terms): the genesis seed is the hash of the first group itself — of its members
(index and key), threshold, genesis time, transition time, public coefficients and id (C17 preimage) -/
theorem c06_seed_epoch1 (H : Bytes → Bytes) (d : Details) (coeffs : List Bytes) (qual : List Nat) (tt : Int) (g : Group Bytes)
    (h : asGroup H d coeffs qual tt = .ok g) (hseed : d.genesisSeed = []) (hq : qual.Nodup) :
    g.genesisSeed = H (groupPreimage H (GroupParams.mk (g.nodes.map (fun n => NodeP.mk n.index n.key)) g.threshold
      g.genesisTime g.transitionTime (some g.coeffs) g.id)) := by
  unfold asGroup asGroupS at h
  cases hs : schemeByID d.schemeID with
  | none => simp [hs, Except.map] at h
  | some sch =>
    simp only [hs] at h
    cases hk : keyNodes (sortedByPublicKey (d.remaining ++ d.joining)) qual with
    | error e => simp [hk, Except.map] at h
    | ok nodes =>
      simp only [hk, hseed, List.length_nil, beq_self_eq_true, if_true, Except.map, Except.ok.injEq] at h
      subst h
      simp only [Group.eval, Seed.eval, hashParams]
      -- the hash is taken before the in-place sort became visible, over the same set of nodes
      have hperm : (nodes.map fun n => NodeP.mk n.index n.key).Perm ((sortGNodes nodes).map fun n => NodeP.mk n.index n.key) :=
        ((sortGNodes_perm nodes).map _).symm
      have hdist : DistinctIdx (nodes.map fun n => NodeP.mk n.index n.key) := by
        unfold DistinctIdx
        rw [List.map_map]
        have : ((fun (x : NodeP) => x.index) ∘ fun (n : GNode) => NodeP.mk n.index n.key) = fun n => n.index := rfl
        rw [this, (keyNodes_spec _ _ _ hk).1]
        exact hq
      have := c17_group_perm H (GroupParams.mk (nodes.map (fun n => NodeP.mk n.index n.key)) d.threshold d.genesisTime tt
        (some coeffs) d.beaconID) _ hperm hdist
      rw [this]

/-- later epochs: the seed is the one of the terms -/
theorem c06_seed_later (H : Bytes → Bytes) (d : Details) (coeffs : List Bytes) (qual : List Nat) (tt : Int) (g : Group Bytes)
    (h : asGroup H d coeffs qual tt = .ok g) (hseed : d.genesisSeed ≠ []) : g.genesisSeed = d.genesisSeed := by
  unfold asGroup asGroupS at h
  cases hs : schemeByID d.schemeID with
  | none => simp [hs, Except.map] at h
  | some sch =>
    simp only [hs] at h
    cases hk : keyNodes (sortedByPublicKey (d.remaining ++ d.joining)) qual with
    | error e => simp [hk, Except.map] at h
    | ok nodes =>
      have : (d.genesisSeed.length == 0) = false := by
        cases hl : d.genesisSeed with
        | nil => exact absurd hl hseed
        | cons a t => simp
      simp only [hk, this, Bool.false_eq_true, if_false, Except.map, Except.ok.injEq] at h
      subst h
      rfl

/-! ### (c) the transition time is taken from each node's own clock -/
open Drand.Time

/-- epoch 1: the transition time is the genesis time, whatever the clock says -/
theorem c06_transition_epoch1 (now : Int) (p : Nat) (g : Int) : transitionTime 1 now p g = g := by
  simp [transitionTime]

/-- two clock readings in the same beacon round give the same transition time -/
theorem c06_transition_same_round (e : Nat) (now₁ now₂ : Int) (p : Nat) (g : Int)
    (h : currentRoundM now₁ p g = currentRoundM now₂ p g) :
    transitionTime e now₁ p g = transitionTime e now₂ p g := by
  unfold transitionTime; rw [h]

/-- on the sane domain of C16 (period 1 s … 2^32 s, genesis in 0 … 2^32, clock at most 2^50 s after genesis, the
target round below the round limit) the machine computation is the exact one -/
theorem c06_transition_refines (e : Nat) (now : Int) (p : Nat) (g : Int)
    (hp1 : 1 ≤ p) (hp2 : p < 4294967296) (hg0 : 0 ≤ g) (hg : g ≤ 4294967296) (hnow : now - g ≤ 1125899906842624)
    (hlim : currentRoundZ now p g + Gen.roundsUntilTransition < roundLimit p)
    (hfit : timeOfRoundZ p g (currentRoundZ now p g + Gen.roundsUntilTransition) ≤ errorValue) :
    transitionTime e now p g = transitionTimeZ e now p g := by
  unfold transitionTime transitionTimeZ
  split
  · rfl
  · rw [c16_current_round_refines now p g hp1 hp2 hg0 hg hnow]
    have hsmall : currentRoundZ now p g + Gen.roundsUntilTransition < two64 := by
      have : roundLimit p ≤ two64 := by
        unfold roundLimit two64
        exact Nat.le_trans (Nat.shiftRight_le _ _) (by omega)
      omega
    dsimp only
    rw [Nat.mod_eq_of_lt hsmall]
    exact c16_time_of_round_exact p g _ hp2 hg0 hg hlim hfit

private theorem currentRoundZ_pos (now : Int) (p : Nat) (g : Int) : 1 ≤ currentRoundZ now p g := by
  unfold currentRoundZ nextRoundZ
  by_cases h : now < g
  · simp [h]
  · simp only [h, if_false]
    generalize (now - g).toNat / p = q
    split <;> omega

/-- **the converse**: for a reshare (epoch ≠ 1) two clock readings in different beacon rounds give different
transition times, hence different groups and different group hashes -/
theorem c06_transition_differs (e : Nat) (now₁ now₂ : Int) (p : Nat) (g : Int) (he : e ≠ 1) (hp : 1 ≤ p)
    (h : currentRoundZ now₁ p g ≠ currentRoundZ now₂ p g) :
    transitionTimeZ e now₁ p g ≠ transitionTimeZ e now₂ p g := by
  unfold transitionTimeZ
  have he' : (e == 1) = false := by simpa using he
  simp only [he', Bool.false_eq_true, if_false]
  have p1 := currentRoundZ_pos now₁ p g
  have p2 := currentRoundZ_pos now₂ p g
  rcases Nat.lt_or_gt_of_ne h with hlt | hgt
  · have := c16_strict_mono p g (currentRoundZ now₁ p g + Gen.roundsUntilTransition)
      (currentRoundZ now₂ p g + Gen.roundsUntilTransition) hp (by omega) (by omega)
    omega
  · have := c16_strict_mono p g (currentRoundZ now₂ p g + Gen.roundsUntilTransition)
      (currentRoundZ now₁ p g + Gen.roundsUntilTransition) hp (by omega) (by omega)
    omega

/-- the transition time is equal on two nodes **iff** it is the first epoch or they observe completion in the
same beacon round -/
theorem c06_transition_iff_same_round (e : Nat) (now₁ now₂ : Int) (p : Nat) (g : Int) (hp : 1 ≤ p) :
    transitionTimeZ e now₁ p g = transitionTimeZ e now₂ p g ↔ (e = 1 ∨ currentRoundZ now₁ p g = currentRoundZ now₂ p g) := by
  constructor
  · intro heq
    by_cases he : e = 1
    · exact Or.inl he
    · right
      exact Classical.byContradiction fun hne => c06_transition_differs e now₁ now₂ p g he hp hne heq
  · rintro (he | hr)
    · subst he; simp [transitionTimeZ]
    · unfold transitionTimeZ; rw [hr]

/-- **C06 as far as the code supports it** (`…_partial`): two nodes that complete the same epoch with the same
stored terms (participant lists in any order), the same QUAL and the same public coefficients (`PedersenSpec`) build
the same group — all ten fields — PROVIDED it is the first epoch or both read their clocks in the same beacon round. -/
theorem c06_one_group_partial (H : Bytes → Bytes) (d₁ d₂ : Details) (epoch : Nat) (now₁ now₂ : Int)
    (coeffs : List Bytes) (qual : List Nat)
    (hterms : d₂.beaconID = d₁.beaconID ∧ d₂.threshold = d₁.threshold ∧ d₂.periodSec = d₁.periodSec ∧ d₂.schemeID = d₁.schemeID ∧
      d₂.catchupSec = d₁.catchupSec ∧ d₂.genesisTime = d₁.genesisTime ∧ d₂.genesisSeed = d₁.genesisSeed)
    (hp : (d₁.remaining ++ d₁.joining).Perm (d₂.remaining ++ d₂.joining)) (hd : DistinctKeys (d₁.remaining ++ d₁.joining))
    (hclock : epoch = 1 ∨ currentRoundM now₁ d₁.periodSec d₁.genesisTime = currentRoundM now₂ d₁.periodSec d₁.genesisTime) :
    finishDKG H d₁ epoch now₁ coeffs qual = finishDKG H d₂ epoch now₂ coeffs qual := by
  unfold finishDKG
  apply c06_group_function H d₁ d₂ _ _ _ _ _ _ hterms hp hd rfl rfl
  obtain ⟨_, _, h3, _, _, h6, _⟩ := hterms
  rw [h3, h6]
  rcases hclock with he | hr
  · subst he; simp [transitionTime]
  · exact c06_transition_same_round _ _ _ _ _ hr

private def cxPart (k : UInt8) (a : String) : Participant := { addr := a, key := [k], sig := [k] }
private def cxDetails : Details :=
  { beaconID := [], threshold := 2, periodSec := 1, schemeID := "pedersen-bls-chained", catchupSec := 1, genesisTime := 1000,
    genesisSeed := [7], remaining := [cxPart 2 "b", cxPart 1 "a"], joining := [cxPart 3 "c"] }

/-- **the witness** (`…_counterexample`): same terms, same QUAL, same coefficients, clocks one second apart across a
round boundary (period 1 s): the two nodes build groups that differ in `transitionTime` (and in nothing else).
Replayed on the real code by the `dkgrun` engine (corpus/C06/straddle_round_boundary.json). -/
theorem c06_one_group_counterexample :
    ∃ g₁ g₂, finishDKG id cxDetails 2 1999 [[1], [2]] [0, 1, 2] = .ok g₁ ∧
             finishDKG id cxDetails 2 2000 [[1], [2]] [0, 1, 2] = .ok g₂ ∧
             g₁.transitionTime = 2009 ∧ g₂.transitionTime = 2010 ∧ g₁ ≠ g₂ ∧
             { g₂ with transitionTime := g₁.transitionTime } = g₁ := by
  refine ⟨_, _, rfl, rfl, ?_, ?_, ?_, ?_⟩ <;> decide

/-! ### non-vacuity -/

example : (sortedByPublicKey [cxPart 2 "b", cxPart 1 "a", cxPart 3 "c"]).map (·.addr) = ["a", "b", "c"] := by decide
example : DistinctKeys [cxPart 2 "b", cxPart 1 "a", cxPart 3 "c"] := by decide
example : keyLt [1, 2] [1, 2, 0] = true ∧ keyLt [1, 255] [2] = true ∧ keyLt [2] [1, 255] = false := by decide
example : newNodes cxDetails.remaining cxDetails.joining = some [⟨0, [1]⟩, ⟨1, [2]⟩, ⟨2, [3]⟩] := by decide
example : indexOfKey [cxPart 3 "c"] [cxPart 1 "a", cxPart 2 "b"] [2] = some 1 := by decide
example : ∃ g, asGroup id { cxDetails with genesisSeed := [] } [[1], [2]] [2, 0] 1000 = .ok g ∧ g.nodes.map (·.index) = [0, 2] :=
  ⟨_, rfl, by decide⟩
example : transitionTime 2 1999 1 1000 = 2009 ∧ transitionTime 2 2000 1 1000 = 2010 ∧ transitionTime 1 2000 1 1000 = 1000 := by decide
example : currentRoundZ 1999 1 1000 ≠ currentRoundZ 2000 1 1000 := by decide
example : currentRoundM 1790172586 2 1790172521 = currentRoundM 1790172585 2 1790172521 := by decide

example : sortedByPublicKey ([cxPart 2 "b", cxPart 1 "a"] ++ [cxPart 3 "c"]) = sortedByPublicKey ([cxPart 3 "c"] ++ [cxPart 2 "b", cxPart 1 "a"]) :=
  c06_order_independent _ _ List.perm_append_comm (by decide)
/-- the hypotheses of `c06_one_group_partial` are satisfiable with two different listings and two different clock readings -/
example : finishDKG id cxDetails 2 1998 [[1], [2]] [0, 1, 2] =
    finishDKG id { cxDetails with remaining := [cxPart 3 "c"], joining := [cxPart 2 "b", cxPart 1 "a"] } 2 1998 [[1], [2]] [0, 1, 2] :=
  c06_one_group_partial id _ _ 2 1998 1998 _ _ ⟨rfl, rfl, rfl, rfl, rfl, rfl, rfl⟩
    (List.perm_append_comm (l₁ := [cxPart 2 "b", cxPart 1 "a"]) (l₂ := [cxPart 3 "c"])) (by decide) (Or.inr rfl)
example : transitionTimeZ 2 1999 1 1000 ≠ transitionTimeZ 2 2000 1 1000 :=
  c06_transition_differs 2 1999 2000 1 1000 (by decide) (by decide) (by decide)
example : transitionTime 2 1999 1 1000 = transitionTimeZ 2 1999 1 1000 :=
  c06_transition_refines 2 1999 1 1000 (by decide) (by decide) (by decide) (by decide) (by decide) (by decide) (by decide)

end Drand.DKG
